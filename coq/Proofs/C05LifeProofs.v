(* C05LifeProofs.v — the hash hypotheses of the entry-point / world refinement, split PER LIFETIME of the LintGroup
   (Model/C05Life.v): a rebuilt LintGroup has empty caches and another RandomState, so the configuration hash and
   the token hash of a lifetime need to be injective only on what THAT lifetime hands to its caches. *)
Require Import Base Overlap Cache CacheProofs C05Entry C05EntryProofs C05Thread C05ThreadProofs C05Life.
From Coq Require Import List Arith NArith Bool Lia.
Import ListNotations.

(* ---------- one lifetime on an entry point: from ANY state whose caches are empty, or that starts with a rebuild ---------- *)
Section LifeEntry.
  Variables cfg kind dict : Type.
  Notation K := (text * N * N)%type.
  Notation toks := (list (tok kind)).
  Variable cfg_hash : cfg -> N.
  Variable tok_hash : toks -> N.
  Variable fill : cfg -> cfg.
  Variable pattern_rel : dict -> text -> toks -> cfg -> list clint.
  Variables struct_pre struct_post : dict -> cfg -> doc kind -> list clint.
  Variable spell_on : cfg -> bool.
  Variable suggest : dict -> text -> list text.
  Variable spell_mk : text -> span -> list text -> clint.
  Variable ctx : doc kind -> clint -> N.

  Notation run_ehist := (run_ehist cfg kind dict cfg_hash tok_hash fill pattern_rel struct_pre struct_post spell_on suggest spell_mk ctx).
  Notation espec_hist := (espec_hist cfg kind dict fill pattern_rel struct_pre struct_post spell_on suggest spell_mk ctx).
  Notation abs_after := (abs_after cfg kind dict ctx).
  Notation abs_of := (abs_of cfg dict).
  Notation ehist_triples := (ehist_triples cfg kind dict fill).
  Notation ehist_wf := (ehist_wf cfg kind dict).
  Notation eop := (eop cfg kind dict).

  Definition caches_empty (st : estate cfg dict) : Prop := st_cache (e_lg st) = [] /\ st_spell (e_lg st) = [].
  Definition starts_erebuild (h : list eop) : Prop := match h with ERebuild _ _ :: _ => True | _ => False end.

  Lemma einv_empty U (st : estate cfg dict) : caches_empty st -> einv cfg kind dict cfg_hash tok_hash pattern_rel suggest U st.
  Proof.
    destruct st as [dc [c m sm] ign]. unfold caches_empty, einv. cbn. intros [-> ->].
    exact (fresh_ok cfg kind K (code_key cfg_hash tok_hash) (pattern_rel dc) (suggest dc) U c).
  Qed.

  Lemma life_from_empty e (h : list eop) st :
    caches_empty st -> ehist_wf h ->
    hash_inj_on cfg kind cfg_hash (ehist_triples h (st_cfg (e_lg st))) ->
    tok_hash_inj_on cfg kind tok_hash (ehist_triples h (st_cfg (e_lg st))) ->
    exists st', run_ehist e h st = Ok (st', espec_hist e h (abs_of st)) /\ abs_of st' = abs_after h (abs_of st).
  Proof.
    intros He Hwf H1 H2.
    destruct (run_ehist_ok cfg kind dict cfg_hash tok_hash fill pattern_rel struct_pre struct_post spell_on suggest spell_mk ctx
                e (ehist_triples h (st_cfg (e_lg st))) h st) as (st' & outs & E & _ & Ha & Hs).
    { now apply einv_empty. } { exact Hwf. } { apply incl_refl. }
    exists st'. rewrite (Hs (ekey_det_of_inj cfg kind dict cfg_hash tok_hash pattern_rel _ H1 H2)) in E. split; [exact E|exact Ha].
  Qed.

  (* ONE LIFETIME: the state it starts from may hold the caches of an EARLIER lifetime (keyed by another hash
     function) provided the first operation is a rebuild; the ignore list and everything else is arbitrary *)
  Theorem lifetime_refinement e (h : list eop) st :
    caches_empty st \/ starts_erebuild h -> ehist_wf h ->
    hash_inj_on cfg kind cfg_hash (ehist_triples h (st_cfg (e_lg st))) ->
    tok_hash_inj_on cfg kind tok_hash (ehist_triples h (st_cfg (e_lg st))) ->
    exists st', run_ehist e h st = Ok (st', espec_hist e h (abs_of st)) /\ abs_of st' = abs_after h (abs_of st).
  Proof.
    intros [He|Hr] Hwf H1 H2; [now apply life_from_empty|].
    destruct h as [|o t]; [destruct Hr|]. destruct o as [c|d evs sevs|d l|hs| |dc c|keep skeep]; try destruct Hr.
    cbn [C05Entry.ehist_triples] in H1, H2. cbn [C05Entry.ehist_wf] in Hwf.
    destruct (life_from_empty e t (mkestate dc (fresh c) (e_ign st))) as (st' & E & Ha).
    { split; reflexivity. } { exact Hwf. } { exact H1. } { exact H2. }
    exists st'. cbn [C05Entry.run_ehist C05Entry.estep bind]. rewrite E. cbn [bind]. split; [reflexivity|exact Ha].
  Qed.

  Lemma espec_hist_app_gen e : forall (h1 h2 : list eop) a,
    espec_hist e (h1 ++ h2) a = espec_hist e h1 a ++ espec_hist e h2 (abs_after h1 a).
  Proof.
    induction h1 as [|o h1 IH]; intros h2 a; [reflexivity|].
    destruct o; cbn [app C05Entry.espec_hist]; unfold C05Entry.abs_after; cbn [fold_left C05Entry.astep];
      rewrite IH; reflexivity.
  Qed.
End LifeEntry.

(* ---------- the world over a sequence of lifetimes, each with the hash functions of its own seed ---------- *)
Section LifeWorld.
  Variables cfg kind dict : Type.
  Variables B DFA pat MD FD lang : Type.
  Notation K := (text * N * N)%type.
  Notation toks := (list (tok kind)).
  Variable cfg_hash : nat -> cfg -> N.
  Variable tok_hash : nat -> toks -> N.
  Variable fill : cfg -> cfg.
  Variable pattern_rel : dict -> text -> toks -> cfg -> list clint.
  Variables struct_pre struct_post : dict -> cfg -> doc kind -> list clint.
  Variable spell_on : cfg -> bool.
  Variable spell_mk : text -> span -> list text -> clint.
  Variable ctx : doc kind -> clint -> N.
  Variable builder_new : nat -> B.
  Variable build : B -> text -> DFA.
  Variable sdist : dict -> text -> nat.
  Variables snorm slower : text -> text.
  Variable sfinish : dict -> text -> DFA -> DFA -> list text.
  Variables contraction_init ellipsis_init latin_init article_init wordnum_init : unit -> pat.
  Variable mut_new : unit -> MD.
  Variable fst_from : MD -> FD.
  Variable mkdict : FD -> list text -> dict.
  Variable uses_collapse : lang -> bool.
  Variable doc_body : dict -> lang -> option pat -> pat -> pat -> pat -> pat -> text -> list toks * list (span * text) * N.

  Notation world := (world cfg dict B pat MD FD).
  Notation wop := (wop cfg kind dict lang).
  Notation eop := (eop cfg kind dict).
  Notation astate := (astate cfg dict).
  Notation seg := (seg cfg kind dict lang).
  Notation suggest_pure := (suggest_pure dict B DFA builder_new build sdist snorm slower sfinish).
  Notation espec_hist_pure := (espec_hist cfg kind dict fill pattern_rel struct_pre struct_post spell_on suggest_pure spell_mk ctx).
  Notation erase := (erase cfg kind dict pat MD FD lang contraction_init ellipsis_init latin_init article_init wordnum_init mut_new fst_from mkdict uses_collapse doc_body).
  Notation erase_seg := (erase_seg cfg kind dict pat MD FD lang contraction_init ellipsis_init latin_init article_init wordnum_init mut_new fst_from mkdict uses_collapse doc_body).
  Notation segs_erase := (segs_erase cfg kind dict pat MD FD lang ctx contraction_init ellipsis_init latin_init article_init wordnum_init mut_new fst_from mkdict uses_collapse doc_body).
  Notation wdocs_ok := (wdocs_ok cfg kind dict pat MD FD lang contraction_init ellipsis_init latin_init article_init wordnum_init mut_new fst_from mkdict uses_collapse doc_body).
  Notation wrun_segs := (wrun_segs cfg kind dict B DFA pat MD FD lang cfg_hash tok_hash fill pattern_rel struct_pre struct_post spell_on spell_mk ctx builder_new build sdist snorm slower sfinish contraction_init ellipsis_init latin_init article_init wordnum_init mut_new fst_from mkdict uses_collapse doc_body).
  Notation winv := (winv cfg dict B pat MD FD builder_new contraction_init ellipsis_init latin_init article_init wordnum_init mut_new fst_from).
  Notation abs_after := (abs_after cfg kind dict ctx).
  Notation abs_of := (abs_of cfg dict).
  Notation ehist_triples := (ehist_triples cfg kind dict fill).

  (* THE HYPOTHESES, per lifetime: segment i is served by the hashes of ITS seed, which must be injective on the
     triples of THAT segment only; every segment but the first starts with a rebuild; the documents can be built *)
  Fixpoint segs_hyp (segs : list seg) (first : bool) (a : astate) : Prop :=
    match segs with
    | [] => True
    | (s, h) :: t =>
        let eh := erase_seg h (a_dict a) in
        (first = true \/ starts_rebuild h = true) /\
        wdocs_ok (map snd h) (a_dict a) /\
        hash_inj_on cfg kind (cfg_hash s) (ehist_triples eh (a_cfg a)) /\
        tok_hash_inj_on cfg kind (tok_hash s) (ehist_triples eh (a_cfg a)) /\
        segs_hyp t false (abs_after eh a)
    end.

  Lemma starts_rebuild_erase (h : list (nat * wop)) dc :
    starts_rebuild h = true -> starts_erebuild cfg kind dict (erase_seg h dc).
  Proof.
    unfold C05Life.erase_seg. destruct h as [|[tid o] t]; cbn [starts_rebuild]; [discriminate|].
    destruct o as [o'|l src evs sevs b|uw c]; cbn [is_rebuild map snd C05Thread.erase]; try discriminate.
    - destruct o'; try discriminate. intros _. exact I.
    - intros _. exact I.
  Qed.

  Theorem world_lifetimes_refinement e : forall (segs : list seg) (w : world) (first : bool),
    winv w -> (first = true -> caches_empty cfg dict (w_e w)) ->
    segs_hyp segs first (abs_of (w_e w)) ->
    exists w', wrun_segs e segs w = Ok (w', espec_hist_pure e (segs_erase segs (abs_of (w_e w))) (abs_of (w_e w))) /\
               winv w' /\
               abs_of (w_e w') = abs_after (segs_erase segs (abs_of (w_e w))) (abs_of (w_e w)).
  Proof.
    induction segs as [|[s h] t IH]; intros w first Hw Hf Hh.
    - exists w. cbn. auto.
    - cbn [segs_hyp] in Hh. destruct Hh as (Hstart & Hd & H1 & H2 & Hrest).
      set (a := abs_of (w_e w)) in *.
      set (eh := erase_seg h (a_dict a)) in *.
      destruct (lifetime_refinement cfg kind dict (cfg_hash s) (tok_hash s) fill pattern_rel struct_pre struct_post spell_on
                  suggest_pure spell_mk ctx e eh (w_e w)) as (st' & Er & Ea).
      { destruct Hstart as [Hs|Hs]; [left; exact (Hf Hs)|right; now apply starts_rebuild_erase]. }
      { exact (erase_wf cfg kind dict pat MD FD lang contraction_init ellipsis_init latin_init article_init wordnum_init
                        mut_new fst_from mkdict uses_collapse doc_body (map snd h) (a_dict a) Hd). }
      { exact H1. } { exact H2. }
      destruct (wrun_sim cfg kind dict B DFA pat MD FD lang (cfg_hash s) (tok_hash s) fill pattern_rel struct_pre struct_post
                  spell_on spell_mk ctx builder_new build sdist snorm slower sfinish contraction_init ellipsis_init latin_init
                  article_init wordnum_init mut_new fst_from mkdict uses_collapse doc_body e h w st'
                  (espec_hist_pure e eh a) Hw Hd Er) as (w1 & Ew & Es & Hw1).
      destruct (IH w1 false Hw1) as (w2 & E2 & Hw2 & Ha2).
      { discriminate. }
      { rewrite Es, Ea. exact Hrest. }
      exists w2. cbn [C05Life.wrun_segs C05Life.segs_erase]. fold a. fold eh.
      unfold wrun_seed. rewrite Ew. cbn [bind]. rewrite E2. cbn [bind].
      rewrite Es, Ea in *. split; [|split].
      + rewrite espec_hist_app_gen. reflexivity.
      + exact Hw2.
      + rewrite Ha2. unfold C05Entry.abs_after. rewrite fold_left_app. reflexivity.
  Qed.

  (* the specification does not see the segmentation: it is that of the flattened history *)
  Lemma erase_app : forall (h1 h2 : list wop) (a : astate) (dc : dict), dc = a_dict a ->
    erase (h1 ++ h2) dc = erase h1 dc ++ erase h2 (a_dict (abs_after (erase h1 dc) a)).
  Proof.
    induction h1 as [|o h1 IH]; intros h2 a dc Hdc; [subst dc; reflexivity|].
    destruct o as [o'|l src evs sevs b|uw c]; cbn [app C05Thread.erase]; unfold C05Entry.abs_after; cbn [fold_left];
      (apply f_equal; apply IH); subst dc; destruct o' || idtac; reflexivity.
  Qed.

  Theorem segs_erase_flat : forall (segs : list seg) (a : astate),
    segs_erase segs a = erase (map snd (segs_flat cfg kind dict lang segs)) (a_dict a).
  Proof.
    induction segs as [|[s h] t IH]; intros a; [reflexivity|].
    cbn [C05Life.segs_erase]. unfold segs_flat. cbn [map snd concat]. rewrite map_app.
    rewrite (erase_app (map snd h) _ a (a_dict a) eq_refl). unfold C05Life.erase_seg. f_equal. rewrite IH. reflexivity.
  Qed.
End LifeWorld.

(* ---------- non-vacuity: the world history of C05ThreadProofs (ew_hist_b: five threads, a warm process) cut at its two
   rebuilds into three lifetimes with seeds 0, 1, 2.  Seed 0 hashes a configuration to itself; the seeds 1 and 2 hash
   EVERY configuration to 0 — injective on what their lifetimes see (one effective configuration each) but not on
   the whole history (lifetime 0 uses two), so the per-history hypothesis of C05_world_refinement is false for these
   hash functions while the per-lifetime hypotheses hold ---------- *)
Definition el_cfg_hash (s : nat) (c : N) : N := match s with 0 => c | _ => 0%N end.
Definition el_tok_hash (s : nat) (t : list (tok N)) : N := (ex_tok_hash t + N.of_nat s)%N.
Definition el_segs : list (seg N N N N) :=
  [(0, firstn 5 ew_hist_b); (1, firstn 4 (skipn 5 ew_hist_b)); (2, skipn 9 ew_hist_b)].
Definition el_run (e : entry) :=
  wrun_segs N N N nat (nat * text) N N N N el_cfg_hash el_tok_hash ee_fill ee_rel ee_pre ee_post (fun _ => true) ex_mk ee_ctx
       (fun d => d) (fun b q => (b, q)) (fun _ _ => 2) (fun w => w) (fun w => w) ew_sfinish
       (fun _ => 11%N) (fun _ => 12%N) (fun _ => 13%N) (fun _ => 14%N) (fun _ => 15%N) (fun _ => 7%N) (fun m => (m + 1)%N)
       ew_mkdict (fun l => N.eqb l 2) ew_doc_body e.
Definition el_hyp :=
  segs_hyp N N N N N N N el_cfg_hash el_tok_hash ee_fill ee_ctx
       (fun _ => 11%N) (fun _ => 12%N) (fun _ => 13%N) (fun _ => 14%N) (fun _ => 15%N) (fun _ => 7%N) (fun m => (m + 1)%N)
       ew_mkdict (fun l => N.eqb l 2) ew_doc_body.
Definition el_erase :=
  segs_erase N N N N N N N ee_ctx
       (fun _ => 11%N) (fun _ => 12%N) (fun _ => 13%N) (fun _ => 14%N) (fun _ => 15%N) (fun _ => 7%N) (fun m => (m + 1)%N)
       ew_mkdict (fun l => N.eqb l 2) ew_doc_body.
