(* NumberFinite.v — the meaning of Lexer.f64_finite (b5c1992: lex_number only accepts a parse whose f64 is
   finite).  dec2flt rounds the exact decimal value to the nearest f64, ties to even; the largest finite f64
   is (2^53-1)*2^971 with an odd significand, so the rounded value is finite exactly when the exact value is
   below the midpoint 2^1024 - 2^970.  f64_finite decides that comparison on the exact value without ever
   computing a power of ten larger than the operands require. *)
Require Import Base Tables_lexer Lexer.
From Coq Require Import Lia ZArith NArith.

Local Open Scope Z_scope.

Definition f64_bound_Z : Z := 2 ^ 1024 - 2 ^ 970.

(* the exact value  mant * 10^ex  is below the overflow midpoint (stated without fractions) *)
Definition below_overflow (mant : N) (ex : Z) : Prop :=
  (0 <= ex -> Z.of_N mant * 10 ^ ex < f64_bound_Z) /\
  (ex < 0 -> Z.of_N mant < f64_bound_Z * 10 ^ (- ex)).

Lemma bound_N_Z : Z.of_N f64_overflow_bound = f64_bound_Z.
Proof. vm_compute. reflexivity. Qed.

Lemma bound_pos : 0 < f64_bound_Z.
Proof. vm_compute. reflexivity. Qed.

Lemma bound_lt_10_309 : f64_bound_Z < 10 ^ 309.
Proof. vm_compute. reflexivity. Qed.

Lemma pow10_pos k : 0 <= k -> 1 <= 10 ^ k.
Proof. intros H. change 1 with (10 ^ 0). apply Z.pow_le_mono_r; lia. Qed.

Lemma pow2_le_pow10 k : 0 <= k -> 2 ^ k <= 10 ^ k.
Proof. intros H. apply Z.pow_le_mono_l. lia. Qed.

Theorem f64_finite_spec mant ex : f64_finite mant ex = true <-> below_overflow mant ex.
Proof.
  unfold f64_finite, below_overflow. destruct (N.eqb_spec mant 0) as [->|Hm].
  - split; [intros _|reflexivity]. split; intros H.
    + cbn [Z.of_N]. rewrite Z.mul_0_l. apply bound_pos.
    + cbn [Z.of_N]. pose proof (pow10_pos (- ex) ltac:(lia)). pose proof bound_pos. nia.
  - assert (1 <= Z.of_N mant) as M1 by lia.
    destruct ex as [|e|e].
    + rewrite N.ltb_lt. rewrite <- bound_N_Z. cbn [Z.pow]. split.
      * intros H. split; [intros _; lia|lia].
      * intros [H _]. specialize (H ltac:(lia)). lia.
    + destruct (N.leb_spec 309 (Npos e)) as [L|L].
      * split; [discriminate|]. intros [H _]. specialize (H ltac:(lia)). exfalso.
        assert (10 ^ 309 <= 10 ^ Zpos e) as P by (apply Z.pow_le_mono_r; lia).
        pose proof bound_lt_10_309. nia.
      * rewrite N.ltb_lt. rewrite <- bound_N_Z. split.
        -- intros H. split; [intros _|lia].
           apply N2Z.inj_lt in H. rewrite N2Z.inj_mul, N2Z.inj_pow in H. exact H.
        -- intros [H _]. specialize (H ltac:(lia)). apply N2Z.inj_lt.
           rewrite N2Z.inj_mul, N2Z.inj_pow. exact H.
    + assert (- Zneg e = Zpos e) as -> by reflexivity.
      pose proof (pow10_pos (Zpos e) ltac:(lia)) as P1. pose proof bound_pos as BP.
      destruct (N.ltb_spec mant f64_overflow_bound) as [L|L].
      * split; [intros _|reflexivity]. split; [lia|intros _].
        apply N2Z.inj_lt in L. rewrite bound_N_Z in L. nia.
      * destruct (N.leb_spec (N.size mant) (Npos e)) as [S|S].
        -- split; [intros _|reflexivity]. split; [lia|intros _].
           pose proof (N.size_gt mant) as G. apply N2Z.inj_lt in G. rewrite N2Z.inj_pow in G.
           assert (2 ^ Z.of_N (N.size mant) <= 2 ^ Zpos e) as P2 by (apply Z.pow_le_mono_r; lia).
           pose proof (pow2_le_pow10 (Zpos e) ltac:(lia)) as P3.
           change (Z.of_N 2) with 2 in G. nia.
        -- rewrite N.ltb_lt. rewrite <- bound_N_Z. split.
           ++ intros H. split; [lia|intros _].
              apply N2Z.inj_lt in H. rewrite N2Z.inj_mul, N2Z.inj_pow in H. exact H.
           ++ intros [_ H]. specialize (H ltac:(lia)). apply N2Z.inj_lt.
              rewrite N2Z.inj_mul, N2Z.inj_pow. exact H.
Qed.

(* non-vacuity on both sides of the boundary: 1e308 is finite, 1e999 and the midpoint itself are not,
   the largest integer below the midpoint is *)
Example f64_finite_examples :
  f64_finite 1 308 = true /\ f64_finite 1 999 = false /\ f64_finite 17976931348623157 292 = true /\
  f64_finite f64_overflow_bound 0 = false /\ f64_finite (f64_overflow_bound - 1) 0 = true /\
  f64_finite 1 (-99999999999999999999) = true /\ f64_finite (f64_overflow_bound * 1000) (-3) = false.
Proof. vm_compute. repeat split; reflexivity. Qed.
