(* C06SentenceProofs.v — the in-sentence version of the one-word characterisation.
   For a sentence of the class of Model/C06Sentence.v (word items = letter + letters/ASCII digits, blank runs, one-character
   punctuation from sep_punct; no two words / blank runs adjacent):
     plain_sent          PlainEnglish::parse yields exactly one token per item (every sub-lexer of lex_token is followed)
     passes_identity     EVERY pass of Document::parse is the identity on a tiling whose kinds are Word / Space /
                         separator punctuation without two adjacent Space tokens (through C02's Grouped theorems:
                         each rule that could merge needs a Space pair, a Newline, a Number, an apostrophe or a period)
     sent_document       document_plain u (sent_text its) = Ok (sent_tokens 0 its)
     sent_doc_words      doc_words u (sent_text its) = Ok (sent_words 0 its)
   and C06 on such sentences with NO premise about tokens (theorems sentence_xxx).  Unicode facts: letter_laws, digit_law. *)
Require Import Base Overlap Tables_lexer Lexer Condense ListLemmas TokenInv CondenseInv LexerProofs
  CondPatterns3 CondPattern CondSpaces CondInitialisms CondSuffixQuotes.
Require Import Tables_spellnorm SpellDecision SpellDecisionProofs C06Words C06WordsProofs C06AlnumProofs C06TextProofs
  C06Sentence.
From Coq Require Import Lia.

Definition sep_char (c : N) : bool := ceq c 32 || sep_punct c.
Definition sep_or_end (rest : text) : Prop := match rest with [] => True | c :: _ => sep_char c = true end.

Lemma sword_body u w : sword_ok u w = word_body u w.
Proof. destruct w; reflexivity. Qed.

Lemma sep_punct_inv c : sep_punct c = true ->
  exists p, punct_from_char c = Some p /\ sep_kind p = true /\ ceq c 46 = false /\ ceq c 58 = false /\
            ceq c 64 = false /\ ceq c 91 = false /\ mem_n c quote_chars = false.
Proof.
  unfold sep_punct. destruct (punct_from_char c) as [p|]; [|discriminate]. intros H.
  repeat (apply andb_true_iff in H as [H ?]).
  repeat match goal with X : negb _ = true |- _ => apply negb_true_iff in X end.
  exists p. repeat split; assumption.
Qed.

Lemma digit_no_punct c : is_ascii_digit c = true -> punct_from_char c = None.
Proof.
  intros H. apply digit_range in H.
  assert (c = 48 \/ c = 49 \/ c = 50 \/ c = 51 \/ c = 52 \/ c = 53 \/ c = 54 \/ c = 55 \/ c = 56 \/ c = 57)%N as E by lia.
  repeat (destruct E as [->|E]; [reflexivity|]). subst c. reflexivity.
Qed.

Lemma sep_punct_consts :
  sep_punct 32 = false /\ sep_punct 115 = false /\ sep_punct 39 = false.
Proof. repeat split; vm_compute; reflexivity. Qed.

Lemma ceq_true a b : ceq a b = true -> a = b.
Proof. unfold ceq. apply N.eqb_eq. Qed.

Lemma ceq_false_of (P : N -> bool) a b : P b = false -> P a = true -> ceq a b = false.
Proof.
  intros Hb Ha. unfold ceq. destruct (N.eqb_spec a b) as [->|]; [congruence|reflexivity].
Qed.

Section SentenceLexer.
  Variable u : uni.
  Hypothesis laws : letter_laws u.
  Hypothesis dlaw : digit_law u.

  Lemma ling_not_32 c : u_lingual u c = true -> c <> 32%N.
  Proof. destruct laws as (_ & _ & _ & _ & Lw & _). intros H. destruct (Lw c H) as (_ & _ & A). exact A. Qed.

  Lemma sep_punct_not_wordc c : sep_punct c = true -> wordc u c = false.
  Proof.
    intros H. destruct (sep_punct_inv c H) as (p & P & _). unfold wordc.
    destruct laws as (_ & _ & Lp & _).
    destruct (u_lingual u c) eqn:L; [rewrite (Lp c L) in P; discriminate|].
    destruct (is_ascii_digit c) eqn:Dg; [rewrite (digit_no_punct c Dg) in P; discriminate|]. reflexivity.
  Qed.

  Lemma sep_char_facts c : sep_char c = true -> wordc u c = false /\ ceq c 39 = false /\ ceq c 115 = false.
  Proof.
    unfold sep_char. intros H. apply orb_prop in H as [H|H].
    - apply ceq_true in H. subst c. split; [|split; reflexivity]. unfold wordc.
      destruct (u_lingual u 32) eqn:L; [exfalso; exact (ling_not_32 32 L eq_refl)|]. reflexivity.
    - destruct sep_punct_consts as (_ & S115 & S39). split; [apply sep_punct_not_wordc; exact H|].
      split; [exact (ceq_false_of sep_punct c 39 S39 H)|exact (ceq_false_of sep_punct c 115 S115 H)].
  Qed.

  Lemma lex_word_sep a rest : word_body u a = true -> sep_or_end rest ->
    lex_word u (a ++ rest) = Some (length a, KWord).
  Proof.
    intros Ha Ht. unfold lex_word. change (fun c => u_lingual u c || is_ascii_digit c) with (wordc u).
    pose proof (body_wordc u a Ha) as Hw.
    assert (E : count_while (wordc u) (a ++ rest) = length a).
    { destruct rest as [|d r]; [rewrite app_nil_r; apply count_while_all; exact Hw|].
      apply count_while_app_stop; [exact Hw|]. apply (sep_char_facts d Ht). }
    rewrite E. destruct a; [discriminate|]. reflexivity.
  Qed.

  Lemma plural_digit_sep a rest : word_body u a = true -> sep_or_end rest ->
    lex_plural_digit u (a ++ rest) = None \/ lex_plural_digit u (a ++ rest) = Some (length a, KWord).
  Proof.
    intros Ha Ht. destruct (body_inv u a Ha) as (c0 & a' & -> & H0 & Ha'). cbn [app]. unfold lex_plural_digit.
    destruct (negb (is_ascii_alphanumeric c0)); [left; reflexivity|].
    destruct a' as [|c1 a''].
    - cbn [app]. destruct rest as [|d r]; [left; reflexivity|].
      destruct (sep_char_facts d Ht) as (_ & E39 & E115). rewrite E39, E115. left; reflexivity.
    - cbn [app forallb] in *. apply andb_true_iff in Ha' as [H1 Ha''].
      rewrite (wordc_not_39 u laws c1 H1).
      destruct (ceq c1 115); [|left; reflexivity].
      destruct a'' as [|d a3].
      + cbn [app]. destruct rest as [|d r]; [right; reflexivity|].
        destruct (negb (u_alphanumeric u d)); [right; reflexivity|left; reflexivity].
      + cbn [app forallb] in *. apply andb_true_iff in Ha'' as [Hd _]. rewrite (wordc_alnum u laws dlaw d Hd).
        left; reflexivity.
  Qed.

  Lemma lex_token_word a rest : word_body u a = true -> sep_or_end rest -> forallb safe (a ++ rest) = true ->
    lex_token u (a ++ rest) = Some (length a, KWord).
  Proof.
    intros Ha Ht Hs.
    assert (D : lex_token u (a ++ rest) =
                or_else (lex_plural_digit u (a ++ rest)) (or_else (lex_word u (a ++ rest)) (lex_catch (a ++ rest)))).
    { destruct (body_inv u a Ha) as (c0 & a' & E & H0 & _). rewrite E in *. cbn [app] in *.
      apply (letter_start_dispatch u laws); assumption. }
    rewrite D, (lex_word_sep a rest Ha Ht).
    destruct (plural_digit_sep a rest Ha Ht) as [E|E]; rewrite E; reflexivity.
  Qed.

  Lemma lex_token_punct c r : sep_punct c = true -> lex_token u (c :: r) = Some (1, item_kind (SPunct c)).
  Proof.
    intros H. destruct (sep_punct_inv c H) as (p & P & _ & _ & _ & _ & E91 & Q).
    unfold lex_token, lex_regexish. rewrite E91. cbn [or_else]. unfold lex_punctuation, lex_quote. rewrite Q, P.
    cbn [or_else item_kind]. rewrite P. reflexivity.
  Qed.

  Lemma count_spaces n rest : match rest with [] => True | c :: _ => c <> 32%N end ->
    count_while (ceq 32) (repeat 32%N n ++ rest) = n.
  Proof.
    intros H. induction n as [|n IH]; cbn [repeat app count_while].
    - destruct rest as [|c r]; [reflexivity|]. cbn [count_while]. unfold ceq.
      destruct (N.eqb_spec 32 c) as [E|_]; [exfalso; apply H; symmetry; exact E|reflexivity].
    - change (ceq 32 32) with true. cbn iota. rewrite IH. reflexivity.
  Qed.

  Lemma lex_token_spaces n rest : 0 < n -> match rest with [] => True | c :: _ => c <> 32%N end ->
    lex_token u (repeat 32%N n ++ rest) = Some (n, KSpace n).
  Proof.
    intros Hn Hr. pose proof (count_spaces n rest Hr) as C. destruct n as [|n]; [lia|].
    cbn [repeat app] in *.
    assert (R : lex_regexish u (32%N :: repeat 32%N n ++ rest) = None) by reflexivity.
    assert (P : lex_punctuation (32%N :: repeat 32%N n ++ rest) = None) by reflexivity.
    assert (T : lex_tabs (32%N :: repeat 32%N n ++ rest) = None) by reflexivity.
    assert (S : lex_spaces (32%N :: repeat 32%N n ++ rest) = Some (S n, KSpace (S n))).
    { unfold lex_spaces. rewrite C. reflexivity. }
    unfold lex_token. rewrite R, P, T, S. reflexivity.
  Qed.

  (* ---------- items ---------- *)
  Lemma item_nonempty it : item_ok u it = true -> exists c t, item_text it = c :: t.
  Proof.
    destruct it as [w|n|c]; cbn [item_ok item_text]; intros H.
    - destruct w as [|c t]; [discriminate|]. eauto.
    - destruct n as [|n]; [discriminate|]. cbn [repeat]. eauto.
    - eauto.
  Qed.

  Lemma safe_32 n : forallb safe (repeat 32%N n) = true.
  Proof. induction n as [|n IH]; [reflexivity|]. cbn [repeat forallb]. rewrite IH. reflexivity. Qed.

  Lemma sep_punct_safe c : sep_punct c = true -> safe c = true.
  Proof.
    intros H. destruct (sep_punct_inv c H) as (p & _ & _ & E46 & E58 & E64 & _).
    unfold safe, mem_n, ceq in *. cbn [existsb]. rewrite (N.eqb_sym 58 c), (N.eqb_sym 64 c), E46, E58, E64. reflexivity.
  Qed.

  Lemma item_safe it : item_ok u it = true -> forallb safe (item_text it) = true.
  Proof.
    destruct it as [w|n|c]; cbn [item_ok item_text]; intros H.
    - rewrite sword_body in H. apply (body_safe u laws). exact H.
    - apply safe_32.
    - cbn [forallb]. rewrite (sep_punct_safe c H). reflexivity.
  Qed.

  Lemma sent_safe its : sent_ok u its = true -> forallb safe (sent_text its) = true.
  Proof.
    induction its as [|it r IH]; [reflexivity|]. cbn [sent_ok sent_text flat_map]. intros H.
    apply andb_true_iff in H as [H Hr]. apply andb_true_iff in H as [Hi _].
    rewrite forallb_app.
    apply andb_true_iff. split; [exact (item_safe it Hi)|exact (IH Hr)].
  Qed.

  (* what follows a word item is a separator (or nothing); what follows a blank run is not a blank *)
  Lemma after_word w r : sent_ok u (SWord w :: r) = true -> sep_or_end (sent_text r).
  Proof.
    cbn [sent_ok]. intros H. apply andb_true_iff in H as [H Hr]. apply andb_true_iff in H as [_ Ha].
    destruct r as [|it r']; [exact I|]. cbn [sent_ok] in Hr. apply andb_true_iff in Hr as [Hr _].
    apply andb_true_iff in Hr as [Hi _]. cbn [sent_text flat_map].
    destruct it as [w'|n|c]; cbn [adjacent_ok item_ok item_text] in *; [discriminate| |].
    - destruct n; [discriminate|]. reflexivity.
    - cbn [app sep_or_end]. unfold sep_char. rewrite Hi. apply orb_true_r.
  Qed.

  Lemma after_space n r : sent_ok u (SSpace n :: r) = true ->
    match sent_text r with [] => True | c :: _ => c <> 32%N end.
  Proof.
    cbn [sent_ok]. intros H. apply andb_true_iff in H as [H Hr]. apply andb_true_iff in H as [_ Ha].
    destruct r as [|it r']; [exact I|]. cbn [sent_ok] in Hr. apply andb_true_iff in Hr as [Hr _].
    apply andb_true_iff in Hr as [Hi _]. cbn [sent_text flat_map].
    destruct it as [w'|n'|c]; cbn [adjacent_ok item_ok item_text] in *; [|discriminate|].
    - destruct w' as [|c0 t]; [discriminate|]. cbn [sword_ok] in Hi. apply andb_true_iff in Hi as [H0 _].
      cbn [app]. apply ling_not_32. exact H0.
    - cbn [app]. intros ->. destruct sep_punct_consts as (S32 & _). rewrite S32 in Hi. discriminate.
  Qed.

  Lemma lex_item it r : sent_ok u (it :: r) = true ->
    lex_token u (item_text it ++ sent_text r) = Some (length (item_text it), item_kind it).
  Proof.
    intros H. pose proof (sent_safe _ H) as Hs. cbn [sent_text flat_map] in Hs. fold (sent_text r) in Hs.
    pose proof H as H'. cbn [sent_ok] in H'. apply andb_true_iff in H' as [H' _]. apply andb_true_iff in H' as [Hi _].
    destruct it as [w|n|c]; cbn [item_text item_kind item_ok] in *.
    - rewrite sword_body in Hi. apply lex_token_word; [exact Hi|exact (after_word w r H)|exact Hs].
    - rewrite repeat_length. apply lex_token_spaces; [apply Nat.ltb_lt; exact Hi|exact (after_space n r H)].
    - cbn [app length]. apply (lex_token_punct c _ Hi).
  Qed.

  (* ---------- PlainEnglish::parse on a sentence: one token per item ---------- *)
  Lemma plain_step_app a rest f pos k : a <> [] -> lex_token u (a ++ rest) = Some (length a, k) ->
    plain_loop u (S f) pos (a ++ rest) =
      (do tl <- plain_loop u f (pos + length a) rest; Ok (mktok (mkspan pos (pos + length a)) k :: tl)).
  Proof.
    intros Hne E. destruct a as [|c t]; [contradiction|]. cbn [app] in E |- *.
    rewrite (plain_step u f pos c (t ++ rest) _ _ E).
    change (c :: t ++ rest) with ((c :: t) ++ rest). rewrite skipn_app_exact. reflexivity.
  Qed.

  Lemma plain_sent : forall its fuel pos, sent_ok u its = true -> length (sent_text its) <= fuel ->
    plain_loop u fuel pos (sent_text its) = Ok (sent_tokens pos its).
  Proof.
    induction its as [|it r IH]; intros fuel pos H Hf.
    - cbn [sent_text flat_map sent_tokens]. apply plain_loop_nil.
    - pose proof (lex_item it r H) as E.
      pose proof H as H'. cbn [sent_ok] in H'. apply andb_true_iff in H' as [H' Hr]. apply andb_true_iff in H' as [Hi _].
      destruct (item_nonempty it Hi) as (c & t & Et).
      assert (Hne : item_text it <> []) by (rewrite Et; discriminate).
      assert (Hl : length (sent_text (it :: r)) = length (item_text it) + length (sent_text r))
        by (cbn [sent_text flat_map]; apply app_length).
      assert (L1 : 1 <= length (item_text it)) by (rewrite Et; cbn [length]; lia).
      destruct fuel as [|f]; [lia|].
      change (sent_text (it :: r)) with (item_text it ++ sent_text r).
      rewrite (plain_step_app (item_text it) (sent_text r) f pos _ Hne E).
      rewrite (IH f (pos + length (item_text it)) Hr) by lia.
      reflexivity.
  Qed.

  Lemma plain_parse_sent its : sent_ok u its = true -> plain_parse u (sent_text its) = Ok (sent_tokens 0 its).
  Proof. intros H. unfold plain_parse. apply plain_sent; [exact H|lia]. Qed.
End SentenceLexer.

(* ================= the passes of Document::parse are the identity on such token vectors ================= *)
Definition simple_kind (k : tkind) : bool :=
  match k with KWord | KSpace _ => true | KPunct p => sep_kind p | _ => false end.
Definition is_space_kind (k : tkind) : bool := match k with KSpace _ => true | _ => false end.
Definition simple_toks (ts : list token) : Prop := Forall (fun t => simple_kind (tkind_of t) = true) ts.
Fixpoint no_adj_spaces (ts : list token) : Prop :=
  match ts with
  | t1 :: r => match r with
               | t2 :: _ => ~ (is_space_kind (tkind_of t1) = true /\ is_space_kind (tkind_of t2) = true)
               | [] => True
               end /\ no_adj_spaces r
  | [] => True
  end.

Lemma no_adj_at pre t1 t2 rest : no_adj_spaces (pre ++ t1 :: t2 :: rest) ->
  ~ (is_space_kind (tkind_of t1) = true /\ is_space_kind (tkind_of t2) = true).
Proof.
  induction pre as [|p pre IH]; cbn [app no_adj_spaces]; intros [H1 H2]; [exact H1|exact (IH H2)].
Qed.

(* a grouping in which every admissible group is a single token changes nothing *)
Lemma grouped_id G : forall ts ts', Grouped G ts ts' -> forall pre0,
  (forall pre g rest k, pre0 ++ ts = pre ++ g ++ rest -> g <> [] -> G g k -> Gsingle g k) -> ts' = ts.
Proof.
  intros ts ts' H. induction H as [|g k rest rest' Hne Hg Hrest IH]; intros pre0 Hall; [reflexivity|].
  destruct (Hall pre0 g rest k eq_refl Hne Hg) as (t & -> & ->).
  rewrite group_token_single. cbn [app]. f_equal. apply (IH (pre0 ++ [t])).
  intros pre g rest1 k1 E. apply (Hall pre g rest1 k1). rewrite <- E, <- app_assoc. reflexivity.
Qed.

Lemma simple_in ts pre g rest t : simple_toks ts -> ts = pre ++ g ++ rest -> In t g -> simple_kind (tkind_of t) = true.
Proof.
  intros F -> Hin. unfold simple_toks in F. rewrite Forall_forall in F. apply F.
  apply in_or_app. right. apply in_or_app. left. exact Hin.
Qed.

Lemma period_not_simple k : is_period k = true -> simple_kind k = false.
Proof. destruct k as [|p| | | | | | | | | |]; try discriminate. destruct p; try discriminate. reflexivity. Qed.
Lemma apostrophe_not_simple k : is_apostrophe k = true -> simple_kind k = false.
Proof. destruct k as [|p| | | | | | | | | |]; try discriminate. destruct p; try discriminate. reflexivity. Qed.

Lemma breaks_id ts : simple_toks ts -> newlines_to_breaks ts = ts.
Proof.
  unfold newlines_to_breaks. induction 1 as [|t r Ht _ IH]; [reflexivity|]. cbn [map]. rewrite IH. f_equal.
  unfold newline_to_break. destruct (tkind_of t); try reflexivity. discriminate.
Qed.

Lemma quote_indices_none : forall ts i, simple_toks ts -> quote_indices ts i = [].
Proof.
  induction ts as [|t r IH]; intros i F; [reflexivity|]. inversion F as [|? ? Ht Fr]; subst. cbn [quote_indices].
  rewrite (IH (S i) Fr). destruct (tkind_of t) as [|p| | | | | | | | | |]; try reflexivity.
  destruct p; try reflexivity. discriminate.
Qed.

Theorem passes_identity src ts : Tiling 0 (length src) ts -> simple_toks ts -> no_adj_spaces ts ->
  document_passes src ts = Ok ts.
Proof.
  intros T F NA. unfold document_passes.
  (* condense_spaces *)
  destruct (condense_spaces_grouped _ _ ts T) as (t1 & E1 & G1).
  assert (t1 = ts) as ->.
  { apply (grouped_id _ _ _ G1 []). cbn [app]. intros pre g rest k E Hne [S|(a & b & n1 & n2 & -> & Ka & Kb & _)]; [exact S|].
    exfalso. rewrite E in NA. cbn [app] in NA. apply (no_adj_at pre a b rest NA). rewrite Ka, Kb. split; reflexivity. }
  rewrite E1. cbn [bind].
  (* condense_newlines *)
  destruct (condense_newlines_grouped _ _ ts T) as (t2 & E2 & G2).
  assert (t2 = ts) as ->.
  { apply (grouped_id _ _ _ G2 []). cbn [app]. intros pre g rest k E Hne [S|(ns & L & M & _)]; [exact S|].
    exfalso. destruct g as [|t g']; [contradiction|]. destruct ns as [|n ns']; [discriminate|].
    cbn [map] in M. injection M as M _. pose proof (simple_in ts pre (t :: g') rest t F E (or_introl eq_refl)) as K.
    rewrite M in K. discriminate. }
  rewrite E2. cbn [bind]. rewrite (breaks_id ts F).
  (* condense_number_suffixes *)
  destruct (condense_number_suffixes_grouped src ts T) as (t4 & E4 & G4).
  assert (t4 = ts) as ->.
  { apply (grouped_id _ _ _ G4 []). cbn [app]. intros pre g rest k E Hne [S|(a & b & nb & cs & sfx & -> & Ka & _)]; [exact S|].
    exfalso. pose proof (simple_in ts pre [a; b] rest a F E (or_introl eq_refl)) as K. rewrite Ka in K. discriminate. }
  rewrite E4. cbn [bind].
  (* condense_contractions *)
  destruct (contraction_ok src ts) as [Ok5 Mo5].
  destruct (condense_pattern_grouped_in (contraction_matches src) (fun k => k) _ _ ts T Ok5 Mo5) as (t5 & E5 & G5).
  assert (t5 = ts) as ->.
  { apply (grouped_id _ _ _ G5 []). cbn [app]. intros pre g rest k E Hne [S|(pre' & rest' & _ & M & _)]; [exact S|].
    exfalso. destruct (contraction_match_inv src g rest' Hne M) as (a & b & c & -> & _ & Ab & _).
    pose proof (simple_in ts pre [a; b; c] rest b F E (or_intror (or_introl eq_refl))) as K.
    rewrite (apostrophe_not_simple _ Ab) in K. discriminate. }
  unfold condense_contractions. rewrite E5. cbn [bind].
  (* condense_dotted_initialisms *)
  destruct (condense_dotted_initialisms_grouped _ _ ts T) as (t6 & E6 & G6).
  assert (t6 = ts) as ->.
  { apply (grouped_id _ _ _ G6 []). cbn [app]. intros pre g rest k E Hne [S|(IP & _)]; [exact S|].
    exfalso. assert (exists w p r, g = w :: p :: r /\ is_period (tkind_of p) = true) as (w & p & r & -> & Pp).
    { inversion IP; subst; eauto. }
    pose proof (simple_in ts pre (w :: p :: r) rest p F E (or_intror (or_introl eq_refl))) as K.
    rewrite (period_not_simple _ Pp) in K. discriminate. }
  rewrite E6. cbn [bind].
  (* condense_ellipsis *)
  destruct (ellipsis_ok src ts) as [Ok7 Mo7].
  destruct (condense_pattern_grouped (ellipsis_matches src) (fun _ => KPunct PEllipsis) _ _ ts T Ok7 Mo7) as (t7 & E7 & G7).
  assert (t7 = ts) as ->.
  { apply (grouped_id _ _ _ G7 []). cbn [app]. intros pre g rest k E Hne [S|(rest' & M & _)]; [exact S|].
    exfalso. destruct (ellipsis_match_inv src g rest' Hne M) as [_ FP]. destruct g as [|t g']; [contradiction|].
    pose proof (Forall_inv FP) as Pt. cbn beta in Pt.
    pose proof (simple_in ts pre (t :: g') rest t F E (or_introl eq_refl)) as K.
    rewrite (period_not_simple _ Pt) in K. discriminate. }
  unfold condense_ellipsis. rewrite E7. cbn [bind].
  (* condense_latin *)
  destruct (latin_ok src ts T) as [Ok8 Mo8].
  destruct (condense_pattern_grouped_in (latin_matches src) (fun k => k) _ _ ts T Ok8 Mo8) as (t8 & E8 & G8).
  assert (t8 = ts) as ->.
  { apply (grouped_id _ _ _ G8 []). cbn [app]. intros pre g rest k E Hne [S|(pre' & rest' & E' & M & _)]; [exact S|].
    exfalso. pose proof (tiling_tok_ok src ts T) as OKts. rewrite E' in OKts. apply Forall_app in OKts as [_ OK].
    assert (exists p, In p g /\ is_period (tkind_of p) = true) as (p & Hin & Pp).
    { destruct (latin_match_inv src g rest' Hne OK M)
        as [(w & p & -> & _ & Pp & _)|(w1 & ws & w2 & p & -> & _ & _ & _ & _ & Pp & _)].
      - exists p. split; [right; left; reflexivity|exact Pp].
      - exists p. split; [|exact Pp]. right. apply in_or_app. right. right. left. reflexivity. }
    pose proof (simple_in ts pre g rest p F E Hin) as K. rewrite (period_not_simple _ Pp) in K. discriminate. }
  unfold condense_latin. rewrite E8. cbn [bind].
  (* match_quotes, the dictionary loop *)
  unfold match_quotes. rewrite (quote_indices_none ts 0 F). cbn [mq_loop bind].
  rewrite (word_lookup_ok src ts T). reflexivity.
Qed.

(* ================= the sentence theorems ================= *)
Lemma item_kind_simple u it : item_ok u it = true -> simple_kind (item_kind it) = true.
Proof.
  destruct it as [w|n|c]; cbn [item_ok item_kind]; intros H; try reflexivity.
  destruct (sep_punct_inv c H) as (p & P & K & _). rewrite P. exact K.
Qed.

Lemma sent_tokens_simple u : forall its pos, sent_ok u its = true -> simple_toks (sent_tokens pos its).
Proof.
  induction its as [|it r IH]; intros pos H; [constructor|]. cbn [sent_ok] in H.
  apply andb_true_iff in H as [H Hr]. apply andb_true_iff in H as [Hi _]. cbn [sent_tokens].
  constructor; [exact (item_kind_simple u it Hi)|exact (IH _ Hr)].
Qed.

Lemma sent_tokens_no_adj u : forall its pos, sent_ok u its = true -> no_adj_spaces (sent_tokens pos its).
Proof.
  induction its as [|it r IH]; intros pos H; [exact I|]. pose proof H as H'. cbn [sent_ok] in H'.
  apply andb_true_iff in H' as [H' Hr]. apply andb_true_iff in H' as [_ Ha]. cbn [sent_tokens no_adj_spaces].
  split; [|exact (IH _ Hr)]. destruct r as [|it' r']; [exact I|]. cbn [sent_tokens tkind_of].
  intros [A B]. destruct it as [w|n|c]; cbn [item_kind is_space_kind] in A; try discriminate.
  - destruct it' as [w'|n'|c']; cbn [adjacent_ok item_kind is_space_kind] in *; try discriminate.
    destruct (punct_from_char c'); discriminate.
  - destruct (punct_from_char c); discriminate.
Qed.

Lemma sent_word_spans : forall its pos, word_spans (sent_tokens pos its) = sent_words pos its.
Proof.
  induction its as [|it r IH]; intros pos; [reflexivity|]. unfold word_spans in *. cbn [sent_tokens sent_words filter tkind_of].
  destruct it as [w|n|c]; cbn [item_kind is_word map tspan]; try (rewrite IH; reflexivity).
  destruct (punct_from_char c); cbn [is_word]; apply IH.
Qed.

Lemma sent_tokens_length : forall its pos, length (sent_tokens pos its) = length its.
Proof. induction its as [|it r IH]; intros pos; [reflexivity|]. cbn [sent_tokens length]. rewrite IH. reflexivity. Qed.

Section Sentence.
  Variable u : uni.
  Hypothesis laws : letter_laws u.
  Hypothesis dlaw : digit_law u.

  Theorem sent_document its : sent_ok u its = true -> document_plain u (sent_text its) = Ok (sent_tokens 0 its).
  Proof.
    intros H. unfold document_plain. pose proof (plain_parse_sent u laws dlaw its H) as E.
    destruct (plain_tiling u (sent_text its)) as (ts & E' & T). rewrite E in E'. injection E' as <-.
    rewrite E. cbn [bind].
    apply passes_identity; [exact T|exact (sent_tokens_simple u its 0 H)|exact (sent_tokens_no_adj u its 0 H)].
  Qed.

  Theorem sent_doc_words its : sent_ok u its = true -> doc_words u (sent_text its) = Ok (sent_words 0 its).
  Proof. intros H. unfold doc_words. rewrite (sent_document its H). cbn [bind]. rewrite sent_word_spans. reflexivity. Qed.

  (* two or more items: never one Word token (the general form of F24 for entries with a hyphen or a blank) *)
  Theorem sent_not_one_word its : sent_ok u its = true -> 2 <= length its -> one_word u (sent_text its) = false.
  Proof.
    intros H L. unfold one_word. rewrite (sent_document its H).
    pose proof (sent_tokens_length its 0) as Ln. destruct (sent_tokens 0 its) as [|t [|t' r]]; try reflexivity.
    cbn [length] in Ln. lia.
  Qed.
End Sentence.

(* ---------- where a word item stands ---------- *)
Lemma sent_text_app a b : sent_text (a ++ b) = sent_text a ++ sent_text b.
Proof. unfold sent_text. apply flat_map_app. Qed.

Lemma sent_text_mid pre w post : sent_text (pre ++ SWord w :: post) = sent_text pre ++ w ++ sent_text post.
Proof. rewrite sent_text_app. reflexivity. Qed.

Definition word_at (pre : list sitem) (w : text) : span :=
  mkspan (length (sent_text pre)) (length (sent_text pre) + length w).

Lemma sent_words_in : forall pre w post pos,
  In (mkspan (pos + length (sent_text pre)) (pos + length (sent_text pre) + length w))
     (sent_words pos (pre ++ SWord w :: post)).
Proof.
  induction pre as [|it pre IH]; intros w post pos.
  - cbn [app sent_words sent_text flat_map length item_text]. rewrite Nat.add_0_r. left; reflexivity.
  - cbn [app sent_words sent_text flat_map]. fold (sent_text pre). rewrite app_length.
    specialize (IH w post (pos + length (item_text it))).
    rewrite !Nat.add_assoc. destruct it; try (right; exact IH); exact IH.
Qed.

Lemma sent_words_from : forall its pos sp, In sp (sent_words pos its) ->
  exists pre w post, its = pre ++ SWord w :: post /\
    sp = mkspan (pos + length (sent_text pre)) (pos + length (sent_text pre) + length w).
Proof.
  induction its as [|it r IH]; intros pos sp H; [destruct H|]. cbn [sent_words] in H.
  assert (R : In sp (sent_words (pos + length (item_text it)) r) ->
              exists pre w post, it :: r = pre ++ SWord w :: post /\
                sp = mkspan (pos + length (sent_text pre)) (pos + length (sent_text pre) + length w)).
  { intros H'. destruct (IH _ _ H') as (pre & w & post & -> & ->). exists (it :: pre), w, post.
    split; [reflexivity|]. cbn [sent_text flat_map]. fold (sent_text pre). rewrite app_length, !Nat.add_assoc. reflexivity. }
  destruct it as [w|n|c]; try (exact (R H)). destruct H as [<-|H]; [|exact (R H)].
  exists [], w, r. split; [reflexivity|]. cbn [sent_text flat_map length item_text]. rewrite Nat.add_0_r. reflexivity.
Qed.

Lemma get_content_mid (a w b : text) : w <> [] ->
  get_content (mkspan (length a) (length a + length w)) (a ++ w ++ b) = Ok w.
Proof.
  intros Hne. unfold get_content, try_get_content. cbn [sstart send].
  replace (length a + length w <? length a) with false by (symmetry; apply Nat.ltb_ge; lia).
  replace (length (a ++ w ++ b) <=? length a) with false
    by (symmetry; apply Nat.leb_gt; rewrite !app_length; destruct w; [contradiction|cbn [length]; lia]).
  replace (length (a ++ w ++ b) <? length a + length w) with false
    by (symmetry; apply Nat.ltb_ge; rewrite !app_length; lia).
  cbn [orb bind]. unfold slice. replace (length a + length w - length a) with (length w) by lia.
  rewrite skipn_app_exact, firstn_app_exact. reflexivity.
Qed.

Lemma sent_ok_word u pre w post : sent_ok u (pre ++ SWord w :: post) = true -> word_body u w = true.
Proof.
  induction pre as [|it pre IH]; cbn [app sent_ok]; intros H.
  - apply andb_true_iff in H as [H _]. apply andb_true_iff in H as [H _]. cbn [item_ok] in H.
    rewrite sword_body in H. exact H.
  - apply andb_true_iff in H as [_ H]. exact (IH H).
Qed.

(* ================= C06 inside a sentence: no premise about tokens ================= *)
Section SentenceLint.
  Variable u : uni.
  Variable lc uc : char -> list char.
  Variable is_lower is_upper : char -> bool.
  Variable fuzzy : dict -> text -> nat -> list text.
  Hypothesis laws : letter_laws u.
  Hypothesis dlaw : digit_law u.

  Lemma word_item_token pre w post : sent_ok u (pre ++ SWord w :: post) = true ->
    doc_words u (sent_text (pre ++ SWord w :: post)) = Ok (sent_words 0 (pre ++ SWord w :: post)) /\
    In (word_at pre w) (sent_words 0 (pre ++ SWord w :: post)) /\
    get_content (word_at pre w) (sent_text (pre ++ SWord w :: post)) = Ok w.
  Proof.
    intros H. split; [exact (sent_doc_words u laws dlaw _ H)|]. split; [exact (sent_words_in pre w post 0)|].
    rewrite sent_text_mid. apply get_content_mid. pose proof (sent_ok_word u pre w post H) as B. destruct w; discriminate.
  Qed.

  (* converse half: a word item whose id no entry has is reported with exactly its span *)
  Theorem sentence_unlisted_reported (H_uc : forall c, uc c <> []) (HF : fuzzy_listed fuzzy) D d pre w post :
    dict_nodup lc is_lower D -> sent_ok u (pre ++ SWord w :: post) = true ->
    (forall e, In e D -> word_id lc is_lower (canon e) <> word_id lc is_lower w) ->
    exists ls sg, lint_text u lc uc is_lower is_upper fuzzy D d (sent_text (pre ++ SWord w :: post)) = Ok ls /\
                  In (mkslint (word_at pre w) sg) ls.
  Proof.
    intros ND H Hun. destruct (word_item_token pre w post H) as (Ew & Hin & G).
    exact (text_unlisted_reported u lc uc is_lower is_upper fuzzy H_uc HF D d _ _ _ w ND Ew Hin G Hun).
  Qed.

  (* positive half: no lint of the sentence has the span of a word item spelt like a listed form *)
  Theorem sentence_listed_accepted (HL : lower_fix lc is_lower) D d e pre w post ls :
    dict_nodup lc is_lower D -> In e D -> dialect_ok (edialect e) d = true ->
    sent_ok u (pre ++ SWord w :: post) = true -> listed_form lc uc is_lower e w ->
    lint_text u lc uc is_lower is_upper fuzzy D d (sent_text (pre ++ SWord w :: post)) = Ok ls ->
    forall l, In l ls -> sl_span l <> word_at pre w.
  Proof.
    intros ND Hin Hd H Hw L. destruct (word_item_token pre w post H) as (Ew & Hsp & G).
    exact (text_listed_accepted u lc uc is_lower is_upper fuzzy HL D d e _ _ _ w ls ND Hin Hd Ew Hsp G Hw L).
  Qed.

  (* every lint of the sentence sits exactly on one of its word items *)
  Theorem sentence_lints_on_words (HF : fuzzy_listed fuzzy) D d its ls l :
    dict_nodup lc is_lower D -> sent_ok u its = true ->
    lint_text u lc uc is_lower is_upper fuzzy D d (sent_text its) = Ok ls -> In l ls ->
    exists pre w post, its = pre ++ SWord w :: post /\ sl_span l = word_at pre w.
  Proof.
    intros ND H L Hl.
    destruct (text_suggestions_in_dictionary u lc uc is_lower is_upper fuzzy HF D d _ ls l ND L Hl) as ((words & Ew & Hin) & _).
    rewrite (sent_doc_words u laws dlaw its H) in Ew. injection Ew as <-.
    destruct (sent_words_from its 0 _ Hin) as (pre & w & post & E & Es). exists pre, w, post. split; [exact E|exact Es].
  Qed.

  (* the general form of F24 for compound entries: a LISTED entry made of two or more items (alnum parts joined by
     hyphens, blanks, slashes, ...) is not one Word token, and a part whose id no entry has is reported *)
  Theorem compound_entry_reported (H_uc : forall c, uc c <> []) (HF : fuzzy_listed fuzzy) D d e pre w post :
    dict_nodup lc is_lower D -> In e D -> canon e = sent_text (pre ++ SWord w :: post) ->
    sent_ok u (pre ++ SWord w :: post) = true -> 2 <= length (pre ++ SWord w :: post) ->
    (forall e', In e' D -> word_id lc is_lower (canon e') <> word_id lc is_lower w) ->
    one_word u (canon e) = false /\
    exists ls sg, lint_text u lc uc is_lower is_upper fuzzy D d (canon e) = Ok ls /\ In (mkslint (word_at pre w) sg) ls.
  Proof.
    intros ND _ Ec H L Hun. rewrite Ec. split; [exact (sent_not_one_word u laws dlaw _ H L)|].
    exact (sentence_unlisted_reported H_uc HF D d pre w post ND H Hun).
  Qed.
End SentenceLint.
