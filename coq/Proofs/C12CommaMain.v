(* C12CommaMain.v — phase 6: the final theorem without a locality hypothesis on any struct rule.
   C12Main.curated_rules g0 other consults `other` only for the rows outside every proved shape; C12Main.residue_pinned
   says that is the CommaFixes row alone.  Here that row denotes the MODEL of comma_fixes.rs (C12Comma.comma_fixes, arms
   decoded from the generated table), proved paragraph-local in C12CommaProofs.v. *)
From Coq Require Import List String Arith NArith Lia Sorting.Permutation.
Require Import Base Overlap Lexer ParaSplit ParaSplitProofs C12Doc LexSplitProofs C12CondSplit
  Tables_c12rules C12RuleShapes C12Merge C12MergeProofs C12Windows C12WindowsProofs C12Main C12Comma C12CommaProofs.
Import ListNotations.
Open Scope list_scope.

(* the 74 struct rules: 73 rows as in C12Main (instances of proved shapes for arbitrary per-slice bodies g0), the
   CommaFixes row = the modelled body *)
Definition curated_rules_all (unl : tok -> bool) (g0 : string -> body) : list rule :=
  curated_rules g0 (fun _ => comma_fixes unl).

(* the arms the generated table holds now, decoded (first match wins; anything else: continue) *)
Definition cf_arms_expected : list arm :=
  [ mkarm NAny  NWord  CAsian NSpace NWord (Some (SComma, 10));
    mkarm NWord NSpace CAscii NSpace NWord (Some (SPrev, 1));
    mkarm NWord NSpace CAsian NSpace NWord (Some (SPrevComma, 11));
    mkarm NAny  NWord  CAscii NWord  NAny  (Some (SComma, 28));
    mkarm NAny  NWord  CAsian NWord  NAny  (Some (SComma, 22));
    mkarm NWord NSpace CAscii NWord  NAny  (Some (SPrevComma, 21));
    mkarm NWord NSpace CAsian NWord  NAny  (Some (SPrevComma, 23));
    mkarm NAny  NUnl   CAsian NAny   NAny  None;
    mkarm NAny  NAny   CAsian NUnl   NAny  None;
    mkarm NAny  NAny   CAsian NAny   NAny  (Some (SComma, 10)) ].

(* position of a rule in the table (= position in the rule list) *)
Fixpoint row_index (name : string) (l : list row) : nat :=
  match l with
  | [] => 0
  | r :: q => if String.eqb (row_name r) name then 0 else S (row_index name q)
  end.

Theorem comma_pinned (unl : tok -> bool) (g0 : string -> body) :
  cf_arms = cf_arms_expected /\
  option_map row_shape (row_of "CommaFixes") = Some (Neighbourhood 2 2) /\
  residue = ["CommaFixes"%string] /\
  length (curated_rules_all unl g0) = 74 /\
  option_map row_name (nth_error struct_rules (row_index "CommaFixes" struct_rules)) = Some "CommaFixes"%string /\
  nth_error (curated_rules_all unl g0) (row_index "CommaFixes" struct_rules) = Some (comma_fixes unl).
Proof. repeat split; reflexivity. Qed.

Theorem main_complete u :
  u_whitespace u NL = true -> u_numeric u NL = false -> u_alphabetic u NL = false -> u_lingual u NL = false ->
  forall (unl : tok -> bool), (forall n k t, unl (shift_tok n k t) = unl t) ->
  forall chunk_fn (g0 : string -> body),
  (forall b, In b ro_bodies_expected -> g0_inside (g0 b)) ->
  forall P D, c12_premise P -> no_leading_nl D ->
    Permutation (lints (doc_tokens u) chunk_fn (curated_rules_all unl g0) (P ++ D))
                (lints (doc_tokens u) chunk_fn (curated_rules_all unl g0) P
                 ++ map (shift_lint (length P)) (lints (doc_tokens u) chunk_fn (curated_rules_all unl g0) D)).
Proof.
  intros H1 H2 H3 H4 unl Hunl chunk_fn g0 Hro. unfold curated_rules_all.
  apply (main_final u H1 H2 H3 H4); [|exact Hro]. now apply comma_fixes_local.
Qed.

(* non-vacuity: `a ,b.` BREAK | `,c 、 d`: one finding on each side (space before + no space after: 1..3; space before an
   Asian comma: 2..4), none for the comma that opens the second part — neither alone (toks.1 absent) nor glued (toks.1 is
   the ParagraphBreak); glued = separately + shifted *)
Definition cx_unl (t : tok) : bool := match tkind t with KOther => true | _ => false end.
Definition cx_A : list tok :=
  [mktok (mkspan 0 1) KWord; mktok (mkspan 1 2) KSpace; mktok (mkspan 2 3) KComma; mktok (mkspan 3 4) KWord;
   mktok (mkspan 4 5) KPeriod; mktok (mkspan 5 7) KBreak].
Definition cx_B : list tok :=
  [mktok (mkspan 0 1) KComma; mktok (mkspan 1 2) KWord; mktok (mkspan 2 3) KSpace; mktok (mkspan 3 4) KComma;
   mktok (mkspan 4 5) KSpace; mktok (mkspan 5 6) KWord].
Definition cx_P : text := [97; 32; 44; 98; 46; 10; 10]%N.
Definition cx_D : text := [44; 99; 32; 12289; 32; 100]%N.

Lemma cx_unl_shift n k t : cx_unl (shift_tok n k t) = cx_unl t.
Proof. destruct t as [sp kd]. unfold cx_unl, shift_tok. cbn [tkind]. destruct kd as [| | | | | | | | | |[j|]| |]; reflexivity. Qed.

Lemma comma_example :
  let out := map (fun l => (lstart l, lend l, lid l)) in
  (forall n k t, cx_unl (shift_tok n k t) = cx_unl t) /\
  out (comma_fixes cx_unl cx_A cx_P) = [(1, 3, 21)] /\ out (comma_fixes cx_unl cx_B cx_D) = [(2, 4, 11)] /\
  out (comma_fixes cx_unl (cx_A ++ map (shift_tok 7 6) cx_B) (cx_P ++ cx_D)) = [(1, 3, 21); (9, 11, 11)] /\
  (* an Unlintable neighbour silences an Asian comma, any other KOther-class neighbour (a Url, say) does not *)
  out (comma_fixes cx_unl [mktok (mkspan 0 1) KOther; mktok (mkspan 1 2) KComma] [33457; 12289]%N) = [] /\
  out (comma_fixes (fun _ => false) [mktok (mkspan 0 1) KOther; mktok (mkspan 1 2) KComma] [33457; 12289]%N) = [(1, 2, 10)].
Proof. split; [exact cx_unl_shift|]. repeat split; vm_compute; reflexivity. Qed.
