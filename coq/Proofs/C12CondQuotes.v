(* C12CondQuotes.v — Document::match_quotes (Model/Condense.v, frozen) on a glued token list: when A holds no
   quote token (the property's premise: P is free of double quotes) and the quotes of B have no twin yet,
        match_quotes (A ++ shift B) = A ++ shift2 (match_quotes B)
   where shift2 also moves every twin_loc by |A| token positions.  Quote pairing is positional over the whole
   vector: with a quote token in A the pairs of B change (C12_quote_premise_needed in Properties/C12.v). *)
Require Import Base Overlap OverlapProofs Tables_lexer Lexer Condense ListLemmas TokenInv CondenseInv LexerProofs
  CondSuffixQuotes C12CondSpaces C12CondPattern.
From Coq Require Import List Arith Lia.
Import ListNotations.

Definition twin_shift (j : nat) (kd : tkind) : tkind :=
  match kd with
  | KPunct (PQuote (Some i)) => KPunct (PQuote (Some (i + j)))
  | other => other
  end.
(* moved by k characters and j token positions *)
Definition shift_tk2 (k j : nat) (t : token) : token := mktok (push_by (tspan t) k) (twin_shift j (tkind_of t)).

Definition quote_free_toks (A : list token) : Prop := Forall (fun t => is_quote (tkind_of t) = false) A.

Lemma is_quote_twin_shift j kd : is_quote (twin_shift j kd) = is_quote kd.
Proof. destruct kd as [|p| | | | | | | | | |]; try reflexivity. destruct p; try reflexivity. destruct twin_loc; reflexivity. Qed.

Lemma shift_tk2_notwin k j t : (forall tw, quote_twin t = Some tw -> tw = None) -> shift_tk2 k j t = shift_tk k t.
Proof.
  intros H. unfold shift_tk2, shift_tk. f_equal. unfold quote_twin in H.
  destruct (tkind_of t) as [|p| | | | | | | | | |]; try reflexivity. destruct p; try reflexivity.
  destruct twin_loc as [i|]; [|reflexivity]. specialize (H (Some i) eq_refl). discriminate.
Qed.

Lemma map_shift_tk2_notwins k j B : NoTwins B -> map (shift_tk2 k j) B = map (shift_tk k) B.
Proof.
  intros H. apply map_ext_in. intros t Hin. apply shift_tk2_notwin.
  unfold NoTwins in H. rewrite Forall_forall in H. exact (H t Hin).
Qed.

(* ---------- quote_indices ---------- *)
Lemma quote_indices_app : forall A X i, quote_indices (A ++ X) i = quote_indices A i ++ quote_indices X (i + length A).
Proof.
  induction A as [|t A IH]; intros X i; cbn [app length quote_indices].
  - rewrite Nat.add_0_r. reflexivity.
  - rewrite IH. replace (S i + length A) with (i + S (length A)) by lia.
    destruct (is_quote (tkind_of t)); reflexivity.
Qed.

Lemma quote_indices_free : forall A i, quote_free_toks A -> quote_indices A i = [].
Proof.
  induction A as [|t A IH]; intros i H; [reflexivity|]. inversion H as [|t0 l0 Ht HA]; subst.
  cbn [quote_indices]. rewrite Ht. apply IH. exact HA.
Qed.

Lemma quote_indices_idx : forall X i j, quote_indices X (i + j) = map (idx_shift j) (quote_indices X i).
Proof.
  induction X as [|t X IH]; intros i j; [reflexivity|]. cbn [quote_indices].
  replace (S (i + j)) with (S i + j) by lia. rewrite IH. destruct (is_quote (tkind_of t)); reflexivity.
Qed.

Lemma quote_indices_map (f : token -> token) : (forall t, is_quote (tkind_of (f t)) = is_quote (tkind_of t)) ->
  forall X i, quote_indices (map f X) i = quote_indices X i.
Proof.
  intros Hf. induction X as [|t X IH]; intros i; [reflexivity|]. cbn [map quote_indices]. rewrite Hf, IH. reflexivity.
Qed.

(* ---------- set_twin / mq_loop under a prefix ---------- *)
Lemma set_twin_glue k pre toks a b t1 :
  set_twin toks a b = Ok t1 ->
  set_twin (pre ++ map (shift_tk2 k (length pre)) toks) (a + length pre) (b + length pre)
  = Ok (pre ++ map (shift_tk2 k (length pre)) t1).
Proof.
  unfold set_twin. intros H.
  destruct (nth_chk toks a) as [t|] eqn:Et; [|discriminate]. cbn [bind] in H.
  rewrite nth_chk_pre. rewrite (nth_chk_map (shift_tk2 k (length pre)) _ _ _ Et). cbn [bind].
  assert (Hk2 : tkind_of (shift_tk2 k (length pre) t) = twin_shift (length pre) (tkind_of t)) by reflexivity.
  assert (Hs2 : tspan (shift_tk2 k (length pre) t) = push_by (tspan t) k) by reflexivity.
  rewrite Hk2, Hs2.
  destruct (tkind_of t) as [|p| | | | | | | | | |] eqn:Ek; try discriminate. destruct p; try discriminate.
  assert (Hq : exists tw', twin_shift (length pre) (KPunct (PQuote twin_loc)) = KPunct (PQuote tw'))
    by (destruct twin_loc; eexists; reflexivity).
  destruct Hq as [tw' ->].
  change (mktok (push_by (tspan t) k) (KPunct (PQuote (Some (b + length pre)))))
    with (shift_tk2 k (length pre) (mktok (tspan t) (KPunct (PQuote (Some b))))).
  apply set_nth_pre. apply set_nth_map. exact H.
Qed.

Lemma mq_loop_glue k pre : forall n qi toks toks', length qi <= n ->
  mq_loop qi toks = Ok toks' ->
  mq_loop (map (idx_shift (length pre)) qi) (pre ++ map (shift_tk2 k (length pre)) toks)
  = Ok (pre ++ map (shift_tk2 k (length pre)) toks').
Proof.
  induction n as [|n IH]; intros qi toks toks' Hlen H.
  - destruct qi; [|cbn [length] in Hlen; lia]. cbn [mq_loop map] in *. injection H as <-. reflexivity.
  - destruct qi as [|a [|b r]]; cbn [mq_loop map] in *.
    + injection H as <-. reflexivity.
    + injection H as <-. reflexivity.
    + destruct (set_twin toks a b) as [t1|] eqn:E1; [|discriminate]. cbn [bind] in H.
      destruct (set_twin t1 b a) as [t2|] eqn:E2; [|discriminate]. cbn [bind] in H.
      unfold idx_shift at 1 2 3 4.
      rewrite (set_twin_glue k pre _ _ _ _ E1). cbn [bind].
      rewrite (set_twin_glue k pre _ _ _ _ E2). cbn [bind].
      apply IH; [cbn [length] in Hlen; lia|exact H].
Qed.

Theorem match_quotes_split k A B B2 :
  quote_free_toks A -> NoTwins B -> match_quotes B = Ok B2 ->
  match_quotes (A ++ map (shift_tk k) B) = Ok (A ++ map (shift_tk2 k (length A)) B2).
Proof.
  intros HA HB H. unfold match_quotes in *.
  rewrite quote_indices_app, (quote_indices_free A 0 HA). cbn [app Nat.add].
  rewrite (quote_indices_map (shift_tk k)) by reflexivity.
  change (length A) with (0 + length A) at 1. rewrite quote_indices_idx.
  rewrite <- (map_shift_tk2_notwins k (length A) B HB).
  apply (mq_loop_glue k A (length (quote_indices B 0))); [lia|exact H].
Qed.
