(* C17MultiText.v — C17, the TEXT-LEVEL list form: a text with several `<digits><suffix>` instances (C17Texts.mtext)
   in the class mctx_ok draws exactly one verdict per instance, in document order (C17Texts.mexpected).
   Structure: NumberLex.lex_multi gives the token shape  LA1 ++ [N1; W1] ++ LA2 ++ [N2; W2] ++ .. ++ LB  (mshp F_raw);
   the passes before condense_number_suffixes only replace / remove Space and Newline tokens (relation `sub`), which
   keeps that shape; condense_number_suffixes marks EVERY Number token and condense_indices performs ALL merges
   (ci_spans / ci_mid / the three slices, by induction over the shape — the second and later merges are the part a
   stale-offset bug breaks); the later passes only replace / remove Word, Apostrophe and Period tokens, which keeps the
   list of Number tokens; the rule is then evaluated on that list. *)
Require Import Base Overlap Suggestion Tables_number Number NumberArith ListLemmas SuggestionProofs.
Require Import NumberLex NumberPasses NumberProofs C17Texts.
From Coq Require Import String List Arith NArith Bool Lia.
Import ListNotations.
Local Open Scope list_scope.

(* ------------------------------------------------------------------------------------------------ *)
(* sub K K2 l l' : l' is l after some K-tokens were replaced by K2-tokens and some K-tokens were removed *)
(* ------------------------------------------------------------------------------------------------ *)
Inductive sub (K K2 : token -> bool) : list token -> list token -> Prop :=
| sub_nil : sub K K2 [] []
| sub_keep x l l' : sub K K2 l l' -> sub K K2 (x :: l) (x :: l')
| sub_change x y l l' : K x = true -> K2 y = true -> sub K K2 l l' -> sub K K2 (x :: l) (y :: l')
| sub_drop x l l' : K x = true -> sub K K2 l l' -> sub K K2 (x :: l) l'.

Lemma sub_refl K K2 l : sub K K2 l l.
Proof. induction l; constructor; assumption. Qed.

Lemma sub_weaken (K K' K2 K2' : token -> bool) l l' :
  (forall x, K x = true -> K' x = true) -> (forall y, K2 y = true -> K2' y = true) ->
  sub K K2 l l' -> sub K' K2' l l'.
Proof.
  intros H1 H2. induction 1.
  - constructor.
  - apply sub_keep. assumption.
  - apply sub_change; auto.
  - apply sub_drop; auto.
Qed.

Lemma ri_sub K K2 : forall (copy toks : list token), Forall2 (upd K K2) copy toks ->
  forall (i : nat) (q : list nat),
  (forall j, In j q -> i <= j -> at_ K copy (j - i)) ->
  sub K K2 copy (remove_indices i q toks).
Proof.
  induction 1 as [|x y copy toks Hxy HF IH]; intros i q Hq.
  - constructor.
  - assert (Hstep : forall q', (forall j, In j q' -> In j q) ->
              forall j, In j q' -> S i <= j -> at_ K copy (j - S i)).
    { intros q' Hin j Hj Hle. destruct (Hq j (Hin j Hj)) as [t [Ht Hk]]; [lia|].
      exists t. split; [|exact Hk]. replace (j - i) with (S (j - S i)) in Ht by lia. exact Ht. }
    cbn [remove_indices]. destruct q as [|r q0].
    + destruct Hxy as [->|[Hx Hy]].
      * apply sub_keep. apply IH. intros j [].
      * apply sub_change; [exact Hx | exact Hy |]. apply IH. intros j [].
    + destruct (i =? r) eqn:E.
      * apply Nat.eqb_eq in E. subst r. apply sub_drop.
        -- destruct (Hq i (or_introl eq_refl) (le_n _)) as [t [Ht Hk]]. rewrite Nat.sub_diag in Ht.
           cbn [nth_error] in Ht. injection Ht as <-. exact Hk.
        -- apply IH. apply Hstep. intros j Hj. right. exact Hj.
      * destruct Hxy as [->|[Hx Hy]].
        -- apply sub_keep. apply IH. apply Hstep. intros j Hj. exact Hj.
        -- apply sub_change; [exact Hx | exact Hy |]. apply IH. apply Hstep. intros j Hj. exact Hj.
Qed.

Lemma sub_forall K K2 (P : token -> Prop) l l' :
  sub K K2 l l' -> (forall y, K2 y = true -> P y) -> Forall P l -> Forall P l'.
Proof.
  intros H HK. induction H; intros HP.
  - constructor.
  - inversion HP; subst. constructor; auto.
  - inversion HP; subst. constructor; auto.
  - inversion HP; subst. auto.
Qed.

Lemma sub_filter K K2 (f : token -> bool) l l' :
  sub K K2 l l' -> (forall x, K x = true -> f x = false) -> (forall y, K2 y = true -> f y = false) ->
  filter f l' = filter f l.
Proof.
  intros H H1 H2. induction H; cbn [filter].
  - reflexivity.
  - rewrite IHsub. reflexivity.
  - rewrite (H1 _ H), (H2 _ H0). exact IHsub.
  - rewrite (H1 _ H). exact IHsub.
Qed.

Lemma sub_app_inv K K2 : forall A B l', sub K K2 (A ++ B) l' ->
  exists A' B', l' = A' ++ B' /\ sub K K2 A A' /\ sub K K2 B B'.
Proof.
  induction A as [|x A IH]; intros B l' H.
  - exists [], l'. split; [reflexivity|]. split; [constructor | exact H].
  - cbn [app] in H. inversion H; subst.
    + match goal with Hs : sub _ _ (A ++ B) _ |- _ => destruct (IH _ _ Hs) as (A' & B' & -> & HA & HB) end.
      exists (x :: A'), B'. split; [reflexivity|]. split; [apply sub_keep; exact HA | exact HB].
    + match goal with Hs : sub _ _ (A ++ B) _ |- _ => destruct (IH _ _ Hs) as (A' & B' & -> & HA & HB) end.
      exists (y :: A'), B'. split; [reflexivity|]. split; [apply sub_change; assumption | exact HB].
    + match goal with Hs : sub _ _ (A ++ B) _ |- _ => destruct (IH _ _ Hs) as (A' & B' & -> & HA & HB) end.
      exists A', B'. split; [reflexivity|]. split; [apply sub_drop; assumption | exact HB].
Qed.

Lemma sub_nochange K K2 : forall l l', Forall (fun t => K t = false) l -> sub K K2 l l' -> l' = l.
Proof.
  intros l l' HF H. induction H.
  - reflexivity.
  - inversion HF; subst. f_equal. auto.
  - inversion HF; subst. congruence.
  - inversion HF; subst. congruence.
Qed.

Lemma upd_weaken (K K' K2 : token -> bool) l l' :
  (forall x, K x = true -> K' x = true) -> Forall2 (upd K K2) l l' -> Forall2 (upd K' K2) l l'.
Proof.
  intros HK. induction 1 as [|x y l l' Hxy _ IH]; constructor; [|exact IH].
  destruct Hxy as [->|[Hx Hy]]; [left; reflexivity | right; split; [apply HK; exact Hx | exact Hy]].
Qed.

(* ------------------------------------------------------------------------------------------------ *)
(* the five passes in `sub` form (general: any token list)                                            *)
(* ------------------------------------------------------------------------------------------------ *)
Definition inert (t : token) : bool := negb (is_number t) && negb (is_word t).

Lemma condense_spaces_sub l : exists l', condense_spaces l = Ok l' /\ sub is_space inert l l'.
Proof.
  unfold condense_spaces.
  destruct (cs_outer_spec (S (length l)) l l 0 []) as (toks' & rm & HE & HF & Hrm).
  { lia. } { apply Forall2_refl_upd. } { intros j []. }
  rewrite HE. cbn [bind fst snd]. eexists. split; [reflexivity|].
  apply (sub_weaken is_space is_space is_space inert); [auto| |].
  - intros y Hy. unfold inert. rewrite (not_number_space _ Hy), (not_word_space _ Hy). reflexivity.
  - apply ri_sub; [exact HF|]. intros j Hj _. rewrite Nat.sub_0_r. apply (Hrm j Hj).
Qed.

Lemma condense_newlines_sub l : exists l', condense_newlines l = Ok l' /\ sub is_newline inert l l'.
Proof.
  unfold condense_newlines.
  destruct (cn_outer_spec (S (length l)) l l 0 []) as (toks' & rm & HE & HF & Hrm).
  { lia. } { apply Forall2_refl_upd. } { intros j []. }
  rewrite HE. cbn [bind fst snd]. eexists. split; [reflexivity|].
  apply (sub_weaken is_newline is_newline is_newline inert); [auto| |].
  - intros y Hy. unfold inert. rewrite (not_number_newline _ Hy), (not_word_newline _ Hy). reflexivity.
  - apply ri_sub; [exact HF|]. intros j Hj _. rewrite Nat.sub_0_r. apply (Hrm j Hj).
Qed.

Lemma breaks_sub l : sub is_newline inert l (newlines_to_breaks l).
Proof.
  rewrite newlines_to_breaks_map. induction l as [|t l IH]; [constructor|]. cbn [map].
  destruct (is_newline t) eqn:E.
  - apply sub_change; [exact E | | exact IH]. unfold inert. rewrite brk_number, (not_number_newline _ E).
    destruct (is_word (brk t)) eqn:W; [|reflexivity].
    pose proof (brk_word _ W) as Eb. rewrite Eb in W. rewrite (not_word_newline _ E) in W. discriminate.
  - rewrite (brk_id _ E). apply sub_keep. exact IH.
Qed.

Definition wa (t : token) : bool := is_word t || is_apostrophe t.
Lemma condense_contractions_sub l : wordwf l ->
  exists l', condense_contractions l = Ok l' /\ sub wa is_word l l' /\ wordwf l'.
Proof.
  intros Hwf. unfold condense_contractions.
  destruct (cp_apply_spec (find_all_matches l) l l []) as (toks' & rm & HE & HF & Hwf' & _ & Hrm).
  { apply Forall2_refl_upd. } { exact Hwf. } { intros m Hm. apply find_all_matches_spec. exact Hm. }
  rewrite HE. cbn [bind fst snd]. eexists. split; [reflexivity|]. split.
  - apply ri_sub.
    + apply (upd_weaken is_word wa is_word); [|exact HF]. intros x Hx. unfold wa. rewrite Hx. reflexivity.
    + intros j Hj _. rewrite Nat.sub_0_r. destruct (Hrm j Hj) as [[]|[m [Hm Hr]]].
      destruct (find_all_matches_spec _ _ Hm) as (a & b & c & Hend & Ha & Hb & Hc & Wa & Ab & Wc).
      assert (j = S (sstart m) \/ j = S (S (sstart m))) as [->| ->] by lia.
      * exists b. split; [exact Hb|]. unfold wa. rewrite Ab. apply orb_true_r.
      * exists c. split; [exact Hc|]. unfold wa. rewrite Wc. reflexivity.
  - apply ri_forall. exact Hwf'.
Qed.

Definition wp (t : token) : bool := w1 t || is_period t.
Lemma condense_initialisms_sub l : wordwf l ->
  exists l', condense_dotted_initialisms l = Ok l' /\ sub wp is_word l l'.
Proof.
  intros Hwf0. unfold condense_dotted_initialisms.
  destruct (length l <? 2) eqn:E2; [exists l; split; [reflexivity | apply sub_refl]|].
  destruct (di_loop_spec l Hwf0 (S (length l)) 1 l [] None) as (toks1 & rm & st & HE & HF & Hst & Hrm).
  { lia. }
  { split; [apply Forall2_refl_upd|]. split; [intros i _; reflexivity|]. split; [lia|]. split; [exact I | intros j []]. }
  rewrite HE. cbn [bind].
  assert (Hfix : exists toks2 rm2,
            match st, last_error rm with
            | Some s, Some la =>
                if la =? s + 1 then Ok (toks1, removelast rm)
                else (do e <- nth_chk toks1 la; do toks2 <- set_span_end toks1 s (send (tspan e)); Ok (toks2, rm))
            | _, _ => Ok (toks1, rm)
            end = Ok (toks2, rm2)
            /\ Forall2 upd_i l toks2
            /\ (forall j, In j rm2 -> j < length l /\ (at_ is_period l j \/ at_ w1 l j))).
  { destruct st as [s|]; [|exists toks1, rm; auto].
    destruct (last_error rm) as [la|] eqn:El; [|exists toks1, rm; auto].
    destruct (la =? s + 1).
    - exists toks1, (removelast rm). split; [reflexivity|]. split; [exact HF|].
      intros j Hj. apply Hrm. apply In_removelast. exact Hj.
    - destruct (Hrm la (last_error_in _ _ El)) as [Hl _].
      pose proof (F2_length _ _ _ HF) as HL1.
      unfold nth_chk. destruct (nth_error toks1 la) as [e|] eqn:Ee.
      2:{ apply nth_error_None in Ee. lia. }
      cbn [bind].
      destruct (set_span_end_spec l toks1 s (send (tspan e)) HF Hst) as (toks2 & Hset & HF2 & _).
      rewrite Hset. cbn [bind]. exists toks2, rm. auto. }
  destruct Hfix as (toks2 & rm2 & Hfx & HF2 & Hrm2).
  assert (Hres : sub wp is_word l (remove_indices 0 rm2 toks2)).
  { apply ri_sub.
    - apply (upd_weaken w1 wp is_word); [|exact HF2]. intros x Hx. unfold wp. rewrite Hx. reflexivity.
    - intros j Hj _. rewrite Nat.sub_0_r. destruct (Hrm2 j Hj) as [_ [[t [Ht Hp]]|[t [Ht Hp]]]]; exists t; (split; [exact Ht|]);
        unfold wp; rewrite Hp; [apply orb_true_r | reflexivity]. }
  destruct st as [s|]; (destruct (last_error rm) as [la|]; rewrite Hfx; cbn [bind fst snd];
    eexists; (split; [reflexivity | exact Hres])).
Qed.

(* ------------------------------------------------------------------------------------------------ *)
(* the shape mshp F survives `sub` when no token of an instance is touchable                           *)
(* ------------------------------------------------------------------------------------------------ *)
Lemma sub_mshp K K2 (F : nat -> inst -> list token) :
  (forall q i, Forall (fun t => K t = false) (F q i)) ->
  (forall y, K2 y = true -> is_number y = false /\ is_word y = false) ->
  forall q l L, mshp F q l L -> forall L', sub K K2 L L' -> mshp F q l L'.
Proof.
  intros HK HK2. induction 1 as [q L Hn Hw | q i r LA L Hn Hw Hsh IH]; intros L' Hs.
  - constructor.
    + eapply sub_forall; [exact Hs | | exact Hn]. intros y Hy. apply (HK2 y Hy).
    + eapply sub_forall; [exact Hs | | exact Hw]. intros y Hy Hwd. destruct (HK2 y Hy) as [_ E]. congruence.
  - apply sub_app_inv in Hs. destruct Hs as (LA' & R' & -> & HA & HR).
    apply sub_app_inv in HR. destruct HR as (FA' & L0' & -> & HFA & HL0).
    rewrite (sub_nochange K K2 _ _ (HK q i) HFA).
    constructor.
    + eapply sub_forall; [exact HA | | exact Hn]. intros y Hy. apply (HK2 y Hy).
    + eapply sub_forall; [exact HA | | exact Hw]. intros y Hy Hwd. destruct (HK2 y Hy) as [_ E]. congruence.
    + apply IH. exact HL0.
Qed.

Lemma inert_spec y : inert y = true -> is_number y = false /\ is_word y = false.
Proof. unfold inert. rewrite andb_true_iff, !negb_true_iff. tauto. Qed.

(* ------------------------------------------------------------------------------------------------ *)
(* condense_number_suffixes / condense_indices with ANY number of merges                              *)
(* ------------------------------------------------------------------------------------------------ *)
Definition sfx_or (i : inst) : suffix := match suffix_of i with Some s => s | None => Th end.
Definition has_sfx (i : inst) : Prop := from_chars [i_a i; i_b i] = Some (sfx_or i).
Definition Wtok (q : nat) (i : inst) : token :=
  mktok (mkspan (q + length (i_pre i) + length (i_digits i)) (q + length (i_pre i) + length (i_digits i) + 2)) KWord.
(* the Number token after the scan: suffix set, span not yet extended *)
Definition Ktok (q : nat) (i : inst) : token :=
  mktok (mkspan (q + length (i_pre i)) (q + length (i_pre i) + length (i_digits i)))
        (KNumber (VInt (parse_dec (i_digits i))) (Some (sfx_or i))).
(* the merged Number token: digits and suffix letters *)
Definition Mtok (q : nat) (i : inst) : token :=
  mktok (mkspan (q + length (i_pre i)) (q + length (i_pre i) + length (i_digits i) + 2))
        (KNumber (VInt (parse_dec (i_digits i))) (Some (sfx_or i))).
Definition F_mark (q : nat) (i : inst) : list token := [Ktok q i; Wtok q i].
Definition F_ext (q : nat) (i : inst) : list token := [Mtok q i; Wtok q i].
Definition F_merged (q : nat) (i : inst) : list token := [Mtok q i].

(* positions of the Number tokens, counted from k *)
Fixpoint numpos (k : nat) (l : list token) : list nat :=
  match l with
  | [] => []
  | t :: r => if is_number t then k :: numpos (S k) r else numpos (S k) r
  end.
Lemma numpos_nonum : forall (A l : list token) (k : nat), nonum A -> numpos k (A ++ l) = numpos (k + length A) l.
Proof.
  induction A as [|a A IH]; intros l k H.
  - cbn [app length]. rewrite Nat.add_0_r. reflexivity.
  - inversion H as [|? ? Ha HA]; subst. cbn [app numpos length]. rewrite Ha, (IH l (S k) HA). f_equal. lia.
Qed.
Lemma numpos_nonum_nil (A : list token) (k : nat) : nonum A -> numpos k A = [].
Proof. intros H. rewrite <- (app_nil_r A), numpos_nonum by exact H. reflexivity. Qed.

Lemma cns_scan_skip src a l idx : is_number a = false ->
  cns_scan src idx (a :: l) = (do r <- cns_scan src (S idx) l; Ok (a :: fst r, snd r)).
Proof.
  intros Ha. destruct l as [|b tl]; [reflexivity|].
  rewrite cns_scan_cons, (cns_head_nonum _ _ _ Ha). cbn [bind fst snd]. reflexivity.
Qed.
Lemma cns_scan_app_nonum src : forall (A l : list token) (idx : nat), nonum A ->
  cns_scan src idx (A ++ l) = (do r <- cns_scan src (idx + length A) l; Ok (A ++ fst r, snd r)).
Proof.
  induction A as [|a A IH]; intros l idx H.
  - cbn [app length]. rewrite Nat.add_0_r. destruct (cns_scan src idx l) as [[x y]|]; reflexivity.
  - inversion H as [|? ? Ha HA]; subst. cbn [app length]. rewrite (cns_scan_skip _ _ _ _ Ha), (IH l (S idx) HA).
    replace (S idx + length A) with (idx + S (length A)) by lia.
    destruct (cns_scan src (idx + S (length A)) l) as [[x y]|]; reflexivity.
Qed.

Lemma mshp_any_nil F F' q L : mshp F q [] L -> mshp F' q [] L.
Proof. intros H. inversion H; subst. constructor; assumption. Qed.

Lemma cns_scan_multi : forall q l L, mshp F_raw q l L ->
  forall (P post : text) (idx : nat), length P = q -> Forall has_sfx l ->
  exists L1, cns_scan (P ++ mtext l post) idx L = Ok (L1, numpos idx L1) /\ mshp F_mark q l L1.
Proof.
  induction 1 as [q L Hn Hw | q i r LA L Hn Hw Hsh IH]; intros P post idx HP Hsf.
  - exists L. split; [|constructor; assumption].
    rewrite (cns_scan_nonum _ L idx Hn), (numpos_nonum_nil L idx Hn). reflexivity.
  - inversion Hsf as [|? ? Hi Hr]; subst.
    unfold has_sfx in Hi.
    set (pre := i_pre i) in *. set (D := i_digits i) in *. set (a := i_a i) in *. set (b := i_b i) in *.
    cbn [mtext]. fold pre D a b.
    destruct (IH (P ++ pre ++ D ++ [a; b]) post (S (S (idx + length LA)))) as (L1 & HE & Hsh1).
    { unfold inst_len. fold pre D. rewrite !app_length. cbn [length]. unfold text, char in *. clearbody pre D a b. lia. }
    { exact Hr. }
    assert (Hsrc : (P ++ pre ++ D ++ [a; b]) ++ mtext r post = P ++ pre ++ D ++ [a; b] ++ mtext r post).
    { rewrite <- !app_assoc. reflexivity. }
    rewrite Hsrc in HE.
    exists (LA ++ F_mark (length P) i ++ L1). split.
    + rewrite (cns_scan_app_nonum _ LA _ idx Hn).
      unfold F_raw. fold pre D. cbn [app]. rewrite cns_scan_cons.
      unfold cns_head. cbn [tkind tspan].
      unfold span_len, sub_chk. cbn [sstart send].
      destruct (length P + length pre + length D + 2 <? length P + length pre + length D) eqn:E;
        [apply Nat.ltb_lt in E; lia|].
      replace (length P + length pre + length D + 2 - (length P + length pre + length D)) with 2 by lia.
      cbn [bind Nat.eqb negb].
      assert (Hc : get_content (mkspan (length P + length pre + length D) (length P + length pre + length D + 2))
                     (P ++ pre ++ D ++ [a; b] ++ mtext r post) = Ok [a; b]).
      { pose proof (get_content_mid (P ++ pre ++ D) [a; b] (mtext r post)) as G.
        rewrite !app_length in G. rewrite <- !app_assoc in G. rewrite Nat.add_assoc in G. apply G. discriminate. }
      change ([a; b] ++ mtext r post) with (a :: b :: mtext r post) in Hc, HE.
      unfold text, char in *. rewrite Hc. cbn [bind]. rewrite Hi. cbn [bind].
      rewrite cns_scan_skip by reflexivity. rewrite HE. cbn [bind fst snd].
      rewrite numpos_nonum by exact Hn. unfold F_mark, Ktok, Wtok. fold pre D. cbn [app numpos]. reflexivity.
    + constructor; assumption.
Qed.

Lemma slice_chk_mid {A} (X Y Z : list A) : slice_chk (X ++ Y ++ Z) (length X) (length X + length Y) = Ok Y.
Proof.
  unfold slice_chk. rewrite !app_length.
  destruct ((length X + length Y <? length X) || (length X + (length Y + length Z) <? length X + length Y)) eqn:E.
  - apply orb_true_iff in E. destruct E as [E|E]; apply Nat.ltb_lt in E; lia.
  - rewrite skipn_app_len. replace (length X + length Y - length X) with (length Y) by lia.
    rewrite firstn_app_len. reflexivity.
Qed.

Lemma ci_spans_multi : forall q l L, mshp F_mark q l L ->
  forall P : list token,
  exists L', ci_spans (numpos (length P) L) 2 (P ++ L) = Ok (P ++ L') /\ mshp F_ext q l L'
    /\ (forall k, numpos k L' = numpos k L).
Proof.
  induction 1 as [q L Hn Hw | q i r LA L Hn Hw Hsh IH]; intros P.
  - exists L. rewrite (numpos_nonum_nil L _ Hn). split; [reflexivity|]. split; [constructor; assumption | reflexivity].
  - set (Pa := P ++ LA).
    destruct (IH (Pa ++ [Mtok q i; Wtok q i])) as (L' & HE & Hsh' & Hnp).
    exists (LA ++ F_ext q i ++ L'). split; [|split].
    + rewrite numpos_nonum by exact Hn. cbn [F_mark app numpos]. change (is_number (Ktok q i)) with true.
      change (is_number (Wtok q i)) with false. cbn iota.
      cbn [ci_spans].
      unfold sub_chk at 1. destruct (length P + length LA + 2 <? 1) eqn:E; [apply Nat.ltb_lt in E; lia|]. cbn [bind].
      rewrite app_assoc. fold Pa. replace (length P + length LA) with (length Pa) by (unfold Pa; rewrite app_length; reflexivity).
      unfold nth_chk at 1. replace (length Pa + 2 - 1) with (S (length Pa)) by lia.
      rewrite nth_mid_w. cbn [bind].
      unfold set_span_end, nth_chk. rewrite nth_mid_n. cbn [bind]. rewrite set_nth_mid. cbn [bind].
      change (mktok (mkspan (sstart (tspan (Ktok q i))) (send (tspan (Wtok q i)))) (tkind (Ktok q i))) with (Mtok q i).
      replace (Pa ++ Mtok q i :: Wtok q i :: L) with ((Pa ++ [Mtok q i; Wtok q i]) ++ L) by (rewrite <- app_assoc; reflexivity).
      replace (S (S (length Pa))) with (length (Pa ++ [Mtok q i; Wtok q i])) by (rewrite app_length; cbn [length]; lia).
      rewrite HE. unfold Pa. rewrite <- !app_assoc. reflexivity.
    + constructor; assumption.
    + intros k. rewrite (numpos_nonum LA (F_ext q i ++ L') k Hn), (numpos_nonum LA (F_mark q i ++ L) k Hn).
      cbn [F_ext F_mark app numpos].
      change (is_number (Ktok q i)) with true. change (is_number (Mtok q i)) with true.
      change (is_number (Wtok q i)) with false. cbn iota. rewrite Hnp. reflexivity.
Qed.

Lemma last_error_cons2 {A} (x y : A) (l : list A) : last_error (x :: y :: l) = last_error (y :: l).
Proof. reflexivity. Qed.

Lemma ci_mid_cons2 (old : list token) (st a b : nat) (rest : list nat) :
  ci_mid old st (a :: b :: rest) =
  (do ta <- nth_chk old a; do mid <- slice_chk old (a + st) b; do more <- ci_mid old st (b :: rest); Ok (ta :: mid ++ more)).
Proof. reflexivity. Qed.

Lemma ci_mid_multi : forall q r L0, mshp F_ext q r L0 ->
  forall (P : list token) (n w : token),
  let old := P ++ n :: w :: L0 in
  let idxs := length P :: numpos (length P + 2) L0 in
  exists M Z v, ci_mid old 2 idxs = Ok (n :: M)
    /\ last_error idxs = Some v /\ slice_chk old (v + 2) (length old) = Ok Z
    /\ mshp F_merged q r (M ++ Z).
Proof.
  induction 1 as [q L Hn Hw | q i r LA L Hn Hw Hsh IH]; intros P n w old idxs.
  - exists [], L, (length P). subst old idxs. rewrite (numpos_nonum_nil L _ Hn). cbn [ci_mid last_error].
    unfold nth_chk. rewrite nth_error_mid. cbn [bind]. split; [reflexivity|]. split; [reflexivity|]. split.
    + replace (P ++ n :: w :: L) with ((P ++ [n; w]) ++ L) by (rewrite <- app_assoc; reflexivity).
      replace (length P + 2) with (length (P ++ [n; w])) by (rewrite app_length; cbn [length]; lia).
      apply slice_chk_suffix.
    + constructor; assumption.
  - set (P2 := P ++ n :: w :: LA).
    destruct (IH P2 (Mtok q i) (Wtok q i)) as (M2 & Z & v & HE & Hv & HZ & Hsh2).
    assert (Hold : old = P2 ++ Mtok q i :: Wtok q i :: L).
    { subst old P2. cbn [F_ext app]. rewrite <- !app_assoc. reflexivity. }
    assert (HlP2 : length P2 = length P + 2 + length LA).
    { subst P2. rewrite app_length. cbn [length]. lia. }
    assert (Hidx : idxs = length P :: length P2 :: numpos (length P2 + 2) L).
    { subst idxs. rewrite numpos_nonum by exact Hn. cbn [F_ext app numpos].
      change (is_number (Mtok q i)) with true. change (is_number (Wtok q i)) with false. cbn iota.
      rewrite HlP2. f_equal. f_equal. f_equal. lia. }
    exists (LA ++ Mtok q i :: M2), Z, v.
    rewrite Hidx, last_error_cons2. split; [|split; [exact Hv|split]].
    + rewrite ci_mid_cons2. unfold nth_chk at 1. subst old. rewrite nth_error_mid. cbn [bind].
      assert (Hmid : slice_chk (P ++ n :: w :: LA ++ F_ext q i ++ L) (length P + 2) (length P2) = Ok LA).
      { replace (P ++ n :: w :: LA ++ F_ext q i ++ L) with ((P ++ [n; w]) ++ LA ++ (F_ext q i ++ L))
          by (rewrite <- app_assoc; reflexivity).
        replace (length P + 2) with (length (P ++ [n; w])) by (rewrite app_length; cbn [length]; lia).
        replace (length P2) with (length (P ++ [n; w]) + length LA) by (rewrite HlP2, app_length; cbn [length]; lia).
        apply slice_chk_mid. }
      rewrite Hmid. cbn [bind]. rewrite Hold. rewrite HE. cbn [bind]. reflexivity.
    + rewrite Hold. exact HZ.
    + rewrite <- app_assoc. cbn [app].
      change (LA ++ Mtok q i :: M2 ++ Z) with (LA ++ F_merged q i ++ (M2 ++ Z)).
      constructor; assumption.
Qed.

Lemma condense_indices_multi q l L : mshp F_mark q l L ->
  exists L2, condense_indices (numpos 0 L) 2 L = Ok L2 /\ mshp F_merged q l L2.
Proof.
  intros Hsh. unfold condense_indices.
  destruct (ci_spans_multi q l L Hsh []) as (L' & HE & Hsh' & Hnp).
  cbn [app length] in HE. rewrite HE. cbn [bind]. rewrite <- (Hnp 0).
  inversion Hsh' as [q0 L0 Hn Hw | q0 i r LA L0 Hn Hw Hsh0]; subst.
  - exists L'. rewrite (numpos_nonum_nil L' 0 Hn). cbn [hd length ci_mid last_error bind].
    assert (E0 : slice_chk L' 0 0 = Ok []) by reflexivity. rewrite E0. cbn [bind].
    pose proof (slice_chk_suffix (@nil token) L') as S0. cbn [app length] in S0. rewrite S0. cbn [bind app].
    split; [reflexivity | constructor; assumption].
  - rewrite numpos_nonum by exact Hn. cbn [F_ext app numpos Nat.add].
    change (is_number (Mtok q i)) with true. change (is_number (Wtok q i)) with false. cbn iota.
    cbn [hd].
    rewrite slice_chk_prefix. cbn [bind].
    destruct (ci_mid_multi _ _ _ Hsh0 LA (Mtok q i) (Wtok q i)) as (M & Z & v & HM & Hv & HZ & Hsh2).
    cbn zeta in HM, Hv, HZ.
    replace (S (S (length LA))) with (length LA + 2) by lia.
    rewrite HM. cbn [bind]. rewrite Hv, HZ. cbn [bind].
    exists (LA ++ (Mtok q i :: M) ++ Z). split; [reflexivity|].
    change (LA ++ (Mtok q i :: M) ++ Z) with (LA ++ F_merged q i ++ (M ++ Z)).
    constructor; assumption.
Qed.

Lemma mshp_length2 F q i r L : (forall q i, 1 <= length (F q i)) -> mshp F q (i :: r) L -> length (F q i) <= length L.
Proof. intros _ H. inversion H; subst. rewrite !app_length. lia. Qed.

Lemma condense_number_suffixes_multi q l L (P post : text) :
  mshp F_raw q l L -> length P = q -> Forall has_sfx l ->
  exists L2, condense_number_suffixes (P ++ mtext l post) L = Ok L2 /\ mshp F_merged q l L2.
Proof.
  intros Hsh HP Hsf. unfold condense_number_suffixes.
  destruct (length L <? 2) eqn:E.
  - exists L. split; [reflexivity|]. destruct l as [|i r].
    + eapply mshp_any_nil. exact Hsh.
    + apply Nat.ltb_lt in E. inversion Hsh; subst. rewrite !app_length in E. cbn [F_raw length] in E. lia.
  - destruct (cns_scan_multi q l L Hsh P post 0 HP Hsf) as (L1 & HE & Hsh1).
    rewrite HE. cbn [bind fst snd]. apply condense_indices_multi. exact Hsh1.
Qed.

(* ------------------------------------------------------------------------------------------------ *)
(* after the merges: the Number tokens of the document, and the rule on them                          *)
(* ------------------------------------------------------------------------------------------------ *)
Fixpoint mlist (q : nat) (l : list inst) : list token :=
  match l with [] => [] | i :: r => Mtok q i :: mlist (q + inst_len i) r end.

Lemma filter_nonum (A : list token) : nonum A -> filter is_number A = [].
Proof. induction 1 as [|t r Ht _ IH]; [reflexivity|]. cbn [filter]. rewrite Ht. exact IH. Qed.

Lemma mshp_merged_facts : forall q l L, mshp F_merged q l L -> filter is_number L = mlist q l /\ wordwf L.
Proof.
  induction 1 as [q L Hn Hw | q i r LA L Hn Hw Hsh [IH1 IH2]].
  - split; [apply filter_nonum; exact Hn | exact Hw].
  - split.
    + rewrite filter_app, (filter_nonum _ Hn). cbn [F_merged app filter mlist].
      change (is_number (Mtok q i)) with true. cbn iota. rewrite IH1. reflexivity.
    + unfold wordwf in *. apply Forall_app. split; [exact Hw|]. cbn [F_merged app].
      constructor; [intros Hc; discriminate | exact IH2].
Qed.

Lemma rule_mlist : forall (l : list inst) (q : nat), Forall has_sfx l -> rule (mlist q l) = Some (mexpected q l).
Proof.
  induction l as [|i r IH]; intros q Hsf; [reflexivity|].
  inversion Hsf as [|? ? Hi Hr]; subst.
  cbn [mlist mexpected]. unfold has_sfx in Hi. unfold sfx_or in *. unfold suffix_of in *.
  destruct (from_chars [i_a i; i_b i]) as [sx|] eqn:Hfc.
  2:{ discriminate. }
  cbn [rule Mtok tkind tspan]. unfold sfx_or, suffix_of. rewrite Hfc.
  unfold pulled_by, span_new_with_len. cbn [sstart send].
  destruct (q + length (i_pre i) + length (i_digits i) + 2 <? 2) eqn:E; [apply Nat.ltb_lt in E; lia|].
  cbn [correct_suffix_for]. rewrite ordinal_spec.
  rewrite (IH (q + inst_len i) Hr). unfold verdict.
  replace (q + inst_len i) with (q + length (i_pre i) + length (i_digits i) + 2) by (unfold inst_len; lia).
  destruct (suffix_eqb sx (ordinal (parse_dec (i_digits i)))); [reflexivity|].
  cbn [app]. f_equal. f_equal. f_equal. f_equal; lia.
Qed.

Lemma segs_ok_sfx U : forall (l : list inst) (post : text), segs_ok U l post = true -> Forall has_sfx l.
Proof.
  induction l as [|i r IH]; intros post H; [constructor|].
  cbn [segs_ok] in H. rewrite !andb_true_iff in H. destruct H as [[[[_ _] Hs] _] Hr].
  constructor; [|eapply IH; exact Hr].
  unfold has_sfx, sfx_or. unfold suffix_of in *. destruct (from_chars [i_a i; i_b i]); [reflexivity | discriminate].
Qed.

(* ------------------------------------------------------------------------------------------------ *)
(* the theorem                                                                                        *)
(* ------------------------------------------------------------------------------------------------ *)

Theorem doc_multi_shape :
  forall (U : uni) (ut : text -> nat) (et : text -> nat -> option nat),
  ascii_laws U ->
  forall (l : list inst) (post : text),
  mctx_ok U l post = true ->
  exists T, doc_tokens U ut et (mtext l post) = Ok T /\ filter is_number T = mlist 0 l.
Proof.
  intros U ut et (L1 & L2 & L3 & L4) l post Hctx.
  unfold mctx_ok in Hctx. rewrite !andb_true_iff, negb_true_iff in Hctx. destruct Hctx as [[Hseg Hmark] Hdots].
  pose proof (segs_ok_no_at U ut et l post Hseg) as Hat.
  pose proof (segs_ok_sfx U l post Hseg) as Hsf.
  assert (Hq : forall j, quiet U ut et (skipn j (mtext l post))).
  { intros j. split; [|split].
    - apply url_none; [exact et|]. apply scheme_mark_skipn; first [exact Hmark | assumption].
    - apply email_none. apply Forall_skipn; first [exact Hat | assumption].
    - apply host_none; [exact ut | exact et |]. apply dots_ok_skipn; first [exact Hdots | assumption]. }
  destruct (lex_multi U ut et L1 L2 L3 L4 l post (length (mtext l post)) 0 Hseg Hq (le_n _)) as (T0 & HL & Hsh0).
  unfold doc_tokens, lex_doc. rewrite HL. cbn [bind].
  assert (Hraw_s : forall q i, Forall (fun t => is_space t = false) (F_raw q i)).
  { intros q i. repeat constructor. }
  assert (Hraw_n : forall q i, Forall (fun t => is_newline t = false) (F_raw q i)).
  { intros q i. repeat constructor. }
  destruct (condense_spaces_sub T0) as (T1 & E1 & S1). rewrite E1. cbn [bind].
  pose proof (sub_mshp is_space inert F_raw Hraw_s inert_spec _ _ _ Hsh0 _ S1) as Hsh1.
  destruct (condense_newlines_sub T1) as (T2 & E2 & S2). rewrite E2. cbn [bind].
  pose proof (sub_mshp is_newline inert F_raw Hraw_n inert_spec _ _ _ Hsh1 _ S2) as Hsh2.
  pose proof (sub_mshp is_newline inert F_raw Hraw_n inert_spec _ _ _ Hsh2 _ (breaks_sub T2)) as Hsh3.
  destruct (condense_number_suffixes_multi 0 l _ [] post Hsh3 eq_refl Hsf) as (T3 & E3 & Hsh4).
  cbn [app] in E3. rewrite E3. cbn [bind].
  destruct (mshp_merged_facts _ _ _ Hsh4) as [Hf3 Hw3].
  destruct (condense_contractions_sub T3 Hw3) as (T4 & E4 & S4 & Hw4). rewrite E4. cbn [bind].
  destruct (condense_initialisms_sub T4 Hw4) as (T5 & E5 & S5). rewrite E5.
  exists T5. split; [reflexivity|].
  rewrite (sub_filter wp is_word is_number _ _ S5).
  - rewrite (sub_filter wa is_word is_number _ _ S4); [exact Hf3 | |].
    + intros x Hx. unfold wa in Hx. apply orb_true_iff in Hx. destruct Hx as [Hx|Hx];
        unfold is_word, is_apostrophe, is_number in *; destruct (tkind x); congruence.
    + apply not_number_word.
  - intros x Hx. unfold wp in Hx. apply orb_true_iff in Hx. destruct Hx as [Hx|Hx].
    + apply not_number_w1. exact Hx.
    + unfold is_period, is_number in *. destruct (tkind x); congruence.
  - apply not_number_word.
Qed.

Theorem lint_list_thm :
  forall (U : uni) (ut : text -> nat) (et : text -> nat -> option nat) (pp : text -> list token -> list token),
  ascii_laws U -> numbers_preserved pp ->
  forall (l : list inst) (post : text),
  mctx_ok U l post = true ->
  lint_text U ut et pp (mtext l post) = Ok (Some (mexpected 0 l)).
Proof.
  intros U ut et pp HU Hpp l post Hctx.
  destruct (doc_multi_shape U ut et HU l post Hctx) as (T & HT & Hf).
  unfold lint_text. rewrite HT. cbn [bind]. f_equal.
  rewrite <- rule_filter, Hpp, Hf. apply rule_mlist.
  unfold mctx_ok in Hctx. rewrite !andb_true_iff in Hctx. destruct Hctx as [[Hseg _] _].
  eapply segs_ok_sfx. exact Hseg.
Qed.

(* "one lint per wrong ordinal": the number of lints is the number of instances whose suffix is wrong *)
Lemma mexpected_count : forall (l : list inst) (off : nat), length (mexpected off l) = length (filter wrongb l).
Proof.
  induction l as [|i r IH]; intros off; [reflexivity|].
  cbn [mexpected filter]. rewrite app_length, IH. unfold wrongb, verdict.
  destruct (suffix_of i) as [sx|]; [|reflexivity].
  destruct (suffix_eqb sx (ordinal (parse_dec (i_digits i)))); reflexivity.
Qed.

(* k = 1: the class is ctx_ok plus the hypotheses of C17_lint_digits, the text and the verdict are the same *)
Lemma mctx_ok_one (U : uni) (pre D : text) (a b : N) (sx : suffix) (post : text) :
  D <> [] -> Forall (fun c => is_ascii_digit c = true) D -> (parse_dec D < two53)%N ->
  from_chars [a; b] = Some sx -> ctx_ok U pre D [a; b] post = true ->
  mctx_ok U [mkinst pre D a b] post = true
  /\ mtext [mkinst pre D a b] post = pre ++ D ++ [a; b] ++ post
  /\ mexpected 0 [mkinst pre D a b] = expected pre D sx (parse_dec D).
Proof.
  intros Hne HD Hlt Hfc Hctx. split; [|split].
  - unfold ctx_ok in Hctx. rewrite !andb_true_iff in Hctx. destruct Hctx as [[[[[H1 H2] H3] H4] H5] H6].
    unfold mctx_ok. cbn [segs_ok mtext i_pre i_digits i_a i_b]. unfold suffix_of. cbn [i_a i_b]. rewrite Hfc.
    unfold pre_okb, digits_okb, tail_okb. unfold text, char in *. rewrite H1, H2, H3, H5, H6.
    assert (E1 : (length D =? 0) = false) by (destruct D; [contradiction | reflexivity]).
    assert (E2 : forallb is_ascii_digit D = true) by (apply forallb_forall; rewrite Forall_forall in HD; exact HD).
    assert (E3 : (parse_dec D <? two53)%N = true) by (apply N.ltb_lt; exact Hlt).
    rewrite E1, E2, E3. cbn [negb andb]. destruct post as [|c post']; [reflexivity | rewrite H4; reflexivity].
  - reflexivity.
  - cbn [mexpected i_pre i_digits]. unfold suffix_of. cbn [i_a i_b]. rewrite Hfc, app_nil_r. reflexivity.
Qed.

Lemma digits_okb_render (n : N) : (n < two53)%N -> digits_okb (render n) = true.
Proof.
  intros H. unfold digits_okb. rewrite parse_render.
  assert (E1 : (length (render n) =? 0) = false).
  { pose proof (render_nonempty n). destruct (render n); [contradiction | reflexivity]. }
  assert (E2 : forallb is_ascii_digit (render n) = true).
  { apply forallb_forall. pose proof (render_digits n) as HD. rewrite Forall_forall in HD. exact HD. }
  rewrite E1, E2. cbn [negb andb]. apply N.ltb_lt. exact H.
Qed.

(* the instance list of Example C17_ex_list (Properties/C17.v) *)
Local Open Scope string_scope.
Definition ex_list : list inst :=
  [mkinst [] (txt "3") 116 104; mkinst (txt " ") (txt "2") 115 116; mkinst (txt ", ") (txt "11") 116 104;
   mkinst (txt " and ") (txt "113") 114 100; mkinst (txt ", ") (txt "0021") 83 84]%N.
