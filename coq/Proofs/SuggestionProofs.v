(* SuggestionProofs.v — Suggestion::apply is a well-defined local edit (C03), and a chain of
   non-overlapping edits applied back to front is the simultaneous splice (C13). *)
Require Import Base Suggestion ListLemmas.

(* ---------- list helpers ---------- *)
Lemma nth_error_mid {A} (a b : list A) x : nth_error (a ++ x :: b) (length a) = Some x.
Proof. rewrite nth_error_app2 by lia. now rewrite Nat.sub_diag. Qed.

Lemma set_nth_mid {A} (a b : list A) y x : set_nth (a ++ y :: b) (length a) x = Ok (a ++ x :: b).
Proof. induction a as [|h t IH]; cbn [set_nth app length]; [reflexivity|]. now rewrite IH. Qed.

Lemma set_nth_oob {A} (l : list A) i x : length l <= i -> set_nth l i x = Panic PIndex.
Proof.
  revert i. induction l as [|h t IH]; intros i H; cbn [set_nth]; [reflexivity|].
  destruct i as [|i']; cbn in H; [lia|]. rewrite IH by lia. reflexivity.
Qed.

Lemma decompose {A} (l : list A) a b :
  a <= b <= length l ->
  l = firstn a l ++ slice l a b ++ skipn b l /\ length (firstn a l) = a /\ length (slice l a b) = b - a
  /\ length (skipn b l) = length l - b.
Proof.
  intros H. unfold slice. repeat split.
  - rewrite <- (firstn_skipn a l) at 1. f_equal.
    rewrite <- (firstn_skipn (b - a) (skipn a l)) at 1. f_equal.
    rewrite skipn_skipn. f_equal. lia.
  - rewrite firstn_length. lia.
  - rewrite firstn_length, skipn_length. lia.
  - apply skipn_length.
Qed.

Lemma skipn_app_exact {A} (a b : list A) n : n = length a -> skipn n (a ++ b) = b.
Proof. intros ->. rewrite skipn_app, skipn_all, Nat.sub_diag. reflexivity. Qed.

Lemma firstn_app_exact {A} (a b : list A) n : n = length a -> firstn n (a ++ b) = a.
Proof. intros ->. rewrite firstn_app, firstn_all, Nat.sub_diag. cbn. apply app_nil_r. Qed.

(* ---------- the two loops ---------- *)
Lemma overwrite_spec (cs : text) : forall (pre mid post : text),
  length mid = length cs ->
  overwrite (pre ++ mid ++ post) (length pre) cs = Ok (pre ++ cs ++ post).
Proof.
  induction cs as [|c cs IH]; intros pre mid post Hl.
  - destruct mid; [reflexivity|discriminate].
  - destruct mid as [|m mid']; [discriminate|]. cbn [overwrite app].
    rewrite set_nth_mid. cbn [bind].
    replace (pre ++ c :: mid' ++ post) with ((pre ++ [c]) ++ mid' ++ post) by (now rewrite <- app_assoc).
    replace (S (length pre)) with (length (pre ++ [c])) by (rewrite app_length; cbn; lia).
    rewrite IH by (cbn in Hl; lia). now rewrite <- app_assoc.
Qed.

Lemma shift_left_spec : forall (rest front gap : text),
  exists gap', length gap' = length gap /\
    shift_left (length rest) (length front + length gap) (length gap) (front ++ gap ++ rest)
    = Ok (front ++ rest ++ gap').
Proof.
  induction rest as [|c rest IH]; intros front gap.
  - exists gap. split; [reflexivity|]. cbn. now rewrite app_nil_r.
  - cbn [length shift_left].
    unfold nth_chk. rewrite app_assoc.
    replace (length front + length gap) with (length (front ++ gap)) by apply app_length.
    rewrite nth_error_mid. cbn [bind].
    unfold sub_chk. destruct (length (front ++ gap) <? length gap) eqn:E.
    { apply Nat.ltb_lt in E. rewrite app_length in E. lia. }
    cbn [bind]. rewrite app_length. replace (length front + length gap - length gap) with (length front) by lia.
    rewrite <- app_assoc.
    (* the write lands on the head of gap ++ [c] *)
    replace (gap ++ c :: rest) with ((gap ++ [c]) ++ rest) by (now rewrite <- app_assoc).
    destruct (gap ++ [c]) as [|g gt] eqn:G; [destruct gap; discriminate|].
    cbn [app]. rewrite set_nth_mid. cbn [bind].
    assert (length gt = length gap) as Hgt.
    { assert (length (g :: gt) = length gap + 1) as HH by (rewrite <- G, app_length; reflexivity). cbn in HH. lia. }
    replace (front ++ c :: gt ++ rest) with ((front ++ [c]) ++ gt ++ rest) by (now rewrite <- app_assoc).
    replace (S (length front + length gap)) with (length (front ++ [c]) + length gt)
      by (rewrite app_length; cbn; lia).
    rewrite <- Hgt. destruct (IH (front ++ [c]) gt) as [gap' [Hl Heq]].
    exists gap'. split; [exact Hl|]. rewrite Heq. now rewrite <- app_assoc.
Qed.

(* ---------- apply = splice, for every span inside the text ---------- *)
Lemma apply_parts s (P M S : text) :
  apply s (mkspan (length P) (length P + length M)) (P ++ M ++ S) = Ok (P ++ repl s M ++ S).
Proof.
  assert (span_len (mkspan (length P) (length P + length M)) = Ok (length M)) as Hlen.
  { unfold span_len, sub_chk. cbn [sstart send].
    destruct (length P + length M <? length P) eqn:E; [apply Nat.ltb_lt in E; lia|].
    f_equal. lia. }
  destruct s as [cs|cs|]; unfold apply; cbn [repl sstart send].
  - rewrite Hlen. cbn [bind]. destruct (length cs =? length M) eqn:E.
    + apply Nat.eqb_eq in E. apply overwrite_spec. lia.
    + unfold split_off. rewrite !app_length.
      destruct (length P + (length M + length S) <? length P) eqn:E2; [apply Nat.ltb_lt in E2; lia|].
      cbn [bind]. rewrite firstn_app_exact by reflexivity. rewrite skipn_app_exact by reflexivity.
      rewrite skipn_app_exact by reflexivity. reflexivity.
  - unfold split_off. rewrite !app_length.
    destruct (length P + (length M + length S) <? length P + length M) eqn:E2; [apply Nat.ltb_lt in E2; lia|].
    cbn [bind]. rewrite (app_assoc P M S).
    rewrite firstn_app_exact by (now rewrite app_length).
    rewrite skipn_app_exact by (now rewrite app_length).
    now rewrite <- !app_assoc.
  - rewrite Hlen. cbn [bind].
    destruct (shift_left_spec S P M) as [gap' [Hg Heq]].
    replace (length (P ++ M ++ S) - (length P + length M)) with (length S) by (rewrite !app_length; lia).
    rewrite Heq. cbn [bind]. unfold sub_chk. rewrite !app_length, Hg.
    destruct (length P + (length S + length M) <? length M) eqn:E; [apply Nat.ltb_lt in E; lia|].
    cbn [bind]. f_equal. rewrite app_assoc. cbn [app].
    apply firstn_app_exact. rewrite app_length. lia.
Qed.

Theorem apply_spec s sp src :
  span_in (length src) sp -> apply s sp src = Ok (splice s sp src).
Proof.
  destruct sp as [a b]. unfold span_in, splice. cbn [sstart send]. intros [Hab Hb].
  destruct (decompose src a b (conj Hab Hb)) as [Hsrc [HP [HM HS]]].
  remember (firstn a src) as P. remember (slice src a b) as M. remember (skipn b src) as S.
  clear HeqP HeqM HeqS. subst src.
  replace a with (length P) at 1 by lia. replace b with (length P + length M) at 1 by lia.
  apply apply_parts.
Qed.

Corollary apply_total s sp src : span_in (length src) sp -> is_ok (apply s sp src) = true.
Proof. intros H. now rewrite apply_spec. Qed.

Corollary apply_prefix s sp src t :
  span_in (length src) sp -> apply s sp src = Ok t -> firstn (sstart sp) t = firstn (sstart sp) src.
Proof.
  intros H E. rewrite apply_spec in E by exact H. injection E as <-. unfold splice.
  apply firstn_app_exact. destruct H as [H1 H2]. rewrite firstn_length. lia.
Qed.

Definition new_end (s : suggestion) (sp : span) : nat :=
  sstart sp + length (repl s (repeat 0%N (send sp - sstart sp))).

Lemma repl_length s f1 f2 : length f1 = length f2 -> length (repl s f1) = length (repl s f2).
Proof. destruct s; cbn; intros H; rewrite ?app_length; lia. Qed.

Corollary apply_suffix s sp src t :
  span_in (length src) sp -> apply s sp src = Ok t -> skipn (new_end s sp) t = skipn (send sp) src.
Proof.
  intros H E. rewrite apply_spec in E by exact H. injection E as <-. unfold splice, new_end.
  destruct H as [H1 H2]. rewrite app_assoc. apply skipn_app_exact.
  rewrite app_length, firstn_length. f_equal; [lia|].
  apply repl_length. rewrite repeat_length. unfold slice. rewrite firstn_length, skipn_length. lia.
Qed.

Corollary apply_length s sp src t :
  span_in (length src) sp -> apply s sp src = Ok t ->
  length t + (send sp - sstart sp) = length src + length (repl s (slice src (sstart sp) (send sp))).
Proof.
  intros H E. rewrite apply_spec in E by exact H. injection E as <-. unfold splice.
  destruct H as [H1 H2]. rewrite !app_length, firstn_length, skipn_length. lia.
Qed.

(* error branch, covered explicitly: a span that ends beyond the text is rejected by
   ReplaceWith/InsertAfter (the implementation panics).  Remove is NOT covered: its range loop is
   empty and truncate() silently shortens the text — see remove_beyond_end_no_panic. *)
Lemma overwrite_oob cs : forall src at_, cs <> [] -> length src < at_ + length cs ->
  exists w, overwrite src at_ cs = Panic w.
Proof.
  induction cs as [|c cs IH]; intros src at_ Hne H; [congruence|]. cbn [overwrite].
  destruct (set_nth src at_ c) as [src'|w] eqn:E; [|exists w; reflexivity]. cbn [bind].
  assert (length src' = length src) as Hl.
  { destruct (Nat.lt_ge_cases at_ (length src)) as [Hlt|Hge]; [|rewrite set_nth_oob in E by lia; discriminate].
    rewrite <- (firstn_skipn at_ src) in E.
    destruct (skipn at_ src) as [|y r] eqn:Sk.
    { apply (f_equal (@length _)) in Sk. rewrite skipn_length in Sk. cbn in Sk. lia. }
    assert (length (firstn at_ src) = at_) as Hf by (rewrite firstn_length; lia).
    rewrite <- Hf in E at 2. rewrite set_nth_mid in E. injection E as <-.
    rewrite <- (firstn_skipn at_ src) at 2. rewrite Sk, !app_length. reflexivity. }
  destruct cs as [|c' cs'].
  - cbn in H. destruct (Nat.lt_ge_cases at_ (length src)) as [Hlt|Hge]; [lia|].
    rewrite set_nth_oob in E by lia. discriminate.
  - apply IH; [discriminate|]. cbn [length] in *. lia.
Qed.


(* the precise rejection statement that IS true of the code *)
Theorem apply_rejects s sp src :
  sstart sp <= send sp ->
  match s with
  | InsertAfter _ => length src < send sp
  | ReplaceWith cs => (length cs = send sp - sstart sp /\ cs <> [] /\ length src < send sp)
                      \/ (length cs <> send sp - sstart sp /\ length src < sstart sp)
  | Remove => False
  end ->
  exists w, apply s sp src = Panic w.
Proof.
  destruct sp as [a b]. cbn [sstart send]. intros Hab H.
  destruct s as [cs|cs|]; [| |contradiction].
  - unfold apply, span_len, sub_chk. cbn [sstart send].
    destruct (b <? a) eqn:E; [apply Nat.ltb_lt in E; lia|]. cbn [bind].
    destruct H as [[Hl [Hne Hb]]|[Hl Ha]].
    + rewrite Hl, Nat.eqb_refl. apply overwrite_oob; [exact Hne|lia].
    + destruct (length cs =? b - a) eqn:E2; [apply Nat.eqb_eq in E2; lia|].
      unfold split_off. destruct (length src <? a) eqn:E3; [eexists; reflexivity|].
      apply Nat.ltb_ge in E3. lia.
  - unfold apply, split_off. cbn [send].
    destruct (length src <? b) eqn:E3; [eexists; reflexivity|]. apply Nat.ltb_ge in E3. lia.
Qed.

(* ---------- a chain of edits applied back to front = the simultaneous splice ---------- *)
Inductive chain (n : nat) : nat -> list (span * suggestion) -> Prop :=
| chain_nil pos : pos <= n -> chain n pos []
| chain_cons pos sp s es :
    pos <= sstart sp -> sstart sp <= send sp -> send sp <= n ->
    chain n (send sp) es -> chain n pos ((sp, s) :: es).

Lemma chain_pos n pos es : chain n pos es -> pos <= n.
Proof. destruct 1; lia. Qed.

Lemma firstn_slice {A} (l : list A) a b : a <= b -> firstn b l = firstn a l ++ slice l a b.
Proof.
  intros H. rewrite <- (firstn_skipn a (firstn b l)). f_equal.
  - rewrite firstn_firstn. f_equal. lia.
  - unfold slice. apply skipn_firstn_comm.
Qed.

Theorem back_to_front_spec src : forall es pos,
  chain (length src) pos es ->
  apply_back_to_front src es = Ok (firstn pos src ++ splice_sim pos src es).
Proof.
  induction es as [|[sp s] es IH]; intros pos C.
  - cbn. now rewrite firstn_skipn.
  - inversion C as [|? ? ? ? Hps Hwf Hn C']; subst.
    cbn [apply_back_to_front fold_right fst snd] in *.
    fold (apply_back_to_front src es). rewrite (IH _ C'). cbn [bind splice_sim].
    set (rest := splice_sim (send sp) src es).
    destruct sp as [a b]. cbn [sstart send] in *.
    rewrite (firstn_slice src a b Hwf). rewrite (firstn_slice src pos a Hps).
    set (P := firstn pos src ++ slice src pos a). set (M := slice src a b).
    assert (length P = a) as HP.
    { unfold P, slice. rewrite app_length, !firstn_length, skipn_length. lia. }
    assert (length M = b - a) as HM.
    { unfold M, slice. rewrite firstn_length, skipn_length. lia. }
    rewrite <- app_assoc. fold M.
    replace a with (length P) at 1 by exact HP.
    replace b with (length P + length M) at 1 by lia.
    rewrite apply_parts. unfold P. now rewrite <- !app_assoc.
Qed.
