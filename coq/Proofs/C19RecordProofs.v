(* C19RecordProofs.v — the reader of Model/C19Record.v inverts its writer on every value of the Rust types whose Numbers
   are finite, under ONE hypothesis: serde_json's f64 parser inverts its f64 printer on finite floats (`float_rt`).
   Consequences: a serialised record is one line; the log theorems of StatsProofs.v instantiated with the concrete
   Record; summarize over the records read back. *)
From Coq Require Import String Ascii.
From Coq Require Import List ZArith DecimalN DecimalPos Lia.
Require Import Base JsonEscape Stats Tables_statslog StatsProofs C19Record.
Import ListNotations.
Local Open Scope N_scope.

Ltac by_comp := vm_compute; reflexivity.

(* ---------- what "the reader inverts the writer" means for one codec ---------- *)
Definition codec_ok {A} (c : codec A) : Prop := forall x, wf c x ->
  Forall ge32 (enc c x) /\ forall rest, delimb rest = true -> dec c (enc c x ++ rest) = Some (x, rest).
(* the first byte of every encoding satisfies p (never `n` of null; never the closing bracket of a sequence) *)
Definition hdb (p : byte -> bool) (l : bytes) : bool := match l with h :: _ => p h | [] => false end.
Definition codec_hd {A} (p : byte -> bool) (c : codec A) : Prop := forall x, wf c x -> hdb p (enc c x) = true.
Definition not_n (h : byte) : bool := negb (h =? 110).

Definition pre_okb (p : bytes) : bool := forallb printableb p.
Definition post_okb (q : bytes) : bool := forallb printableb q && hdb (fun h => (h =? 44) || (h =? 125) || (h =? 93)) q.

Lemma printable_ge32 l : forallb printableb l = true -> Forall ge32 l.
Proof.
  induction l as [|a l IH]; cbn [forallb]; intros H; [constructor|].
  apply andb_prop in H. destruct H as [H1 H2]. constructor; [|apply IH, H2].
  unfold printableb in H1. apply andb_prop in H1. destruct H1 as [H1 _]. apply N.leb_le in H1. exact H1.
Qed.

Lemma strip_app p s : strip p (p ++ s) = Some s.
Proof. induction p as [|a p IH]; cbn [strip app]; [reflexivity|]. rewrite N.eqb_refl. exact IH. Qed.

Fixpoint diffb (p q : bytes) : bool :=
  match p, q with a :: p', c :: q' => if a =? c then diffb p' q' else true | _, _ => false end.
Lemma strip_diff p q X : diffb p q = true -> strip p (q ++ X) = None.
Proof.
  revert q. induction p as [|a p IH]; intros [|c q] H; cbn [diffb] in H; try discriminate.
  cbn [strip app]. destruct (a =? c); [apply IH, H|reflexivity].
Qed.

Lemma post_delim q rest : post_okb q = true -> delimb (q ++ rest) = true.
Proof.
  unfold post_okb. intros H. apply andb_prop in H. destruct H as [_ H]. destruct q as [|d q]; [discriminate|]. exact H.
Qed.

(* ---------- combinators ---------- *)
Lemma ok_pre {A} p (c : codec A) : pre_okb p = true -> codec_ok c -> codec_ok (c_pre p c).
Proof.
  intros Hp Hc x Hx. destruct (Hc x Hx) as [G R]. split.
  - cbn [enc c_pre]. apply Forall_app. split; [apply printable_ge32, Hp|exact G].
  - intros rest Hr. cbn [enc dec c_pre]. rewrite <- app_assoc, strip_app. apply R, Hr.
Qed.
Lemma ok_post {A} (c : codec A) q : post_okb q = true -> codec_ok c -> codec_ok (c_post c q).
Proof.
  intros Hq Hc x Hx. destruct (Hc x Hx) as [G R]. split.
  - cbn [enc c_post]. apply Forall_app. split; [exact G|]. apply printable_ge32.
    unfold post_okb in Hq. apply andb_prop in Hq. apply Hq.
  - intros rest Hr. cbn [enc dec c_post]. rewrite <- app_assoc, (R _ (post_delim q rest Hq)), strip_app. reflexivity.
Qed.
Lemma ok_sep {A B} (ca : codec A) sep (cb : codec B) :
  post_okb sep = true -> codec_ok ca -> codec_ok cb -> codec_ok (c_sep ca sep cb).
Proof.
  intros Hs Ha Hb [a y] [Hwa Hwb]. cbn [fst snd] in Hwa, Hwb.
  destruct (Ha a Hwa) as [Ga Ra]. destruct (Hb y Hwb) as [Gb Rb]. split.
  - cbn [enc c_sep fst snd]. apply Forall_app. split; [exact Ga|]. apply Forall_app. split; [|exact Gb].
    apply printable_ge32. unfold post_okb in Hs. apply andb_prop in Hs. apply Hs.
  - intros rest Hr. cbn [enc dec c_sep fst snd]. rewrite <- !app_assoc.
    rewrite (Ra _ (post_delim sep _ Hs)), strip_app, (Rb _ Hr). reflexivity.
Qed.
Lemma null_ge32 : Forall ge32 (jb "null").
Proof. apply printable_ge32. by_comp. Qed.
Lemma ok_opt {A} (c : codec A) : codec_hd not_n c -> codec_ok c -> codec_ok (c_opt c).
Proof.
  intros Hn Hc [a|] Hx; cbn [wf c_opt] in Hx.
  - destruct (Hc a Hx) as [G R]. split; [exact G|]. intros rest Hr. cbn [enc dec c_opt].
    specialize (Hn a Hx). destruct (enc c a) as [|h t] eqn:E; [discriminate|]. cbn [hdb] in Hn.
    unfold not_n in Hn. apply negb_true_iff, N.eqb_neq in Hn.
    assert (S : strip (jb "null") ((h :: t) ++ rest) = None).
    { change (jb "null") with [110; 117; 108; 108]. cbn [strip app]. destruct (N.eqb_spec 110 h) as [e|_]; [congruence|reflexivity]. }
    rewrite S, (R _ Hr). reflexivity.
  - split; [exact null_ge32|]. intros rest _. cbn [enc dec c_opt]. rewrite strip_app. reflexivity.
Qed.
Lemma ok_conv {A B} (c : codec A) (f : A -> option B) (g : B -> A) (wfb : B -> Prop) :
  codec_ok c -> (forall y, wfb y -> wf c (g y) /\ f (g y) = Some y) -> codec_ok (c_conv c f g wfb).
Proof.
  intros Hc L y Hy. destruct (L y Hy) as [W E]. destruct (Hc _ W) as [G R]. split; [exact G|].
  intros rest Hr. cbn [enc dec c_conv]. rewrite (R _ Hr), E. reflexivity.
Qed.
Lemma ok_lit l : forallb printableb l = true -> codec_ok (c_lit l).
Proof.
  intros H [] _. split; [apply printable_ge32, H|]. intros rest _. cbn [enc dec c_lit]. rewrite strip_app. reflexivity.
Qed.
Lemma ok_bool : codec_ok c_bool.
Proof.
  intros [|] _; (split; [apply printable_ge32; by_comp|]); intros rest _; reflexivity.
Qed.

(* first bytes *)
Lemma hd_pre {A} f p (c : codec A) : hdb f p = true -> codec_hd f (c_pre p c).
Proof. intros H x _. cbn [enc c_pre]. destruct p; [discriminate|exact H]. Qed.
Lemma hd_post {A} f (c : codec A) q : codec_hd f c -> codec_hd f (c_post c q).
Proof. intros H x Hx. specialize (H x Hx). cbn [enc c_post]. destruct (enc c x); [discriminate|exact H]. Qed.
Lemma hd_conv {A B} p (c : codec A) (f : A -> option B) g (wfb : B -> Prop) :
  (forall y, wfb y -> wf c (g y)) -> codec_hd p c -> codec_hd p (c_conv c f g wfb).
Proof. intros W H y Hy. cbn [enc c_conv]. apply H, W, Hy. Qed.
Lemma hd_lit p l : hdb p l = true -> codec_hd p (c_lit l).
Proof. intros H x _. exact H. Qed.
Lemma hd_bool : codec_hd not_n c_bool.
Proof. intros [|] _; reflexivity. Qed.
Lemma hd_str p : p 34 = true -> codec_hd p c_str.
Proof. intros H s _. exact H. Qed.

(* ---------- strings ---------- *)
Lemma dec_str_ser s rest : Forall scalar s -> dec_str (ser_str s ++ rest) = Some (s, rest).
Proof.
  intros H. unfold ser_str, dec_str. cbn [app]. rewrite N.eqb_refl, <- app_assoc. cbn [app].
  rewrite unescape_escape, (utf8_roundtrip s H). reflexivity.
Qed.
Lemma ok_str : codec_ok c_str.
Proof. intros s Hs. split; [apply ser_str_ge32|]. intros rest _. apply dec_str_ser, Hs. Qed.

(* ---------- integers ---------- *)
Lemma delim_not_digit c t : delimb (c :: t) = true -> is_digit c = false.
Proof.
  cbn [delimb]. intros H. apply orb_prop in H. destruct H as [H|H]; [apply orb_prop in H; destruct H as [H|H]|];
    apply N.eqb_eq in H; subst c; reflexivity.
Qed.
Lemma bytes_uint_app d rest : delimb rest = true -> bytes_uint (uint_bytes d ++ rest) = (d, rest).
Proof.
  intros Hr. induction d; cbn [uint_bytes app bytes_uint]; try (rewrite IHd; reflexivity).
  destruct rest as [|c t]; [reflexivity|]. cbn [bytes_uint]. rewrite (delim_not_digit c t Hr). reflexivity.
Qed.
Lemma uint_bytes_digits d : Forall (fun c => is_digit c = true) (uint_bytes d).
Proof. induction d; cbn [uint_bytes]; constructor; try reflexivity; exact IHd. Qed.
Lemma to_uint_nonnil n : N.to_uint n <> Decimal.Nil.
Proof. destruct n; [discriminate|apply DecimalPos.Unsigned.to_uint_nonnil]. Qed.
Lemma enc_N_head n : exists h t, enc_N n = h :: t /\ is_digit h = true.
Proof.
  unfold enc_N. pose proof (to_uint_nonnil n) as H. pose proof (uint_bytes_digits (N.to_uint n)) as D.
  destruct (N.to_uint n); try congruence; cbn [uint_bytes] in *; inversion D; subst; eauto.
Qed.
Lemma digit_ge32 c : is_digit c = true -> ge32 c.
Proof. unfold is_digit, ge32. intros H. apply andb_prop in H. destruct H as [H _]. apply N.leb_le in H. lia. Qed.
Lemma dec_enc_N n rest : delimb rest = true -> dec_N (enc_N n ++ rest) = Some (n, rest).
Proof.
  intros Hr. unfold dec_N, enc_N. rewrite (bytes_uint_app _ _ Hr).
  pose proof (to_uint_nonnil n) as H. pose proof (DecimalN.Unsigned.of_to n) as E.
  destruct (N.to_uint n); try congruence; rewrite E; reflexivity.
Qed.
Lemma ok_N : codec_ok c_N.
Proof.
  intros n _. split.
  - cbn [enc c_N]. unfold enc_N. eapply Forall_impl; [|apply uint_bytes_digits]. intros c. apply digit_ge32.
  - intros rest Hr. apply dec_enc_N, Hr.
Qed.
Lemma digit_not_n h : is_digit h = true -> not_n h = true.
Proof.
  unfold is_digit, not_n. intros H. apply andb_prop in H. destruct H as [_ H]. apply N.leb_le in H.
  apply negb_true_iff, N.eqb_neq. lia.
Qed.
Lemma hd_N : codec_hd not_n c_N.
Proof. intros n _. cbn [enc c_N]. destruct (enc_N_head n) as [h [t [E D]]]. rewrite E. cbn [hdb]. apply digit_not_n, D. Qed.
Lemma ok_below bound : codec_ok (c_below bound).
Proof.
  apply ok_conv; [apply ok_N|]. intros y Hy. split; [exact I|]. apply N.ltb_lt in Hy. rewrite Hy. reflexivity.
Qed.
Lemma hd_below bound : codec_hd not_n (c_below bound).
Proof. apply hd_conv; [intros; exact I|apply hd_N]. Qed.
Lemma ok_i64 : codec_ok c_i64.
Proof.
  intros z Hz. cbn [wf c_i64] in Hz. split.
  - cbn [enc c_i64]. destruct z as [|p|p]; cbn [enc_Z].
    + constructor; [unfold ge32; lia|constructor].
    + apply (ok_N (Npos p) I).
    + constructor; [unfold ge32; lia|apply (ok_N (Npos p) I)].
  - intros rest Hr. cbn [enc dec c_i64]. destruct z as [|p|p]; cbn [enc_Z].
    + unfold dec_Z. cbn [app]. change (48 =? 45) with false. cbv iota.
      change (48 :: rest) with (enc_N 0 ++ rest). rewrite (dec_enc_N _ _ Hr). reflexivity.
    + destruct (enc_N_head (Npos p)) as [h [t [E D]]]. unfold dec_Z. rewrite E. cbn [app].
      assert (h =? 45 = false) as ->.
      { unfold is_digit in D. apply andb_prop in D. destruct D as [D _]. apply N.leb_le in D. apply N.eqb_neq. lia. }
      change (h :: t ++ rest) with ((h :: t) ++ rest). rewrite <- E, (dec_enc_N _ _ Hr).
      change (Z.of_N (Npos p)) with (Zpos p). rewrite Hz. reflexivity.
    + unfold dec_Z. cbn [app]. rewrite N.eqb_refl, (dec_enc_N _ _ Hr).
      change (- Z.of_N (Npos p))%Z with (Zneg p). rewrite Hz. reflexivity.
Qed.

(* ---------- enums with unit variants ---------- *)
Fixpoint nodupb (names : list text) : bool :=
  match names with [] => true | x :: t => negb (existsb (fun y => bytes_eqb y x) t) && nodupb t end.
Definition names_okb (names : list text) : bool := forallb (forallb scalarb) names && nodupb names.
Lemma bytes_eqb_refl x : bytes_eqb x x = true.
Proof. induction x as [|a x IH]; cbn [bytes_eqb]; [reflexivity|]. rewrite N.eqb_refl. exact IH. Qed.
Lemma scalarb_scalar c : scalarb c = true -> scalar c.
Proof.
  unfold scalarb, scalar. intros H. apply orb_prop in H. destruct H as [H|H].
  - left. apply N.ltb_lt, H.
  - right. apply andb_prop in H. destruct H as [H1 H2]. apply N.leb_le in H1. apply N.ltb_lt in H2. split; assumption.
Qed.
Lemma index_of_nth names : nodupb names = true -> forall i, (i < length names)%nat -> index_of (nth i names []) names = Some i.
Proof.
  induction names as [|x t IH]; intros Hn i Hi; [cbn in Hi; lia|].
  cbn [nodupb] in Hn. apply andb_prop in Hn. destruct Hn as [Hx Ht]. apply negb_true_iff in Hx.
  destruct i as [|i]; cbn [nth index_of].
  - rewrite bytes_eqb_refl. reflexivity.
  - cbn [length] in Hi. assert (Hi' : (i < length t)%nat) by lia.
    assert (bytes_eqb (nth i t []) x = false) as ->.
    { destruct (bytes_eqb (nth i t []) x) eqn:E; [|reflexivity].
      assert (existsb (fun y => bytes_eqb y x) t = true); [|congruence].
      apply existsb_exists. exists (nth i t []). split; [apply nth_In, Hi'|exact E]. }
    rewrite (IH Ht i Hi'). reflexivity.
Qed.
Lemma ok_enum names : names_okb names = true -> codec_ok (c_enum names).
Proof.
  intros H. unfold names_okb in H. apply andb_prop in H. destruct H as [Hs Hn].
  apply ok_conv; [apply ok_str|]. intros i Hi. split; [|apply index_of_nth; assumption].
  cbn [wf c_str]. rewrite forallb_forall in Hs. specialize (Hs _ (nth_In names [] Hi)).
  rewrite forallb_forall in Hs. apply Forall_forall. intros c Hc. apply scalarb_scalar, Hs, Hc.
Qed.
(* a variant name is a string: it needs no delimiter after it *)
Lemma enum_all names : names_okb names = true -> forall i, (i < length names)%nat ->
  forall X, dec (c_enum names) (enc (c_enum names) i ++ X) = Some (i, X).
Proof.
  intros H i Hi X. unfold names_okb in H. apply andb_prop in H. destruct H as [Hs Hn].
  cbn [enc dec c_enum c_conv c_str]. rewrite dec_str_ser, (index_of_nth names Hn i Hi); [reflexivity|].
  rewrite forallb_forall in Hs. specialize (Hs _ (nth_In names [] Hi)).
  rewrite forallb_forall in Hs. apply Forall_forall. intros c Hc. apply scalarb_scalar, Hs, Hc.
Qed.
Lemma hd_enum p names : p 34 = true -> codec_hd p (c_enum names).
Proof. intros H i _. exact H. Qed.

(* ---------- sequences ---------- *)
Section SeqProofs.
  Context {A : Type} (c : codec A) (op cl : byte).
  Hypothesis Hc : codec_ok c.
  Hypothesis Hcl : cl = 93 \/ cl = 125.
  Hypothesis Hop : 32 <= op.
  Hypothesis Hhd : codec_hd (fun h => negb (h =? cl)) c.

  Lemma cl_facts : delimb [cl] = true /\ (cl =? 44) = false /\ 32 <= cl.
  Proof. destruct Hcl; subst cl; repeat split; try reflexivity; lia. Qed.

  Lemma dec_items_ok : forall l fuel rest, l <> [] -> Forall (wf c) l -> (length l <= fuel)%nat ->
    dec_items c cl fuel (enc_items c l ++ cl :: rest) = Some (l, rest).
  Proof.
    destruct cl_facts as [D [N44 _]].
    induction l as [|x t IH]; intros fuel rest Hne Hw Hf; [congruence|].
    destruct fuel as [|f]; [cbn in Hf; lia|]. inversion Hw as [|? ? Hx Ht]; subst.
    destruct (Hc x Hx) as [_ R]. cbn [dec_items enc_items]. destruct t as [|y t'].
    - rewrite app_nil_r. rewrite (R (cl :: rest)); [|exact D]. rewrite N44, N.eqb_refl. reflexivity.
    - rewrite <- app_assoc. cbn [app]. rewrite (R (44 :: _)); [|reflexivity]. cbn [N.eqb Pos.eqb].
      change (44 =? 44) with true. cbv iota.
      rewrite (IH f rest); [reflexivity|discriminate|exact Ht|cbn [length] in *; lia].
  Qed.

  Lemma enc_items_length l : Forall (wf c) l -> (length l <= length (enc_items c l))%nat.
  Proof.
    induction l as [|x t IH]; intros Hw; [cbn; lia|]. inversion Hw as [|? ? Hx Ht]; subst.
    cbn [enc_items]. specialize (Hhd x Hx). destruct (enc c x) as [|h e]; [discriminate|].
    destruct t as [|y t']; [cbn; lia|]. specialize (IH Ht). rewrite app_length. cbn [length] in *. lia.
  Qed.

  Lemma enc_items_ge32 l : Forall (wf c) l -> Forall ge32 (enc_items c l).
  Proof.
    induction l as [|x t IH]; intros Hw; [constructor|]. inversion Hw as [|? ? Hx Ht]; subst.
    cbn [enc_items]. apply Forall_app. split; [apply (Hc x Hx)|]. destruct t; [constructor|].
    constructor; [unfold ge32; lia|apply IH, Ht].
  Qed.

  Lemma ok_seq : codec_ok (c_seq c op cl).
  Proof.
    destruct cl_facts as [D [N44 G]]. intros l Hw. cbn [wf c_seq] in Hw. split.
    - cbn [enc c_seq]. constructor; [exact Hop|]. apply Forall_app. split; [apply enc_items_ge32, Hw|].
      constructor; [exact G|constructor].
    - intros rest _. cbn [enc dec c_seq]. unfold dec_seq. cbn [app]. rewrite N.eqb_refl.
      destruct l as [|x t].
      + cbn [enc_items app]. rewrite N.eqb_refl. reflexivity.
      + rewrite <- app_assoc. cbn [app]. pose proof (enc_items_length (x :: t) Hw) as L.
        inversion Hw as [|? ? Hx Ht]; subst. pose proof (Hhd x Hx) as H1.
        remember (enc_items c (x :: t)) as e eqn:Ee. destruct e as [|h e'].
        { cbn in L. lia. }
        assert (h =? cl = false) as Hh.
        { cbn [enc_items] in Ee. destruct (enc c x) as [|h0 e0]; [discriminate|]. cbn [app] in Ee. injection Ee as -> _.
          cbn [hdb] in H1. apply negb_true_iff in H1. exact H1. }
        cbn [app]. rewrite Hh. change (h :: e' ++ cl :: rest) with ((h :: e') ++ cl :: rest). rewrite Ee.
        apply dec_items_ok; [discriminate|exact Hw|]. rewrite Ee in L. rewrite app_length. lia.
  Qed.
End SeqProofs.

(* ---------- alternatives ---------- *)
Lemma alt_skip {A B} (f : A -> B) p (c : codec A) q d2 s :
  strip p s = None -> alt (dmap f (dec (c_post (c_pre p c) q))) d2 s = d2 s.
Proof. intros H. unfold alt, dmap. cbn [dec c_post c_pre]. rewrite H. reflexivity. Qed.
Lemma alt_skip2 {A B A'} (f : A -> B) p (c : codec A) q d2 p' (c' : codec A') q' x rest :
  diffb p p' = true ->
  alt (dmap f (dec (c_post (c_pre p c) q))) d2 (enc (c_post (c_pre p' c') q') x ++ rest)
  = d2 (enc (c_post (c_pre p' c') q') x ++ rest).
Proof. intros H. apply alt_skip. cbn [enc c_post c_pre]. rewrite <- !app_assoc. apply strip_diff, H. Qed.
Lemma alt_hit {A B} (f : A -> B) d1 d2 s x r : d1 s = Some (x, r) -> alt (dmap f d1) d2 s = Some (f x, r).
Proof. intros H. unfold alt, dmap. rewrite H. reflexivity. Qed.
Lemma dmap_hit {A B} (f : A -> B) d1 s x r : d1 s = Some (x, r) -> dmap f d1 s = Some (f x, r).
Proof. intros H. unfold dmap. rewrite H. reflexivity. Qed.

(* ---------- WordMetadata, Punctuation ---------- *)
Create HintDb codec.
#[local] Hint Resolve ok_pre ok_post ok_sep ok_opt ok_lit ok_bool ok_str ok_N ok_below ok_i64 ok_enum
  hd_pre hd_post hd_conv hd_lit hd_bool hd_str hd_N hd_below hd_enum : codec.
#[local] Hint Extern 1 (_ = true) => by_comp : codec.

Lemma ok_ob : codec_ok c_ob. Proof. unfold c_ob. auto with codec. Qed.
#[local] Hint Resolve ok_ob : codec.
Lemma ok_u64 : codec_ok c_u64. Proof. apply ok_below. Qed.
Lemma ok_u32 : codec_ok c_u32. Proof. apply ok_below. Qed.
Lemma hd_u64 : codec_hd not_n c_u64. Proof. apply hd_below. Qed.
#[local] Hint Resolve ok_u64 ok_u32 hd_u64 : codec.

Lemma ok_noun : codec_ok c_noun. Proof. unfold c_noun. auto 20 with codec. Qed.
Lemma hd_noun : codec_hd not_n c_noun. Proof. unfold c_noun. auto with codec. Qed.
Lemma ok_pronoun : codec_ok c_pronoun. Proof. unfold c_pronoun. auto 30 with codec. Qed.
Lemma hd_pronoun : codec_hd not_n c_pronoun. Proof. unfold c_pronoun. auto with codec. Qed.
Lemma ok_verb : codec_ok c_verb. Proof. unfold c_verb. auto 20 with codec. Qed.
Lemma hd_verb : codec_hd not_n c_verb. Proof. unfold c_verb. auto with codec. Qed.
Lemma ok_adj : codec_ok c_adj. Proof. unfold c_adj. auto 20 with codec. Qed.
Lemma hd_adj : codec_hd not_n c_adj. Proof. unfold c_adj. auto with codec. Qed.
Lemma ok_empty_struct : codec_ok c_empty_struct. Proof. unfold c_empty_struct. auto with codec. Qed.
Lemma hd_empty_struct : codec_hd not_n c_empty_struct. Proof. unfold c_empty_struct. auto with codec. Qed.
Lemma ok_wordid : codec_ok c_wordid. Proof. unfold c_wordid. auto with codec. Qed.
Lemma hd_wordid : codec_hd not_n c_wordid. Proof. unfold c_wordid. auto with codec. Qed.
#[local] Hint Resolve ok_noun hd_noun ok_pronoun hd_pronoun ok_verb hd_verb ok_adj hd_adj ok_empty_struct hd_empty_struct
  ok_wordid hd_wordid : codec.
Lemma ok_wordmeta : codec_ok c_wordmeta. Proof. unfold c_wordmeta. auto 60 with codec. Qed.
Lemma hd_wordmeta : codec_hd not_n c_wordmeta. Proof. unfold c_wordmeta. auto with codec. Qed.
#[local] Hint Resolve ok_wordmeta hd_wordmeta : codec.

Lemma ok_punct_unit : codec_ok c_punct_unit. Proof. unfold c_punct_unit. auto with codec. Qed.
Lemma ok_punct_quote : codec_ok c_punct_quote. Proof. unfold c_punct_quote. auto with codec. Qed.
Lemma ok_punct_currency : codec_ok c_punct_currency.
Proof.
  intros i Hi. assert (OKn : names_okb currency_names = true) by by_comp. split.
  - unfold c_punct_currency. cbn [enc c_post c_pre]. apply Forall_app. split; [|apply printable_ge32; by_comp].
    apply Forall_app. split; [apply printable_ge32; by_comp|]. apply (ok_enum currency_names OKn i Hi).
  - intros rest _. unfold c_punct_currency. cbn [enc dec c_post c_pre]. rewrite <- !app_assoc, strip_app.
    rewrite (enum_all currency_names OKn i Hi), strip_app. reflexivity.
Qed.

Ltac skip_alt := etransitivity; [apply alt_skip2; by_comp|].

Lemma ok_punct : codec_ok c_punct.
Proof.
  intros [i|t|i] Hx; cbn [wf c_punct] in Hx; cbn [enc c_punct].
  - split; [apply (ok_punct_unit i Hx)|]. intros rest Hr. cbn [dec c_punct].
    assert (Hi : (i < 32)%nat) by (vm_compute in Hx; exact Hx). clear Hx.
    do 32 (destruct i as [|i]; [vm_compute; reflexivity|]). lia.
  - destruct (ok_punct_quote t Hx) as [G R]. split; [exact G|]. intros rest Hr. cbn [dec c_punct].
    apply alt_hit, R, Hr.
  - destruct (ok_punct_currency i Hx) as [G R]. split; [exact G|]. intros rest Hr. cbn [dec c_punct].
    skip_alt. apply alt_hit, R, Hr.
Qed.
Lemma hd_punct p : p 123 = true -> codec_hd p c_punct.
Proof. intros H [i|t|i] _; exact H. Qed.
#[local] Hint Resolve ok_punct hd_punct : codec.

(* ================================================================================================================ *)
Section RecProofs.
  Variable F : Type.
  Variable finite : F -> Prop.
  Variable print_f64 : F -> bytes.
  Variable parse_f64 : bytes -> option F.
  (* THE hypothesis: on a finite float, serde_json's printer writes a non-empty text over the characters of a JSON
     number, and its parser (feature float_roundtrip) reads that text back as the same float *)
  Definition float_rt : Prop := forall x, finite x ->
    print_f64 x <> [] /\ forallb numcharb (print_f64 x) = true /\ parse_f64 (print_f64 x) = Some x.
  Hypothesis Hf : float_rt.

  Notation c_f64 := (c_f64 F finite print_f64 parse_f64).
  Notation c_number := (c_number F finite print_f64 parse_f64).
  Notation c_tokenkind := (c_tokenkind F finite print_f64 parse_f64).
  Notation c_fattoken := (c_fattoken F finite print_f64 parse_f64).
  Notation c_recordkind := (c_recordkind F finite print_f64 parse_f64).
  Notation c_record := (c_record F finite print_f64 parse_f64).
  Notation ser_record := (ser_record F finite print_f64 parse_f64).
  Notation de_record := (de_record F finite print_f64 parse_f64).

  Lemma numchar_facts c : numcharb c = true -> ge32 c /\ not_n c = true /\ (forall t, delimb (c :: t) = false).
  Proof.
    unfold numcharb, is_digit, ge32, not_n. intros H.
    assert (K : (48 <= c /\ c <= 57) \/ c = 45 \/ c = 43 \/ c = 46 \/ c = 101 \/ c = 69).
    { repeat (apply orb_prop in H; destruct H as [H|H]); try (apply N.eqb_eq in H; lia).
      apply andb_prop in H. destruct H as [H1 H2]. apply N.leb_le in H1, H2. lia. }
    split; [lia|]. split; [apply negb_true_iff, N.eqb_neq; lia|].
    intros t. cbn [delimb]. repeat (apply orb_false_intro); apply N.eqb_neq; lia.
  Qed.
  Lemma span_num_app l rest : forallb numcharb l = true -> delimb rest = true -> span_num (l ++ rest) = (l, rest).
  Proof.
    intros Hl Hr. induction l as [|a l IH]; cbn [app].
    - destruct rest as [|c t]; [reflexivity|]. cbn [span_num]. destruct (numcharb c) eqn:E; [|reflexivity].
      destruct (numchar_facts c E) as [_ [_ K]]. rewrite K in Hr. discriminate.
    - cbn [forallb] in Hl. apply andb_prop in Hl. destruct Hl as [Ha Hl]. cbn [span_num]. rewrite Ha, (IH Hl). reflexivity.
  Qed.
  Lemma ok_f64 : codec_ok c_f64.
  Proof.
    intros x Hx. destruct (Hf x Hx) as [Hne [Hc Hp]]. split.
    - cbn [enc C19Record.c_f64]. apply Forall_forall. intros c Hin. rewrite forallb_forall in Hc. apply numchar_facts, Hc, Hin.
    - intros rest Hr. cbn [enc dec C19Record.c_f64]. rewrite (span_num_app _ _ Hc Hr).
      destruct (print_f64 x) eqn:E; [congruence|]. rewrite Hp. reflexivity.
  Qed.
  Lemma hd_f64 : codec_hd not_n c_f64.
  Proof.
    intros x Hx. destruct (Hf x Hx) as [Hne [Hc _]]. cbn [enc C19Record.c_f64]. destruct (print_f64 x) as [|h t]; [congruence|].
    cbn [forallb] in Hc. apply andb_prop in Hc. apply numchar_facts, Hc.
  Qed.
  Hint Resolve ok_f64 hd_f64 : codec.

  Lemma ok_number : codec_ok c_number. Proof. unfold C19Record.c_number. auto 40 with codec. Qed.
  Hint Resolve ok_number : codec.

  Lemma ok_tk_word : codec_ok c_tk_word. Proof. unfold c_tk_word. auto with codec. Qed.
  Lemma ok_tk_punct : codec_ok c_tk_punct. Proof. unfold c_tk_punct. auto with codec. Qed.
  Lemma ok_tk_number : codec_ok (c_tk_number F finite print_f64 parse_f64). Proof. unfold c_tk_number. auto with codec. Qed.
  Lemma ok_tk_space : codec_ok c_tk_space. Proof. unfold c_tk_space. auto with codec. Qed.
  Lemma ok_tk_newline : codec_ok c_tk_newline. Proof. unfold c_tk_newline. auto with codec. Qed.
  Lemma ok_tk_unit : codec_ok c_tk_unit. Proof. unfold c_tk_unit. auto with codec. Qed.


  Lemma ok_tokenkind : codec_ok c_tokenkind.
  Proof.
    intros [m|p|n|n|n|i] Hx; cbn [wf C19Record.c_tokenkind] in Hx; cbn [enc C19Record.c_tokenkind].
    - destruct (ok_tk_word m Hx) as [G R]. split; [exact G|]. intros rest Hr. cbn [dec C19Record.c_tokenkind].
      apply alt_hit, R, Hr.
    - destruct (ok_tk_punct p Hx) as [G R]. split; [exact G|]. intros rest Hr. cbn [dec C19Record.c_tokenkind].
      skip_alt. apply alt_hit, R, Hr.
    - destruct (ok_tk_number n Hx) as [G R]. split; [exact G|]. intros rest Hr. cbn [dec C19Record.c_tokenkind].
      skip_alt. skip_alt. apply alt_hit, R, Hr.
    - destruct (ok_tk_space n Hx) as [G R]. split; [exact G|]. intros rest Hr. cbn [dec C19Record.c_tokenkind].
      skip_alt. skip_alt. skip_alt. apply alt_hit, R, Hr.
    - destruct (ok_tk_newline n Hx) as [G R]. split; [exact G|]. intros rest Hr. cbn [dec C19Record.c_tokenkind].
      skip_alt. skip_alt. skip_alt. skip_alt. apply alt_hit, R, Hr.
    - destruct (ok_tk_unit i Hx) as [G R]. split; [exact G|]. intros rest Hr. cbn [dec C19Record.c_tokenkind].
      assert (Hi : (i < 7)%nat) by (vm_compute in Hx; exact Hx). specialize (R rest Hr). clear Hx G.
      do 7 (destruct i as [|i]; [do 5 (etransitivity; [apply alt_skip, strip_diff; by_comp|]); apply dmap_hit, R|]). lia.
  Qed.
  Hint Resolve ok_tokenkind : codec.

  Lemma ok_fattoken : codec_ok c_fattoken. Proof. unfold C19Record.c_fattoken. auto with codec. Qed.
  Lemma hd_fattoken p : p 123 = true -> codec_hd p c_fattoken.
  Proof. intros H. unfold C19Record.c_fattoken. apply hd_post, hd_pre. exact H. Qed.

  (* ---------- the configuration map ---------- *)
  Lemma ok_entry : codec_ok c_entry.
  Proof.
    intros [k v] Hk. cbn [wf c_entry fst] in Hk. destruct (ok_ob v) as [G R]; [destruct v; exact I|]. split.
    - cbn [enc c_entry fst snd]. apply Forall_app. split; [apply ser_str_ge32|]. constructor; [unfold ge32; lia|exact G].
    - intros rest Hr. cbn [enc dec c_entry fst snd]. rewrite <- app_assoc, (dec_str_ser _ _ Hk). cbn [app].
      rewrite N.eqb_refl, (R _ Hr). reflexivity.
  Qed.
  Lemma hd_entry p : p 34 = true -> codec_hd p c_entry.
  Proof. intros H [k v] _. exact H. Qed.

  Lemma bytes_ltb_asym x : forall y, bytes_ltb x y = true -> bytes_ltb y x = false.
  Proof.
    induction x as [|a x IH]; intros [|c y] H; cbn [bytes_ltb] in *; try discriminate; try reflexivity.
    destruct (N.ltb_spec a c) as [L|L].
    - destruct (N.ltb_spec c a); [lia|]. destruct (N.eqb_spec c a); [lia|reflexivity].
    - destruct (N.eqb_spec a c) as [->|Ne]; [|discriminate]. rewrite N.ltb_irrefl, N.eqb_refl. apply IH, H.
  Qed.
  Lemma bt_insert_last k v acc : Forall (fun e' => key_ltb (fst e') k = true) acc -> bt_insert k v acc = acc ++ [(k, v)].
  Proof.
    induction acc as [|[k' v'] t IH]; intros H; [reflexivity|]. inversion H as [|? ? H1 H2]; subst. cbn [fst] in H1.
    cbn [bt_insert app]. unfold key_ltb in *. rewrite (bytes_ltb_asym _ _ H1), H1, (IH H2). reflexivity.
  Qed.
  Lemma increasing_app_inv acc e t : keys_increasing (acc ++ e :: t) ->
    Forall (fun e' => key_ltb (fst e') (fst e) = true) acc.
  Proof.
    induction acc as [|a acc IH]; intros H; [constructor|]. cbn [app keys_increasing] in H. destruct H as [H1 H2].
    constructor; [|apply IH, H2]. apply Forall_app in H1. destruct H1 as [_ H1]. inversion H1; assumption.
  Qed.
  Lemma bt_fold l : forall acc, keys_increasing (acc ++ l) ->
    fold_left (fun m e => bt_insert (fst e) (snd e) m) l acc = acc ++ l.
  Proof.
    induction l as [|[k v] t IH]; intros acc H; [rewrite app_nil_r; reflexivity|].
    cbn [fold_left fst snd]. rewrite (bt_insert_last k v acc (increasing_app_inv acc (k, v) t H)).
    rewrite IH; rewrite <- app_assoc; [reflexivity|exact H].
  Qed.
  Lemma bt_of_sorted m : keys_increasing m -> bt_of_list m = m.
  Proof. intros H. unfold bt_of_list. apply (bt_fold m []). exact H. Qed.

  (* the codec of the configuration, with the BTreeMap invariant as its well-formedness *)
  Definition config_wf (m : config) : Prop := Forall (fun e => Forall scalar (fst e)) m /\ keys_increasing m.
  Lemma config_roundtrip m : config_wf m ->
    Forall ge32 (enc c_config m) /\ forall rest, delimb rest = true -> dec c_config (enc c_config m ++ rest) = Some (m, rest).
  Proof.
    intros [Hs Hk].
    assert (OK : codec_ok (c_seq c_entry 123 125)).
    { apply ok_seq; [apply ok_entry|right; reflexivity|lia|apply hd_entry; reflexivity]. }
    destruct (OK m) as [G R]; [exact Hs|]. split; [exact G|]. intros rest Hr. cbn [enc dec c_config c_conv].
    cbn [enc] in R. rewrite (R _ Hr), (bt_of_sorted m Hk). reflexivity.
  Qed.

  (* ---------- well-formed values: the invariants of the Rust types + finite Numbers ---------- *)
  Definition number_wf (n : number F) : Prop := wf c_number n.
  Definition tokenkind_wf (k : tokenkind F) : Prop := wf c_tokenkind k.
  Definition fattoken_wf (t : fattoken F) : Prop := wf c_fattoken t.
  Definition recordkind_wf (k : recordkind F) : Prop :=
    match k with
    | RKLint _ kd cx => (kd < length lintkind_names)%nat /\ Forall fattoken_wf cx
    | RKConfig _ m => config_wf m
    end.
  Definition record_ok (r : record F) : Prop :=
    recordkind_wf (fst r) /\ i64_okb (fst (snd r)) = true /\ Forall scalar (snd (snd r)) /\ uuid_textb (snd (snd r)) = true.

  Lemma ok_rk_lint : codec_ok (c_rk_lint F finite print_f64 parse_f64).
  Proof.
    unfold c_rk_lint. apply ok_post; [by_comp|]. apply ok_pre; [by_comp|]. apply ok_sep; [by_comp|auto with codec|].
    apply ok_seq; [apply ok_fattoken|left; reflexivity|lia|apply hd_fattoken; reflexivity].
  Qed.

  Lemma recordkind_roundtrip k : recordkind_wf k ->
    Forall ge32 (enc c_recordkind k) /\ forall rest, delimb rest = true -> dec c_recordkind (enc c_recordkind k ++ rest) = Some (k, rest).
  Proof.
    destruct k as [kd cx|m]; intros H; cbn [recordkind_wf] in H; cbn [enc C19Record.c_recordkind].
    - destruct (ok_rk_lint (kd, cx)) as [G R].
      { cbn [wf c_rk_lint c_post c_pre c_sep fst snd c_enum c_conv c_seq]. exact H. }
      split; [exact G|]. intros rest Hr. cbn [dec C19Record.c_recordkind]. rewrite (alt_hit _ _ _ _ _ _ (R rest Hr)). reflexivity.
    - destruct (config_roundtrip m H) as [G R]. split.
      + unfold c_rk_config. cbn [enc c_post c_pre]. apply Forall_app. split; [|apply printable_ge32; by_comp].
        apply Forall_app. split; [apply printable_ge32; by_comp|exact G].
      + intros rest Hr. cbn [dec C19Record.c_recordkind]. skip_alt. apply dmap_hit.
        unfold c_rk_config. cbn [enc dec c_post c_pre]. rewrite <- !app_assoc.
        rewrite strip_app, (R (jb "}" ++ rest)); [|reflexivity]. rewrite strip_app. reflexivity.
  Qed.

  Lemma uuid_roundtrip u : Forall scalar u -> uuid_textb u = true ->
    Forall ge32 (enc c_uuid u) /\ forall rest, dec c_uuid (enc c_uuid u ++ rest) = Some (u, rest).
  Proof.
    intros Hs Hu. split; [apply ser_str_ge32|]. intros rest. cbn [enc dec c_uuid c_conv c_str].
    rewrite (dec_str_ser _ _ Hs), Hu. reflexivity.
  Qed.

  (* ---------- the record ---------- *)
  Theorem record_line r : record_ok r ->
    Forall ge32 (ser_record r) /\ forall rest, delimb rest = true -> dec c_record (ser_record r ++ rest) = Some (r, rest).
  Proof.
    destruct r as [k [w u]]. intros [Hk [Hw [Hs Hu]]]. cbn [fst snd] in *.
    destruct (recordkind_roundtrip k Hk) as [Gk Rk]. destruct (ok_i64 w Hw) as [Gw Rw]. destruct (uuid_roundtrip u Hs Hu) as [Gu Ru].
    unfold C19Record.ser_record, C19Record.c_record. cbn [enc dec c_post c_pre c_sep fst snd]. split.
    - repeat (apply Forall_app; split); try assumption; apply printable_ge32; by_comp.
    - intros rest Hr. rewrite <- !app_assoc. rewrite strip_app, Rk by reflexivity. rewrite strip_app, Rw by reflexivity.
      rewrite strip_app, Ru, strip_app. reflexivity.
  Qed.

  Theorem record_roundtrip r : record_ok r -> de_record (ser_record r) = Some r.
  Proof.
    intros H. destruct (record_line r H) as [_ R]. unfold C19Record.de_record.
    rewrite <- (app_nil_r (ser_record r)), (R [] eq_refl). reflexivity.
  Qed.
  Theorem record_one_line r : record_ok r -> line_ok (ser_record r).
  Proof. intros H. apply ge32_line_ok, (record_line r H). Qed.

  (* the log theorems of StatsProofs.v for the concrete Record: no `value`, no `shape` hypothesis left *)
  Theorem concrete_log_roundtrip rs : Forall record_ok rs ->
    read (record F) de_record (write (record F) ser_record rs) = Some rs.
  Proof. apply (log_roundtrip (record F) ser_record de_record record_ok record_roundtrip record_one_line). Qed.
  Theorem concrete_log_append a c : Forall record_ok a -> Forall record_ok c ->
    read (record F) de_record (write (record F) ser_record a ++ write (record F) ser_record c) = Some (a ++ c).
  Proof. apply (log_append (record F) ser_record de_record record_ok record_roundtrip record_one_line). Qed.
  Theorem concrete_log_sessions file old ss : terminated file -> read (record F) de_record file = Some old ->
    Forall (Forall record_ok) ss ->
    read (record F) de_record (sessions (record F) ser_record file ss) = Some (old ++ concat ss).
  Proof. apply (log_sessions_any (record F) ser_record de_record record_ok record_roundtrip record_one_line). Qed.
End RecProofs.

(* ================================================================================================================ *)
(* record_ok = "a value of the Rust types" (String is a Rust string, integers in range, variant indices exist, BTreeMap
   keys increase: record_ok with every float allowed) + "every Number is finite" *)
Definition rust_value F pr pa (r : record F) : Prop := record_ok F (fun _ => True) pr pa r.

Lemma record_ok_split F (finite : F -> Prop) pr pa r :
  rust_value F pr pa r -> Forall finite (numbers F r) -> record_ok F finite pr pa r.
Proof.
  destruct r as [[kd cx|m] [w u]]; unfold rust_value, record_ok; cbn [fst snd recordkind_wf numbers];
    intros [Hk Hrest] Hn; (split; [|exact Hrest]); [|exact Hk].
  destruct Hk as [Hk Hc]. split; [exact Hk|]. clear Hk Hrest.
  induction cx as [|[content kind] cx IH]; [constructor|].
  inversion Hc as [|? ? Ht Hc']; subst. cbn [flat_map] in Hn. apply Forall_app in Hn. destruct Hn as [Hn1 Hn2].
  constructor; [|exact (IH Hc' Hn2)]. clear IH Hc Hc' Hn2.
  unfold fattoken_wf in *. unfold c_fattoken in *. cbn [wf c_post c_pre c_sep fst snd] in *.
  destruct Ht as [Hs Hkd]. split; [exact Hs|].
  destruct kind as [mt|p|n|n|n|i]; cbn [wf c_tokenkind] in *; try exact Hkd.
  unfold c_tk_number, c_number in *. cbn [wf c_post c_pre c_sep fst snd c_f64] in *.
  destruct Hkd as [_ Hkd]. split; [|exact Hkd]. unfold tk_numbers in Hn1. cbn [snd] in Hn1. inversion Hn1; assumption.
Qed.

Section Concrete.
  Variable F : Type.
  Variable finite : F -> Prop.
  Variable print_f64 : F -> bytes.
  Variable parse_f64 : bytes -> option F.
  Hypothesis Hf : float_rt F finite print_f64 parse_f64.
  Notation ser := (ser_record F finite print_f64 parse_f64).
  Notation de := (de_record F finite print_f64 parse_f64).
  Definition good (r : record F) : Prop := rust_value F print_f64 parse_f64 r /\ Forall finite (numbers F r).

  Lemma good_ok r : good r -> record_ok F finite print_f64 parse_f64 r.
  Proof. intros [H1 H2]. apply record_ok_split; assumption. Qed.

  (* Goal 1: the reader inverts the writer on every record whose Numbers are finite; such a record is one line *)
  Theorem record_value_roundtrip r : good r -> de (ser r) = Some r /\ Forall ge32 (ser r) /\ line_ok (ser r).
  Proof.
    intros H. pose proof (good_ok r H) as K. split; [exact (record_roundtrip F finite print_f64 parse_f64 Hf r K)|].
    split; [apply (record_line F finite print_f64 parse_f64 Hf r K)|exact (record_one_line F finite print_f64 parse_f64 Hf r K)].
  Qed.

  Lemma Forall_good l : Forall good l -> Forall (record_ok F finite print_f64 parse_f64) l.
  Proof. intros H. eapply Forall_impl; [|exact H]. exact good_ok. Qed.

  Theorem record_log_roundtrip rs : Forall good rs -> read (record F) de (write (record F) ser rs) = Some rs.
  Proof. intros H. apply (concrete_log_roundtrip F finite print_f64 parse_f64 Hf), Forall_good, H. Qed.
  Theorem record_log_append a c : Forall good a -> Forall good c ->
    read (record F) de (write (record F) ser a ++ write (record F) ser c) = Some (a ++ c).
  Proof. intros Ha Hc. apply (concrete_log_append F finite print_f64 parse_f64 Hf); apply Forall_good; assumption. Qed.
  Theorem record_log_sessions file old ss : terminated file -> read (record F) de file = Some old ->
    Forall (Forall good) ss -> read (record F) de (sessions (record F) ser file ss) = Some (old ++ concat ss).
  Proof.
    intros Ht Ho H. apply (concrete_log_sessions F finite print_f64 parse_f64 Hf); [exact Ht|exact Ho|].
    eapply Forall_impl; [|exact H]. exact Forall_good.
  Qed.

  (* Goal 3: summarize over the records read back from the log.  lint_kinds = the kinds of the Lint records, in order *)
  Definition lint_kinds (rs : list (record F)) : list nat :=
    flat_map (fun r => match fst r with RKLint _ k _ => [k] | RKConfig _ _ => [] end) rs.
  Definition summary_of (rs : list (record F)) : summary nat config :=
    summarize nat Nat.eqb config [] (map (rkind_of F) rs).

  Lemma has_kind_count k rs :
    length (filter (has_kind nat Nat.eqb config k) (map (rkind_of F) rs)) = count_occ Nat.eq_dec (lint_kinds rs) k.
  Proof.
    induction rs as [|[[k' cx|m] wu] rs IH]; [reflexivity| |]; cbn [map filter rkind_of fst lint_kinds flat_map app has_kind].
    - fold (lint_kinds rs). destruct (Nat.eqb_spec k k') as [->|Ne].
      + rewrite count_occ_cons_eq by reflexivity. cbn [length]. rewrite IH. reflexivity.
      + rewrite count_occ_cons_neq by congruence. exact IH.
    - exact IH.
  Qed.
  Lemma is_lint_count rs : length (filter (is_lint nat config) (map (rkind_of F) rs)) = length (lint_kinds rs).
  Proof.
    induction rs as [|[[k' cx|m] wu] rs IH]; [reflexivity| |]; cbn [map filter rkind_of fst lint_kinds flat_map app is_lint length].
    - fold (lint_kinds rs). rewrite IH. reflexivity.
    - exact IH.
  Qed.
  Lemma lint_kinds_app a c : lint_kinds (a ++ c) = lint_kinds a ++ lint_kinds c.
  Proof. unfold lint_kinds. apply flat_map_app. Qed.

  (* each applied lint is counted exactly once: the count of a kind is its multiplicity among the Lint records, the
     total their number, one entry per kind — for ANY list of records *)
  Theorem summary_counts rs : forall k,
    get_count nat Nat.eqb config (summary_of rs) k = count_occ Nat.eq_dec (lint_kinds rs) k /\
    total_applied _ _ (summary_of rs) = length (lint_kinds rs) /\
    count_sum (lint_counts _ _ (summary_of rs)) = length (lint_kinds rs) /\
    NoDup (map fst (lint_counts _ _ (summary_of rs))).
  Proof.
    intros k. destruct (summary_spec nat Nat.eqb config [] Nat.eqb_eq (map (rkind_of F) rs)) as [T [S [C [N _]]]].
    fold (summary_of rs) in T, S, C, N. split; [rewrite C; apply has_kind_count|].
    split; [rewrite T; apply is_lint_count|]. split; [rewrite S, T; apply is_lint_count|exact N].
  Qed.
  (* ... and for concatenated batches the counts add up (multiset union) *)
  Theorem summary_counts_app a c k :
    get_count nat Nat.eqb config (summary_of (a ++ c)) k =
    (get_count nat Nat.eqb config (summary_of a) k + get_count nat Nat.eqb config (summary_of c) k)%nat /\
    total_applied _ _ (summary_of (a ++ c)) = (total_applied _ _ (summary_of a) + total_applied _ _ (summary_of c))%nat.
  Proof.
    destruct (summary_counts (a ++ c) k) as [E1 [T1 _]]. destruct (summary_counts a k) as [E2 [T2 _]].
    destruct (summary_counts c k) as [E3 [T3 _]]. rewrite E1, E2, E3, T1, T2, T3, lint_kinds_app.
    split; [apply count_occ_app|apply app_length].
  Qed.
  (* the whole path: append sessions of records (Numbers finite) onto a log, read it back, summarize *)
  Theorem summary_of_log file old ss : terminated file -> read (record F) de file = Some old -> Forall (Forall good) ss ->
    exists rs, read (record F) de (sessions (record F) ser file ss) = Some rs /\ rs = old ++ concat ss /\
      forall k, get_count nat Nat.eqb config (summary_of rs) k
                = (count_occ Nat.eq_dec (lint_kinds old) k + count_occ Nat.eq_dec (lint_kinds (concat ss)) k)%nat.
  Proof.
    intros Ht Ho H. exists (old ++ concat ss). split; [apply record_log_sessions; assumption|]. split; [reflexivity|].
    intros k. destruct (summary_counts (old ++ concat ss) k) as [E _]. rewrite E, lint_kinds_app. apply count_occ_app.
  Qed.
End Concrete.

(* ---------- non-vacuity: the driver's instance (a float is the text serde_json printed for it) ---------- *)
Definition txt_finite (t : bytes) : Prop := t <> [] /\ forallb numcharb t = true.
Lemma txt_float_rt : float_rt bytes txt_finite (fun t => t) (fun t => Some t).
Proof. intros t [H1 H2]. split; [exact H1|]. split; [exact H2|reflexivity]. Qed.

(* a lint record with a misspelt word holding LF, quote, backslash and an astral character, a Number, a quote, a
   currency sign, a paragraph break, a word with dictionary metadata; and a configuration update *)
Definition ex_meta : wordmeta :=
  (Some (Some true, (Some false, None)), (None, (Some (None, (None, tt)), (Some None, (None, (Some tt, (None, (Some 3%nat,
   (false, (true, (true, Some 12942998694107572027))))))))))).
Definition ex_lint : record bytes :=
  (RKLint bytes 0%nat
     [([97; 10; 34; 92; 128512], TKWord bytes None);
      (jb "9TH", TKNumber bytes (jb "9.0", (Some 0%nat, (10, 0))));
      ([34], TKPunct bytes (PQuote (Some 12)));
      ([36], TKPunct bytes (PCurrency 0));
      ([46], TKPunct bytes (PUnit 4));
      ([10; 10], TKUnit bytes 5);
      (jb "them", TKWord bytes (Some ex_meta));
      ([32; 32], TKSpace bytes 2)],
   ((-1)%Z, jb "ffffffff-ffff-ffff-ffff-ffffffffffff")).
Definition ex_cfg : record bytes :=
  (RKConfig bytes [([13], None); ([34], Some false); ([97; 10; 98], Some true)],
   (9223372036854775807%Z, jb "00000000-0000-0000-0000-000000000000")).

Lemma ex_lint_line : drv_ser ex_lint = jb
  "{""kind"":{""Lint"":{""kind"":""Spelling"",""context"":[{""content"":""a\n\""\\😀"",""kind"":{""kind"":""Word"",""value"":null}},{""content"":""9TH"",""kind"":{""kind"":""Number"",""value"":{""value"":9.0,""suffix"":""Th"",""radix"":10,""precision"":0}}},{""content"":""\"""",""kind"":{""kind"":""Punctuation"",""value"":{""kind"":""Quote"",""twin_loc"":12}}},{""content"":""$"",""kind"":{""kind"":""Punctuation"",""value"":{""kind"":""Currency"",""Dollar"":null}}},{""content"":""."",""kind"":{""kind"":""Punctuation"",""value"":{""kind"":""Period""}}},{""content"":""\n\n"",""kind"":{""kind"":""ParagraphBreak""}},{""content"":""them"",""kind"":{""kind"":""Word"",""value"":{""noun"":{""is_proper"":true,""is_plural"":false,""is_possessive"":null},""pronoun"":null,""verb"":{""is_linking"":null,""is_auxiliary"":null,""tense"":null},""adjective"":{""degree"":null},""adverb"":null,""conjunction"":{},""swear"":null,""dialect"":""British"",""determiner"":false,""preposition"":true,""common"":true,""derived_from"":{""hash"":12942998694107572027}}}},{""content"":""  "",""kind"":{""kind"":""Space"",""value"":2}}]}},""when"":-1,""uuid"":""ffffffff-ffff-ffff-ffff-ffffffffffff""}".
Proof. vm_compute. reflexivity. Qed.
Lemma ex_cfg_line : drv_ser ex_cfg = jb
  "{""kind"":{""LintConfigUpdate"":{""\r"":null,""\"""":false,""a\nb"":true}},""when"":9223372036854775807,""uuid"":""00000000-0000-0000-0000-000000000000""}".
Proof. vm_compute. reflexivity. Qed.

Lemma ex_good : good bytes txt_finite (fun t => t) (fun t => Some t) ex_lint /\ good bytes txt_finite (fun t => t) (fun t => Some t) ex_cfg.
Proof.
  assert (S : forall l, forallb scalarb l = true -> Forall scalar l).
  { intros l H. apply Forall_forall. intros c Hc. rewrite forallb_forall in H. apply scalarb_scalar, H, Hc. }
  split; split.
  - unfold rust_value, record_ok, ex_lint. cbn [fst snd recordkind_wf]. split; [split; [vm_compute; lia|]|].
    + repeat (apply Forall_cons); try apply Forall_nil; unfold fattoken_wf, c_fattoken; cbn [wf c_post c_pre c_sep fst snd];
        (split; [apply S; by_comp|]); cbn -[N.lt Nat.lt length]; repeat split; try exact I; try (vm_compute; reflexivity);
        try (vm_compute; lia).
    + split; [by_comp|]. split; [apply S; by_comp|by_comp].
  - cbn [numbers fst ex_lint flat_map tk_numbers snd app]. repeat constructor. discriminate.
  - unfold rust_value, record_ok, ex_cfg. cbn [fst snd recordkind_wf]. split.
    + split; [repeat constructor; cbn [fst]; apply S; by_comp|]. cbn [keys_increasing fst]. repeat split; repeat constructor; by_comp.
    + split; [by_comp|]. split; [apply S; by_comp|by_comp].
  - constructor.
Qed.

Example record_examples :
  drv_de (drv_ser ex_lint) = Some ex_lint /\ drv_de (drv_ser ex_cfg) = Some ex_cfg /\
  ~ In 10 (drv_ser ex_lint) /\
  read (record bytes) drv_de (sessions (record bytes) drv_ser [] [[ex_cfg; ex_lint]; [ex_lint]]) = Some [ex_cfg; ex_lint; ex_lint] /\
  get_count nat Nat.eqb config (summary_of bytes [ex_cfg; ex_lint; ex_lint]) 0%nat = 2%nat.
Proof. vm_compute. repeat split; try reflexivity. intuition discriminate. Qed.
