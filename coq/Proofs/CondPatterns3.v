(* CondPatterns3.v — the three fixed patterns of Document::parse (contraction, ellipsis, latin) satisfy the
   premises of the generic condense_pattern theorem (matcher_ok, monotone_ends), and what a match means. *)
Require Import Base Overlap OverlapProofs Tables_lexer Lexer Condense ListLemmas TokenInv CondenseInv LexerProofs.
From Coq Require Import Lia.

(* ---------- generic helpers ---------- *)
Lemma matcher_ok_local (m : list token -> res nat) ts :
  (forall i, i <= length ts -> exists n, m (skipn i ts) = Ok n /\ n <= length (skipn i ts)) -> matcher_ok m ts.
Proof.
  intros H i Hi. destruct (H i Hi) as [n [E L]]. exists n. split; [exact E|]. rewrite skipn_length in L. exact L.
Qed.

(* if a match at i rules out every match strictly inside it, ends are monotone *)
Lemma monotone_from_no_inner (m : list token -> res nat) ts :
  (forall i d, 0 < d -> d < match_len m ts i -> match_len m ts (i + d) = 0) -> monotone_ends m ts.
Proof.
  intros H i j Hij Hj Hi Hjm.
  destruct (Nat.lt_ge_cases j (i + match_len m ts i)) as [Hin|Hout]; [|lia].
  specialize (H i (j - i) ltac:(lia) ltac:(lia)). replace (i + (j - i)) with j in H by lia. lia.
Qed.

Lemma count_while_skipn {A} (p : A -> bool) : forall l d,
  d <= count_while p l -> count_while p (skipn d l) = count_while p l - d.
Proof.
  induction l as [|x l IH]; intros d Hd; cbn [count_while] in *.
  - destruct d; [reflexivity|lia].
  - destruct d as [|d]; [cbn [skipn count_while]; lia|].
    destruct (p x); [|lia]. cbn [skipn]. rewrite IH by lia. lia.
Qed.

Lemma count_while_all {A} (p : A -> bool) l : Forall (fun x => p x = true) (firstn (count_while p l) l).
Proof.
  induction l as [|x l IH]; cbn [count_while]; [constructor|].
  destruct (p x) eqn:E; cbn [firstn]; [constructor; assumption|constructor].
Qed.

Lemma firstn_plus {A} : forall a b (l : list A), firstn (a + b) l = firstn a l ++ firstn b (skipn a l).
Proof.
  induction a as [|a IH]; intros b l; [reflexivity|].
  destruct l as [|x l]; [cbn; destruct b; reflexivity|]. cbn [Nat.add firstn skipn app]. f_equal. apply IH.
Qed.

Lemma skipn_app_exact {A} (g rest : list A) : skipn (length g) (g ++ rest) = rest.
Proof. induction g; cbn; auto. Qed.
Lemma firstn_app_exact {A} (g rest : list A) : firstn (length g) (g ++ rest) = g.
Proof. induction g; cbn; auto; f_equal; auto. Qed.

(* ================= contraction ================= *)
Lemma contraction_val src l : contraction_matches src l = Ok 3 \/ contraction_matches src l = Ok 0.
Proof.
  unfold contraction_matches. destruct l as [|a [|b [|c r]]]; auto.
  destruct (is_word (tkind_of a) && is_apostrophe (tkind_of b) && is_word (tkind_of c)); auto.
Qed.

Theorem contraction_ok : forall src ts,
  matcher_ok (contraction_matches src) ts /\ monotone_ends (contraction_matches src) ts.
Proof.
  intros src ts. split.
  - apply matcher_ok_local. intros i _. generalize (skipn i ts) as l. intros l.
    unfold contraction_matches. destruct l as [|a [|b [|c r]]]; try (exists 0; split; [reflexivity|lia]).
    destruct (is_word (tkind_of a) && is_apostrophe (tkind_of b) && is_word (tkind_of c));
      [exists 3|exists 0]; (split; [reflexivity|cbn; lia]).
  - intros i j Hij _ Hi Hj. unfold match_len in *.
    destruct (contraction_val src (skipn i ts)) as [E|E]; rewrite E in *; [|lia].
    destruct (contraction_val src (skipn j ts)) as [F|F]; rewrite F in *; lia.
Qed.

Theorem contraction_match_inv : forall src g rest, g <> [] ->
  contraction_matches src (g ++ rest) = Ok (length g) ->
  exists a b c, g = [a; b; c] /\ is_word (tkind_of a) = true /\ is_apostrophe (tkind_of b) = true /\
                is_word (tkind_of c) = true.
Proof.
  intros src g rest Hne H. unfold contraction_matches in H.
  destruct (g ++ rest) as [|a [|b [|c r]]] eqn:E;
    try (assert (length g = 0) by congruence; destruct g; [contradiction|discriminate]).
  destruct (is_word (tkind_of a) && is_apostrophe (tkind_of b) && is_word (tkind_of c)) eqn:K.
  - assert (length g = 3) as L by congruence.
    destruct g as [|x [|y [|z [|w g']]]]; cbn in L; try discriminate.
    cbn [app] in E. injection E as -> -> -> _.
    apply andb_prop in K. destruct K as [K Kc]. apply andb_prop in K. destruct K as [Ka Kb].
    exists a, b, c. auto.
  - assert (length g = 0) by congruence. destruct g; [contradiction|discriminate].
Qed.

(* ================= ellipsis ================= *)
Definition is_period_tok (t : token) : bool := is_period (tkind_of t).

Lemma ellipsis_unfold src l :
  ellipsis_matches src l = Ok (if 2 <=? count_while is_period_tok l then count_while is_period_tok l else 0).
Proof.
  unfold ellipsis_matches. change ellipsis_min_repetitions with 2. fold is_period_tok.
  change (fun t => is_period (tkind_of t)) with is_period_tok.
  destruct (2 <=? count_while is_period_tok l); reflexivity.
Qed.

Theorem ellipsis_ok : forall src ts,
  matcher_ok (ellipsis_matches src) ts /\ monotone_ends (ellipsis_matches src) ts.
Proof.
  intros src ts. split.
  - apply matcher_ok_local. intros i _. rewrite ellipsis_unfold. eexists. split; [reflexivity|].
    pose proof (count_while_le is_period_tok (skipn i ts)). destruct (2 <=? _); lia.
  - intros i j Hij Hj Hi Hjm. unfold match_len in *. rewrite !ellipsis_unfold in *.
    set (ki := count_while is_period_tok (skipn i ts)) in *.
    set (kj := count_while is_period_tok (skipn j ts)) in *.
    destruct (2 <=? ki) eqn:Ei; [|lia]. destruct (2 <=? kj) eqn:Ej; [|lia].
    destruct (Nat.lt_ge_cases j (i + ki)) as [Hin|Hout]; [|lia].
    assert (kj = ki - (j - i)) as ->; [|lia].
    unfold kj. replace j with ((j - i) + i) at 1 by lia. rewrite <- skipn_skipn.
    apply count_while_skipn. fold ki. lia.
Qed.

Theorem ellipsis_match_inv : forall src g rest, g <> [] ->
  ellipsis_matches src (g ++ rest) = Ok (length g) ->
  2 <= length g /\ Forall (fun t => is_period (tkind_of t) = true) g.
Proof.
  intros src g rest Hne H. rewrite ellipsis_unfold in H.
  destruct (2 <=? count_while is_period_tok (g ++ rest)) eqn:E.
  - assert (count_while is_period_tok (g ++ rest) = length g) as L by congruence.
    apply Nat.leb_le in E. split; [lia|].
    pose proof (count_while_all is_period_tok (g ++ rest)) as A. rewrite L, firstn_app_exact in A. exact A.
  - assert (length g = 0) by congruence. destruct g; [contradiction|discriminate].
Qed.

(* ================= latin ================= *)
Definition tok_ok (src : text) (t : token) : Prop := tstart t < tend t /\ tend t <= length src.

Lemma tiling_tok_ok src ts : Tiling 0 (length src) ts -> Forall (tok_ok src) ts.
Proof.
  intros H. pose proof (tiling_nonempty _ _ _ H) as N. pose proof (tiling_in_range _ _ _ H) as R.
  rewrite Forall_forall in *. intros t Hin. specialize (N t Hin). specialize (R t Hin). unfold tok_ok. lia.
Qed.

Lemma forall_skipn {A} (P : A -> Prop) l n : Forall P l -> Forall P (skipn n l).
Proof.
  intros H. rewrite Forall_forall in *. intros x Hin. apply H.
  rewrite <- (firstn_skipn n l). apply in_or_app. right. exact Hin.
Qed.

Lemma get_content_ok src t : tok_ok src t ->
  get_content (tspan t) src = Ok (slice src (tstart t) (tend t)) /\ span_len (tspan t) = Ok (tend t - tstart t).
Proof.
  intros [H1 H2]. unfold tstart, tend in *. unfold get_content, try_get_content, span_len, sub_chk.
  replace (send (tspan t) <? sstart (tspan t)) with false by (symmetry; apply Nat.ltb_ge; lia).
  replace (length src <=? sstart (tspan t)) with false by (symmetry; apply Nat.leb_gt; nlia).
  replace (length src <? send (tspan t)) with false by (symmetry; apply Nat.ltb_ge; nlia).
  cbn. split; reflexivity.
Qed.

Lemma slice_length_ok src t : tok_ok src t -> length (slice src (tstart t) (tend t)) = tend t - tstart t.
Proof.
  intros [H1 H2]. unfold slice. rewrite firstn_length, skipn_length. nlia.
Qed.

(* word-set / any-capitalisation on a suffix whose tokens are inside the text *)
Definition word_text (src : text) (t : token) : text := slice src (tstart t) (tend t).

Lemma wordset_matches_spec words src l : Forall (tok_ok src) l ->
  wordset_matches words src l =
  Ok (match l with
      | [] => 0
      | t :: _ => if negb (is_word (tkind_of t)) then 0
                  else if existsb (fun w => (length (word_text src t) =? length w) && zip_all_eq_ic (word_text src t) w) words
                       then 1 else 0
      end).
Proof.
  intros F. unfold wordset_matches. destruct l as [|t r]; [reflexivity|].
  destruct (negb (is_word (tkind_of t))); [reflexivity|].
  inversion F; subst. destruct (get_content_ok src t H1) as [E _]. rewrite E. reflexivity.
Qed.

Lemma anycap_matches_spec w src l : Forall (tok_ok src) l ->
  anycap_matches w src l =
  Ok (match l with
      | [] => 0
      | t :: _ => if negb (is_word (tkind_of t)) then 0
                  else if negb (tend t - tstart t =? length w) then 0
                  else if zip_all_eq_ic (word_text src t) w then 1 else 0
      end).
Proof.
  intros F. unfold anycap_matches. destruct l as [|t r]; [reflexivity|].
  destruct (negb (is_word (tkind_of t))); [reflexivity|].
  inversion F; subst. destruct (get_content_ok src t H1) as [E L]. rewrite L. cbn [bind].
  destruct (negb (tend t - tstart t =? length w)); [reflexivity|]. rewrite E. reflexivity.
Qed.

(* the pure values of the two alternatives *)
Definition in_wordset (src : text) (t : token) : bool :=
  existsb (fun w => (length (word_text src t) =? length w) && zip_all_eq_ic (word_text src t) w) latin_wordset.
Definition alt1_val (src : text) (l : list token) : nat :=
  match l with
  | t :: p :: _ =>
      if is_word (tkind_of t) && in_wordset src t && is_period (tkind_of p) then 2 else 0
  | _ => 0
  end.

Lemma latin_alt1_spec src l : Forall (tok_ok src) l -> latin_alt1 src l = Ok (alt1_val src l).
Proof.
  intros F. unfold latin_alt1. rewrite (wordset_matches_spec _ _ _ F). cbn [bind].
  destruct l as [|t r]; [reflexivity|]. cbn [alt1_val].
  fold (in_wordset src t).
  destruct (is_word (tkind_of t)); cbn [negb andb].
  - destruct (in_wordset src t); cbn [andb Nat.eqb].
    + destruct r as [|p r']; [reflexivity|]. cbn [skipn period_matches]. destruct (is_period (tkind_of p)); reflexivity.
    + destruct r as [|p r']; reflexivity.
  - destruct r as [|p r']; reflexivity.
Qed.

Definition is_ws_tok (t : token) : bool := is_whitespace_kind (tkind_of t).

Definition alt2_val (src : text) (l : list token) : nat :=
  match l with
  | t :: r =>
      if is_word (tkind_of t) && (tend t - tstart t =? 2) && zip_all_eq_ic (word_text src t) latin_first then
        let w := count_while is_ws_tok r in
        if w =? 0 then 0 else
        match skipn w r with
        | t2 :: p :: _ =>
            if is_word (tkind_of t2) && (tend t2 - tstart t2 =? 2) && zip_all_eq_ic (word_text src t2) latin_second
               && is_period (tkind_of p) then 3 + w else 0
        | _ => 0
        end
      else 0
  | [] => 0
  end.

Lemma latin_alt2_spec src l : Forall (tok_ok src) l -> latin_alt2 src l = Ok (alt2_val src l).
Proof.
  intros F. unfold latin_alt2. rewrite (anycap_matches_spec _ _ _ F). cbn [bind].
  destruct l as [|t r]; [reflexivity|]. cbn [alt2_val].
  change (length latin_first) with 2.
  destruct (is_word (tkind_of t)); cbn [negb andb]; [|reflexivity].
  destruct (tend t - tstart t =? 2); cbn [negb andb]; [|reflexivity].
  destruct (zip_all_eq_ic (word_text src t) latin_first); cbn [Nat.eqb]; [|reflexivity].
  cbn [skipn]. change (fun t0 => is_whitespace_kind (tkind_of t0)) with is_ws_tok.
  set (w := count_while is_ws_tok r). cbv zeta.
  destruct (w =? 0); [reflexivity|].
  change (skipn (1 + w) (t :: r)) with (skipn w r). change (skipn (2 + w) (t :: r)) with (skipn (S w) r).
  assert (Forall (tok_ok src) (skipn w r)) as F2 by (apply forall_skipn; inversion F; assumption).
  rewrite (anycap_matches_spec _ _ _ F2). cbn [bind]. change (length latin_second) with 2.
  replace (skipn (S w) r) with (skipn 1 (skipn w r)) by (rewrite skipn_skipn; f_equal).
  destruct (skipn w r) as [|t2 r2]; [reflexivity|].
  destruct (is_word (tkind_of t2)); cbn [negb andb]; [|destruct r2; reflexivity].
  destruct (tend t2 - tstart t2 =? 2); cbn [negb andb]; [|destruct r2; reflexivity].
  destruct (zip_all_eq_ic (word_text src t2) latin_second); cbn [Nat.eqb andb]; [|destruct r2; reflexivity].
  cbn [skipn]. destruct r2 as [|p r3]; [reflexivity|]. cbn [period_matches].
  destruct (is_period (tkind_of p)); reflexivity.
Qed.

Lemma latin_spec src l : Forall (tok_ok src) l ->
  latin_matches src l = Ok (Nat.max (alt1_val src l) (alt2_val src l)).
Proof.
  intros F. unfold latin_matches. rewrite (latin_alt1_spec _ _ F), (latin_alt2_spec _ _ F). reflexivity.
Qed.

(* character facts *)
Lemma eq_ic_excl x a b : to_ascii_lower a <> to_ascii_lower b ->
  eq_ignore_ascii_case x a = true -> eq_ignore_ascii_case x b = false.
Proof.
  unfold eq_ignore_ascii_case, ceq. intros Hab H. apply N.eqb_eq in H. apply N.eqb_neq. congruence.
Qed.

Lemma zip_first_excl (cs : text) a b ra rb : cs <> [] -> to_ascii_lower a <> to_ascii_lower b ->
  zip_all_eq_ic cs (a :: ra) = true -> zip_all_eq_ic cs (b :: rb) = false.
Proof.
  intros Hne Hab H. destruct cs as [|x cs']; [contradiction|]. cbn [zip_all_eq_ic] in *.
  apply andb_prop in H. destruct H as [H _]. rewrite (eq_ic_excl x a b Hab H). reflexivity.
Qed.

Lemma alt1_alt2_excl src l : Forall (tok_ok src) l -> 0 < alt1_val src l -> alt2_val src l = 0.
Proof.
  intros F H. destruct l as [|t [|p r]]; cbn [alt1_val] in H; try lia.
  cbn [alt2_val].
  destruct (is_word (tkind_of t)); cbn [andb] in *; [|reflexivity].
  destruct (tend t - tstart t =? 2) eqn:L2; cbn [andb]; [|reflexivity]. apply Nat.eqb_eq in L2.
  destruct (zip_all_eq_ic (word_text src t) latin_first) eqn:Z; [|reflexivity]. exfalso.
  inversion F; subst. pose proof (slice_length_ok src t H2) as SL. fold (word_text src t) in SL.
  assert (word_text src t <> []) as Hne by (intros E; rewrite E in SL; cbn in SL; lia).
  unfold in_wordset, latin_wordset in H. cbn [existsb] in H.
  rewrite SL, L2 in H. cbn [length Nat.eqb andb orb] in H.
  rewrite (zip_first_excl (word_text src t) 101 118 _ _ Hne ltac:(vm_compute; discriminate) Z) in H.
  cbn in H. lia.
Qed.

Lemma is_period_not_word k : is_period k = true -> is_word k = false.
Proof. destruct k; try discriminate. reflexivity. Qed.
Lemma is_ws_not_word k : is_whitespace_kind k = true -> is_word k = false.
Proof. destruct k; try discriminate; reflexivity. Qed.

Lemma no_match_if_not_word src t r : is_word (tkind_of t) = false ->
  alt1_val src (t :: r) = 0 /\ alt2_val src (t :: r) = 0.
Proof.
  intros H. cbn [alt1_val alt2_val]. rewrite H. cbn [andb]. split; [destruct r; reflexivity|reflexivity].
Qed.

(* the "al" word starts neither alternative *)
Lemma no_match_at_al src t r : tok_ok src t -> tend t - tstart t = 2 ->
  zip_all_eq_ic (word_text src t) latin_second = true ->
  alt1_val src (t :: r) = 0 /\ alt2_val src (t :: r) = 0.
Proof.
  intros OK L2 Z. pose proof (slice_length_ok src t OK) as SL. fold (word_text src t) in SL.
  assert (word_text src t <> []) as Hne by (intros E; rewrite E in SL; cbn in SL; lia).
  split.
  - cbn [alt1_val]. destruct r as [|p r']; [reflexivity|].
    unfold in_wordset, latin_wordset. cbn [existsb]. rewrite SL, L2. cbn [length Nat.eqb andb orb].
    rewrite (zip_first_excl (word_text src t) 97 118 _ _ Hne ltac:(vm_compute; discriminate) Z).
    rewrite !andb_false_r. reflexivity.
  - cbn [alt2_val]. unfold latin_first.
    rewrite (zip_first_excl (word_text src t) 97 101 _ _ Hne ltac:(vm_compute; discriminate) Z).
    rewrite !andb_false_r. reflexivity.
Qed.

Lemma count_while_nth_true {A} (p : A -> bool) l d x :
  d < count_while p l -> nth_error l d = Some x -> p x = true.
Proof.
  revert d. induction l as [|y l IH]; intros d Hd Hn; cbn [count_while] in Hd; [lia|].
  destruct (p y) eqn:E; [|lia]. destruct d; cbn in Hn; [congruence|]. apply (IH d); [lia|assumption].
Qed.

Lemma skipn_cons_nth {A} (l : list A) d : d < length l -> exists x, nth_error l d = Some x /\ skipn d l = x :: skipn (S d) l.
Proof.
  revert d. induction l as [|y l IH]; intros d Hd; cbn in Hd; [lia|].
  destruct d; [exists y; split; reflexivity|]. destruct (IH d ltac:(lia)) as [x [E S]].
  exists x. split; [exact E|exact S].
Qed.

(* no match strictly inside a match *)
Lemma latin_no_inner src l : Forall (tok_ok src) l ->
  forall d, 0 < d -> d < Nat.max (alt1_val src l) (alt2_val src l) ->
  Nat.max (alt1_val src (skipn d l)) (alt2_val src (skipn d l)) = 0.
Proof.
  intros F d Hd0 Hd.
  destruct (Nat.eq_dec (alt1_val src l) 0) as [A0|A1].
  - (* alt2 gives the match *)
    rewrite A0 in Hd. cbn [Nat.max] in Hd.
    destruct l as [|t r]; [cbn in Hd; lia|]. cbn [alt2_val] in Hd.
    destruct (is_word (tkind_of t) && (tend t - tstart t =? 2) && zip_all_eq_ic (word_text src t) latin_first);
      [|lia].
    set (w := count_while is_ws_tok r) in *. cbv zeta in Hd.
    destruct (w =? 0) eqn:W0; [lia|]. apply Nat.eqb_neq in W0.
    destruct (skipn w r) as [|t2 [|p r3]] eqn:SK; try lia.
    destruct (is_word (tkind_of t2) && (tend t2 - tstart t2 =? 2) && zip_all_eq_ic (word_text src t2) latin_second
              && is_period (tkind_of p)) eqn:K; [|lia].
    apply andb_prop in K. destruct K as [K Kp]. apply andb_prop in K. destruct K as [K Kz].
    apply andb_prop in K. destruct K as [Kw Kl]. apply Nat.eqb_eq in Kl.
    destruct d as [|d']; [lia|]. cbn [skipn].
    assert (Forall (tok_ok src) r) as Fr by (inversion F; assumption).
    destruct (Nat.lt_ge_cases d' w) as [Hin|Hge].
    + (* a whitespace token *)
      pose proof (count_while_le is_ws_tok r) as WL. fold w in WL.
      destruct (skipn_cons_nth r d' ltac:(lia)) as [x [Ex Sx]]. rewrite Sx.
      pose proof (count_while_nth_true is_ws_tok r d' x Hin Ex) as Px. unfold is_ws_tok in Px.
      destruct (no_match_if_not_word src x (skipn (S d') r) (is_ws_not_word _ Px)) as [-> ->]. reflexivity.
    + replace d' with ((d' - w) + w) by lia. rewrite <- skipn_skipn, SK.
      destruct (d' - w) as [|[|e]] eqn:De.
      * cbn [skipn]. assert (tok_ok src t2) as OK2.
        { assert (Forall (tok_ok src) (skipn w r)) as F2 by (apply forall_skipn; assumption).
          rewrite SK in F2. inversion F2; assumption. }
        destruct (no_match_at_al src t2 (p :: r3) OK2 Kl Kz) as [-> ->]. reflexivity.
      * cbn [skipn].
        destruct (no_match_if_not_word src p r3 (is_period_not_word _ Kp)) as [-> ->]. reflexivity.
      * lia.
  - (* alt1 gives the match: the only inner position is the period *)
    assert (0 < alt1_val src l) as A by lia. rewrite (alt1_alt2_excl src l F A) in Hd.
    rewrite Nat.max_0_r in Hd.
    destruct l as [|t [|p r]]; cbn [alt1_val] in Hd; try lia.
    destruct (is_word (tkind_of t) && in_wordset src t && is_period (tkind_of p)) eqn:K; [|lia].
    apply andb_prop in K. destruct K as [_ Kp].
    assert (d = 1) as -> by lia. cbn [skipn].
    destruct (no_match_if_not_word src p r (is_period_not_word _ Kp)) as [-> ->]. reflexivity.
Qed.

Lemma alt_vals_le src l : alt1_val src l <= length l /\ alt2_val src l <= length l.
Proof.
  split.
  - destruct l as [|t [|p r]]; cbn [alt1_val length]; try lia. destruct (_ && _ && _); lia.
  - destruct l as [|t r]; cbn [alt2_val length]; [lia|].
    destruct (_ && _ && _); [|lia]. cbv zeta.
    destruct (count_while is_ws_tok r =? 0); [lia|].
    pose proof (count_while_le is_ws_tok r) as WL.
    destruct (skipn (count_while is_ws_tok r) r) as [|t2 [|p r3]] eqn:SK; try lia.
    destruct (_ && _ && _ && _); [|lia].
    assert (length (skipn (count_while is_ws_tok r) r) = S (S (length r3))) as LS by (rewrite SK; reflexivity).
    rewrite skipn_length in LS. lia.
Qed.

Theorem latin_ok : forall src ts, Tiling 0 (length src) ts ->
  matcher_ok (latin_matches src) ts /\ monotone_ends (latin_matches src) ts.
Proof.
  intros src ts HT. pose proof (tiling_tok_ok src ts HT) as F.
  assert (forall i, latin_matches src (skipn i ts)
                    = Ok (Nat.max (alt1_val src (skipn i ts)) (alt2_val src (skipn i ts)))) as SP.
  { intros i. apply latin_spec. apply forall_skipn. exact F. }
  split.
  - apply matcher_ok_local. intros i _. rewrite SP. eexists. split; [reflexivity|].
    destruct (alt_vals_le src (skipn i ts)). lia.
  - apply monotone_from_no_inner. intros i d Hd0 Hd. unfold match_len in *. rewrite SP in *.
    rewrite (Nat.add_comm i d), <- skipn_skipn.
    apply latin_no_inner; [apply forall_skipn; exact F|exact Hd0|exact Hd].
Qed.

Theorem latin_match_inv : forall src g rest, g <> [] ->
  Forall (tok_ok src) (g ++ rest) ->
  latin_matches src (g ++ rest) = Ok (length g) ->
  (exists w p, g = [w; p] /\ is_word (tkind_of w) = true /\ is_period (tkind_of p) = true /\
      in_wordset src w = true)
  \/ (exists w1 ws w2 p, g = w1 :: ws ++ [w2; p] /\ ws <> [] /\
      Forall (fun t => is_whitespace_kind (tkind_of t) = true) ws /\
      is_word (tkind_of w1) = true /\ is_word (tkind_of w2) = true /\ is_period (tkind_of p) = true /\
      tend w1 - tstart w1 = 2 /\ zip_all_eq_ic (word_text src w1) latin_first = true /\
      tend w2 - tstart w2 = 2 /\ zip_all_eq_ic (word_text src w2) latin_second = true).
Proof.
  intros src g rest Hne F H. rewrite (latin_spec _ _ F) in H.
  assert (Nat.max (alt1_val src (g ++ rest)) (alt2_val src (g ++ rest)) = length g) as M by congruence.
  clear H. assert (0 < length g) as Lg by (destruct g; [contradiction|cbn; lia]).
  destruct (Nat.eq_dec (alt1_val src (g ++ rest)) 0) as [A0|A1].
  - right. rewrite A0 in M. cbn [Nat.max] in M.
    destruct (g ++ rest) as [|t r] eqn:E; [cbn in M; lia|]. cbn [alt2_val] in M.
    destruct (is_word (tkind_of t) && (tend t - tstart t =? 2) && zip_all_eq_ic (word_text src t) latin_first) eqn:K1;
      [|lia].
    set (w := count_while is_ws_tok r) in *. cbv zeta in M.
    destruct (w =? 0) eqn:W0; [lia|]. apply Nat.eqb_neq in W0.
    destruct (skipn w r) as [|t2 [|p r3]] eqn:SK; try lia.
    destruct (is_word (tkind_of t2) && (tend t2 - tstart t2 =? 2) && zip_all_eq_ic (word_text src t2) latin_second
              && is_period (tkind_of p)) eqn:K2; [|lia].
    apply andb_prop in K1. destruct K1 as [K1 K1z]. apply andb_prop in K1. destruct K1 as [K1w K1l].
    apply andb_prop in K2. destruct K2 as [K2 K2p]. apply andb_prop in K2. destruct K2 as [K2 K2z].
    apply andb_prop in K2. destruct K2 as [K2w K2l]. apply Nat.eqb_eq in K1l, K2l.
    (* g = first 3 + w tokens of t :: r *)
    assert (g = firstn (3 + w) (t :: r)) as Eg.
    { rewrite <- E, M. symmetry. apply firstn_app_exact. }
    exists t, (firstn w r), t2, p.
    assert (r = firstn w r ++ t2 :: p :: r3) as Er by (rewrite <- SK; symmetry; apply firstn_skipn).
    pose proof (count_while_le is_ws_tok r) as WL. fold w in WL.
    assert (length (firstn w r) = w) as Lf by (rewrite firstn_length; lia).
    split.
    { rewrite Eg. replace (3 + w) with (S (w + 2)) by lia. cbn [firstn]. f_equal.
      rewrite firstn_plus, SK. reflexivity. }
    split; [intros Z; rewrite Z in Lf; cbn in Lf; lia|].
    split; [exact (count_while_all is_ws_tok r)|]. auto 10.
  - left. assert (0 < alt1_val src (g ++ rest)) as A by lia.
    rewrite (alt1_alt2_excl _ _ F A), Nat.max_0_r in M.
    destruct (g ++ rest) as [|t [|p r]] eqn:E; cbn [alt1_val] in M; try lia.
    destruct (is_word (tkind_of t) && in_wordset src t && is_period (tkind_of p)) eqn:K; [|lia].
    apply andb_prop in K. destruct K as [K Kp]. apply andb_prop in K. destruct K as [Kw Ke].
    exists t, p. split; [|auto].
    destruct g as [|x [|y [|z g']]]; cbn in M; try lia. cbn [app] in E. congruence.
Qed.

Print Assumptions contraction_ok.
Print Assumptions ellipsis_ok.
Print Assumptions latin_ok.
Print Assumptions latin_match_inv.
