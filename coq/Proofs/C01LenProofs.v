(* C01LenProofs.v — soundness of the static match-length bounds of Model/C01Len.v against the matcher of
   Model/Pattern.v, with NO premise on tokens, closures or oracles (only results `Ok n` are spoken about):
     matches p toks src = Ok n  ->  n = 0  \/  min_len p <= n <= max_len p        (matches_len)
   then: every range run_on_chunk hands to match_to_lint is a non-zero answer of the pattern on the rest of the
   chunk (roc_ranges_are_matches), hence has a length within the bounds, hence every literal use that passes
   `use_ok` is a checked operation that succeeds on the matched slice (rule_uses_safe). *)
Require Import Base Overlap TokenSeq Pattern TokenSeqProofs PatternProofs C01Len.
From Coq Require Import Lia.

(* ---------- option-nat facts ---------- *)
Lemma ole_oadd a b x y : ole a x -> ole b y -> ole (a + b) (oadd x y).
Proof. destruct x, y; cbn; intros; try exact I; lia. Qed.
Lemma ole_omax_l a x y : ole a x -> ole a (omax x y).
Proof. destruct x, y; cbn; intros; try exact I; lia. Qed.
Lemma ole_omax_r a x y : ole a y -> ole a (omax x y).
Proof. destruct x, y; cbn; intros; try exact I; lia. Qed.
Lemma ole_zero x : ole 0 x.
Proof. destruct x; cbn; [lia|exact I]. Qed.

Lemma minl_le (l : list nat) x : In x l -> minl l <= x.
Proof.
  destruct l as [|y r]; [intros []|]. cbn [minl]. revert y x.
  induction r as [|z r IH]; intros y x [->|H]; cbn [fold_right].
  - lia.
  - destruct H.
  - specialize (IH x x (or_introl eq_refl)). clear IH.
    assert (forall y, fold_right Nat.min y r <= y) as A.
    { clear. induction r as [|z r IH]; intros y; cbn [fold_right]; [lia|]. specialize (IH y). lia. }
    specialize (A x). lia.
  - destruct H as [->|H].
    + assert (forall a b, a <= b -> fold_right Nat.min a r <= fold_right Nat.min b r) as M.
      { clear. induction r as [|z r IH]; intros a b H; cbn [fold_right]; [exact H|]. specialize (IH a b H). lia. }
      assert (forall y, fold_right Nat.min y r <= y) as A.
      { clear. induction r as [|z r IH]; intros y; cbn [fold_right]; [lia|]. specialize (IH y). lia. }
      lia.
    + specialize (IH y x (or_intror H)). lia.
Qed.

Lemma bind_ok_inv {A B} (r : res A) (k : A -> res B) b : bind r k = Ok b -> exists a, r = Ok a /\ k a = Ok b.
Proof. destruct r as [a|w]; cbn [bind]; [intros H; now exists a|discriminate]. Qed.

Lemma b2n_cases b : b2n b = 0 \/ b2n b = 1.
Proof. destruct b; cbn; auto. Qed.
Lemma wordset_go_cases c ws : wordset_go c ws = 0 \/ wordset_go c ws = 1.
Proof. pose proof (wordset_go_le c ws). lia. Qed.

(* `within L H n`: n is "no match" or lies between the bounds *)
Definition within (L : nat) (H : option nat) (n : nat) : Prop := n = 0 \/ (L <= n /\ ole n H).
Lemma within_weaken L H L' H' n : L' <= L -> (ole n H -> ole n H') -> within L H n -> within L' H' n.
Proof. intros A B [->|[C D]]; [now left|right; split; [lia|auto]]. Qed.
Lemma within_01 n : n = 0 \/ n = 1 -> within 1 (Some 1) n.
Proof. intros [->| ->]; [now left|right; cbn; lia]. Qed.

Section Len.
  Variable leaf : nat -> tok -> text -> res bool.
  Variable oracle : nat -> list tok -> text -> res bool.
  Variable src : text.

  Definition sound (f : list tok -> res nat) (L : nat) (H : option nat) : Prop :=
    forall ts n, f ts = Ok n -> within L H n.

  Section Gen.
    Variable m : pat -> list tok -> res nat.
    Variable lo : pat -> nat.
    Variable hi : pat -> option nat.
    Definition csound (q : pat) : Prop := sound (m q) (lo q) (hi q).

    Lemma seq_go_len ps : Forall csound ps ->
      forall ts cursor n, seq_go pat m ts ps cursor = Ok n -> n <> 0 ->
      cursor + sum_list lo ps <= n /\ forall c, ole cursor c -> ole n (oadd c (osum_list hi ps)).
    Proof.
      induction 1 as [|q r Hq _ IH]; intros ts cursor n E N; cbn [seq_go] in E.
      - injection E as <-. cbn [sum_list osum_list fold_right]. split; [lia|].
        intros c Hc. replace cursor with (cursor + 0) by lia. apply ole_oadd; [exact Hc|cbn; lia].
      - apply bind_ok_inv in E as [rest [_ E]]. apply bind_ok_inv in E as [k [Ek E]].
        destruct (k =? 0) eqn:E0; [injection E as <-; congruence|]. apply Nat.eqb_neq in E0.
        destruct (Hq _ _ Ek) as [->|[K1 K2]]; [congruence|].
        destruct (IH _ _ _ E N) as [A B]. cbn [sum_list osum_list fold_right]. split.
        + unfold sum_list in A. lia.
        + intros c Hc. specialize (B (oadd c (hi q)) (ole_oadd _ _ _ _ Hc K2)).
          unfold osum_list in B. destruct c, (hi q), (fold_right (fun x a => oadd (hi x) a) (Some 0) r); cbn in *; try exact I; lia.
    Qed.

    (* either_go / first_go / keyed_go answer 0, the accumulator, or what ONE child answered *)
    Lemma either_go_len L H ps : Forall (fun q => sound (m q) L H) ps ->
      forall ts longest n, either_go pat m ts ps longest = Ok n -> within L H longest -> within L H n.
    Proof.
      induction 1 as [|q r Hq _ IH]; intros ts longest n E W; cbn [either_go] in E.
      - injection E as <-. exact W.
      - apply bind_ok_inv in E as [k [Ek E]]. apply (IH _ _ _ E).
        destruct (longest <? k); [exact (Hq _ _ Ek)|exact W].
    Qed.
    Lemma first_go_len L H ps : Forall (fun q => sound (m q) L H) ps ->
      forall ts n, first_go pat m ts ps = Ok n -> within L H n.
    Proof.
      induction 1 as [|q r Hq _ IH]; intros ts n E; cbn [first_go] in E.
      - injection E as <-. now left.
      - apply bind_ok_inv in E as [k [Ek E]]. destruct (k =? 0); [exact (IH _ _ E)|].
        injection E as <-. exact (Hq _ _ Ek).
    Qed.
    Lemma keyed_go_len {K} (hit : K -> bool) L H (l : list (K * pat)) :
      Forall (fun kq => sound (m (snd kq)) L H) l ->
      forall ts n, keyed_go pat m hit ts l = Ok n -> within L H n.
    Proof.
      induction 1 as [|[k q] r Hq _ IH]; intros ts n E; cbn [keyed_go] in E.
      - injection E as <-. now left.
      - destruct (hit k); [exact (Hq _ _ E)|exact (IH _ _ E)].
    Qed.

    (* All: 0, or every child answered non-zero and the answer is the longest of them *)
    Lemma all_go_len ps : Forall csound ps ->
      forall ts mx n, all_go pat m ts ps mx = Ok n -> n <> 0 ->
      Nat.max mx (maxl_list lo ps) <= n /\
      forall H, ole mx H -> (forall q k, In q ps -> ole k (hi q) -> ole k H) -> ole n H.
    Proof.
      induction 1 as [|q r Hq _ IH]; intros ts mx n E N; cbn [all_go] in E.
      - injection E as <-. cbn [maxl_list fold_right]. split; [lia|]. intros H A _. exact A.
      - apply bind_ok_inv in E as [k [Ek E]].
        destruct (k =? 0) eqn:E0; [injection E as <-; congruence|]. apply Nat.eqb_neq in E0.
        destruct (Hq _ _ Ek) as [->|[K1 K2]]; [congruence|].
        destruct (IH _ _ _ E N) as [A B]. cbn [maxl_list fold_right]. split.
        + unfold maxl_list in A. destruct (mx <? k) eqn:EL; [apply Nat.ltb_lt in EL|apply Nat.ltb_ge in EL]; lia.
        + intros H Hm Hc. apply B.
          * destruct (mx <? k); [apply (Hc q k); [now left|exact K2]|exact Hm].
          * intros q' k' Hin. apply Hc. now right.
    Qed.

    (* RepeatingPattern: >= required rounds (>= 1 for a non-zero answer), each at least lo q long *)
    Lemma rep_go_len q required ts : csound q ->
      forall fuel cursor rep n, rep_go pat m q required ts fuel cursor rep = Ok n -> n <> 0 ->
      rep * lo q <= cursor -> (rep = 0 -> cursor = 0) -> Nat.max required 1 * lo q <= n.
    Proof.
      intros Hq. induction fuel as [|f IH]; intros cursor rep n E N I1 I2; cbn [rep_go] in E; [discriminate|].
      apply bind_ok_inv in E as [rest [_ E]]. apply bind_ok_inv in E as [k [Ek E]].
      destruct (k =? 0) eqn:E0.
      - destruct (required <=? rep) eqn:ER; injection E as <-; [|congruence].
        apply Nat.leb_le in ER. assert (Nat.max required 1 <= rep) by (destruct rep; [specialize (I2 eq_refl); congruence|lia]).
        etransitivity; [apply Nat.mul_le_mono_r; eassumption|exact I1].
      - apply Nat.eqb_neq in E0. destruct (Hq _ _ Ek) as [->|[K1 _]]; [congruence|].
        apply (IH _ _ _ E N); [cbn [Nat.mul]; lia|discriminate].
    Qed.
  End Gen.

  Lemma Forall_sound_weaken (m : pat -> list tok -> res nat) lo hi L H ps :
    Forall (fun q => sound (m q) (lo q) (hi q)) ps ->
    (forall q, In q ps -> L <= lo q) -> (forall q k, In q ps -> ole k (hi q) -> ole k H) ->
    Forall (fun q => sound (m q) L H) ps.
  Proof.
    intros F A B. rewrite Forall_forall in *. intros q Hin ts n E.
    eapply within_weaken; [apply A, Hin| |exact (F q Hin ts n E)]. intros K. exact (B q n Hin K).
  Qed.
  Lemma ole_omaxl_in (hi : pat -> option nat) ps q k : In q ps -> ole k (hi q) -> ole k (omaxl_list hi ps).
  Proof.
    induction ps as [|x r IH]; [intros []|]. intros [->|Hin] K; cbn [omaxl_list fold_right].
    - now apply ole_omax_l.
    - apply ole_omax_r. now apply IH.
  Qed.
  Lemma ole_fold_snd {K} (hi : pat -> option nat) (l : list (K * pat)) kq k :
    In kq l -> ole k (hi (snd kq)) -> ole k (fold_right (fun kq a => omax (hi (snd kq)) a) (Some 0) l).
  Proof.
    induction l as [|x r IH]; [intros []|]. intros [->|Hin] Hk; cbn [fold_right].
    - now apply ole_omax_l.
    - apply ole_omax_r. now apply IH.
  Qed.
  Lemma minl_map_in (lo : pat -> nat) ps q : In q ps -> minl (map lo ps) <= lo q.
  Proof. intros H. apply minl_le. now apply in_map. Qed.

  Lemma either_like ps :
    Forall (fun q => sound (fun ts => matches leaf oracle q ts src) (min_len q) (max_len q)) ps ->
    Forall (fun q => sound (fun ts => matches leaf oracle q ts src) (minl (map min_len ps)) (omaxl_list max_len ps)) ps.
  Proof.
    intros F. apply (Forall_sound_weaken (fun q ts => matches leaf oracle q ts src) min_len max_len); [exact F| |].
    - intros q Hin. now apply minl_map_in.
    - intros q k Hin. now apply ole_omaxl_in.
  Qed.

  Lemma keyed_like {K} (l : list (K * pat)) :
    Forall (fun kq => sound (fun ts => matches leaf oracle (snd kq) ts src) (min_len (snd kq)) (max_len (snd kq))) l ->
    Forall (fun kq => sound (fun ts => matches leaf oracle (snd kq) ts src)
                            (minl (map (fun kq => min_len (snd kq)) l))
                            (fold_right (fun kq a => omax (max_len (snd kq)) a) (Some 0) l)) l.
  Proof.
    intros F. rewrite Forall_forall in *. intros kq Hin ts n E.
    eapply within_weaken; [| |exact (F kq Hin ts n E)].
    - apply minl_le. exact (in_map (fun kq => min_len (snd kq)) l kq Hin).
    - intros Hk. exact (ole_fold_snd max_len l kq n Hin Hk).
  Qed.

  Lemma m_wordset_01 ws ts k : m_wordset ws ts src = Ok k -> k = 0 \/ k = 1.
  Proof.
    destruct ts as [|t r]; cbn [m_wordset]; [intros E; injection E as <-; now left|].
    destruct (negb (flag F_WORD t)); [intros E; injection E as <-; now left|].
    intros E. apply bind_ok_inv in E as [c [_ E]]. injection E as <-. apply wordset_go_cases.
  Qed.

  Theorem matches_len p : sound (fun ts => matches leaf oracle p ts src) (min_len p) (max_len p).
  Proof.
    induction p using pat_ind2; intros ts n E; cbn [matches min_len max_len] in *.
    - (* PPred *) apply within_01. destruct ts as [|t r]; cbn [m_pred] in E; [injection E as <-; now left|].
      apply bind_ok_inv in E as [b [_ E]]. injection E as <-. apply b2n_cases.
    - (* PFlag *) apply within_01. destruct ts as [|t r]; cbn [m_flag] in E; injection E as <-; [now left|apply b2n_cases].
    - (* PExactWord *) apply within_01. destruct ts as [|t r]; cbn [m_exact_word] in E; [injection E as <-; now left|].
      destruct (negb (flag F_WORD t)); [injection E as <-; now left|].
      apply bind_ok_inv in E as [c [_ E]]. injection E as <-. apply b2n_cases.
    - (* PAny *) apply within_01. destruct ts; cbn [m_any] in E; injection E as <-; auto.
    - (* PWhitespace *) injection E as <-. destruct (ws_go ts) eqn:W; [now left|right; cbn; split; [lia|exact I]].
    - (* PAnyCap *) apply within_01. destruct ts as [|t r]; cbn [m_anycap] in E; [injection E as <-; now left|].
      destruct (negb (flag F_WORD t)); [injection E as <-; now left|].
      apply bind_ok_inv in E as [k [_ E]]. destruct (negb (k =? length w)); [injection E as <-; now left|].
      apply bind_ok_inv in E as [c [_ E]]. injection E as <-. apply b2n_cases.
    - (* PWordSet *) apply within_01. destruct ts as [|t r]; cbn [m_wordset] in E; [injection E as <-; now left|].
      destruct (negb (flag F_WORD t)); [injection E as <-; now left|].
      apply bind_ok_inv in E as [c [_ E]]. injection E as <-. apply wordset_go_cases.
    - (* PWithinEdit *) apply within_01. destruct ts as [|t r]; cbn [m_within_edit] in E; [injection E as <-; now left|].
      destruct (negb (flag F_WORD t)); [injection E as <-; now left|].
      apply bind_ok_inv in E as [c [_ E]]. apply bind_ok_inv in E as [b [_ E]]. injection E as <-. apply b2n_cases.
    - (* PImpliesQuantity *) apply within_01. destruct ts as [|t r]; cbn [m_implies] in E; [injection E as <-; now left|].
      destruct (flag F_WORDMETA t); [destruct (flag F_DET t); [injection E as <-; now right|]|injection E as <-; apply b2n_cases].
      apply bind_ok_inv in E as [c [_ E]]. injection E as <-. apply b2n_cases.
    - (* PNominal *) injection E as <-. destruct (nominal_go ts 0) eqn:W; [now left|right; cbn; split; [lia|exact I]].
    - (* PSeq *) destruct n as [|n']; [now left|right].
      destruct (seq_go_len (fun q ts => matches leaf oracle q ts src) min_len max_len ps H _ _ _ E) as [A B]; [discriminate|].
      split; [lia|]. specialize (B (Some 0)). cbn in B. specialize (B (le_n 0)).
      destruct (osum_list max_len ps); cbn in *; [lia|exact I].
    - (* PEither *) eapply either_go_len; [apply either_like; exact H|exact E|now left].
    - (* PAll *) destruct n as [|n']; [now left|right].
      destruct (all_go_len (fun q ts => matches leaf oracle q ts src) min_len max_len ps H _ _ _ E) as [A B]; [discriminate|].
      split; [lia|]. apply B; [apply ole_zero|]. intros q k Hin. now apply ole_omaxl_in.
    - (* PNaive *) eapply first_go_len; [apply either_like; exact H|exact E].
    - (* PMap *) eapply first_go_len; [apply either_like; exact H|exact E].
    - (* PRepeat *) destruct n as [|n']; [now left|right]. split; [|exact I].
      eapply (rep_go_len (fun q ts => matches leaf oracle q ts src) min_len max_len); [exact IHp|exact E|discriminate|lia|reflexivity].
    - (* PInvert *) apply within_01. destruct ts as [|t r]; [injection E as <-; now left|].
      apply bind_ok_inv in E as [k [_ E]]. injection E as <-. destruct (k =? 0); auto.
    - (* PConsumes *) apply bind_ok_inv in E as [k [Ek E]]. injection E as <-.
      destruct (k =? length ts); [exact (IHp _ _ Ek)|now left].
    - (* PNotTitle *) apply bind_ok_inv in E as [k [Ek E]].
      destruct (k =? 0); [injection E as <-; now left|].
      apply bind_ok_inv in E as [sl [_ E]]. apply bind_ok_inv in E as [sp [_ E]].
      apply bind_ok_inv in E as [c [_ E]]. apply bind_ok_inv in E as [d [_ E]]. injection E as <-.
      destruct d; [exact (IHp _ _ Ek)|now left].
    - (* PExactPhrase *) destruct n as [|n']; [now left|right].
      destruct (seq_go_len (fun q ts => matches leaf oracle q ts src) min_len max_len ps H _ _ _ E) as [A B]; [discriminate|].
      split; [lia|]. specialize (B (Some 0)). cbn in B. specialize (B (le_n 0)).
      destruct (osum_list max_len ps); cbn in *; [lia|exact I].
    - (* PIndefArticle *) apply within_01. unfold m_indef_article, seq_fixed in E. cbn [seq_go] in E.
      apply bind_ok_inv in E as [rest [_ E]]. apply bind_ok_inv in E as [k [Ek E]].
      destruct (m_wordset_01 _ _ _ Ek) as [-> | ->]; cbn in E; injection E as <-; auto.
    - (* PSimilar *) apply bind_ok_inv in E as [ex [_ E]]. apply bind_ok_inv in E as [fz [Ef E]]. injection E as <-.
      destruct (ex =? 0) eqn:E0; cbn [andb]; [|now left]. apply Nat.eqb_eq in E0. subst ex.
      destruct (0 <? fz) eqn:E1; [|now left]. apply Nat.ltb_lt in E1. cbn [Nat.max]. right.
      destruct (seq_go_len (fun q ts => matches leaf oracle q ts src) min_len max_len fs H0 _ _ _ Ef) as [A B]; [lia|].
      split; [lia|]. specialize (B (Some 0)). cbn in B. specialize (B (le_n 0)).
      destruct (osum_list max_len fs); cbn in *; [lia|exact I].
    - (* PSplitCompound *) unfold m_split_compound in E. apply bind_ok_inv in E as [k [_ E]].
      destruct (k =? 3) eqn:E3; cbn [negb] in E; [|injection E as <-; now left]. apply Nat.eqb_eq in E3. subst k.
      apply bind_ok_inv in E as [a [_ E]]. apply bind_ok_inv in E as [b [_ E]].
      apply bind_ok_inv in E as [ca [_ E]]. apply bind_ok_inv in E as [cb [_ E]].
      apply bind_ok_inv in E as [found [_ E]]. injection E as <-.
      destruct found; [right; cbn; lia|now left].
    - (* PKindGroup *) destruct ts as [|t r]; [injection E as <-; now left|].
      eapply (keyed_go_len (fun q ts => matches leaf oracle q ts src)); [apply keyed_like; exact H|exact E].
    - (* PWordGroup *) destruct ts as [|t r]; [injection E as <-; now left|].
      destruct (negb (flag F_WORD t)); [injection E as <-; now left|].
      apply bind_ok_inv in E as [c [_ E]].
      eapply (keyed_go_len (fun q ts => matches leaf oracle q ts src)); [apply keyed_like; exact H|exact E].
  Qed.

  Corollary matches_len_bounds p ts n : matches leaf oracle p ts src = Ok n -> n <> 0 ->
    min_len p <= n /\ ole n (max_len p).
  Proof. intros E N. destruct (matches_len p ts n E) as [->|A]; [congruence|exact A]. Qed.

  (* ---------- run_on_chunk: every range handed to match_to_lint IS a non-zero answer of the pattern ---------- *)
  Lemma roc_ranges_are_matches mf chunk : forall fuel cursor l,
    roc_loop mf chunk fuel cursor = Ok l ->
    Forall (fun ab => fst ab <= length chunk /\ snd ab <= length chunk /\ fst ab < snd ab /\
                      mf (skipn (fst ab) chunk) = Ok (snd ab - fst ab)) l.
  Proof.
    induction fuel as [|f IH]; intros cursor l E; cbn [roc_loop] in E; [discriminate|].
    destruct (length chunk <=? cursor) eqn:EC; [injection E as <-; constructor|]. apply Nat.leb_gt in EC.
    apply bind_ok_inv in E as [rest [Er E]]. rewrite slice_from_ok in Er by lia. injection Er as <-.
    apply bind_ok_inv in E as [n [En E]].
    destruct (n =? 0) eqn:E0; cbn [negb] in E; [exact (IH _ _ E)|]. apply Nat.eqb_neq in E0.
    apply bind_ok_inv in E as [sl [Es E]]. apply bind_ok_inv in E as [tl [Et E]]. injection E as <-.
    constructor; [|exact (IH _ _ Et)]. cbn [fst snd].
    unfold slice_chk in Es. destruct ((cursor + n <? cursor) || (length chunk <? cursor + n)) eqn:EB; [discriminate|].
    apply Bool.orb_false_iff in EB as [_ EB]. apply Nat.ltb_ge in EB.
    repeat split; [lia|lia|lia|]. replace (cursor + n - cursor) with n by lia. exact En.
  Qed.

  (* ---------- a literal use that passes the static test succeeds on every slice whose length is a possible match ---------- *)
  Lemma use_ok_safe lo hi u (mt : list tok) :
    use_ok lo hi u = true -> lo <= length mt -> ole (length mt) hi -> use_run mt u = Ok tt.
  Proof.
    intros U L Hh. destruct u as [k|a b|a|k|ls]; cbn [use_ok use_run] in *.
    - apply Nat.ltb_lt in U. unfold nth_chk. destruct (nth_error mt k) eqn:E; [reflexivity|].
      apply nth_error_None in E. lia.
    - apply Bool.andb_true_iff in U as [U1 U2]. apply Nat.leb_le in U1, U2.
      rewrite slice_chk_ok' by lia. reflexivity.
    - apply Nat.leb_le in U. rewrite slice_from_ok by lia. reflexivity.
    - apply Bool.andb_true_iff in U as [U1 U2]. apply Nat.leb_le in U1, U2.
      unfold sub_chk. destruct (length mt <? k) eqn:E; [apply Nat.ltb_lt in E; lia|]. cbn [bind].
      unfold nth_chk. destruct (nth_error mt (length mt - k)) eqn:E2; [reflexivity|].
      apply nth_error_None in E2. lia.
    - destruct hi as [h|]; [|discriminate]. cbn [ole] in Hh. rewrite forallb_forall in U.
      rewrite (U (length mt)); [reflexivity|]. apply in_seq. lia.
  Qed.

  (* what match_to_lint receives: &chunk[a..b] *)
  Theorem rule_uses_safe (r : rule_row) : rule_ok r = true ->
    forall chunk l, run_on_chunk leaf oracle (r_pat r) chunk src = Ok l ->
    Forall (fun ab => forall u, In u (r_uses r) -> use_run (slice chunk (fst ab) (snd ab)) u = Ok tt) l.
  Proof.
    intros RO chunk l E. unfold run_on_chunk, run_on_chunk_f in E.
    pose proof (roc_ranges_are_matches _ _ _ _ _ E) as R.
    rewrite Forall_forall in *. intros [a b] Hin u Hu. destruct (R _ Hin) as [A [B [C M]]]. cbn [fst snd] in *.
    destruct (matches_len_bounds _ _ _ M) as [L Hh]; [lia|].
    unfold rule_ok in RO. rewrite forallb_forall in RO.
    assert (length (slice chunk a b) = b - a) as LS.
    { unfold slice. rewrite firstn_length, skipn_length. lia. }
    apply (use_ok_safe _ _ _ _ (RO u Hu)); rewrite LS; assumption.
  Qed.
End Len.
