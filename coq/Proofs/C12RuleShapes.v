(* C12RuleShapes.v — the tie between the struct rules of LintGroup::new_curated and the proved locality schemas
   (table regenerated from the Rust sources on every run by tools/tables/c12rules.py):
     struct_rules          for every struct rule: how the body of Linter::lint walks its document;
     shape_schema          the proved schema a shape denotes (flat_map f (iter_X doc) / one-token windows);
     shape_local           every rule that IS an instance of the schema of its shape is paragraph-local;
     struct_rules_classified  the rules whose shape denotes NO proved schema, BY NAME — exactly these remain
                           "locality assumed + monitored"; for the others what remains trusted is the reading of
                           the Rust loop as an instance `mk g0` of the schema its shape names. *)
From Coq Require Import List String Arith.
Require Import Base Overlap ParaSplit ParaSplitProofs Tables_c12rules.
Import ListNotations.

(* a PatternLinter registered as a struct rule runs the blanket impl of pattern_linter.rs *)
Definition resolve (s : rule_shape) : rule_shape :=
  match s with ViaPatternLinter => fst blanket_pattern_shape | other => other end.

Definition rule := list tok -> text -> list lint.

Definition shape_schema (s : rule_shape) : option ((list tok -> text -> list lint) -> rule) :=
  match s with
  | IterChunks => Some (schema_rule is_chunk_terminator)
  | IterSentences => Some (schema_rule is_sentence_terminator)
  | IterParagraphs => Some (schema_rule is_paragraph_break)
  | KindFilter => Some (window_rule 1)
  | _ => None
  end.

Theorem shape_local s mk g0 : shape_schema s = Some mk -> para_local (mk g0).
Proof.
  destruct s; cbn [shape_schema]; intros H; try discriminate; injection H as <-.
  - apply schema_local.
  - apply schema_local.
  - apply schema_local.
  - apply window_local. apply le_n.
Qed.

Definition row_name (r : string * string * string * rule_shape * bool * list string) : string :=
  let '(n, _, _, _, _, _) := r in n.
Definition row_shape (r : string * string * string * rule_shape * bool * list string) : rule_shape :=
  let '(_, _, _, s, _, _) := r in s.
Definition classified (r : string * string * string * rule_shape * bool * list string) : bool :=
  match shape_schema (resolve (row_shape r)) with Some _ => true | None => false end.

Definition unclassified_rules : list (string * rule_shape) :=
  map (fun r => (row_name r, row_shape r)) (filter (fun r => negb (classified r)) struct_rules).

(* the struct rules no proved schema covers, by name, with the reason (their shape) *)
Definition unclassified_expected : list (string * rule_shape) :=
  [("AdjectiveOfA", Neighbourhood 0 4); ("HopHope", Merge); ("CompoundNouns", Merge); ("UnclosedQuotes", TokenLoop);
   ("CommaFixes", Neighbourhood 2 2); ("MergeWords", TupleWindows 3); ("PronounContraction", Merge);
   ("CurrencyPlacement", ThenRemoveOverlaps IterChunks); ("LetsConfusion", Merge);
   ("InflectedVerbAfterTo", Neighbourhood 0 2)]%string.

Theorem struct_rules_classified :
  unclassified_rules = unclassified_expected /\
  resolve ViaPatternLinter = IterChunks /\
  60 <= length (filter classified struct_rules) /\
  length struct_rules = length (filter classified struct_rules) + length unclassified_expected.
Proof. split; [vm_compute; reflexivity|]. split; [reflexivity|]. split; [apply Nat.leb_le; vm_compute; reflexivity|vm_compute; reflexivity]. Qed.

(* every classified rule: its shape denotes a schema, and an instance of that schema is paragraph-local *)
Theorem classified_rules_local :
  Forall (fun r => classified r = true ->
                   exists mk, shape_schema (resolve (row_shape r)) = Some mk /\ forall g0, para_local (mk g0))
         struct_rules.
Proof.
  apply Forall_forall. intros r _ H. unfold classified in H.
  destruct (shape_schema (resolve (row_shape r))) as [mk|] eqn:E; [|discriminate].
  exists mk. split; [reflexivity|]. intros g0. exact (shape_local _ mk g0 E).
Qed.

(* non-vacuity: three rows of the generated table *)
Definition rule_rows_example : list (string * string * string * rule_shape * bool * list string) :=
  [("LongSentences", "LongSentences", "long_sentences.rs", IterSentences, false, []);
   ("SpellCheck", "SpellCheck", "spell_check.rs", KindFilter, false, []);
   ("Itself", "MapPhraseLinter", "map_phrase_linter.rs", ViaPatternLinter, true, [])]%string.
Lemma rule_shapes_example : incl rule_rows_example struct_rules /\ length struct_rules = 74.
Proof.
  split; [|vm_compute; reflexivity]. intros r [<-|[<-|[<-|[]]]]; vm_compute; tauto.
Qed.
