(* C16CtxProofs.v — the dictionary enters a Document only through word metadata, LintContext::from_lint
   blanks word metadata, hence the ignore context of a lint (Model/C16Ctx.v: ctx_inst) is the same under
   every user dictionary: the premise ctx_ignores_dict of C16_ignore_persistent is discharged. *)
Require Import Base Overlap Suggestion LintJson Ignore Wasm C16Ctx ListLemmas IgnoreProofs WasmProofs.
From Coq Require Import List Arith NArith Lia.
Import ListNotations.

(* two results that panic alike or are both Ok and related *)
Definition res_rel {A} (R : A -> A -> Prop) (a b : res A) : Prop :=
  match a, b with
  | Ok x, Ok y => R x y
  | Panic w, Panic w' => w = w'
  | _, _ => False
  end.

Lemma map_tspan_blank l : map tspan (map blank_token l) = map tspan l.
Proof. induction l as [|x r IH]; cbn [map]; [reflexivity|]. rewrite IH. reflexivity. Qed.

Section Doc.
  Variable pre_tokens : text -> language -> list token.
  Variable word_meta : dict -> text -> option N.

  (* one turn of the metadata loop changes the word metadata of that token and nothing else; whether it
     panics does not depend on the dictionary *)
  Lemma set_meta_rel d d' src t :
    res_rel (fun a b => blank_token a = blank_token b) (set_meta word_meta d src t) (set_meta word_meta d' src t).
  Proof.
    unfold set_meta. destruct (tkd t) eqn:K; cbn [res_rel]; try reflexivity.
    destruct (get_content (tspan t) src) as [w|w]; cbn [bind res_rel]; reflexivity.
  Qed.

  Lemma set_meta_blank d src t a : set_meta word_meta d src t = Ok a -> blank_token a = blank_token t.
  Proof.
    unfold set_meta. destruct t as [sp k]. cbn [tkd tspan].
    destruct k; try (intros E; inversion E; reflexivity).
    destruct (get_content sp src); cbn [bind]; intros E; inversion E. reflexivity.
  Qed.

  Lemma map_set_meta_rel d d' src l :
    res_rel (fun a b => map blank_token a = map blank_token b)
            (map_res (set_meta word_meta d src) l) (map_res (set_meta word_meta d' src) l).
  Proof.
    induction l as [|t r IH]; cbn [map_res res_rel]; [reflexivity|].
    pose proof (set_meta_rel d d' src t) as H.
    destruct (set_meta word_meta d src t) as [a|w], (set_meta word_meta d' src t) as [a'|w']; cbn [res_rel bind] in *;
      try contradiction; [|exact H].
    destruct (map_res (set_meta word_meta d src) r) as [x|w], (map_res (set_meta word_meta d' src) r) as [x'|w'];
      cbn [res_rel bind] in *; try contradiction; [|exact IH].
    cbn [map]. rewrite H, IH. reflexivity.
  Qed.

  Lemma map_set_meta_blank d src l : forall ts,
    map_res (set_meta word_meta d src) l = Ok ts -> map blank_token ts = map blank_token l.
  Proof.
    induction l as [|t r IH]; cbn [map_res]; intros ts E; [inversion E; reflexivity|].
    destruct (set_meta word_meta d src t) as [a|w] eqn:Ea; cbn [bind] in E; [|discriminate].
    destruct (map_res (set_meta word_meta d src) r) as [x|w] eqn:Ex; cbn [bind] in E; [|discriminate].
    inversion E. cbn [map]. rewrite (set_meta_blank _ _ _ _ Ea), (IH x eq_refl). reflexivity.
  Qed.

  (* "the dictionary only sets word metadata": every document of a text is the dictionary-free token
     sequence up to word metadata (same source, same spans, same kinds, same quote partners) *)
  Theorem document_is_pre_tokens_up_to_metadata t lang d dc :
    document pre_tokens word_meta t lang d = Ok dc ->
    dsrc dc = t /\ blank_doc dc = blank_doc (mkdoc t (pre_tokens t lang))
    /\ map tspan (dtoks dc) = map tspan (pre_tokens t lang).
  Proof.
    unfold document. destruct (map_res _ _) as [ts|w] eqn:E; cbn [bind]; [|discriminate].
    intros H. inversion H. cbn [dsrc]. split; [reflexivity|]. pose proof (map_set_meta_blank _ _ _ _ E) as B. split.
    - unfold blank_doc. cbn [dsrc dtoks]. rewrite B. reflexivity.
    - cbn [dtoks]. apply (f_equal (map tspan)) in B. rewrite !map_tspan_blank in B. exact B.
  Qed.

  (* two dictionaries: the same panic, or two documents that differ in word metadata only *)
  Lemma document_rel t lang d d' :
    res_rel (fun a b => blank_doc a = blank_doc b)
            (document pre_tokens word_meta t lang d) (document pre_tokens word_meta t lang d').
  Proof.
    unfold document. pose proof (map_set_meta_rel d d' t (pre_tokens t lang)) as H.
    destruct (map_res (set_meta word_meta d t) _) as [x|w], (map_res (set_meta word_meta d' t) _) as [x'|w'];
      cbn [res_rel bind] in *; try contradiction; [|exact H].
    unfold blank_doc. cbn [dsrc dtoks]. rewrite H. reflexivity.
  Qed.

  (* LintContext::from_lint of a lint on a text is the same value (or the same panic) under every
     dictionary *)
  Theorem context_of_ignores_dict l t lang d d' :
    context_of pre_tokens word_meta l t lang d = context_of pre_tokens word_meta l t lang d'.
  Proof.
    unfold context_of. pose proof (document_rel t lang d d') as H.
    destruct (document pre_tokens word_meta t lang d) as [x|w], (document pre_tokens word_meta t lang d') as [x'|w'];
      cbn [res_rel bind] in *; try contradiction; [|now rewrite H].
    apply same_blank_doc_same_context. exact H.
  Qed.

  Section Hash.
    Variable hash : Ignore.ctx -> N.

    Lemma hash_of_context l t lang d :
      hash_of pre_tokens word_meta hash l t lang d =
        (do c <- context_of pre_tokens word_meta l t lang d; Ok (hash c)).
    Proof.
      unfold hash_of, context_of, hash_lint_context.
      destruct (document pre_tokens word_meta t lang d); cbn [bind]; reflexivity.
    Qed.

    Theorem hash_of_ignores_dict l t lang d d' :
      hash_of pre_tokens word_meta hash l t lang d = hash_of pre_tokens word_meta hash l t lang d'.
    Proof. rewrite !hash_of_context, (context_of_ignores_dict l t lang d d'). reflexivity. Qed.

    (* the premise of the abstract theorem, proved for the instance *)
    Theorem ctx_inst_ignores_dict : ctx_ignores_dict (ctx_inst pre_tokens word_meta hash).
    Proof. intros l t lang d d'. unfold ctx_inst. rewrite (hash_of_ignores_dict l t lang d d'). reflexivity. Qed.

    (* equal contexts have equal hashes (no injectivity needed in this direction) *)
    Lemma ctx_inst_of_context l t lang d l' t' lang' d' :
      context_of pre_tokens word_meta l t lang d = context_of pre_tokens word_meta l' t' lang' d' ->
      ctx_inst pre_tokens word_meta hash l t lang d = ctx_inst pre_tokens word_meta hash l' t' lang' d'.
    Proof. intros E. unfold ctx_inst. rewrite !hash_of_context, E. reflexivity. Qed.

    (* no panic on well-formed token sequences (C02: every token lies inside the text) *)
    Definition pre_wf : Prop :=
      forall t lang, Forall (fun tok => span_in (length t) (tspan tok)) (pre_tokens t lang).

    Lemma document_total t lang d : pre_wf -> exists dc, document pre_tokens word_meta t lang d = Ok dc /\ doc_wf dc.
    Proof.
      intros W. unfold document.
      destruct (map_res_ok (set_meta word_meta d t) (pre_tokens t lang)) as [ts E].
      { intros x Hx. specialize (W t lang). rewrite Forall_forall in W. specialize (W x Hx).
        unfold set_meta. destruct (tkd x); eauto. rewrite (get_content_in_bounds _ _ W). cbn [bind]. eauto. }
      rewrite E. cbn [bind]. eexists. split; [reflexivity|].
      unfold doc_wf. cbn [dsrc dtoks].
      assert (map tspan ts = map tspan (pre_tokens t lang)) as S.
      { pose proof (map_set_meta_blank _ _ _ _ E) as B. apply (f_equal (map tspan)) in B.
        rewrite !map_tspan_blank in B. exact B. }
      specialize (W t lang). apply Forall_forall. intros x Hx.
      assert (In (tspan x) (map tspan (pre_tokens t lang))) as I by (rewrite <- S; now apply in_map).
      apply in_map_iff in I. destruct I as [y [Ey Hy]]. rewrite Forall_forall in W. rewrite <- Ey. now apply W.
    Qed.

    Theorem context_of_total l t lang d : pre_wf ->
      exists c, context_of pre_tokens word_meta l t lang d = Ok c
                /\ hash_of pre_tokens word_meta hash l t lang d = Ok (hash c)
                /\ ctx_inst pre_tokens word_meta hash l t lang d = hash c.
    Proof.
      intros W. destruct (document_total t lang d W) as [dc [E Wd]].
      destruct (context_total (ilint_of l) dc Wd) as [c Ec]. exists c.
      assert (context_of pre_tokens word_meta l t lang d = Ok c) as C by (unfold context_of; rewrite E; exact Ec).
      split; [exact C|]. unfold ctx_inst. rewrite hash_of_context, C. cbn [bind]. split; reflexivity.
    Qed.

    (* ---------- the ignore clause with the context instantiated: no premise about the dictionary ---------- *)
    Variable curated : config.
    Variable word_id : text -> N.
    Variable raw_lints : text -> language -> config -> dict -> nat -> list rlint.

    Theorem ignore_persistent_inst st t l cs t2 lang2 ls :
      let ctx := ctx_inst pre_tokens word_meta hash in
      Forall (fun c => c <> CClearIgnored) cs ->
      let st1 := fst (step curated word_id raw_lints ctx st (CIgnore t l)) in
      let st2 := fst (run curated word_id raw_lints ctx st1 cs) in
      api_lint curated raw_lints ctx st2 t2 lang2 = Ok ls ->
      Forall (fun w => (forall d d', ctx (winner w) t2 lang2 d <> ctx (winner l) t (wlang l) d')
                       /\ (forall d d', context_of pre_tokens word_meta (winner w) t2 lang2 d
                                        <> context_of pre_tokens word_meta (winner l) t (wlang l) d')
                       /\ (t2 = t -> lang2 = wlang l -> winner w <> winner l)) ls.
    Proof.
      intros ctx F st1 st2 HL.
      pose proof (ignore_persistent_full curated word_id raw_lints ctx st t l cs t2 lang2 ls
                    ctx_inst_ignores_dict F HL) as P.
      eapply Forall_impl; [|exact P]. cbn beta. intros w [A B]. split; [exact A|]. split; [|exact B].
      intros d d' E. apply (A d d'). apply ctx_inst_of_context. exact E.
    Qed.
  End Hash.
End Doc.

(* ---------- the forms pinned in Properties/C16.v ---------- *)
Theorem context_ignores_dictionary :
  forall (pre_tokens : text -> language -> list token) (word_meta : dict -> text -> option N) (hash : Ignore.ctx -> N),
  (forall l t lang d d', context_of pre_tokens word_meta l t lang d = context_of pre_tokens word_meta l t lang d')
  /\ (forall l t lang d d', hash_of pre_tokens word_meta hash l t lang d = hash_of pre_tokens word_meta hash l t lang d')
  /\ ctx_ignores_dict (ctx_inst pre_tokens word_meta hash).
Proof.
  intros pre meta hash. split; [|split].
  - apply context_of_ignores_dict.
  - apply hash_of_ignores_dict.
  - apply ctx_inst_ignores_dict.
Qed.

Theorem ignore_persistent_closed :
  forall (curated : config) (word_id : text -> N) (raw_lints : text -> language -> config -> dict -> nat -> list rlint)
         (pre_tokens : text -> language -> list token) (word_meta : dict -> text -> option N) (hash : Ignore.ctx -> N) st t l cs t2 lang2 ls,
  let ctx := ctx_inst pre_tokens word_meta hash in
  Forall (fun c => c <> CClearIgnored) cs ->
  let st1 := fst (step curated word_id raw_lints ctx st (CIgnore t l)) in
  let st2 := fst (run curated word_id raw_lints ctx st1 cs) in
  api_lint curated raw_lints ctx st2 t2 lang2 = Ok ls ->
  Forall (fun w => (forall d d', ctx (winner w) t2 lang2 d <> ctx (winner l) t (wlang l) d')
                   /\ (forall d d', context_of pre_tokens word_meta (winner w) t2 lang2 d
                                    <> context_of pre_tokens word_meta (winner l) t (wlang l) d')
                   /\ (t2 = t -> lang2 = wlang l -> winner w <> winner l)) ls.
Proof.
  intros curated word_id raw_lints pre meta hash st t l cs t2 lang2 ls.
  exact (ignore_persistent_inst pre meta hash curated word_id raw_lints st t l cs t2 lang2 ls).
Qed.
