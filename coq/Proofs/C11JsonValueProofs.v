(* C11JsonValueProofs.v — C11 phase 4: the serde_json::Value route (harper-ls Config::from_lsp_config) against the
   typed parser, and the statement lists of harper-wasm's two configuration setters. *)
From Coq Require Import List NArith Bool Arith Lia.
Require Import Base LintGroupCfg LintGroupCfgProofs LintGroupCfgJson C11JsonValue Tables_c11routes.
Import ListNotations.

(* ------------------------------------------------------------------------------------------- *)
(* A. from_value                                                                                *)
(* ------------------------------------------------------------------------------------------- *)
Lemma lift_insert k v (acc : config) : lift_cfg (insert k v acc) = insert k (value_of_opt v) (lift_cfg acc).
Proof.
  induction acc as [|[k0 v0] t IH]; [reflexivity|].
  cbn [insert lift_cfg map fst snd]. destruct (kcmp k k0); cbn [lift_cfg map fst snd]; [reflexivity|reflexivity|].
  f_equal. exact IH.
Qed.

Lemma from_entries_lift (c : config) : forall acc, from_entries (lift_cfg c) acc = Some (extend acc c).
Proof.
  induction c as [|[k v] t IH]; intros acc; [reflexivity|].
  cbn [lift_cfg map from_entries fst snd].
  assert (E : from_value_entry (k, value_of_opt v) = Some (k, v)) by (destruct v as [[]|]; reflexivity).
  rewrite E. fold (lift_cfg t). rewrite IH. reflexivity.
Qed.

(* the Value of a configuration reads back as that configuration *)
Theorem from_value_cfg_value (c : config) : wf c -> from_value (cfg_value c) = Some c.
Proof.
  intros Hw. unfold from_value, cfg_value. rewrite from_entries_lift. f_equal.
  apply (extend_sorted c []). exact Hw.
Qed.

Definition is_leaf (v : jvalue) : bool := match v with JNull | JBool _ => true | _ => false end.
Definition opt_of_value (v : jvalue) : option bool := match v with JBool b => Some b | _ => None end.
Definition unlift (m : list (key * jvalue)) : config := map (fun e => (fst e, opt_of_value (snd e))) m.

Lemma from_entries_exact (m : list (key * jvalue)) : forall acc,
  from_entries m acc = if forallb (fun e => is_leaf (snd e)) m then Some (extend acc (unlift m)) else None.
Proof.
  induction m as [|[k v] t IH]; intros acc; [reflexivity|].
  cbn [from_entries forallb snd]. unfold from_value_entry. cbn [fst snd].
  destruct v; cbn [is_leaf andb]; try reflexivity; rewrite IH; reflexivity.
Qed.

(* EXACT behaviour of serde_json::from_value::<LintGroupConfig> on a Value whose object is a BTreeMap:
   accepted iff it is an object all of whose values are null / true / false (ANY keys); then the configuration
   is the object itself, key by key; everything else (number, string, array, object as a value; a non-object) is
   rejected — never ignored. *)
Theorem from_value_exact (v : jvalue) :
  from_value v =
  match v with
  | JObj m => if forallb (fun e => is_leaf (snd e)) m then Some (extend [] (unlift m)) else None
  | _ => None
  end.
Proof. destruct v; try reflexivity. cbn [from_value]. apply from_entries_exact. Qed.

Lemma unlift_wf (m : list (key * jvalue)) : wf m -> wf (unlift m).
Proof.
  induction m as [|[k v] t IH]; intros Hw; [exact I|].
  cbn [unlift map fst snd]. fold (unlift t). apply wf_cons in Hw as [Hl Hw]. apply wf_cons. split; [|now apply IH].
  destruct t as [|[k' v'] t']; [exact I|exact Hl].
Qed.

Theorem from_value_sorted (m : list (key * jvalue)) c : wf m ->
  from_value (JObj m) = Some c ->
  c = unlift m /\ forall k, get k c = match get k m with Some v => Some (opt_of_value v) | None => None end.
Proof.
  intros Hw H. rewrite from_value_exact in H. destruct (forallb _ m); [|discriminate].
  injection H as <-. rewrite (extend_sorted (unlift m) []) by (now apply unlift_wf). split; [reflexivity|].
  intros k. cbn [app]. clear Hw. induction m as [|[k0 v0] t IH]; [reflexivity|].
  cbn [unlift map get fst snd]. fold (unlift t). destruct (keqb k k0); [reflexivity|exact IH].
Qed.

Theorem from_value_rejects (m : list (key * jvalue)) e :
  In e m -> is_leaf (snd e) = false -> from_value (JObj m) = None.
Proof.
  intros Hin Hl. rewrite from_value_exact.
  destruct (forallb (fun e0 => is_leaf (snd e0)) m) eqn:E; [|reflexivity].
  rewrite forallb_forall in E. rewrite (E e Hin) in Hl. discriminate.
Qed.

(* ------------------------------------------------------------------------------------------- *)
(* B. a text the typed parser accepts is accepted by the Value route, with the same result      *)
(* ------------------------------------------------------------------------------------------- *)
Lemma skip_ws_len s : length (skip_ws s) <= length s.
Proof. induction s as [|b t IH]; [cbn; lia|]. cbn [skip_ws]. destruct (is_ws b); cbn [length] in *; lia. Qed.

Lemma parse_entries_wf : forall fuel first s (acc c : config), wf acc -> parse_entries fuel first s acc = Some c -> wf c.
Proof.
  induction fuel as [|f IH]; intros first s acc c Hw H; [discriminate|].
  cbn [parse_entries] in H.
  destruct (skip_ws s) as [|b rest]; [discriminate|].
  destruct (b =? 125)%N.
  - destruct (skip_ws rest); [|discriminate]. injection H as <-. exact Hw.
  - match type of H with match ?a with _ => _ end = _ => destruct a as [s1|] end; [|discriminate].
    destruct (parse_entry s1) as [[[k v] s5]|]; [|discriminate].
    eapply IH; [|exact H]. now apply wf_insert.
Qed.

Lemma parse_cfg_wf s c : parse_cfg s = Some c -> wf c.
Proof.
  unfold parse_cfg. destruct (skip_ws s) as [|b rest]; [discriminate|]. destruct (b =? 123)%N; [|discriminate].
  apply parse_entries_wf. exact I.
Qed.

Section Route.
  Variable nf : list N -> bool.

  Lemma pval_leaf s v r f d : parse_value s = Some (v, r) -> pval nf (S f) d s = Some (value_of_opt v, r).
  Proof.
    unfold parse_value. cbn [pval]. destruct (skip_ws s) as [|b rest]; [discriminate|].
    destruct (b =? 110)%N.
    { destruct (expect _ rest); [|discriminate]. intros H. injection H as <- <-. reflexivity. }
    destruct (b =? 116)%N.
    { destruct (expect _ rest); [|discriminate]. intros H. injection H as <- <-. reflexivity. }
    destruct (b =? 102)%N.
    { destruct (expect _ rest); [|discriminate]. intros H. injection H as <- <-. reflexivity. }
    discriminate.
  Qed.

  Lemma pobj_S f d first s acc :
    pobj nf (S f) d first s acc =
    match skip_ws s with
    | [] => None
    | b :: rest =>
        if (b =? 125)%N then Some (JObj acc, rest)
        else
          match (if first then Some (b :: rest) else if (b =? 44)%N then Some (skip_ws rest) else None) with
          | None => None
          | Some s1 =>
              match s1 with
              | q :: s2 =>
                  if (q =? 34)%N then
                    match parse_str s2 with
                    | None => None
                    | Some (k, s3) =>
                        match skip_ws s3 with
                        | c :: s4 =>
                            if (c =? 58)%N then
                              match pval nf f d s4 with
                              | None => None
                              | Some (v, s5) => pobj nf f d false s5 (jinsert k v acc)
                              end
                            else None
                        | [] => None
                        end
                    end
                  else None
              | [] => None
              end
          end
    end.
  Proof. reflexivity. Qed.

  Lemma pobj_entries : forall fuel first s (acc c : config), parse_entries fuel first s acc = Some c ->
    forall f d, fuel < f ->
    exists r, pobj nf f d first s (lift_cfg acc) = Some (JObj (lift_cfg c), r) /\ skip_ws r = [].
  Proof.
    induction fuel as [|fuel IH]; intros first s acc c H f d Hf; [discriminate|].
    destruct f as [|f']; [lia|].
    cbn [parse_entries] in H. rewrite pobj_S.
    destruct (skip_ws s) as [|b rest]; [discriminate|].
    destruct (b =? 125)%N.
    - destruct (skip_ws rest) eqn:E; [|discriminate]. injection H as <-. exists rest. split; [reflexivity|exact E].
    - match type of H with match ?a with _ => _ end = _ => destruct a as [s1|] end; [|discriminate].
      unfold parse_entry in H.
      destruct s1 as [|q s2]; [discriminate|]. destruct (q =? 34)%N; [|discriminate].
      destruct (parse_str s2) as [[k s3]|]; [|discriminate].
      destruct (skip_ws s3) as [|c0 s4]; [discriminate|]. destruct (c0 =? 58)%N; [|discriminate].
      destruct (parse_value s4) as [[v s5]|] eqn:Ev; [|discriminate].
      destruct f' as [|f'']; [lia|]. rewrite (pval_leaf _ _ _ f'' d Ev).
      unfold jinsert. rewrite <- lift_insert. apply IH; [exact H|lia].
  Qed.

  Lemma pval_obj f d s rest : skip_ws s = 123%N :: rest ->
    pval nf (S f) (S (S d)) s = pobj nf f (S d) true rest [].
  Proof. intros E. cbn [pval]. rewrite E. reflexivity. Qed.

  Lemma typed_parse_json s c : parse_cfg s = Some c -> parse_json nf s = Some (cfg_value c).
  Proof.
    intros H. unfold parse_cfg in H. destruct (skip_ws s) as [|b rest] eqn:E; [discriminate|].
    destruct (b =? 123)%N eqn:Eb; [|discriminate]. apply N.eqb_eq in Eb. subst b.
    pose proof (skip_ws_len s) as Hl. rewrite E in Hl. cbn [length] in Hl.
    unfold parse_json, json_fuel.
    replace (2 * length s + 2) with (S (2 * length s + 1)) by lia.
    change 128 with (S (S 126)). rewrite (pval_obj _ _ _ _ E).
    destruct (pobj_entries _ _ _ _ _ H (2 * length s + 1) 127) as [r [Hr Hws]]; [lia|].
    change (lift_cfg []) with (@nil (key * jvalue)) in Hr. rewrite Hr, Hws. reflexivity.
  Qed.

  (* every text serde_json::from_str::<LintGroupConfig> accepts is accepted by from_str::<Value> + from_value, and
     gives the SAME configuration *)
  Theorem value_route_of_typed s c : parse_cfg s = Some c -> value_text_route nf s = Some c.
  Proof.
    intros H. unfold value_text_route. rewrite (typed_parse_json _ _ H).
    apply from_value_cfg_value. exact (parse_cfg_wf _ _ H).
  Qed.

  (* on a text both routes accept they agree *)
  Theorem routes_agree s c1 c2 : parse_cfg s = Some c1 -> value_text_route nf s = Some c2 -> c1 = c2.
  Proof. intros H1 H2. rewrite (value_route_of_typed _ _ H1) in H2. now injection H2. Qed.

  (* print, then the Value route *)
  Theorem value_route_roundtrip (c : config) : wf c -> value_text_route nf (print_cfg c) = Some c.
  Proof. intros Hw. apply value_route_of_typed. now apply json_roundtrip. Qed.
End Route.

(* the converse fails: the Value route drops an ill-typed EARLIER duplicate before its type is looked at *)
Definition lenient_text : list N :=      (* {"b":-0,"b":true} *)
  [123; 34; 98; 34; 58; 45; 48; 44; 34; 98; 34; 58; 116; 114; 117; 101; 125]%N.
Theorem value_route_more_lenient :
  parse_cfg lenient_text = None /\
  value_text_route (fun _ => true) lenient_text = Some [([98%N], Some true)].
Proof. split; vm_compute; reflexivity. Qed.

(* ------------------------------------------------------------------------------------------- *)
(* C. Config::from_lsp_config                                                                   *)
(* ------------------------------------------------------------------------------------------- *)
Definition settings_of (h : list (key * jvalue)) : jvalue := JObj [(k_harper_ls, JObj h)].

Lemma lsp_settings_of others h :
  lsp_lint_config others (settings_of h) =
  if existsb (fun k => contains_key k h) others then LOther
  else match get k_linters h with
       | None => LCfg empty_cfg
       | Some lv => match from_value lv with Some c => LCfg c | None => LBail end
       end.
Proof. reflexivity. Qed.

(* {"harper-ls": {"linters": <the Value of c>}} configures exactly c; without "linters" the default (empty) one *)
Theorem lsp_linters_value (c : config) : wf c ->
  lsp_lint_config lsp_other_keys (settings_of [(k_linters, cfg_value c)]) = LCfg c.
Proof.
  intros Hw. rewrite lsp_settings_of.
  change (existsb (fun k => contains_key k [(k_linters, cfg_value c)]) lsp_other_keys) with false.
  change (get k_linters [(k_linters, cfg_value c)]) with (Some (cfg_value c)).
  cbv iota. now rewrite from_value_cfg_value.
Qed.

(* a key of the "harper-ls" object that from_lsp_config does not read is ignored *)
Theorem lsp_unknown_key_ignored (h : list (key * jvalue)) k v :
  ~ In k lsp_config_keys ->
  lsp_lint_config lsp_other_keys (settings_of (insert k v h)) = lsp_lint_config lsp_other_keys (settings_of h).
Proof.
  intros Hn. rewrite !lsp_settings_of.
  assert (E1 : existsb (fun k0 => contains_key k0 (insert k v h)) lsp_other_keys
               = existsb (fun k0 => contains_key k0 h) lsp_other_keys).
  { assert (Hsub : forall k0, In k0 lsp_other_keys -> In k0 lsp_config_keys).
    { intros k0 H0. cbn in H0 |- *. tauto. }
    revert Hsub. generalize lsp_other_keys as l. induction l as [|k0 l IH]; intros Hsub; [reflexivity|].
    cbn [existsb]. rewrite contains_key_insert.
    assert (keqb k0 k = false) as ->.
    { apply keqb_neq. intros ->. apply Hn. apply Hsub. now left. }
    cbn [orb]. f_equal. apply IH. intros k1 H1. apply Hsub. now right. }
  rewrite E1. rewrite get_insert_other; [reflexivity|].
  intros <-. apply Hn. cbn. tauto.
Qed.

(* a non-boolean, non-null value anywhere in "linters" makes from_lsp_config fail (the server keeps its old Config) *)
Theorem lsp_rejects_non_boolean (m : list (key * jvalue)) e :
  In e m -> is_leaf (snd e) = false ->
  lsp_lint_config lsp_other_keys (settings_of [(k_linters, JObj m)]) = LBail.
Proof.
  intros Hin Hl. rewrite lsp_settings_of.
  change (existsb (fun k => contains_key k [(k_linters, JObj m)]) lsp_other_keys) with false.
  change (get k_linters [(k_linters, JObj m)]) with (Some (JObj m)).
  cbv iota. now rewrite (from_value_rejects m e Hin Hl).
Qed.

(* ------------------------------------------------------------------------------------------- *)
(* D. harper-wasm: both setters, AS WRITTEN (Tables_c11routes), compute wasm_set_config         *)
(* ------------------------------------------------------------------------------------------- *)
Theorem wasm_routes_are_set (stored parsed : config) :
  run_wbody wasm_set_from_json_body stored None parsed = Some (wasm_set_config stored parsed) /\
  run_wbody wasm_set_from_object_body stored None parsed = Some (wasm_set_config stored parsed) /\
  wbody_parser wasm_set_from_json_body = Some WFromJsonStr /\
  wbody_parser wasm_set_from_object_body = Some WFromJsObject.
Proof. repeat split; reflexivity. Qed.

(* ------------------------------------------------------------------------------------------- *)
(* E. the fuel of parse_json is never the reason for a refusal                                  *)
(* ------------------------------------------------------------------------------------------- *)
Lemma expect_len lit : forall s r, expect lit s = Some r -> length r <= length s.
Proof.
  induction lit as [|c lit IH]; intros s r H; cbn [expect] in H.
  - injection H as <-. lia.
  - destruct s as [|x s']; [discriminate|]. destruct (x =? c)%N; [|discriminate].
    apply IH in H. cbn [length]. lia.
Qed.

Lemma parse_str_len : forall n s k r, length s <= n -> parse_str s = Some (k, r) -> length r <= length s.
Proof.
  induction n as [|n IH]; intros s k r Hn H.
  - destruct s; [discriminate|cbn in Hn; lia].
  - destruct s as [|b rest]; [discriminate|]. cbn [parse_str] in H.
    repeat (match type of H with
            | None = Some _ => discriminate H
            | (if ?c then _ else _) = Some _ => destruct c
            | (match parse_str ?x with _ => _ end) = Some _ =>
                let E := fresh "E" in destruct (parse_str x) as [[? ?]|] eqn:E;
                [apply IH in E; [|cbn [length] in Hn; lia]|discriminate H]
            | (match ?x with _ => _ end) = Some _ => destruct x
            end);
    injection H as <- <-; cbn [length] in *; lia.
Qed.

Lemma take_digits_len s : length (snd (take_digits s)) <= length s.
Proof.
  induction s as [|b t IH]; [cbn; lia|]. cbn [take_digits]. destruct (is_digit b); [|cbn; lia].
  destruct (take_digits t) as [d r]. cbn [snd length] in *. lia.
Qed.

Local Opaque take_digits.

Lemma scan_exponent_len s l r : scan_exponent s = Some (l, r) -> length r <= length s.
Proof.
  unfold scan_exponent. destruct s as [|e s1]; [intros H; injection H as <- <-; lia|].
  destruct ((e =? 101) || (e =? 69))%N; [|intros H; injection H as <- <-; lia].
  destruct s1 as [|c s2]; [discriminate|].
  destruct ((c =? 43) || (c =? 45))%N.
  - destruct s2 as [|d s3]; [discriminate|]. destruct (is_digit d); [|discriminate].
    intros H. injection H as <- <-. pose proof (take_digits_len (d :: s3)). cbn [length] in *. lia.
  - destruct (is_digit c); [|discriminate].
    intros H. injection H as <- <-. pose proof (take_digits_len (c :: s2)). cbn [length] in *. lia.
Qed.

Lemma scan_fraction_len s l r : scan_fraction s = Some (l, r) -> length r <= length s.
Proof.
  unfold scan_fraction. destruct s as [|p s1]; [intros H; injection H as <- <-; lia|].
  destruct (p =? 46)%N; [|apply scan_exponent_len].
  pose proof (take_digits_len s1) as Hd. destruct (fst (take_digits s1)); [discriminate|].
  destruct (scan_exponent (snd (take_digits s1))) as [[ex r']|] eqn:E; [|discriminate].
  intros H. injection H as <- <-. apply scan_exponent_len in E. cbn [length]. lia.
Qed.

Lemma scan_number_len b t l r : scan_number (b :: t) = Some (l, r) -> length r <= length t.
Proof.
  unfold scan_number. destruct (b =? 48)%N.
  - destruct t as [|c t']; [intros H; injection H as <- <-; cbn; lia|].
    destruct (is_digit c); [discriminate|].
    destruct (scan_fraction (c :: t')) as [[f r']|] eqn:E; [|discriminate].
    intros H. injection H as <- <-. now apply scan_fraction_len in E.
  - destruct (is_digit b); [|discriminate].
    pose proof (take_digits_len t) as Hd.
    destruct (scan_fraction (snd (take_digits t))) as [[f r']|] eqn:E; [|discriminate].
    intros H. injection H as <- <-. apply scan_fraction_len in E. lia.
Qed.

Section Fuel.
  Variable nf : list N -> bool.

  Lemma pval_S f d s :
    pval nf (S f) d s =
    match skip_ws s with
    | [] => None
    | b :: rest =>
        if (b =? 110)%N then match expect [117; 108; 108]%N rest with Some r => Some (JNull, r) | None => None end
        else if (b =? 116)%N then match expect [114; 117; 101]%N rest with Some r => Some (JBool true, r) | None => None end
        else if (b =? 102)%N then match expect [97; 108; 115; 101]%N rest with Some r => Some (JBool false, r) | None => None end
        else if (b =? 45)%N then
          match scan_number rest with
          | Some (lit, r) => if nf (b :: lit) then Some (JNum, r) else None
          | None => None
          end
        else if is_digit b then
          match scan_number (b :: rest) with
          | Some (lit, r) => if nf lit then Some (JNum, r) else None
          | None => None
          end
        else if (b =? 34)%N then match parse_str rest with Some (k, r) => Some (JStr k, r) | None => None end
        else if (b =? 91)%N then match d with S (S d') => parr nf f (S d') true rest [] | _ => None end
        else if (b =? 123)%N then match d with S (S d') => pobj nf f (S d') true rest [] | _ => None end
        else None
    end.
  Proof. reflexivity. Qed.

  Lemma parr_S f d first s acc :
    parr nf (S f) d first s acc =
    match skip_ws s with
    | [] => None
    | b :: rest =>
        if (b =? 93)%N then Some (JArr (rev acc), rest)
        else
          match (if first then Some (b :: rest)
                 else if (b =? 44)%N then
                   match skip_ws rest with
                   | [] => None
                   | c :: r' => if (c =? 93)%N then None else Some (c :: r')
                   end
                 else None) with
          | None => None
          | Some s1 =>
              match pval nf f d s1 with
              | None => None
              | Some (v, s2) => parr nf f d false s2 (v :: acc)
              end
          end
    end.
  Proof. reflexivity. Qed.

  Lemma parse_lens : forall f,
    (forall d s v r, pval nf f d s = Some (v, r) -> length r < length s) /\
    (forall d first s acc v r, parr nf f d first s acc = Some (v, r) -> length r < length s) /\
    (forall d first s acc v r, pobj nf f d first s acc = Some (v, r) -> length r < length s).
  Proof.
    induction f as [|f [IHv [IHa IHo]]]; [repeat split; intros; discriminate|].
    split; [|split].
    - intros d s v r. rewrite pval_S. pose proof (skip_ws_len s) as Hs.
      destruct (skip_ws s) as [|b rest]; [discriminate|]. cbn [length] in Hs.
      destruct (b =? 110)%N.
      { destruct (expect _ rest) as [r0|] eqn:E; [|discriminate]. intros H. injection H as _ <-. apply expect_len in E. lia. }
      destruct (b =? 116)%N.
      { destruct (expect _ rest) as [r0|] eqn:E; [|discriminate]. intros H. injection H as _ <-. apply expect_len in E. lia. }
      destruct (b =? 102)%N.
      { destruct (expect _ rest) as [r0|] eqn:E; [|discriminate]. intros H. injection H as _ <-. apply expect_len in E. lia. }
      destruct (b =? 45)%N.
      { destruct rest as [|b1 t1]; [discriminate|].
        destruct (scan_number (b1 :: t1)) as [[lit r0]|] eqn:E; [|discriminate].
        destruct (nf (b :: lit)); [|discriminate]. intros H. injection H as _ <-. apply scan_number_len in E. cbn [length] in *. lia. }
      destruct (is_digit b).
      { destruct (scan_number (b :: rest)) as [[lit r0]|] eqn:E; [|discriminate].
        destruct (nf lit); [|discriminate]. intros H. injection H as _ <-. apply scan_number_len in E. lia. }
      destruct (b =? 34)%N.
      { destruct (parse_str rest) as [[k r0]|] eqn:E; [|discriminate]. intros H. injection H as _ <-.
        apply (parse_str_len _ _ _ _ (le_n _)) in E. lia. }
      destruct (b =? 91)%N.
      { destruct d as [|[|d']]; try discriminate. intros H. apply IHa in H. lia. }
      destruct (b =? 123)%N; [|discriminate].
      destruct d as [|[|d']]; try discriminate. intros H. apply IHo in H. lia.
    - intros d first s acc v r. rewrite parr_S. pose proof (skip_ws_len s) as Hs.
      destruct (skip_ws s) as [|b rest]; [discriminate|]. cbn [length] in Hs.
      destruct (b =? 93)%N. { intros H. injection H as _ <-. lia. }
      assert (Hsep : forall s1, (if first then Some (b :: rest)
                 else if (b =? 44)%N then
                   match skip_ws rest with
                   | [] => None
                   | c :: r' => if (c =? 93)%N then None else Some (c :: r')
                   end
                 else None) = Some s1 -> length s1 <= length s).
      { intros s1. destruct first. { intros H. injection H as <-. cbn [length]. lia. }
        destruct (b =? 44)%N; [|discriminate]. pose proof (skip_ws_len rest) as Hr.
        destruct (skip_ws rest) as [|c r']; [discriminate|]. destruct (c =? 93)%N; [discriminate|].
        intros H. injection H as <-. lia. }
      destruct (if first then _ else _) as [s1|]; [|discriminate]. specialize (Hsep s1 eq_refl).
      destruct (pval nf f d s1) as [[v0 s2]|] eqn:E; [|discriminate]. apply IHv in E.
      intros H. apply IHa in H. lia.
    - intros d first s acc v r. rewrite pobj_S. pose proof (skip_ws_len s) as Hs.
      destruct (skip_ws s) as [|b rest]; [discriminate|]. cbn [length] in Hs.
      destruct (b =? 125)%N. { intros H. injection H as _ <-. lia. }
      assert (Hsep : forall s1, (if first then Some (b :: rest) else if (b =? 44)%N then Some (skip_ws rest) else None) = Some s1 ->
                                length s1 <= length s).
      { intros s1. destruct first. { intros H. injection H as <-. cbn [length]. lia. }
        destruct (b =? 44)%N; [|discriminate]. pose proof (skip_ws_len rest) as Hr.
        intros H. injection H as <-. lia. }
      destruct (if first then _ else _) as [s1|]; [|discriminate]. specialize (Hsep s1 eq_refl).
      destruct s1 as [|q s2]; [discriminate|]. destruct (q =? 34)%N; [|discriminate].
      destruct (parse_str s2) as [[k s3]|] eqn:E3; [|discriminate].
      apply (parse_str_len _ _ _ _ (le_n _)) in E3.
      pose proof (skip_ws_len s3) as H3. destruct (skip_ws s3) as [|c s4]; [discriminate|].
      destruct (c =? 58)%N; [|discriminate].
      destruct (pval nf f d s4) as [[v0 s5]|] eqn:E; [|discriminate]. apply IHv in E.
      intros H. apply IHo in H. cbn [length] in *. lia.
  Qed.

  Lemma fuel_stable : forall f1,
    (forall f2 d s, 2 * length s < f1 -> 2 * length s < f2 -> pval nf f1 d s = pval nf f2 d s) /\
    (forall f2 d first s acc, 2 * length s + 1 < f1 -> 2 * length s + 1 < f2 ->
       parr nf f1 d first s acc = parr nf f2 d first s acc) /\
    (forall f2 d first s acc, 2 * length s + 1 < f1 -> 2 * length s + 1 < f2 ->
       pobj nf f1 d first s acc = pobj nf f2 d first s acc).
  Proof.
    induction f1 as [|f1 [IHv [IHa IHo]]]; [repeat split; intros; lia|].
    split; [|split].
    - intros f2 d s H1 H2. destruct f2 as [|f2]; [lia|]. rewrite !pval_S.
      pose proof (skip_ws_len s) as Hs. destruct (skip_ws s) as [|b rest]; [reflexivity|]. cbn [length] in Hs.
      destruct (b =? 110)%N; [reflexivity|]. destruct (b =? 116)%N; [reflexivity|]. destruct (b =? 102)%N; [reflexivity|].
      destruct (b =? 45)%N; [reflexivity|]. destruct (is_digit b); [reflexivity|]. destruct (b =? 34)%N; [reflexivity|].
      destruct (b =? 91)%N. { destruct d as [|[|d']]; try reflexivity. apply IHa; lia. }
      destruct (b =? 123)%N; [|reflexivity]. destruct d as [|[|d']]; try reflexivity. apply IHo; lia.
    - intros f2 d first s acc H1 H2. destruct f2 as [|f2]; [lia|]. rewrite !parr_S.
      pose proof (skip_ws_len s) as Hs. destruct (skip_ws s) as [|b rest]; [reflexivity|]. cbn [length] in Hs.
      destruct (b =? 93)%N; [reflexivity|].
      assert (Hsep : forall s1, (if first then Some (b :: rest)
                 else if (b =? 44)%N then
                   match skip_ws rest with
                   | [] => None
                   | c :: r' => if (c =? 93)%N then None else Some (c :: r')
                   end
                 else None) = Some s1 -> length s1 <= length s).
      { intros s1. destruct first. { intros H. injection H as <-. cbn [length]. lia. }
        destruct (b =? 44)%N; [|discriminate]. pose proof (skip_ws_len rest) as Hr.
        destruct (skip_ws rest) as [|c r']; [discriminate|]. destruct (c =? 93)%N; [discriminate|].
        intros H. injection H as <-. lia. }
      destruct (if first then _ else _) as [s1|]; [|reflexivity]. specialize (Hsep s1 eq_refl).
      rewrite (IHv f2 d s1) by lia.
      destruct (pval nf f2 d s1) as [[v0 s2]|] eqn:E; [|reflexivity].
      apply (proj1 (parse_lens f2)) in E. apply IHa; lia.
    - intros f2 d first s acc H1 H2. destruct f2 as [|f2]; [lia|]. rewrite !pobj_S.
      pose proof (skip_ws_len s) as Hs. destruct (skip_ws s) as [|b rest]; [reflexivity|]. cbn [length] in Hs.
      destruct (b =? 125)%N; [reflexivity|].
      assert (Hsep : forall s1, (if first then Some (b :: rest) else if (b =? 44)%N then Some (skip_ws rest) else None) = Some s1 ->
                                length s1 <= length s).
      { intros s1. destruct first. { intros H. injection H as <-. cbn [length]. lia. }
        destruct (b =? 44)%N; [|discriminate]. pose proof (skip_ws_len rest) as Hr.
        intros H. injection H as <-. lia. }
      destruct (if first then _ else _) as [s1|]; [|reflexivity]. specialize (Hsep s1 eq_refl).
      destruct s1 as [|q s2]; [reflexivity|]. destruct (q =? 34)%N; [|reflexivity].
      destruct (parse_str s2) as [[k s3]|] eqn:E3; [|reflexivity].
      apply (parse_str_len _ _ _ _ (le_n _)) in E3.
      pose proof (skip_ws_len s3) as H3. destruct (skip_ws s3) as [|c s4]; [reflexivity|].
      destruct (c =? 58)%N; [|reflexivity]. cbn [length] in *.
      rewrite (IHv f2 d s4) by lia.
      destruct (pval nf f2 d s4) as [[v0 s5]|] eqn:E; [|reflexivity].
      apply (proj1 (parse_lens f2)) in E. apply IHo; lia.
  Qed.

  (* the answer of parse_json does not depend on its fuel: any larger fuel gives the same Value or the same refusal,
     so a refusal is always a refusal of the text (a syntax error, a number out of range, nesting deeper than 127) *)
  Theorem parse_json_fuel_stable s f : json_fuel s <= f -> pval nf f 128 s = pval nf (json_fuel s) 128 s.
  Proof. intros H. unfold json_fuel in *. apply (proj1 (fuel_stable f)); lia. Qed.
End Fuel.
