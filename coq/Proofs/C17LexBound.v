(* C17LexBound.v — C17: PlainEnglish::parse yields tokens inside the text, in order.
   On a text whose suffixes are all `quiet` (lex_url, lex_email_address, lex_hostname answer None — the two sub-lexers
   with open tails never decide), every sub-lexer returns a length <= the remaining text, so the token list of
   lex_loop satisfies J (sorted starts, start <= end <= length of the text). *)
Require Import Base Overlap Suggestion Tables_number Number NumberArith ListLemmas SuggestionProofs.
Require Import NumberLex NumberPasses NumberProofs C17Texts C17MultiText C17Later C17LaterProofs C17Bounds C17Order.
From Coq Require Import List Arith NArith Bool Lia Sorted.
Import ListNotations.
Local Open Scope list_scope.

Lemma count_while_le {A} (p : A -> bool) (l : list A) : count_while p l <= length l.
Proof. induction l as [|x r IH]; cbn [count_while length]; [lia|]. destruct (p x); lia. Qed.
Lemma last_position_bound {A} (p : A -> bool) : forall (l : list A) (e : nat), last_position p l = Some e -> e < length l.
Proof.
  induction l as [|x r IH]; intros e H; cbn [last_position] in H; [discriminate|]. cbn [length].
  destruct (last_position p r) as [i|].
  - injection H as <-. specialize (IH i eq_refl). lia.
  - destruct (p x); [injection H as <-; lia | discriminate].
Qed.

Ltac tlia := unfold text, char in *; cbn [fst length] in *; lia.

Section LexBound.
  Variable U : uni.
  Variable ut : text -> nat.
  Variable et : text -> nat -> option nat.

  Lemma regex_body_le : forall (k : nat) (rest : text) (i n : nat),
    length rest <= k -> regex_body U rest i = Some n -> n <= i + length rest.
  Proof.
    induction k as [|k IH]; intros rest i n Hk H.
    - destruct rest; [discriminate | cbn in Hk; lia].
    - destruct rest as [|c r1]; [discriminate|]. cbn [regex_body] in H.
      destruct (negb (u_alnum U c)); [discriminate|].
      destruct r1 as [|d r2]; [discriminate|].
      destruct (d =? 45)%N.
      + destruct r2 as [|e r3]; [discriminate|].
        destruct (negb (u_alnum U e)); [discriminate|].
        destruct r3 as [|x r4]; [discriminate|].
        destruct (x =? 93)%N.
        * injection H as <-. cbn [length]. lia.
        * apply IH in H; [cbn [length] in *; lia | cbn [length] in *; lia].
      + destruct (d =? 93)%N.
        * injection H as <-. cbn [length]. lia.
        * apply IH in H; [cbn [length] in *; lia | cbn [length] in *; lia].
  Qed.
  Lemma hex_scan_le : forall (rest : text) (i : nat) (acc : N) (j : nat) (v : N),
    hex_scan U rest i acc = Some (j, v) -> j <= i + length rest.
  Proof.
    induction rest as [|c r IH]; intros i acc j v H; cbn [hex_scan] in H.
    - injection H as <- _. lia.
    - destruct (is_ascii_hexdigit c).
      + apply IH in H. cbn [length]. lia.
      + destruct (u_alnum U c); [discriminate|]. injection H as <- _. lia.
  Qed.

  (* every sub-lexer but the two with open tails returns a length inside the text *)
  Lemma lex_token_le (c0 : N) (rest : text) :
    quiet U ut et (c0 :: rest) ->
    forall r, lex_token U ut et (c0 :: rest) = Some r -> fst r <= length (c0 :: rest).
  Proof.
    intros (Hurl & Hmail & Hhost). unfold Number.lex_token.
    repeat (apply orelse_all).
    - (* regexish *)
      intros r H. cbn [lex_regexish] in H. destruct (c0 =? 91)%N; [|discriminate].
      destruct (regex_body U rest 1) as [n|] eqn:E; [|discriminate]. apply some_inj in H; subst r.
      apply regex_body_le with (k := length rest) in E; [|lia]. tlia.
    - (* punctuation *)
      intros r H. cbn [lex_punctuation] in H.
      destruct (memN c0 quote_chars).
      + apply some_inj in H; subst r. tlia.
      + destruct (punct_of c0) as [p|]; [|discriminate]. apply some_inj in H; subst r. tlia.
    - intros r H. unfold lex_tabs in H. destruct (0 <? _); [|discriminate].
      apply some_inj in H; subst r. cbn [fst]. apply count_while_le.
    - intros r H. unfold lex_spaces in H. destruct (0 <? _); [|discriminate].
      apply some_inj in H; subst r. cbn [fst]. apply count_while_le.
    - intros r H. unfold lex_newlines in H. destruct (0 <? _); [|discriminate].
      apply some_inj in H; subst r. cbn [fst]. apply count_while_le.
    - (* plural digit *)
      intros r H. cbn [lex_plural_digit] in H.
      destruct (negb (is_ascii_alnum c0)); [discriminate|].
      destruct rest as [|a r1'].
      + cbn [snd] in H. discriminate.
      + destruct (a =? 39)%N; cbn [fst snd] in H.
        * destruct r1' as [|s r3]; [discriminate|]. destruct (s =? 115)%N; [|discriminate].
          destruct r3 as [|x r4].
          -- apply some_inj in H; subst r. tlia.
          -- destruct (negb (u_alnum U x)); [|discriminate]. apply some_inj in H; subst r. tlia.
        * destruct (a =? 115)%N; [|discriminate].
          destruct r1' as [|x r4].
          -- apply some_inj in H; subst r. tlia.
          -- destruct (negb (u_alnum U x)); [|discriminate]. apply some_inj in H; subst r. tlia.
    - (* hex *)
      intros r H. cbn [lex_hex_number] in H.
      destruct rest as [|c1 [|c2 rest']]; try discriminate.
      destruct ((c0 =? 48)%N && (c1 =? 120)%N && is_ascii_hexdigit c2); [|discriminate].
      destruct (hex_scan U (c2 :: rest') 2 0%N) as [[i v]|] eqn:ES; [|discriminate].
      destruct (v <? two64)%N; [|discriminate]. apply some_inj in H; subst r.
      apply hex_scan_le in ES. tlia.
    - (* decade *)
      intros r H. pose proof H as H'. apply decade_inv in H'.
      destruct H' as (d0 & d1 & d2 & d3 & d4 & rr & Heq & _).
      rewrite Heq in H. cbn [lex_long_decade] in H.
      repeat match type of H with (if ?b then None else _) = Some _ => destruct b; [discriminate|] end.
      rewrite Heq. destruct rr as [|c5 rr'].
      + apply some_inj in H; subst r. tlia.
      + destruct (u_alnum U c5); [discriminate|]. apply some_inj in H; subst r. tlia.
    - (* number *)
      intros r H. cbn [lex_number] in H.
      destruct (u_numeric U c0); cbn [negb] in H; [|discriminate].
      destruct (last_position _ _) as [e|] eqn:El; [|discriminate].
      destruct r as [n kd]. apply longest_float_bound in H. destruct H as [[_ H1] _].
      apply last_position_bound in El. rewrite firstn_length in El. tlia.
    - (* url *)
      intros r H. rewrite Hurl in H. discriminate.
    - (* e-mail *)
      intros r H. rewrite Hmail in H. discriminate.
    - (* hostname *)
      intros r H. rewrite Hhost in H. discriminate.
    - (* word *)
      intros r H. unfold lex_word in H.
      destruct (position _ _) as [i|] eqn:Ep.
      + apply position_bound in Ep. destruct (i =? 0); [discriminate|]. apply some_inj in H; subst r. tlia.
      + destruct (_ =? 0); [discriminate|]. apply some_inj in H; subst r. tlia.
    - (* catch *)
      intros r H. apply some_inj in H; subst r. tlia.
  Qed.

  (* PlainEnglish::parse on a text all of whose suffixes are quiet *)
  Lemma lex_loop_J : forall (fuel : nat) (rest : text) (q : nat) (L : list token),
    (forall j, quiet U ut et (skipn j rest)) ->
    lex_loop U ut et fuel q rest = Ok L ->
    J (q + length rest) L /\ Forall (fun s => q <= s) (starts L).
  Proof.
    induction fuel as [|f IH]; intros rest q L Hq HE.
    - destruct rest; cbn [lex_loop] in HE; [|discriminate]. injection HE as <-. split; [split|]; constructor.
    - destruct rest as [|c0 rest']; cbn [lex_loop] in HE.
      + injection HE as <-. split; [split|]; constructor.
      + destruct (lex_token U ut et (c0 :: rest')) as [[n k]|] eqn:Et; [|discriminate].
        pose proof (lex_token_le c0 rest' (Hq 0) (n, k) Et) as Hn. cbn [fst] in Hn.
        unfold span_new in HE. destruct (q + n <? q) eqn:Eq; [apply Nat.ltb_lt in Eq; lia|]. cbn [bind] in HE.
        destruct (lex_loop U ut et f (q + n) (skipn n (c0 :: rest'))) as [tl|] eqn:Er; cbn [bind] in HE; [|discriminate].
        injection HE as <-.
        destruct (IH _ _ _ (fun j => eq_rect _ (quiet U ut et) (Hq (j + n)) _ (eq_sym (skipn_skipn j n (c0 :: rest')))) Er) as [[HS HF] HQ].
        assert (Hlen : q + n + length (skipn n (c0 :: rest')) = q + length (c0 :: rest')) by (rewrite skipn_length; unfold text, char in *; lia).
        rewrite Hlen in HF.
        split; [split|].
        * unfold starts. cbn [map tspan sstart]. constructor; [exact HS|].
          eapply Forall_impl; [|exact HQ]. intros s Hs. cbv beta in *. lia.
        * constructor; [|exact HF]. unfold inr. cbn [tspan sstart send]. lia.
        * unfold starts. cbn [map tspan sstart]. constructor; [lia|].
          eapply Forall_impl; [|exact HQ]. intros s Hs. cbv beta in *. lia.
  Qed.
End LexBound.

(* TEXT level: the whole modelled Document::parse returns on every text of the class *)
Theorem lint_list_total :
  forall (U : uni) (ut : text -> nat) (et : text -> nat -> option nat),
  ascii_laws U ->
  forall (l : list inst) (post : text),
  mctx_ok U l post = true ->
  (exists T', doc_final U ut et (mtext l post) = Ok T' /\ filter is_number T' = mlist 0 l
              /\ tokok (length (mtext l post)) T')
  /\ lint_doc U ut et (mtext l post) = Ok (Some (mexpected 0 l)).
Proof.
  intros U ut et HU l post Hctx.
  destruct (lint_list_doc_thm U ut et HU l post Hctx) as ((T & HT) & _).
  apply (lint_list_total_partial U ut et HU l post Hctx T HT).
  pose proof Hctx as Hctx0.
  unfold mctx_ok in Hctx. rewrite !andb_true_iff, negb_true_iff in Hctx. destruct Hctx as [[Hseg Hmark] Hdots].
  destruct HU as (L1 & L2 & L3 & L4).
  pose proof (segs_ok_no_at U ut et l post Hseg) as Hat.
  assert (Hq : forall j, quiet U ut et (skipn j (mtext l post))).
  { intros j. split; [|split].
    - apply url_none; [exact et|]. apply scheme_mark_skipn; first [exact Hmark | assumption].
    - apply email_none. apply Forall_skipn; first [exact Hat | assumption].
    - apply host_none; [exact ut | exact et |]. apply dots_ok_skipn; first [exact Hdots | assumption]. }
  apply J_tokok.
  destruct (lex_doc U ut et (mtext l post)) as [T0|] eqn:HL.
  - eapply doc_tokens_J; [exact HL | | exact HT].
    unfold lex_doc in HL. destruct (lex_loop_J U ut et _ _ _ _ Hq HL) as [HJ _]. exact HJ.
  - unfold doc_tokens in HT. rewrite HL in HT. discriminate.
Qed.

(* PlainEnglish::parse (lex_doc) on a text all of whose suffixes are quiet *)
Theorem lex_doc_J (U : uni) (ut : text -> nat) (et : text -> nat -> option nat) (src : text) (L : list token) :
  (forall j, quiet U ut et (skipn j src)) -> lex_doc U ut et src = Ok L -> J (length src) L.
Proof. intros Hq HL. unfold lex_doc in HL. destruct (lex_loop_J U ut et _ _ _ _ Hq HL) as [HJ _]. exact HJ. Qed.
