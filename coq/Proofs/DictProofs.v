(* DictProofs.v — the exact queries of the three dictionary back-ends: the word map is a finite map
   keyed by id, FstDictionary answers like the MutableDictionary it was built from, a merged
   dictionary is the first-wins union of its children. *)
Require Import Base Tables_normalize DictModel Fuzzy ListLemmas.
From Coq Require Import Lia Permutation Sorting.Sorted.

Lemma text_eqb_eq a b : text_eqb a b = true <-> a = b.
Proof.
  revert b. induction a as [|x a IH]; intros [|y b]; cbn [text_eqb]; split; intros H; try discriminate; try reflexivity.
  - apply andb_true_iff in H as [H1 H2]. apply N.eqb_eq in H1. apply IH in H2. now subst.
  - injection H as -> ->. rewrite N.eqb_refl. cbn. now apply IH.
Qed.

Lemma text_eqb_refl a : text_eqb a a = true.
Proof. now apply text_eqb_eq. Qed.

Lemma text_eqb_neq a b : text_eqb a b = false <-> a <> b.
Proof.
  split.
  - intros H E. apply text_eqb_eq in E. congruence.
  - intros H. destruct (text_eqb a b) eqn:E; [apply text_eqb_eq in E; contradiction|reflexivity].
Qed.

Lemma text_eqb_sym a b : text_eqb a b = text_eqb b a.
Proof.
  destruct (text_eqb a b) eqn:E.
  - apply text_eqb_eq in E. subst. symmetry. apply text_eqb_refl.
  - symmetry. apply text_eqb_neq. apply text_eqb_neq in E. congruence.
Qed.

(* ------------------------------------------------------------------------------------------ *)
(** * the association list as a finite map *)
Lemma wm_get_put_same m id e : wm_get (wm_put m id e) id = Some e.
Proof.
  induction m as [|[k e0] m IH]; cbn [wm_put wm_get].
  - now rewrite text_eqb_refl.
  - destruct (text_eqb k id) eqn:E; cbn [wm_get]; rewrite E; [reflexivity|exact IH].
Qed.

Lemma wm_get_put_other m id e id' : id' <> id -> wm_get (wm_put m id e) id' = wm_get m id'.
Proof.
  intros Hne. induction m as [|[k e0] m IH]; cbn [wm_put wm_get].
  - replace (text_eqb id id') with false by (symmetry; apply text_eqb_neq; congruence). reflexivity.
  - destruct (text_eqb k id) eqn:E; cbn [wm_get].
    + apply text_eqb_eq in E. subst k.
      replace (text_eqb id id') with false by (symmetry; apply text_eqb_neq; congruence). reflexivity.
    + now rewrite IH.
Qed.

Lemma wm_put_keys m id e : In id (map fst m) -> map fst (wm_put m id e) = map fst m.
Proof.
  induction m as [|[k e0] m IH]; cbn [map fst wm_put In]; [tauto|]. intros [->|Hin].
  - now rewrite text_eqb_refl.
  - destruct (text_eqb k id) eqn:E; [reflexivity|]. cbn [map fst]. now rewrite IH.
Qed.

Lemma wm_put_fresh m id e : ~ In id (map fst m) -> wm_put m id e = m ++ [(id, e)].
Proof.
  induction m as [|[k e0] m IH]; cbn [map fst wm_put In app]; intros Hn; [reflexivity|].
  replace (text_eqb k id) with false by (symmetry; apply text_eqb_neq; intros ->; tauto).
  rewrite IH by tauto. reflexivity.
Qed.

Lemma wm_get_in m id e : NoDup (map fst m) -> (wm_get m id = Some e <-> In (id, e) m).
Proof.
  induction m as [|[k e0] m IH]; cbn [map fst wm_get In]; intros ND.
  - split; [discriminate|tauto].
  - inversion ND as [|? ? Hnin ND']; subst.
    destruct (text_eqb k id) eqn:E.
    + apply text_eqb_eq in E. subst k. split.
      * intros H. injection H as ->. now left.
      * intros [H|H]; [now injection H as ->|]. exfalso. apply Hnin. apply (in_map fst) in H. exact H.
    + apply text_eqb_neq in E. rewrite (IH ND'). split; [tauto|]. intros [H|H]; [injection H as -> _; congruence|exact H].
Qed.

Lemma wm_get_none m id : wm_get m id = None <-> ~ In id (map fst m).
Proof.
  induction m as [|[k e0] m IH]; cbn [map fst wm_get In]; [tauto|].
  destruct (text_eqb k id) eqn:E.
  - apply text_eqb_eq in E. subst. split; [discriminate|tauto].
  - apply text_eqb_neq in E. rewrite IH. tauto.
Qed.

Lemma wm_get_app m1 m2 id :
  wm_get (m1 ++ m2) id = match wm_get m1 id with Some e => Some e | None => wm_get m2 id end.
Proof.
  induction m1 as [|[k e0] m1 IH]; cbn [app wm_get]; [reflexivity|].
  destruct (text_eqb k id); [reflexivity|exact IH].
Qed.

(* ------------------------------------------------------------------------------------------ *)
(** * the model's sort and dedup *)
Lemma insert_by_perm {A} (le : A -> A -> bool) x l : Permutation (insert_by le x l) (x :: l).
Proof.
  induction l as [|y ys IH]; cbn [insert_by]; [reflexivity|].
  destruct (le x y); [reflexivity|]. rewrite IH. apply perm_swap.
Qed.

Lemma isort_perm {A} (le : A -> A -> bool) l : Permutation (isort le l) l.
Proof.
  induction l as [|x xs IH]; cbn [isort]; [reflexivity|].
  rewrite insert_by_perm. now constructor.
Qed.

Lemma dedup_from_distinct {A} (key : A -> text) last l :
  ~ In (key last) (map key l) -> NoDup (map key l) ->
  dedup_from (fun x y => text_eqb (key x) (key y)) last l = l.
Proof.
  revert last. induction l as [|y rest IH]; intros last Hn ND; cbn [dedup_from]; [reflexivity|].
  cbn [map In] in Hn. inversion ND as [|? ? Hy ND']; subst.
  replace (text_eqb (key y) (key last)) with false by (symmetry; apply text_eqb_neq; intros E; apply Hn; now left).
  f_equal. now apply IH.
Qed.

Lemma dedup_by_distinct {A} (key : A -> text) l :
  NoDup (map key l) -> dedup_by (fun x y => text_eqb (key x) (key y)) l = l.
Proof.
  destruct l as [|x rest]; intros ND; cbn [dedup_by]; [reflexivity|].
  inversion ND; subst. f_equal. now apply dedup_from_distinct.
Qed.

Lemma NoDup_snoc {A} (l : list A) a : NoDup l -> ~ In a l -> NoDup (l ++ [a]).
Proof.
  intros ND Hn. apply (NoDup_Add (Add_app a l [])). rewrite app_nil_r. now split.
Qed.

(* ------------------------------------------------------------------------------------------ *)
(** * the order on spellings, sorting and dedup in general *)
Lemma text_leb_refl a : text_leb a a = true.
Proof. induction a as [|x a IH]; cbn [text_leb]; [reflexivity|]. rewrite N.ltb_irrefl, N.eqb_refl. exact IH. Qed.

Lemma text_leb_total a b : text_leb a b = true \/ text_leb b a = true.
Proof.
  revert b. induction a as [|x a IH]; intros [|y b]; cbn [text_leb]; auto.
  destruct (N.ltb_spec x y); [now left|]. destruct (N.ltb_spec y x); [now right|].
  assert (x = y) as -> by lia. rewrite N.eqb_refl. apply IH.
Qed.

Lemma text_leb_trans a b c : text_leb a b = true -> text_leb b c = true -> text_leb a c = true.
Proof.
  revert b c. induction a as [|x a IH]; intros [|y b] [|z c]; cbn [text_leb]; auto; try discriminate.
  destruct (N.ltb_spec x y) as [Hxy|Hxy]; destruct (N.ltb_spec y z) as [Hyz|Hyz]; intros H1 H2.
  - destruct (N.ltb_spec x z); [reflexivity|lia].
  - destruct (N.eqb_spec y z); [|discriminate]. subst. destruct (N.ltb_spec x z); [reflexivity|lia].
  - destruct (N.eqb_spec x y); [|discriminate]. subst. destruct (N.ltb_spec y z); [reflexivity|lia].
  - destruct (N.eqb_spec x y); [|discriminate]. destruct (N.eqb_spec y z); [|discriminate]. subst.
    rewrite N.ltb_irrefl, N.eqb_refl. eapply IH; eassumption.
Qed.

Lemma text_leb_antisym a b : text_leb a b = true -> text_leb b a = true -> a = b.
Proof.
  revert b. induction a as [|x a IH]; intros [|y b]; cbn [text_leb]; auto; try discriminate.
  destruct (N.ltb_spec x y) as [Hxy|Hxy]; destruct (N.ltb_spec y x) as [Hyx|Hyx]; intros H1 H2; try lia.
  - destruct (N.eqb_spec y x); [lia|discriminate].
  - destruct (N.eqb_spec x y); [lia|discriminate].
  - destruct (N.eqb_spec x y); [|discriminate]. subst. rewrite N.eqb_refl in H2. f_equal. now apply IH.
Qed.

Section SortGen.
  Context {A : Type} (le : A -> A -> bool).
  Hypothesis le_total : forall a b, le a b = true \/ le b a = true.
  Hypothesis le_trans : forall a b c, le a b = true -> le b c = true -> le a c = true.
  Let R (a b : A) : Prop := le a b = true.

  Lemma insert_by_sorted_gen x l : StronglySorted R l -> StronglySorted R (insert_by le x l).
  Proof.
    induction 1 as [|y ys Hs IH Hy]; cbn [insert_by]; [repeat constructor|].
    destruct (le x y) eqn:E.
    - constructor; [now constructor|]. constructor; [exact E|].
      eapply Forall_impl; [|exact Hy]. intros z Hz. now apply (le_trans x y z).
    - constructor; [exact IH|]. rewrite (insert_by_perm le x ys).
      constructor; [|exact Hy]. destruct (le_total x y) as [H|H]; [congruence|exact H].
  Qed.

  Lemma isort_sorted_gen l : StronglySorted R (isort le l).
  Proof. induction l as [|x xs IH]; cbn [isort]; [constructor|now apply insert_by_sorted_gen]. Qed.
End SortGen.

(* two sorted permutations of each other coincide when the order is antisymmetric *)
Lemma sorted_perm_eq {A} (R : A -> A -> Prop) (antisym : forall a b, R a b -> R b a -> a = b) :
  forall l l', StronglySorted R l -> StronglySorted R l' -> Permutation l l' -> l = l'.
Proof.
  induction l as [|a l IH]; intros l' S S' P.
  - apply Permutation_nil in P. now subst.
  - destruct l' as [|b l']; [apply Permutation_sym, Permutation_nil in P; discriminate|].
    inversion S as [|? ? Sl Fa]; subst. inversion S' as [|? ? Sl' Fb]; subst.
    rewrite Forall_forall in Fa, Fb.
    assert (a = b) as ->.
    { assert (Ha : In a (b :: l')) by (eapply Permutation_in; [exact P|now left]).
      assert (Hb : In b (a :: l)) by (eapply Permutation_in; [apply Permutation_sym; exact P|now left]).
      destruct Ha as [->|Ha]; [reflexivity|]. destruct Hb as [->|Hb]; [reflexivity|].
      apply antisym; [now apply Fa|now apply Fb]. }
    f_equal. apply IH; [exact Sl|exact Sl'|]. eapply Permutation_cons_inv; exact P.
Qed.

Lemma dedup_from_incl {A} (same : A -> A -> bool) last l x : In x (dedup_from same last l) -> In x l.
Proof.
  revert last. induction l as [|y rest IH]; intros last H; cbn [dedup_from] in H; [contradiction|].
  destruct (same y last); [right; eapply IH; exact H|]. destruct H as [<-|H]; [now left|right; eapply IH; exact H].
Qed.

Lemma dedup_by_incl {A} (same : A -> A -> bool) l x : In x (dedup_by same l) -> In x l.
Proof.
  destruct l as [|a l]; cbn [dedup_by]; [tauto|]. intros [<-|H]; [now left|right; eapply dedup_from_incl; exact H].
Qed.

(* after a sort by a text key, dedup by that key leaves pairwise distinct keys *)
Section DedupGen.
  Context {A : Type} (key : A -> text).
  Definition key_same (x y : A) : bool := text_eqb (key x) (key y).
  Definition key_R (a b : A) : Prop := text_leb (key a) (key b) = true.

  Lemma dedup_from_sorted_gen l : forall last, StronglySorted key_R (last :: l) ->
    NoDup (map key (last :: dedup_from key_same last l)).
  Proof.
    induction l as [|y rest IH]; intros last S.
    - cbn [dedup_from map]. repeat constructor. intros [].
    - inversion S as [|? ? S1 F1]; subst. inversion S1 as [|? ? S2 F2]; subst. inversion F1 as [|? ? Hly F1']; subst.
      cbn [dedup_from]. destruct (key_same y last) eqn:E.
      + apply IH. constructor; assumption.
      + specialize (IH y S1). rewrite map_cons. constructor; [|exact IH].
        intros Hin. apply in_map_iff in Hin as (z & Ez & Hz).
        assert (Hz' : In z (y :: rest)) by (destruct Hz as [<-|Hz]; [now left|right; eapply dedup_from_incl; exact Hz]).
        assert (Hyz : key_R y z).
        { destruct Hz' as [<-|Hz']; [apply text_leb_refl|]. rewrite Forall_forall in F2. now apply F2. }
        unfold key_R in Hly, Hyz. rewrite Ez in Hyz.
        pose proof (text_leb_antisym _ _ Hly Hyz) as Eq.
        unfold key_same in E. apply text_eqb_neq in E. apply E. now symmetry.
  Qed.

  Lemma dedup_by_sorted_nodup l : StronglySorted key_R l -> NoDup (map key (dedup_by key_same l)).
  Proof.
    destruct l as [|a l]; intros S; cbn [dedup_by]; [constructor|]. now apply dedup_from_sorted_gen.
  Qed.
End DedupGen.

Lemma filter_id {A} (p : A -> bool) l : (forall x, In x l -> p x = true) -> filter p l = l.
Proof.
  induction l as [|x l IH]; intros H; cbn [filter]; [reflexivity|].
  rewrite (H x (or_introl eq_refl)). f_equal. apply IH. intros y Hy. apply H. now right.
Qed.

Lemma nodup_fst_unique {A B} (l : list (A * B)) a b b' :
  NoDup (map fst l) -> In (a, b) l -> In (a, b') l -> b = b'.
Proof.
  induction l as [|[x y] l IH]; cbn [map fst In]; intros ND H1 H2; [contradiction|].
  inversion ND as [|? ? Hn ND']; subst.
  destruct H1 as [H1|H1]; destruct H2 as [H2|H2].
  - congruence.
  - injection H1 as -> ->. exfalso. apply Hn. apply (in_map fst) in H2. exact H2.
  - injection H2 as -> ->. exfalso. apply Hn. apply (in_map fst) in H1. exact H1.
  - now apply IH.
Qed.

Section DictFacts.
  Variable is_lower : char -> bool.
  Variable lower : char -> list char.
  Notation word_id := (word_id is_lower lower).
  Notation wm_insert := (wm_insert is_lower lower).
  Notation mut_extend := (mut_extend is_lower lower).

  (* the invariant of a WordMap: keys are unique and each key is the id of its entry's spelling *)
  Definition wm_wf (m : wordmap) : Prop :=
    NoDup (map fst m) /\ forall k e, In (k, e) m -> k = word_id (e_canon e).

  Lemma wm_wf_nil : wm_wf [].
  Proof. split; [constructor|intros k e []]. Qed.

  Lemma wm_put_nodup m id e : NoDup (map fst m) -> NoDup (map fst (wm_put m id e)).
  Proof.
    intros ND. destruct (in_dec (list_eq_dec N.eq_dec) id (map fst m)) as [Hin|Hnin].
    - now rewrite wm_put_keys.
    - rewrite wm_put_fresh by exact Hnin. rewrite map_app. cbn [map fst].
      apply NoDup_snoc; assumption.
  Qed.

  (* what a put does to the contents, for a map with unique keys *)
  Lemma wm_put_in m id e k e' : NoDup (map fst m) ->
    (In (k, e') (wm_put m id e) <-> (k = id /\ e' = e) \/ (k <> id /\ In (k, e') m)).
  Proof.
    intros ND. rewrite <- (wm_get_in _ _ _ (wm_put_nodup m id e ND)).
    destruct (list_eq_dec N.eq_dec k id) as [->|Hne].
    - rewrite wm_get_put_same. split.
      + intros H. injection H as ->. now left.
      + intros [[_ ->]|[H _]]; [reflexivity|congruence].
    - rewrite wm_get_put_other by exact Hne. rewrite (wm_get_in _ _ _ ND). split.
      + intros H. right. now split.
      + intros [[H _]|[_ H]]; [congruence|exact H].
  Qed.

  Lemma wm_insert_wf m e : wm_wf m -> wm_wf (wm_insert m e).
  Proof.
    intros [ND K]. split; [now apply wm_put_nodup|].
    intros k e' H. apply wm_put_in in H; [|exact ND].
    destruct H as [[-> ->]|[_ H]]; [reflexivity|now apply K].
  Qed.

  Lemma mut_extend_wf ws : forall m, wm_wf m -> wm_wf (mut_extend m ws).
  Proof.
    induction ws as [|[w md] ws IH]; intros m Hm; [exact Hm|].
    change (wm_wf (mut_extend (wm_insert m (mkentry md w)) ws)).
    apply IH. now apply wm_insert_wf.
  Qed.

  (* every MutableDictionary reachable through new() + extend_words satisfies the invariant *)
  Corollary mut_extend_nil_wf ws : wm_wf (mut_extend [] ws).
  Proof. apply mut_extend_wf, wm_wf_nil. Qed.

  (* ---------- building a map from entries with pairwise distinct ids is `map` ---------- *)
  Definition entry_of (wm : text * meta) : text * entry := (word_id (fst wm), mkentry (snd wm) (fst wm)).
  Definition ids_of (ws : list (text * meta)) : list text := map (fun wm => word_id (fst wm)) ws.

  Lemma mut_extend_cons m wm ws :
    mut_extend m (wm :: ws) = mut_extend (wm_insert m (mkentry (snd wm) (fst wm))) ws.
  Proof. reflexivity. Qed.

  Lemma mut_extend_distinct_ids_gen ws : forall m,
    NoDup (map fst m ++ ids_of ws) -> mut_extend m ws = m ++ map entry_of ws.
  Proof.
    induction ws as [|[w md] ws IH]; intros m ND.
    - cbn. now rewrite app_nil_r.
    - rewrite mut_extend_cons. unfold DictModel.wm_insert. cbn [e_canon fst snd].
      assert (Hfresh : ~ In (word_id w) (map fst m)).
      { intros Hin. apply NoDup_remove_2 in ND. apply ND. apply in_or_app. now left. }
      rewrite wm_put_fresh by exact Hfresh.
      rewrite IH.
      + rewrite <- app_assoc. reflexivity.
      + rewrite map_app. cbn [map fst]. rewrite <- app_assoc. cbn [app].
        cbn [ids_of map fst] in ND. exact ND.
  Qed.

  (* used by the driver's bulk load of the curated dictionary *)
  Theorem mut_extend_distinct_ids ws :
    NoDup (ids_of ws) -> mut_extend [] ws = map entry_of ws.
  Proof. intros ND. now rewrite (mut_extend_distinct_ids_gen ws []). Qed.

  (* ---------- lookups in a map built by extend_words, when the ids are pairwise distinct ---------- *)
  Lemma map_fst_entry_of ws : map fst (map entry_of ws) = ids_of ws.
  Proof. unfold ids_of. rewrite map_map. reflexivity. Qed.

  Lemma mut_extend_get ws id e : NoDup (ids_of ws) ->
    (wm_get (mut_extend [] ws) id = Some e <-> In (e_canon e, e_meta e) ws /\ word_id (e_canon e) = id).
  Proof.
    intros ND. rewrite mut_extend_distinct_ids by exact ND.
    rewrite wm_get_in by (now rewrite map_fst_entry_of).
    rewrite in_map_iff. split.
    - intros ([w md] & E & Hin). unfold entry_of in E. cbn [fst snd] in E. injection E as <- <-. cbn. now split.
    - intros [Hin <-]. exists (e_canon e, e_meta e). split; [|exact Hin]. unfold entry_of. cbn [fst snd]. now destruct e.
  Qed.

  Lemma option_ext {A} (x y : option A) : (forall a, x = Some a <-> y = Some a) -> x = y.
  Proof.
    intros H. destruct x as [a|]; destruct y as [b|]; try reflexivity.
    - symmetry. now apply H.
    - symmetry. now apply H.
    - now apply H.
  Qed.

  (* two entry lists with pairwise distinct ids that are permutations of each other give maps that
     answer every lookup identically *)
  Lemma mut_extend_perm ws ws' id : NoDup (ids_of ws) -> Permutation ws' ws ->
    wm_get (mut_extend [] ws') id = wm_get (mut_extend [] ws) id.
  Proof.
    intros ND P. assert (ND' : NoDup (ids_of ws')).
    { unfold ids_of in *. eapply Permutation_NoDup; [|exact ND]. apply Permutation_map. now apply Permutation_sym. }
    apply option_ext. intros e. rewrite !mut_extend_get by assumption.
    split; intros [Hin E]; (split; [|exact E]).
    - eapply Permutation_in; eassumption.
    - eapply Permutation_in; [apply Permutation_sym|]; eassumption.
  Qed.

  (* ---------- FstDictionary::new on entries with pairwise distinct ids ---------- *)
  Notation fst_new := (fst_new is_lower lower).

  Lemma ids_of_perm ws ws' : Permutation ws' ws -> NoDup (ids_of ws) -> NoDup (ids_of ws').
  Proof.
    intros P ND. unfold ids_of in *. eapply Permutation_NoDup; [|exact ND].
    apply Permutation_map. now apply Permutation_sym.
  Qed.

  Lemma ids_distinct_spellings ws : NoDup (ids_of ws) -> NoDup (map fst ws).
  Proof.
    intros ND. unfold ids_of in ND. rewrite <- (map_map fst word_id) in ND.
    now apply NoDup_map_inv in ND.
  Qed.

  (* ---------- FstDictionary::new in general (fix 71c98b2): the fuzzy index is in step with the word map ---------- *)
  Lemma wsort_sorted ws : StronglySorted (key_R (@fst text meta)) (wsort ws).
  Proof.
    pose proof (isort_sorted_gen (fun x y : text * meta => text_leb (fst x) (fst y))
                  (fun a b => text_leb_total (fst a) (fst b))
                  (fun a b c => text_leb_trans (fst a) (fst b) (fst c)) ws) as H.
    exact H.
  Qed.

  Lemma wdedup_wsort_nodup ws : NoDup (map fst (wdedup (wsort ws))).
  Proof. apply (dedup_by_sorted_nodup (@fst text meta)), wsort_sorted. Qed.

  Lemma wdedup_wsort_incl ws x : In x (wdedup (wsort ws)) -> In x ws.
  Proof.
    intros H. apply dedup_by_incl in H. eapply Permutation_in; [apply isort_perm|exact H].
  Qed.

  (* an entry of a map built by extend_words was already there or is one of the inserted (word, metadata) pairs *)
  Lemma mut_extend_in_sub L : forall m k e, NoDup (map fst m) ->
    In (k, e) (mut_extend m L) -> In (k, e) m \/ In (e_canon e, e_meta e) L.
  Proof.
    induction L as [|[w md] L IH]; intros m k e ND H; [now left|].
    rewrite mut_extend_cons in H. cbn [fst snd] in H.
    apply IH in H; [|now apply wm_put_nodup].
    destruct H as [H|H]; [|right; now right].
    unfold DictModel.wm_insert in H. apply wm_put_in in H; [|exact ND].
    destruct H as [[_ ->]|[_ H]]; [right; left; reflexivity|now left].
  Qed.

  Lemma kept_by_iff L w md : NoDup (map fst L) -> In (w, md) L ->
    (kept_by is_lower lower (mut_extend [] L) (w, md) = true <-> In (word_id w, mkentry md w) (mut_extend [] L)).
  Proof.
    intros ND Hin. pose proof (mut_extend_nil_wf L) as [NDm K].
    unfold kept_by, mut_canon, wm_get_with_chars. cbn [fst]. split.
    - destruct (wm_get (mut_extend [] L) (word_id w)) as [e|] eqn:G; cbn [option_map]; [|discriminate].
      intros E. apply text_eqb_eq in E.
      apply (wm_get_in _ _ _ NDm) in G.
      destruct (mut_extend_in_sub L [] _ _ (NoDup_nil _) G) as [[]|Hl].
      rewrite E in Hl. pose proof (nodup_fst_unique L w _ _ ND Hl Hin) as Em.
      destruct e as [em ec]. cbn [e_canon e_meta] in *. subst. exact G.
    - intros H. apply (wm_get_in _ _ _ NDm) in H. rewrite H. cbn [option_map e_canon]. apply text_eqb_refl.
  Qed.

  Definition entries_of (m : wordmap) : list (text * meta) :=
    map (fun kv => (e_canon (snd kv), e_meta (snd kv))) m.

  Lemma entries_of_nodup m : wm_wf m -> NoDup (entries_of m).
  Proof.
    intros [ND K]. apply (NoDup_map_inv fst). apply (NoDup_map_inv word_id).
    unfold entries_of. rewrite !map_map. cbn [fst].
    erewrite map_ext_in; [exact ND|]. intros [k e] Hin. cbn [fst snd]. symmetry. now apply K.
  Qed.

  Lemma entries_of_in m w md : wm_wf m -> (In (w, md) (entries_of m) <-> In (word_id w, mkentry md w) m).
  Proof.
    intros [ND K]. unfold entries_of. rewrite in_map_iff. split.
    - intros ([k e] & E & Hin). cbn [snd] in E. injection E as <- <-.
      rewrite (K k e Hin) in Hin. now destruct e.
    - intros Hin. exists (word_id w, mkentry md w). split; [reflexivity|exact Hin].
  Qed.

  (* for EVERY word list: the inner word map is a finite map keyed by id, `words` (the fuzzy index) holds
     exactly its entries, and words_iter lists exactly the spellings of `words` *)
  Theorem fst_new_in_step ws :
    wm_wf (f_full (fst_new ws)) /\
    (forall w md, In (w, md) (f_words (fst_new ws)) <-> In (word_id w, mkentry md w) (f_full (fst_new ws))) /\
    Permutation (f_words (fst_new ws)) (entries_of (f_full (fst_new ws))) /\
    Permutation (fst_words_iter (fst_new ws)) (map fst (f_words (fst_new ws))).
  Proof.
    unfold DictModel.fst_new. cbn [f_full f_words]. set (L := wdedup (wsort ws)).
    pose proof (wdedup_wsort_nodup ws) as NDL. fold L in NDL.
    pose proof (mut_extend_nil_wf L) as Hwf.
    assert (Hiff : forall w md, In (w, md) (filter (kept_by is_lower lower (mut_extend [] L)) L)
                                <-> In (word_id w, mkentry md w) (mut_extend [] L)).
    { intros w md. rewrite filter_In. split.
      - intros [Hin Hk]. now apply (kept_by_iff L w md NDL Hin).
      - intros H. destruct (mut_extend_in_sub L [] _ _ (NoDup_nil _) H) as [[]|Hin]. cbn [e_canon e_meta] in Hin.
        split; [exact Hin|now apply (kept_by_iff L w md NDL Hin)]. }
    assert (P : Permutation (filter (kept_by is_lower lower (mut_extend [] L)) L) (entries_of (mut_extend [] L))).
    { apply NoDup_Permutation.
      - apply NoDup_filter. eapply NoDup_map_inv. exact NDL.
      - now apply entries_of_nodup.
      - intros [w md]. rewrite Hiff. symmetry. now apply entries_of_in. }
    split; [exact Hwf|]. split; [exact Hiff|]. split; [exact P|].
    unfold fst_words_iter. cbn [f_full]. unfold mut_words.
    rewrite (Permutation_map fst P). unfold entries_of. rewrite map_map. cbn [fst]. reflexivity.
  Qed.

  (* ---------- … and on entries with pairwise distinct ids nothing is dropped ---------- *)
  Lemma wdedup_distinct ws : NoDup (ids_of ws) -> wdedup (wsort ws) = wsort ws.
  Proof.
    intros ND. unfold wdedup. apply (dedup_by_distinct (@fst text meta)).
    apply ids_distinct_spellings. eapply ids_of_perm; [|exact ND]. apply isort_perm.
  Qed.

  Lemma kept_all_distinct ws : NoDup (ids_of ws) ->
    filter (kept_by is_lower lower (mut_extend [] ws)) ws = ws.
  Proof.
    intros ND. apply filter_id. intros [w md] Hin.
    apply kept_by_iff; [now apply ids_distinct_spellings|exact Hin|].
    rewrite mut_extend_distinct_ids by exact ND.
    change (word_id w, mkentry md w) with (entry_of (w, md)). now apply in_map.
  Qed.

  Lemma fst_new_full ws : NoDup (ids_of ws) -> f_full (fst_new ws) = mut_extend [] (wsort ws).
  Proof. intros ND. unfold DictModel.fst_new. cbn [f_full]. now rewrite wdedup_distinct. Qed.

  Lemma fst_new_words ws : NoDup (ids_of ws) -> f_words (fst_new ws) = wsort ws.
  Proof.
    intros ND. unfold DictModel.fst_new. cbn [f_words]. rewrite wdedup_distinct by exact ND.
    apply kept_all_distinct. eapply ids_of_perm; [|exact ND]. apply isort_perm.
  Qed.

  (* the FST's own word list (what fuzzy search ranges over) is a permutation of the entries, and its
     inner MutableDictionary answers every lookup like a MutableDictionary extended with the entries
     in any order *)
  Theorem fst_new_distinct ws : NoDup (ids_of ws) ->
    Permutation (f_words (fst_new ws)) ws /\
    forall ws' id, Permutation ws' ws -> wm_get (f_full (fst_new ws)) id = wm_get (mut_extend [] ws') id.
  Proof.
    intros ND. split.
    - rewrite fst_new_words by exact ND. apply isort_perm.
    - intros ws' id P.
      rewrite fst_new_full by exact ND.
      rewrite (mut_extend_perm ws (wsort ws) id ND (isort_perm _ ws)).
      symmetry. now apply mut_extend_perm.
  Qed.

  (* the driver's bulk load of the (sorted) curated list: sort, dedup and retain are the identity *)
  Lemma isort_adj_sorted (l : list (text * meta)) :
    adj_sorted l = true -> wsort l = l.
  Proof.
    unfold wsort. induction l as [|a rest IH]; intros H; [reflexivity|].
    cbn [isort]. destruct rest as [|b rest']; [reflexivity|].
    change (adj_sorted (a :: b :: rest')) with (text_leb (fst a) (fst b) && adj_sorted (b :: rest')) in H.
    apply andb_true_iff in H as [H1 H2]. rewrite (IH H2). cbn [insert_by]. now rewrite H1.
  Qed.

  Theorem fst_new_bulk ws : adj_sorted ws = true -> NoDup (ids_of ws) ->
    fst_new ws = mkfst (map entry_of ws) ws.
  Proof.
    intros Hs ND. unfold DictModel.fst_new. rewrite (isort_adj_sorted ws Hs).
    assert (E : wdedup ws = ws).
    { unfold wdedup. apply (dedup_by_distinct (@fst text meta)). now apply ids_distinct_spellings. }
    rewrite E, (kept_all_distinct ws ND). f_equal. now apply mut_extend_distinct_ids.
  Qed.

  (* ---------- From<MutableDictionary> for FstDictionary (the only constructor call in the crate) ---------- *)
  Notation fst_of_mutable := (fst_of_mutable is_lower lower).

  Lemma entries_ids m : wm_wf m -> ids_of (entries_of m) = map fst m.
  Proof.
    intros [_ K]. unfold ids_of, entries_of. rewrite map_map. apply map_ext_in.
    intros [k e] Hin. cbn [fst snd]. symmetry. now apply K.
  Qed.

  Theorem fst_of_mutable_get m id : wm_wf m -> wm_get (f_full (fst_of_mutable m)) id = wm_get m id.
  Proof.
    intros Hwf. pose proof Hwf as [ND K].
    assert (NDe : NoDup (ids_of (entries_of m))) by (now rewrite entries_ids).
    unfold DictModel.fst_of_mutable. fold (entries_of m).
    destruct (fst_new_distinct (entries_of m) NDe) as [_ G].
    rewrite (G (entries_of m) id (Permutation_refl _)).
    apply option_ext. intros e. rewrite mut_extend_get by exact NDe.
    rewrite (wm_get_in m id e ND). unfold entries_of. rewrite in_map_iff. split.
    - intros [([k e'] & E & Hin) Hid]. cbn [snd] in E. injection E as E1 E2.
      assert (e' = e) as -> by (destruct e, e'; cbn in *; now subst).
      rewrite (K k e Hin) in Hin. now rewrite Hid in Hin.
    - intros Hin. split; [exists (id, e); split; [reflexivity|exact Hin]|]. symmetry. now apply K.
  Qed.

  Theorem fst_of_mutable_words m : wm_wf m ->
    Permutation (f_words (fst_of_mutable m)) (entries_of m) /\
    Permutation (fst_words_iter (fst_of_mutable m)) (mut_words m).
  Proof.
    intros Hwf. assert (NDe : NoDup (ids_of (entries_of m))) by (rewrite entries_ids by exact Hwf; apply Hwf).
    unfold DictModel.fst_of_mutable. fold (entries_of m).
    destruct (fst_new_distinct (entries_of m) NDe) as [P _]. split; [exact P|].
    unfold fst_words_iter.
    assert (E : f_full (fst_new (entries_of m)) = mut_extend [] (f_words (fst_new (entries_of m))))
      by (now rewrite fst_new_full, fst_new_words).
    rewrite E, mut_extend_distinct_ids by (eapply ids_of_perm; [exact P|exact NDe]).
    unfold mut_words. rewrite map_map. cbn [entry_of snd e_canon].
    change (fun x : text * meta => fst x) with (@fst text meta).
    rewrite (Permutation_map fst P). unfold entries_of. rewrite map_map. cbn [fst]. reflexivity.
  Qed.

  (* all exact queries are functions of the lookup in the inner map *)
  Theorem fst_agrees_with_mutable m q : wm_wf m ->
    fst_contains is_lower lower (fst_of_mutable m) q = mut_contains is_lower lower m q /\
    fst_exact is_lower lower (fst_of_mutable m) q = mut_exact is_lower lower m q /\
    fst_meta is_lower lower (fst_of_mutable m) q = mut_meta is_lower lower m q /\
    fst_canon is_lower lower (fst_of_mutable m) q = mut_canon is_lower lower m q /\
    (forall id, fst_from_id (fst_of_mutable m) id = mut_from_id m id).
  Proof.
    intros Hwf.
    unfold fst_contains, fst_exact, fst_meta, fst_canon, fst_from_id,
           mut_contains, mut_exact, mut_meta, mut_canon, mut_from_id, wm_get_with_chars.
    repeat split; intros; now rewrite fst_of_mutable_get.
  Qed.

  Theorem fst_new_agrees_with_mutable ws ws' q : NoDup (ids_of ws) -> Permutation ws' ws ->
    fst_contains is_lower lower (fst_new ws) q = mut_contains is_lower lower (mut_extend [] ws') q /\
    fst_exact is_lower lower (fst_new ws) q = mut_exact is_lower lower (mut_extend [] ws') q /\
    fst_meta is_lower lower (fst_new ws) q = mut_meta is_lower lower (mut_extend [] ws') q /\
    fst_canon is_lower lower (fst_new ws) q = mut_canon is_lower lower (mut_extend [] ws') q /\
    (forall id, fst_from_id (fst_new ws) id = mut_from_id (mut_extend [] ws') id).
  Proof.
    intros ND P. destruct (fst_new_distinct ws ND) as [_ G].
    unfold fst_contains, fst_exact, fst_meta, fst_canon, fst_from_id,
           mut_contains, mut_exact, mut_meta, mut_canon, mut_from_id, wm_get_with_chars.
    repeat split; intros; now rewrite (G ws' _ P).
  Qed.

  (* ---------- MergedDictionary = first-wins union of its children ---------- *)
  Lemma first_some_spec {A B} (f : A -> option B) l v :
    first_some f l = Some v <->
    exists l1 x l2, l = l1 ++ x :: l2 /\ (forall y, In y l1 -> f y = None) /\ f x = Some v.
  Proof.
    induction l as [|x l IH]; cbn [first_some].
    - split; [discriminate|]. intros (l1 & y & l2 & E & _). destruct l1; discriminate.
    - destruct (f x) as [b|] eqn:Ex.
      + split.
        * intros H. injection H as ->. exists [], x, l. repeat split; [intros y []|exact Ex].
        * intros (l1 & y & l2 & E & Hn & Hy). destruct l1 as [|z l1]; cbn [app] in E; injection E as -> ->.
          -- congruence.
          -- rewrite (Hn z (or_introl eq_refl)) in Ex. discriminate.
      + rewrite IH. split.
        * intros (l1 & y & l2 & -> & Hn & Hy). exists (x :: l1), y, l2. repeat split; [|exact Hy].
          intros z [<-|Hz]; [exact Ex|now apply Hn].
        * intros (l1 & y & l2 & E & Hn & Hy). destruct l1 as [|z l1]; cbn [app] in E; injection E as -> ->.
          -- congruence.
          -- exists l1, y, l2. repeat split; [|exact Hy]. intros w Hw. apply Hn. now right.
  Qed.

  Lemma first_some_none {A B} (f : A -> option B) l :
    first_some f l = None <-> forall x, In x l -> f x = None.
  Proof.
    induction l as [|x l IH]; cbn [first_some]; [split; [intros _ ? []|reflexivity]|].
    destruct (f x) eqn:Ex.
    - split; [discriminate|]. intros H. rewrite (H x (or_introl eq_refl)) in Ex. discriminate.
    - rewrite IH. split; [intros H y [<-|Hy]; [exact Ex|now apply H]|intros H y Hy; apply H; now right].
  Qed.

  Theorem merged_union cs w :
    (merged_contains cs w = true <-> exists c, In c cs /\ d_contains c w = true) /\
    (merged_exact cs w = true <-> exists c, In c cs /\ d_exact c w = true) /\
    (forall v, merged_meta cs w = Some v <->
               exists l1 c l2, cs = l1 ++ c :: l2 /\ (forall c', In c' l1 -> d_meta c' w = None) /\ d_meta c w = Some v) /\
    (forall v, merged_canon cs w = Some v <->
               exists l1 c l2, cs = l1 ++ c :: l2 /\ (forall c', In c' l1 -> d_canon c' w = None) /\ d_canon c w = Some v) /\
    (merged_meta cs w = None <-> forall c, In c cs -> d_meta c w = None) /\
    (merged_canon cs w = None <-> forall c, In c cs -> d_canon c w = None).
  Proof.
    unfold merged_contains, merged_exact, merged_meta, merged_canon.
    repeat split; try (apply existsb_exists); try (apply first_some_spec); try (apply first_some_none);
      try (intros H; apply existsb_exists; exact H); try (intros H; apply first_some_spec; exact H);
      try (intros H; apply first_some_none; exact H).
  Qed.

  (* for mutable children: a merged dictionary looks words up in the concatenation of the children's
     word maps (first entry for an id wins) *)
  Notation mut_ops := (mut_ops is_lower lower).
  Theorem merged_mutable_is_concat dbg ms w :
    merged_meta (map (mut_ops dbg) ms) w = mut_meta is_lower lower (concat ms) w /\
    merged_canon (map (mut_ops dbg) ms) w = mut_canon is_lower lower (concat ms) w /\
    merged_contains (map (mut_ops dbg) ms) w = mut_contains is_lower lower (concat ms) w /\
    merged_exact (map (mut_ops dbg) ms) w = existsb (fun m => mut_exact is_lower lower m w) ms.
  Proof.
    unfold merged_meta, merged_canon, merged_contains, merged_exact, mut_meta, mut_canon, mut_contains, wm_get_with_chars.
    induction ms as [|m ms (IH1 & IH2 & IH3 & IH4)]; cbn [map first_some existsb concat]; [repeat split|].
    rewrite wm_get_app. cbn [Fuzzy.mut_ops d_meta d_canon d_contains d_exact].
    unfold mut_meta, mut_canon, mut_contains, wm_get_with_chars.
    destruct (wm_get m (word_id w)) as [e|] eqn:E; cbn [option_map orb].
    - repeat split. f_equal. exact IH4.
    - repeat split; [exact IH1|exact IH2|exact IH3|]. f_equal. exact IH4.
  Qed.
End DictFacts.

(* ------------------------------------------------------------------------------------------ *)
(** * MergedDictionary::hash_dictionary (fix f2dc537): independent of the iteration order of the child *)
Definition hash_sum (h : text -> N) (ws : list text) : N := fold_right (fun w s => (h w + s)%N) 0%N ws.

Lemma hash_words_acc h ws : forall acc,
  fold_left (fun acc w => wrapping_add64 acc (h w)) ws (acc mod two64)%N = ((acc + hash_sum h ws) mod two64)%N.
Proof.
  assert (M : two64 <> 0%N) by discriminate.
  induction ws as [|w ws IH]; intros acc; cbn [fold_left hash_sum fold_right].
  - now rewrite N.add_0_r.
  - unfold wrapping_add64 at 2. rewrite N.add_mod_idemp_l by exact M.
    rewrite IH. unfold hash_sum. f_equal. lia.
Qed.

Lemma hash_words_sum h ws : hash_words h ws = (hash_sum h ws mod two64)%N.
Proof.
  unfold hash_words. change 0%N with (0 mod two64)%N at 1. now rewrite hash_words_acc.
Qed.

Lemma hash_sum_perm h ws ws' : Permutation ws ws' -> hash_sum h ws = hash_sum h ws'.
Proof.
  induction 1 as [|x l l' _ IH|x y l|l l' l'' _ IH1 _ IH2].
  - reflexivity.
  - change (hash_sum h (x :: l)) with (h x + hash_sum h l)%N.
    change (hash_sum h (x :: l')) with (h x + hash_sum h l')%N. now rewrite IH.
  - change (hash_sum h (y :: x :: l)) with (h y + (h x + hash_sum h l))%N.
    change (hash_sum h (x :: y :: l)) with (h x + (h y + hash_sum h l))%N. lia.
  - now rewrite IH1.
Qed.

Theorem hash_words_perm h ws ws' : Permutation ws ws' -> hash_words h ws = hash_words h ws'.
Proof. intros P. now rewrite !hash_words_sum, (hash_sum_perm h ws ws' P). Qed.

(* two merged dictionaries whose children list the same words (each in any order) compare equal *)
Theorem merged_eqb_perm h cs cs' : Forall2 (@Permutation text) cs cs' -> merged_eqb h cs cs' = true.
Proof.
  unfold merged_eqb. induction 1 as [|c c' cs cs' P _ IH]; [reflexivity|].
  cbn [map length combine forallb fst snd]. apply andb_true_iff in IH as [IH1 IH2].
  apply andb_true_iff. split; [exact IH1|].
  rewrite (hash_words_perm h c c' P), N.eqb_refl. exact IH2.
Qed.

(* HISTORY: the old hash could not tell {"ab","c"} from {"a","bc"} (whatever the hasher), and depended on the order *)
Lemma hash_words_old_collision hs :
  hash_words_old hs [[97; 98]; [99]]%N = hash_words_old hs [[97]; [98; 99]]%N /\
  hash_words_old hs [[97; 98]; [99]]%N = hash_words_old hs [[97; 98; 99]]%N.
Proof. split; reflexivity. Qed.

Lemma merged_hash_order_independent hash_one :
  (forall ws ws', Permutation ws ws' -> hash_words hash_one ws = hash_words hash_one ws') /\
  (forall cs cs', Forall2 (@Permutation text) cs cs' -> merged_eqb hash_one cs cs' = true).
Proof. split; [apply hash_words_perm|apply merged_eqb_perm]. Qed.

(* ------------------------------------------------------------------------------------------ *)
(** * contains_exact_word (fix ebb53b3): every word of a dictionary is an exact word of that dictionary,
      also when it is stored with typographic apostrophes *)
Lemma table_lookup_spec tbl c : table_lookup tbl c = c \/ In (c, table_lookup tbl c) tbl.
Proof.
  induction tbl as [|[k v] tbl IH]; cbn [table_lookup In]; [now left|].
  destruct (N.eqb_spec c k) as [->|Hne]; [right; now left|].
  destruct IH as [IH|IH]; [now left|right; now right].
Qed.

(* the generated table maps nothing onto one of its own keys (re-checked whenever the table is regenerated) *)
Lemma normalize_table_closed :
  forallb (fun kv => N.eqb (table_lookup normalize_table (snd kv)) (snd kv)) normalize_table = true.
Proof. vm_compute. reflexivity. Qed.

Lemma norm_char_idem c : norm_char (norm_char c) = norm_char c.
Proof.
  unfold norm_char. destruct (table_lookup_spec normalize_table c) as [E|Hin]; [now rewrite !E|].
  pose proof normalize_table_closed as H. rewrite forallb_forall in H. specialize (H _ Hin).
  cbn [snd] in H. now apply N.eqb_eq in H.
Qed.

Lemma normalized_map w : normalized w = map norm_char w.
Proof.
  unfold normalized. destruct (existsb (fun c => negb (N.eqb (norm_char c) c)) w) eqn:E; [reflexivity|].
  induction w as [|c w IH]; [reflexivity|]. cbn [existsb map] in *.
  apply orb_false_iff in E as [E1 E2]. apply negb_false_iff, N.eqb_eq in E1. rewrite E1. f_equal. now apply IH.
Qed.

Lemma normalized_idem w : normalized (normalized w) = normalized w.
Proof. rewrite !normalized_map, map_map. apply map_ext. intros c. apply norm_char_idem. Qed.

Theorem mut_exact_own_word is_lower lower m k e :
  wm_wf is_lower lower m -> In (k, e) m -> mut_exact is_lower lower m (e_canon e) = true.
Proof.
  intros [ND K] Hin. unfold mut_exact, wm_get_with_chars, word_id.
  rewrite normalized_idem. fold (word_id is_lower lower (e_canon e)).
  rewrite <- (K k e Hin). rewrite (proj2 (wm_get_in m k e ND) Hin). apply text_eqb_refl.
Qed.
