(* PatternCostProofs.v — the instrumented evaluator of Model/PatternCost.v computes exactly
   Pattern.matches (erasure), and its step counter is bounded by psize p * (n + 2)^(1 + rdepth p) for n
   tokens on offer — a polynomial whose degree is one more than the nesting depth of RepeatingPattern
   in the pattern (a constant of the rule, not of the text).  No premise on tokens or leaves. *)
Require Import Base Overlap TokenSeq Pattern PatternCost TokenSeqProofs PatternProofs ListLemmas.

(* ---------- the counter monad ---------- *)
Lemma fst_bindc {A B} (r : rc A) (k : A -> rc B) : fst (bindc r k) = bind (fst r) (fun a => fst (k a)).
Proof. unfold bindc. destruct (fst r); reflexivity. Qed.
Lemma snd_bindc_le {A B} (r : rc A) (k : A -> rc B) a b :
  snd r <= a -> (forall x, fst r = Ok x -> snd (k x) <= b) -> snd (bindc r k) <= a + b.
Proof. unfold bindc. intros H1 H2. destruct (fst r) eqn:E; cbn [snd]; [specialize (H2 _ eq_refl)|]; lia. Qed.
Lemma fst_lift {A} (r : res A) : fst (lift r) = r.  Proof. reflexivity. Qed.
Lemma snd_lift {A} (r : res A) : snd (lift r) = 0.  Proof. reflexivity. Qed.
Lemma fst_tick {A} n (r : rc A) : fst (tick n r) = fst r.  Proof. reflexivity. Qed.
Lemma snd_tick {A} n (r : rc A) : snd (tick n r) = n + snd r.  Proof. reflexivity. Qed.

Lemma slice_from_len {A} (l : list A) a r : slice_from l a = Ok r -> length r <= length l.
Proof.
  unfold slice_from. destruct (length l <? a); [discriminate|]. intros [= <-]. rewrite skipn_length. lia.
Qed.

(* ---------- erasure and cost of the generic combinators ---------- *)
Section GenC.
  Variable P : Type.
  Variable mc : P -> list tok -> rc nat.
  Variable m : P -> list tok -> res nat.
  Definition agrees (q : P) : Prop := forall ts, fst (mc q ts) = m q ts.

  Lemma seq_go_erase ps : Forall agrees ps -> forall toks c, fst (seq_go_c P mc toks ps c) = seq_go P m toks ps c.
  Proof.
    induction 1 as [|q r Hq _ IH]; intros toks c; cbn [seq_go_c seq_go]; [reflexivity|].
    rewrite fst_bindc, fst_lift. destruct (slice_from toks c) as [rest|]; cbn [bind]; [|reflexivity].
    rewrite fst_bindc, Hq. destruct (m q rest) as [n|]; cbn [bind]; [|reflexivity].
    destruct (n =? 0); [reflexivity|apply IH].
  Qed.
  Lemma either_go_erase ps : Forall agrees ps -> forall toks c, fst (either_go_c P mc toks ps c) = either_go P m toks ps c.
  Proof.
    induction 1 as [|q r Hq _ IH]; intros toks c; cbn [either_go_c either_go]; [reflexivity|].
    rewrite fst_bindc, Hq. destruct (m q toks) as [n|]; cbn [bind]; [apply IH|reflexivity].
  Qed.
  Lemma all_go_erase ps : Forall agrees ps -> forall toks c, fst (all_go_c P mc toks ps c) = all_go P m toks ps c.
  Proof.
    induction 1 as [|q r Hq _ IH]; intros toks c; cbn [all_go_c all_go]; [reflexivity|].
    rewrite fst_bindc, Hq. destruct (m q toks) as [n|]; cbn [bind]; [|reflexivity].
    destruct (n =? 0); [reflexivity|apply IH].
  Qed.
  Lemma first_go_erase ps : Forall agrees ps -> forall toks, fst (first_go_c P mc toks ps) = first_go P m toks ps.
  Proof.
    induction 1 as [|q r Hq _ IH]; intros toks; cbn [first_go_c first_go]; [reflexivity|].
    rewrite fst_bindc, Hq. destruct (m q toks) as [n|]; cbn [bind]; [|reflexivity].
    destruct (n =? 0); [apply IH|reflexivity].
  Qed.
  Lemma rep_go_erase q required toks : agrees q ->
    forall fuel c rep, fst (rep_go_c P mc q required toks fuel c rep) = rep_go P m q required toks fuel c rep.
  Proof.
    intros Hq. induction fuel as [|f IH]; intros c rep; cbn [rep_go_c rep_go]; [reflexivity|].
    rewrite fst_bindc, fst_lift. destruct (slice_from toks c) as [rest|]; cbn [bind]; [|reflexivity].
    rewrite fst_bindc, Hq. destruct (m q rest) as [n|]; cbn [bind]; [|reflexivity].
    destruct (n =? 0); [destruct (required <=? rep); reflexivity|apply IH].
  Qed.
  Lemma keyed_go_erase {K} (hit : K -> bool) l : Forall (fun kq => agrees (snd kq)) l ->
    forall toks, fst (keyed_go_c P mc hit toks l) = keyed_go P m hit toks l.
  Proof.
    induction 1 as [|[k q] r Hq _ IH]; intros toks; cbn [keyed_go_c keyed_go]; [reflexivity|].
    destruct (hit k); [apply Hq|apply IH].
  Qed.

  (* cost: every child call is on at most N tokens and costs at most B q there *)
  Variable N : nat.
  Variable B : P -> nat.
  Definition costs (q : P) : Prop := forall ts, length ts <= N -> snd (mc q ts) <= B q.

  Lemma seq_go_cost ps : Forall costs ps -> forall toks c, length toks <= N ->
    snd (seq_go_c P mc toks ps c) <= sum_map B ps.
  Proof.
    induction 1 as [|q r Hq _ IH]; intros toks c HN; cbn [seq_go_c sum_map fold_right]; [cbn; lia|].
    change (snd (bindc (lift (slice_from toks c)) (fun rest => bindc (mc q rest) (fun n =>
              if n =? 0 then lift (Ok 0) else seq_go_c P mc toks r (c + n)))) <= 0 + (B q + sum_map B r)).
    apply snd_bindc_le; [cbn; lia|]. intros rest Hs. rewrite fst_lift in Hs.
    apply snd_bindc_le; [apply Hq; apply slice_from_len in Hs; lia|]. intros n _.
    destruct (n =? 0); [cbn; lia|now apply IH].
  Qed.
  Lemma either_go_cost ps : Forall costs ps -> forall toks c, length toks <= N ->
    snd (either_go_c P mc toks ps c) <= sum_map B ps.
  Proof.
    induction 1 as [|q r Hq _ IH]; intros toks c HN; cbn [either_go_c sum_map fold_right]; [cbn; lia|].
    apply snd_bindc_le; [now apply Hq|]. intros n _. now apply IH.
  Qed.
  Lemma all_go_cost ps : Forall costs ps -> forall toks c, length toks <= N ->
    snd (all_go_c P mc toks ps c) <= sum_map B ps.
  Proof.
    induction 1 as [|q r Hq _ IH]; intros toks c HN; cbn [all_go_c sum_map fold_right]; [cbn; lia|].
    apply snd_bindc_le; [now apply Hq|]. intros n _. destruct (n =? 0); [cbn; lia|now apply IH].
  Qed.
  Lemma first_go_cost ps : Forall costs ps -> forall toks, length toks <= N ->
    snd (first_go_c P mc toks ps) <= sum_map B ps.
  Proof.
    induction 1 as [|q r Hq _ IH]; intros toks HN; cbn [first_go_c sum_map fold_right]; [cbn; lia|].
    apply snd_bindc_le; [now apply Hq|]. intros n _. destruct (n =? 0); [now apply IH|cbn; lia].
  Qed.
  Lemma rep_go_cost q required toks : costs q -> length toks <= N ->
    forall fuel c rep, snd (rep_go_c P mc q required toks fuel c rep) <= fuel * B q.
  Proof.
    intros Hq HN. induction fuel as [|f IH]; intros c rep; cbn [rep_go_c]; [cbn; lia|].
    match goal with |- snd ?X <= _ => cut (snd X <= 0 + (B q + f * B q)); [intros; lia|] end.
    apply snd_bindc_le; [cbn; lia|]. intros rest Hs. rewrite fst_lift in Hs.
    apply snd_bindc_le; [apply Hq; apply slice_from_len in Hs; lia|]. intros n _.
    destruct (n =? 0); [destruct (required <=? rep); cbn; lia|apply IH].
  Qed.
  Lemma keyed_go_cost {K} (hit : K -> bool) l : Forall (fun kq => costs (snd kq)) l ->
    forall toks, length toks <= N -> snd (keyed_go_c P mc hit toks l) <= sum_map (fun kq => B (snd kq)) l.
  Proof.
    induction 1 as [|[k q] r Hq _ IH]; intros toks HN; cbn [keyed_go_c sum_map fold_right]; [cbn; lia|].
    destruct (hit k); [specialize (Hq toks HN); cbn [snd] in *; lia|specialize (IH toks HN); unfold sum_map in IH; lia].
  Qed.
End GenC.

Section CostMain.
  Variable leaf : nat -> tok -> text -> res bool.
  Variable oracle : nat -> list tok -> text -> res bool.
  Variable src : text.

  Notation mcf := (fun q ts => matches_c leaf oracle q ts src).
  Notation mf := (fun q ts => matches leaf oracle q ts src).

  (* erasing the counter gives Pattern.matches back, on every input *)
  Theorem matches_c_erase : forall p ts, fst (matches_c leaf oracle p ts src) = matches leaf oracle p ts src.
  Proof.
    induction p using pat_ind2; intros ts; cbn [matches_c matches]; rewrite fst_tick; try reflexivity.
    - now apply (seq_go_erase pat mcf mf).
    - now apply (either_go_erase pat mcf mf).
    - now apply (all_go_erase pat mcf mf).
    - now apply (first_go_erase pat mcf mf).
    - now apply (first_go_erase pat mcf mf).
    - now apply (rep_go_erase pat mcf mf).
    - destruct ts; [reflexivity|]. rewrite fst_bindc, IHp. reflexivity.
    - rewrite fst_bindc, IHp. reflexivity.
    - rewrite fst_bindc, IHp. destruct (matches leaf oracle p ts src) as [n|]; cbn [bind]; [|reflexivity].
      destruct (n =? 0); reflexivity.
    - now apply (seq_go_erase pat mcf mf).
    - rewrite fst_bindc, (seq_go_erase pat mcf mf) by assumption.
      destruct (seq_go pat mf ts ps 0) as [e|]; cbn [bind]; [|reflexivity].
      rewrite fst_bindc, (seq_go_erase pat mcf mf) by assumption. reflexivity.
    - destruct ts; [reflexivity|]. now apply (keyed_go_erase pat mcf mf).
    - destruct ts; [reflexivity|]. destruct (negb (flag F_WORD t)); [reflexivity|].
      rewrite fst_bindc, fst_lift. destruct (get_content (tspan t) src); cbn [bind]; [|reflexivity].
      now apply (keyed_go_erase pat mcf mf).
  Qed.

  (* the counter never exceeds `cost p N` when at most N tokens are on offer *)
  Theorem matches_c_cost : forall p ts N, length ts <= N -> snd (matches_c leaf oracle p ts src) <= cost p N.
  Proof.
    induction p using pat_ind2; intros ts N HN; cbn [matches_c cost]; rewrite snd_tick;
      try (cbn [snd lift tick fst]; lia).
    - apply le_n_S. apply (seq_go_cost pat mcf N (fun q => cost q N)); [|exact HN].
      eapply Forall_impl; [|exact H]. intros q Hq ts' Hl. now apply Hq.
    - apply le_n_S. apply (either_go_cost pat mcf N (fun q => cost q N)); [|exact HN].
      eapply Forall_impl; [|exact H]. intros q Hq ts' Hl. now apply Hq.
    - apply le_n_S. apply (all_go_cost pat mcf N (fun q => cost q N)); [|exact HN].
      eapply Forall_impl; [|exact H]. intros q Hq ts' Hl. now apply Hq.
    - apply le_n_S. apply (first_go_cost pat mcf N (fun q => cost q N)); [|exact HN].
      eapply Forall_impl; [|exact H]. intros q Hq ts' Hl. now apply Hq.
    - apply le_n_S. apply (first_go_cost pat mcf N (fun q => cost q N)); [|exact HN].
      eapply Forall_impl; [|exact H]. intros q Hq ts' Hl. now apply Hq.
    - apply le_n_S.
      pose proof (rep_go_cost pat mcf N (fun q => cost q N) p r ts) as HR.
      specialize (HR (fun ts' Hl => IHp ts' N Hl) HN (rep_fuel ts) 0 0). cbn beta in HR.
      unfold rep_fuel in *. etransitivity; [exact HR|]. apply Nat.mul_le_mono_r. lia.
    - destruct ts; [cbn; lia|]. apply le_n_S.
      replace (cost p N) with (cost p N + 0) by lia. apply snd_bindc_le; [now apply IHp|]. intros; cbn; lia.
    - apply le_n_S. replace (cost p N) with (cost p N + 0) by lia.
      apply snd_bindc_le; [now apply IHp|]. intros; cbn; lia.
    - match goal with |- 1 + snd ?X <= _ => cut (snd X <= cost p N + N); [intros; lia|] end.
      apply snd_bindc_le; [now apply IHp|]. intros n _. destruct (n =? 0); [cbn; lia|].
      rewrite snd_tick, snd_lift. lia.
    - apply le_n_S. apply (seq_go_cost pat mcf N (fun q => cost q N)); [|exact HN].
      eapply Forall_impl; [|exact H]. intros q Hq ts' Hl. now apply Hq.
    - match goal with |- 1 + snd ?X <= _ =>
        cut (snd X <= sum_map (fun q => cost q N) ps + (sum_map (fun q => cost q N) fs + 0)); [intros; lia|] end.
      apply snd_bindc_le.
      + apply (seq_go_cost pat mcf N (fun q => cost q N)); [|exact HN].
        eapply Forall_impl; [|exact H]. intros q Hq ts' Hl. now apply Hq.
      + intros e _. apply snd_bindc_le; [|intros; cbn; lia].
        apply (seq_go_cost pat mcf N (fun q => cost q N)); [|exact HN].
        eapply Forall_impl; [|exact H0]. intros q Hq ts' Hl. now apply Hq.
    - destruct ts; [cbn; lia|]. apply le_n_S.
      apply (keyed_go_cost pat mcf N (fun q => cost q N)); [|exact HN].
      eapply Forall_impl; [|exact H]. intros [k q] Hq ts' Hl. now apply Hq.
    - destruct ts; [cbn; lia|]. destruct (negb (flag F_WORD t)); [cbn; lia|]. apply le_n_S.
      replace (sum_map (fun kq => cost (snd kq) N) m) with (0 + sum_map (fun kq => cost (snd kq) N) m) by lia.
      apply snd_bindc_le; [cbn; lia|]. intros c _.
      apply (keyed_go_cost pat mcf N (fun q => cost q N)); [|exact HN].
      eapply Forall_impl; [|exact H]. intros [k q] Hq ts' Hl. now apply Hq.
  Qed.
End CostMain.

(* ---------- the closed form: psize p * (n + 2)^(1 + rdepth p) ---------- *)
Lemma pow_ge_1 w k : 1 <= w -> 1 <= w ^ k.
Proof. intros H. induction k as [|k IH]; cbn [Nat.pow]; [lia|]. nia. Qed.
Lemma pow_mono_exp w a b : 1 <= w -> a <= b -> w ^ a <= w ^ b.
Proof. intros H1 H2. apply Nat.pow_le_mono_r; lia. Qed.

Lemma sum_bound {A} (f g d : A -> nat) (w : nat) (l : list A) : 1 <= w ->
  Forall (fun x => f x <= g x * w ^ S (d x)) l -> sum_map f l <= sum_map g l * w ^ S (max_map d l).
Proof.
  intros Hw. induction 1 as [|x r Hx _ IH]; cbn [sum_map max_map fold_right]; [lia|].
  fold (sum_map f r) (sum_map g r) (max_map d r) in *.
  assert (w ^ S (d x) <= w ^ S (Nat.max (d x) (max_map d r))) by (apply pow_mono_exp; lia).
  assert (w ^ S (max_map d r) <= w ^ S (Nat.max (d x) (max_map d r))) by (apply pow_mono_exp; lia).
  nia.
Qed.

Theorem cost_polynomial : forall p n, cost p n <= psize p * (n + 2) ^ S (rdepth p).
Proof.
  intros p n. set (w := n + 2). assert (1 <= w) as Hw by (subst w; lia).
  assert (n + 2 <= w ^ 1) as Hw1 by (cbn; subst w; lia).
  induction p using pat_ind2; cbn [cost psize rdepth];
    try (pose proof (pow_ge_1 w 1 Hw); cbn [Nat.pow] in *; subst w; nia).
  all: try (match goal with H : Forall _ ?l |- _ =>
      pose proof (sum_bound (fun q => cost q n) psize rdepth w l Hw H) as HS end;
      pose proof (pow_ge_1 w (S (max_map rdepth ps)) Hw); nia).
  - (* Repeat *)
    assert (w ^ S (S (rdepth p)) = w * w ^ S (rdepth p)) as E by reflexivity.
    pose proof (pow_ge_1 w (S (S (rdepth p))) Hw). fold w. nia.
  - pose proof (pow_ge_1 w (S (rdepth p)) Hw). nia.
  - pose proof (pow_ge_1 w (S (rdepth p)) Hw). nia.
  - (* NotTitle *)
    pose proof (pow_ge_1 w (S (rdepth p)) Hw).
    assert (w ^ 1 <= w ^ S (rdepth p)) by (apply pow_mono_exp; lia). cbn [Nat.pow] in *. nia.
  - (* Similar *)
    pose proof (sum_bound (fun q => cost q n) psize rdepth w ps Hw H) as H1.
    pose proof (sum_bound (fun q => cost q n) psize rdepth w fs Hw H0) as H2.
    set (D := Nat.max (max_map rdepth ps) (max_map rdepth fs)).
    assert (w ^ S (max_map rdepth ps) <= w ^ S D) by (apply pow_mono_exp; subst D; lia).
    assert (w ^ S (max_map rdepth fs) <= w ^ S D) by (apply pow_mono_exp; subst D; lia).
    pose proof (pow_ge_1 w (S D) Hw). nia.
  - pose proof (sum_bound (fun kq => cost (snd kq) n) (fun kq => psize (snd kq)) (fun kq => rdepth (snd kq)) w m Hw H) as HS.
    pose proof (pow_ge_1 w (S (max_map (fun kq => rdepth (snd kq)) m)) Hw). nia.
  - pose proof (sum_bound (fun kq => cost (snd kq) n) (fun kq => psize (snd kq)) (fun kq => rdepth (snd kq)) w m Hw H) as HS.
    pose proof (pow_ge_1 w (S (max_map (fun kq => rdepth (snd kq)) m)) Hw). nia.
Qed.

Theorem matches_c_polynomial leaf oracle src p ts :
  snd (matches_c leaf oracle p ts src) <= psize p * (length ts + 2) ^ S (rdepth p).
Proof. etransitivity; [apply matches_c_cost; reflexivity|apply cost_polynomial]. Qed.

(* ---------- run_on_chunk ---------- *)
Section LoopCost.
  Variable mfc : list tok -> rc nat.
  Variable mf : list tok -> res nat.
  Hypothesis mfc_erase : forall ts, fst (mfc ts) = mf ts.

  Lemma roc_loop_erase chunk : forall fuel c, fst (roc_loop_c mfc chunk fuel c) = roc_loop mf chunk fuel c.
  Proof.
    induction fuel as [|f IH]; intros c; cbn [roc_loop_c roc_loop]; [reflexivity|]. rewrite fst_tick.
    destruct (length chunk <=? c); [reflexivity|].
    rewrite fst_bindc, fst_lift. destruct (slice_from chunk c) as [rest|]; cbn [bind]; [|reflexivity].
    rewrite fst_bindc, mfc_erase. destruct (mf rest) as [n|]; cbn [bind]; [|reflexivity].
    destruct (negb (n =? 0)); [|apply IH].
    rewrite fst_bindc, fst_lift. destruct (slice_chk chunk c (c + n)); cbn [bind]; [|reflexivity].
    rewrite fst_bindc, IH. destruct (roc_loop mf chunk f (c + n)); reflexivity.
  Qed.

  Variable Bm : nat.
  Lemma roc_loop_cost chunk : (forall ts, length ts <= length chunk -> snd (mfc ts) <= Bm) ->
    forall fuel c, snd (roc_loop_c mfc chunk fuel c) <= fuel * (1 + Bm).
  Proof.
    intros HB. induction fuel as [|f IH]; intros c; cbn [roc_loop_c]; [cbn; lia|]. rewrite snd_tick.
    destruct (length chunk <=? c); [cbn; lia|].
    match goal with |- 1 + snd ?X <= _ => cut (snd X <= 0 + (Bm + (0 + (f * (1 + Bm) + 0)))); [intros; lia|] end.
    apply snd_bindc_le; [cbn; lia|]. intros rest Hs. rewrite fst_lift in Hs.
    apply snd_bindc_le; [apply HB; now apply slice_from_len in Hs|]. intros n _.
    destruct (negb (n =? 0)); [|specialize (IH (c + 1)); lia].
    apply snd_bindc_le; [cbn; lia|]. intros _m _.
    apply snd_bindc_le; [apply IH|]. intros; cbn; lia.
  Qed.
End LoopCost.

(* run_on_chunk of pattern p on n tokens: at most (n + 1) * (1 + psize p * (n + 2)^(1 + rdepth p)) steps,
   and the instrumented loop computes run_on_chunk *)
Theorem run_on_chunk_polynomial leaf oracle src p chunk :
  let r := roc_loop_c (fun ts => matches_c leaf oracle p ts src) chunk (S (length chunk)) 0 in
  fst r = run_on_chunk leaf oracle p chunk src /\
  snd r <= (length chunk + 1) * (1 + psize p * (length chunk + 2) ^ S (rdepth p)).
Proof.
  cbv zeta. split.
  - unfold run_on_chunk, run_on_chunk_f. apply roc_loop_erase. intros ts. apply matches_c_erase.
  - replace (length chunk + 1) with (S (length chunk)) by lia. apply roc_loop_cost.
    intros ts Hl. etransitivity; [apply (matches_c_cost leaf oracle src p ts (length chunk) Hl)|apply cost_polynomial].
Qed.
