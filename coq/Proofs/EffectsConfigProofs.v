(* EffectsConfigProofs.v — C10: for every configuration Config::from_lsp_config can produce (Model/EffectsConfig.v),
   the writes of HarperAddToUserDict / HarperAddToFileDict / save_stats land on the locations that configuration
   stands for — with NO cleanliness hypothesis on the paths any more (`..` inside a path is followed lexically, as the
   monitor does): all that is needed is that the user-dictionary setting names a file (its last component is not `..`)
   and that the file-dictionary directory is not the root.  Both hold by themselves for absent and for EMPTY settings
   (the `!path.is_empty()` guard: "" means the default, not "<cwd>/"). *)
Require Import Base EffectsBase Effects EffectsProofs EffectsSave EffectsSaveProofs EffectsConfig.
From Coq Require Import String Lia.
Open Scope list_scope.

Lemma resolve_aux_snoc : forall l acc n, n <> dotdot -> resolve_aux (l ++ [n]) acc = resolve_aux l acc ++ [n].
Proof.
  induction l as [| c r IH]; intros acc n Hn; cbn [app resolve_aux].
  - rewrite (beqb_neq _ _ Hn). cbn [resolve_aux rev]. reflexivity.
  - destruct (beqb c dotdot); apply IH; exact Hn.
Qed.

Lemma resolve_snoc : forall l n, n <> dotdot -> resolve (l ++ [n]) = resolve l ++ [n].
Proof. intros l n Hn. unfold resolve. apply resolve_aux_snoc. exact Hn. Qed.

Lemma tmp_not_dotdot : forall n, n ++ tmp_suffix <> dotdot.
Proof. intros n E. apply (f_equal (@List.length N)) in E. rewrite app_length in E. cbn in E. lia. Qed.

(* save_dict on ANY destination that names a file: `<dst>.tmp` is opened and renamed onto `<dst>`, <dst> the lexically
   normalised destination — `..` components before the last one do not matter *)
Lemma save_plan_file : forall cs, names_file cs = true ->
  let d := render (resolve cs) in save_plan cs = (d ++ tmp_suffix, d ++ tmp_suffix, d).
Proof.
  intros cs H. cbv zeta. destruct (names_file_snoc cs H) as [l [n [E Hn]]]. subst cs.
  unfold save_plan. rewrite (tmp_comps_snoc l n Hn).
  pose proof (resolve_snoc l (n ++ tmp_suffix) (tmp_not_dotdot n)) as R1. pose proof (resolve_snoc l n Hn) as R2.
  unfold bytes in *. rewrite R1, R2.
  rewrite !render_nonempty by apply snoc_nonempty. rewrite !render'_snoc.
  rewrite <- !app_assoc. cbn [app]. reflexivity.
Qed.

(* ---- the plans under a Config ARE the plans of EffectsSave (which are extracted and compared with the system calls of
   every add-to-dictionary command) on the paths the Config holds ---- *)
Lemma cfg_user_plan_is_user_dict_plan : forall pc user, p_user pc = comps user -> cfg_user_plan pc = user_dict_plan user.
Proof. intros pc user H. unfold cfg_user_plan, user_dict_plan. rewrite H. reflexivity. Qed.

Lemma cfg_file_plan_is_file_dict_plan : forall pc filedir fp,
  p_filedir pc = comps filedir -> cfg_file_plan pc fp = file_dict_plan filedir fp.
Proof.
  intros pc filedir fp H. unfold cfg_file_plan, file_dict_plan. destruct fp as [p |]; [| reflexivity].
  destruct (beqb (file_dict_name p) []) eqn:E; [reflexivity |]. rewrite H. f_equal.
  unfold join_comps. destruct (file_dict_name p) as [| c0 rest] eqn:En; [rewrite beqb_refl in E; discriminate E |].
  rewrite (proj2 (N.eqb_neq c0 slash)); [reflexivity |].
  pose proof (file_dict_name_ns p) as Hns. rewrite En in Hns. apply Hns. left. reflexivity.
Qed.

Lemma config_plans_are_save_plans : forall pc user filedir fp,
  (p_user pc = comps user -> cfg_user_plan pc = user_dict_plan user) /\
  (p_filedir pc = comps filedir -> cfg_file_plan pc fp = file_dict_plan filedir fp).
Proof. intros pc user filedir fp. split; [apply cfg_user_plan_is_user_dict_plan | apply cfg_file_plan_is_file_dict_plan]. Qed.

(* ---- A. the user dictionary (save_dict since a91f3ee refuses a destination without a file name) ---- *)
Lemma cfg_user_plan_file : forall pc, names_file (p_user pc) = true ->
  let c := mcfg_of pc in cfg_user_plan pc = Some (m_user c ++ tmp_suffix, m_user c ++ tmp_suffix, m_user c).
Proof.
  intros pc H. cbv zeta. unfold cfg_user_plan, save_dict_plan. rewrite H. rewrite (save_plan_file _ H). reflexivity.
Qed.

Theorem config_user_no_file_name_nothing : forall pc, names_file (p_user pc) = false -> cfg_user_plan pc = None.
Proof. intros pc H. unfold cfg_user_plan, save_dict_plan. rewrite H. reflexivity. Qed.

(* NO hypothesis on the setting: whenever HarperAddToUserDict writes at all *)
Theorem config_user_save_inside : forall pc o s d, cfg_user_plan pc = Some (o, s, d) ->
  let c := mcfg_of pc in
  o = m_user c ++ tmp_suffix /\ s = o /\ d = m_user c /\
  path_allowed c o = true /\ path_allowed c d = true /\ rename_allowed c s d = true.
Proof.
  intros pc o s d H. cbv zeta.
  destruct (names_file (p_user pc)) eqn:Hn; [| rewrite (config_user_no_file_name_nothing pc Hn) in H; discriminate H].
  rewrite (cfg_user_plan_file pc Hn) in H. inversion H; subst o s d.
  split; [reflexivity |]. split; [reflexivity |]. split; [reflexivity |]. split; [| split].
  - unfold path_allowed, tmp_of. rewrite !beqb_refl. rewrite !orb_true_r. reflexivity.
  - unfold path_allowed. rewrite !beqb_refl. reflexivity.
  - unfold rename_allowed, dict_file, tmp_of. rewrite !beqb_refl. reflexivity.
Qed.

(* ---- B. a file dictionary ---- *)
Theorem config_file_save_inside : forall pc fp o s d,
  cfg_file_plan pc fp = Some (o, s, d) ->
  let c := mcfg_of pc in
  (exists p, fp = Some p /\ file_dict_name p <> [] /\ d = m_filedir c ++ slash :: file_dict_name p /\
             o = d ++ tmp_suffix /\ s = o) /\
  path_allowed c o = true /\ path_allowed c d = true /\ rename_allowed c s d = true.
Proof.
  intros pc fp o s d H. cbv zeta. unfold cfg_file_plan in H. destruct fp as [p |]; [| discriminate H].
  destruct (beqb (file_dict_name p) []) eqn:E; [discriminate H |].
  assert (Hname : file_dict_name p <> []) by (intros E'; rewrite E', beqb_refl in E; discriminate E).
  set (name := file_dict_name p) in *.
  assert (Hns : ns name) by apply file_dict_name_ns.
  assert (Hpc : In percent name) by (apply file_dict_name_percent; exact Hname).
  assert (Hnd : name <> dotdot) by (intros E'; rewrite E' in Hpc; destruct Hpc as [X | [X | []]]; discriminate X).
  assert (Hn1 : name <> onedot) by (intros E'; rewrite E' in Hpc; destruct Hpc as [X | []]; discriminate X).
  rewrite (comps_single name Hns Hname Hn1) in H.
  rewrite (save_dict_plan_snoc _ _ Hnd) in H.
  rewrite (save_plan_file _ (names_file_snoc_intro (p_filedir pc) name Hnd)) in H.
  rewrite (resolve_snoc _ _ Hnd) in H.
  rewrite (render_nonempty _ (snoc_nonempty _ (resolve (p_filedir pc)) name)), render'_snoc in H.
  change (render' (resolve (p_filedir pc))) with (m_filedir (mcfg_of pc)) in H.
  set (c := mcfg_of pc) in *. inversion H; subst o s d. clear H.
  change (render' (resolve (p_filedir pc))) with (m_filedir c).
  assert (Hd : dir_of (m_filedir c ++ slash :: name) = m_filedir c) by (apply dir_of_child; exact Hns).
  split; [exists p; repeat split; try reflexivity; exact Hname |].
  split; [| split].
  - unfold path_allowed.
    replace ((m_filedir c ++ slash :: name) ++ tmp_suffix) with (tmp_of (m_filedir c ++ slash :: name)) by reflexivity.
    rewrite dir_of_tmp, Hd, beqb_refl. rewrite !orb_true_r. reflexivity.
  - unfold path_allowed. rewrite Hd, beqb_refl. rewrite !orb_true_r. reflexivity.
  - unfold rename_allowed, dict_file. rewrite Hd, beqb_refl. rewrite orb_true_r. cbn [andb].
    unfold tmp_of. apply beqb_refl.
Qed.

(* ---- C. the statistics file: opened in place, no sibling ---- *)
Theorem config_stats_write_allowed : forall pc, path_allowed (mcfg_of pc) (cfg_stats_write pc) = true.
Proof. intros pc. unfold path_allowed, cfg_stats_write, mcfg_of. cbn [m_stats m_user]. rewrite (beqb_refl (render (resolve (p_stats pc)))). rewrite !orb_true_r. reflexivity. Qed.

(* ---- D. what the parser produces ---- *)
Definition unset (v : sval) : Prop := v = SAbsent \/ v = SString [].

Lemma dict_setting_unset : forall e v dflt, unset v -> dict_setting e v dflt = Some dflt.
Proof. intros e v dflt [H | H]; subst v; reflexivity. Qed.

Lemma seg_dictionary_not_dotdot : seg_dictionary <> dotdot. Proof. discriminate. Qed.
Lemma seg_file_dicts_not_dotdot : seg_file_dicts <> dotdot. Proof. discriminate. Qed.

Lemma default_user_names_file : forall e, names_file (p_user (default_pcfg e)) = true.
Proof.
  intros e. cbn [default_pcfg p_user].
  replace (comps (e_cfgdir e) ++ [seg_harper_ls; seg_dictionary]) with ((comps (e_cfgdir e) ++ [seg_harper_ls]) ++ [seg_dictionary])
    by (rewrite <- app_assoc; reflexivity).
  apply names_file_snoc_intro. exact seg_dictionary_not_dotdot.
Qed.

(* an absent OR EMPTY userDictPath / fileDictPath means the default location (never the working directory);
   an empty statsPath, in contrast, is resolved like a relative path: the working directory itself *)
Theorem parse_paths_unset : forall e u f s pc, parse_paths e u f s = Some pc ->
  (unset u -> p_user pc = p_user (default_pcfg e)) /\
  (unset f -> p_filedir pc = p_filedir (default_pcfg e)) /\
  (s = SAbsent -> p_stats pc = p_stats (default_pcfg e)) /\
  (s = SString [] -> p_stats pc = comps (e_cwd e)).
Proof.
  intros e u f s pc H. unfold parse_paths in H.
  destruct (dict_setting e u _) as [pu |] eqn:Eu; [| discriminate H].
  destruct (dict_setting e f _) as [pf |] eqn:Ef; [| discriminate H].
  destruct (stats_setting e s _) as [ps |] eqn:Es; [| discriminate H].
  inversion H; subst pc; clear H. cbn [p_user p_filedir p_stats].
  split; [| split; [| split]].
  - intros Hu. rewrite (dict_setting_unset _ _ _ Hu) in Eu. inversion Eu; reflexivity.
  - intros Hf. rewrite (dict_setting_unset _ _ _ Hf) in Ef. inversion Ef; reflexivity.
  - intros Hs. subst s. cbn in Es. inversion Es; reflexivity.
  - intros Hs. subst s. cbn in Es. inversion Es; reflexivity.
Qed.

(* a non-string path setting is an error: no Config is produced (the old one stays) *)
Lemma parse_paths_not_string : forall e u f s,
  u = SNotString \/ f = SNotString \/ s = SNotString -> parse_paths e u f s = None.
Proof.
  intros e u f s [H | [H | H]]; subst; unfold parse_paths.
  - reflexivity.
  - destruct (dict_setting e u _); reflexivity.
  - destruct (dict_setting e u _); [destruct (dict_setting e f _) |]; reflexivity.
Qed.

(* ---- E. the whole: every Config the parser can produce, NO proviso on any of the three settings ---- *)
Theorem config_writes_inside : forall e u f s pc, parse_paths e u f s = Some pc ->
  let c := mcfg_of pc in
  (forall o s' d, cfg_user_plan pc = Some (o, s', d) ->
     o = m_user c ++ tmp_suffix /\ s' = o /\ d = m_user c /\
     path_allowed c o = true /\ path_allowed c d = true /\ rename_allowed c s' d = true) /\
  (forall fp o s' d, cfg_file_plan pc fp = Some (o, s', d) ->
     d = m_filedir c ++ slash :: file_dict_name (match fp with Some p => p | None => [] end) /\
     o = d ++ tmp_suffix /\ s' = o /\
     path_allowed c o = true /\ path_allowed c d = true /\ rename_allowed c s' d = true) /\
  path_allowed c (cfg_stats_write pc) = true /\
  (unset u -> cfg_user_plan pc = Some (m_user c ++ tmp_suffix, m_user c ++ tmp_suffix, m_user c)).
Proof.
  intros e u f s pc H. cbv zeta.
  destruct (parse_paths_unset e u f s pc H) as [Hu [Hf _]].
  split; [intros o s' d Hp; exact (config_user_save_inside pc o s' d Hp) |].
  split.
  - intros fp o s' d Hp.
    destruct (config_file_save_inside pc fp o s' d Hp) as [[p [Efp [_ [Ed [Eo Es]]]]] [A1 [A2 A3]]].
    subst fp. repeat split; assumption.
  - split; [apply config_stats_write_allowed |].
    intros X. apply cfg_user_plan_file. rewrite (Hu X). apply default_user_names_file.
Qed.

(* ---- F. HISTORY — FC10b, fixed by a91f3ee.  Over the OLD definition cfg_user_plan_old (save_dict without the file-name
   check): a userDictPath that names NO file (last component `..`, or no component: "/", "~/..", "a/..") — config.rs
   accepts it — made save_dict put `.tmp` INSIDE the directory the setting names and rename it onto that directory. *)
Lemma names_file_false_tmp : forall cs, names_file cs = false -> tmp_comps cs = cs ++ [tmp_suffix].
Proof.
  intros cs H. unfold names_file in H. unfold tmp_comps. destruct (rev cs) as [| n r] eqn:E.
  - apply (f_equal (@rev bytes)) in E. rewrite rev_involutive in E. subst cs. reflexivity.
  - destruct (beqb n dotdot); [reflexivity | discriminate H].
Qed.

Lemma config_user_plan_dir_old : forall pc, names_file (p_user pc) = false ->
  let dirp := render' (resolve (p_user pc)) in
  cfg_user_plan_old pc = (dirp ++ slash :: tmp_suffix, dirp ++ slash :: tmp_suffix, m_user (mcfg_of pc)).
Proof.
  intros pc H. cbv zeta. unfold cfg_user_plan_old, save_plan. rewrite (names_file_false_tmp _ H).
  assert (Ht : tmp_suffix <> dotdot) by discriminate.
  rewrite (resolve_snoc _ _ Ht). rewrite (render_nonempty _ (snoc_nonempty _ _ _)), render'_snoc. reflexivity.
Qed.

Lemma config_user_write_old_refuted :
  exists e u pc o sr d, parse_paths e u SAbsent SAbsent = Some pc /\ cfg_user_plan_old pc = (o, sr, d) /\
    path_allowed (mcfg_of pc) o = false /\ rename_allowed (mcfg_of pc) sr d = false /\ cfg_user_plan pc = None.
Proof.
  exists (mkenv (bytes_of_string "/home/u") (bytes_of_string "/work/proj") (bytes_of_string "/home/u/.config") (bytes_of_string "/home/u/.local/share")).
  exists (SString (bytes_of_string "/a/b/..")). eexists. eexists. eexists. eexists.
  split; [reflexivity |]. split; [vm_compute; reflexivity |]. split; [| split]; vm_compute; reflexivity.
Qed.

(* HISTORY (FC10b): a userDictPath that names a DIRECTORY by ending in `..` made the OLD save_dict put `.tmp` INSIDE that
   directory, which is not the configured file nor its sibling; the current one writes nothing *)
Lemma config_dir_setting_example :
  let b := fun s : string => bytes_of_string s in
  let e := mkenv (b "/home/u") (b "/work/proj") (b "/home/u/.config") (b "/home/u/.local/share") in
  exists pc, parse_paths e (SString (b "/a/b/..")) SAbsent SAbsent = Some pc /\ names_file (p_user pc) = false /\
    m_user (mcfg_of pc) = b "/a" /\ cfg_user_plan_old pc = (b "/a/.tmp", b "/a/.tmp", b "/a") /\
    path_allowed (mcfg_of pc) (b "/a/.tmp") = false /\ cfg_user_plan pc = None.
Proof. cbv zeta. eexists. split; [reflexivity |]. vm_compute. repeat split; reflexivity. Qed.

(* non-vacuity + what each kind of setting becomes *)
Lemma config_examples :
  let b := fun s : string => bytes_of_string s in
  let e := mkenv (b "/home/u") (b "/work/proj") (b "/home/u/.config") (b "/home/u/.local/share") in
  parse_render e SAbsent SAbsent SAbsent =
    Some (b "/home/u/.config/harper-ls/dictionary.txt", b "/home/u/.local/share/harper-ls/file_dictionaries", b "/home/u/.local/share/harper-ls/stats.txt") /\
  parse_render e (SString []) (SString []) (SString []) =
    Some (b "/home/u/.config/harper-ls/dictionary.txt", b "/home/u/.local/share/harper-ls/file_dictionaries", b "/work/proj") /\
  parse_render e (SString (b "~/d.txt")) (SString (b "~")) (SString (b "~//x/../s.txt")) =
    Some (b "/home/u/d.txt", b "/home/u", b "/home/u/s.txt") /\
  parse_render e (SString (b "dicts/mine.txt")) (SString (b "./fd/")) (SString (b "../s.txt")) =
    Some (b "/work/proj/dicts/mine.txt", b "/work/proj/fd", b "/work/s.txt") /\
  parse_render e (SString (b "~user/d.txt")) (SString (b "./~/fd")) (SString (b "/abs//st.txt")) =
    Some (b "/work/proj/~user/d.txt", b "/work/proj/~/fd", b "/abs/st.txt") /\
  parse_render e SNotString SAbsent SAbsent = None /\ parse_render e SAbsent SAbsent SNotString = None /\
  (exists pc, parse_paths e (SString (b "../up/./d.txt")) (SString []) SAbsent = Some pc /\
     names_file (p_user pc) = true /\
     cfg_user_plan pc = Some (b "/work/up/d.txt.tmp", b "/work/up/d.txt.tmp", b "/work/up/d.txt") /\
     cfg_file_plan pc (Some (b "/work/proj/a.md")) =
       Some (b "/home/u/.local/share/harper-ls/file_dictionaries/work%proj%a.md%.tmp",
             b "/home/u/.local/share/harper-ls/file_dictionaries/work%proj%a.md%.tmp",
             b "/home/u/.local/share/harper-ls/file_dictionaries/work%proj%a.md%")).
Proof.
  cbv zeta. repeat (split; [vm_compute; reflexivity |]).
  eexists. split; [reflexivity |]. split; [vm_compute; reflexivity |].
  split; vm_compute; reflexivity.
Qed.
