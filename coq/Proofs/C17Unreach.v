(* C17Unreach.v — C17: the test `local_part.first() == '.'` of validate_local_part (lexing/email_address.rs) is
   UNREACHABLE through PlainEnglish::parse: lex_token asks lex_punctuation before lex_email_address, and a token that
   starts with '.' is always the Period.  Consequently any two e-mail tails that agree on texts not starting with '.'
   give the same tokens, the same document and the same lints for EVERY text — in particular the model's email_tail and
   the variant without that test (mutation C17-d4, which the correspondence therefore cannot and need not catch). *)
Require Import Base Overlap Suggestion Tables_number Number NumberArith NumberLex NumberPasses NumberProofs C17Tails C17TailsProofs.
From Coq Require Import String List Arith NArith Bool Lia.
Import ListNotations.
Local Open Scope list_scope.

Definition agree_off_dot (et1 et2 : text -> nat -> option nat) : Prop :=
  forall c rest k, c <> 46%N -> et1 (c :: rest) k = et2 (c :: rest) k.

Lemma lex_token_dot U ut et rest : lex_token U ut et (46%N :: rest) = Some (1, KPunct PPeriod).
Proof.
  unfold lex_token, lex_regexish. replace ((46 =? 91)%N) with false by reflexivity. cbn [orelse].
  unfold lex_punctuation.
  assert (E1 : memN 46%N quote_chars = false) by (vm_compute; reflexivity).
  assert (E2 : punct_of 46%N = Some PPeriod) by (vm_compute; reflexivity).
  rewrite E1, E2. reflexivity.
Qed.

Section EtIrrelevant.
  Variable U : uni.
  Variable ut : text -> nat.
  Variables et1 et2 : text -> nat -> option nat.
  Hypothesis Hag : agree_off_dot et1 et2.

  Lemma lex_token_et (src : text) : lex_token U ut et1 src = lex_token U ut et2 src.
  Proof.
    destruct src as [|c rest]; [reflexivity|].
    destruct (N.eq_dec c 46%N) as [->|Hc]; [rewrite !lex_token_dot; reflexivity|].
    assert (E : lex_email_address U et1 (c :: rest) = lex_email_address U et2 (c :: rest)).
    { unfold lex_email_address. cbv zeta. destruct (last_position _ _) as [k|]; [|reflexivity].
      pose proof (Hag c rest k Hc) as E'. unfold text, char in *. rewrite E'. reflexivity. }
    unfold lex_token. rewrite E. reflexivity.
  Qed.

  Lemma lex_loop_et : forall (fuel cursor : nat) (rest : text),
    lex_loop U ut et1 fuel cursor rest = lex_loop U ut et2 fuel cursor rest.
  Proof.
    induction fuel as [|f IH]; intros cursor rest; destruct rest as [|c r]; cbn [lex_loop]; try reflexivity.
    rewrite lex_token_et. destruct (lex_token U ut et2 (c :: r)) as [[n k]|]; [|reflexivity].
    rewrite IH. reflexivity.
  Qed.

  Lemma lex_doc_et (src : text) : lex_doc U ut et1 src = lex_doc U ut et2 src.
  Proof. unfold lex_doc. apply lex_loop_et. Qed.
  Lemma doc_tokens_et (src : text) : doc_tokens U ut et1 src = doc_tokens U ut et2 src.
  Proof. unfold doc_tokens. rewrite lex_doc_et. reflexivity. Qed.
  Lemma lint_text_et pp (src : text) : lint_text U ut et1 pp src = lint_text U ut et2 pp src.
  Proof. unfold lint_text. rewrite doc_tokens_et. reflexivity. Qed.
End EtIrrelevant.

(* mutation C17-d4: validate_local_part without the test of the first character *)
Definition validate_local_part_d4 (lp : text) : bool :=
  if (64 <? length lp) || (length lp =? 0) then false else
  let is_quoted := match lp, last_error lp with
                   | f :: _, Some l => (f =? 34)%N && (l =? 34)%N
                   | _, _ => false
                   end in
  if is_quoted && (length lp <? 2) then false else
  if is_quoted then quoted_ok (S (length lp)) (firstn (length lp - 1 - 1) (skipn 1 lp))
  else forallb valid_unquoted_character lp
       && negb (match last_error lp with Some c => (c =? 46)%N | None => false end)
       && no_double_dot lp.
Definition email_tail_d4 (src : text) (at_loc : nat) : option nat :=
  if negb (validate_local_part_d4 (firstn at_loc src)) then None else
  match lex_hostname (skipn (S at_loc) src) with
  | None => None
  | Some d => if d =? 0 then None else Some (at_loc + 1 + d)
  end.

Lemma vlp_d4 (lp : text) : match lp with c :: _ => c <> 46%N | [] => True end ->
  validate_local_part lp = validate_local_part_d4 lp.
Proof.
  destruct lp as [|c r]; [reflexivity|]. intros Hc.
  assert (E : (c =? 46)%N = false) by (apply N.eqb_neq; exact Hc).
  unfold validate_local_part, validate_local_part_d4. cbv beta iota zeta. rewrite E. reflexivity.
Qed.

Lemma email_tail_d4_agree : agree_off_dot email_tail email_tail_d4.
Proof.
  intros c rest k Hc. unfold email_tail, email_tail_d4. rewrite vlp_d4; [reflexivity|].
  destruct k; cbn [firstn]; [exact I | exact Hc].
Qed.

Theorem email_leading_dot_unreachable :
  (forall U ut et rest, lex_token U ut et (46%N :: rest) = Some (1, KPunct PPeriod))
  /\ (forall U ut et1 et2, agree_off_dot et1 et2 ->
      forall pp src, lex_doc U ut et1 src = lex_doc U ut et2 src
                     /\ doc_tokens U ut et1 src = doc_tokens U ut et2 src
                     /\ lint_text U ut et1 pp src = lint_text U ut et2 pp src)
  /\ agree_off_dot email_tail email_tail_d4
  /\ (forall U src, run_lex U (url_tail U) email_tail_d4 src = run_lex_full U src
                    /\ run_doc U (url_tail U) email_tail_d4 src = run_doc_full U src).
Proof.
  split; [exact lex_token_dot|]. split.
  - intros U ut et1 et2 H pp src. split; [apply lex_doc_et; exact H|]. split; [apply doc_tokens_et; exact H|].
    apply lint_text_et. exact H.
  - split; [exact email_tail_d4_agree|]. intros U src. unfold run_lex_full, run_doc_full, run_lex, run_doc.
    rewrite (lex_doc_et U (url_tail U) _ _ email_tail_d4_agree src), (doc_tokens_et U (url_tail U) _ _ email_tail_d4_agree src).
    split; reflexivity.
Qed.

(* non-vacuity: the two tails DIFFER as functions (on a local part with a leading dot), yet no text tells them apart *)
Lemma unreach_example :
  email_tail (txt ".a@b.c") 2 = None /\ email_tail_d4 (txt ".a@b.c") 2 = Some 6
  /\ run_lex_full ascii_uni (txt ".a@b.c") = Some [(0, 1, (5, 2)); (1, 6, (9, 0))]
  /\ run_lex ascii_uni (url_tail ascii_uni) email_tail_d4 (txt ".a@b.c") = Some [(0, 1, (5, 2)); (1, 6, (9, 0))].
Proof. vm_compute. repeat split; reflexivity. Qed.
