(* TitleCaseProofs.v — lemmas about Model/TitleCase.v (C18). *)
Require Import Base Tables_titlecase TitleCase ListLemmas.
From Coq Require Import NArith Lia Sorting.Sorted.

(* ================= ASCII case operations ================= *)
Lemma ascii_upper_cases c :
  (ascii_upper c = c /\ ~ (97 <= c <= 122)%N) \/ (ascii_upper c = (c - 32)%N /\ (97 <= c <= 122)%N).
Proof.
  unfold ascii_upper.
  destruct (N.leb_spec 97 c); destruct (N.leb_spec c 122); cbn [andb]; [right|left|left|left]; split; try reflexivity; lia.
Qed.

Lemma ascii_lower_cases c :
  (ascii_lower c = c /\ ~ (65 <= c <= 90)%N) \/ (ascii_lower c = (c + 32)%N /\ (65 <= c <= 90)%N).
Proof.
  unfold ascii_lower.
  destruct (N.leb_spec 65 c); destruct (N.leb_spec c 90); cbn [andb]; [right|left|left|left]; split; try reflexivity; lia.
Qed.

Lemma is_ascii_lower_spec c : is_ascii_lower c = true <-> (97 <= c <= 122)%N.
Proof.
  unfold is_ascii_lower. rewrite Bool.andb_true_iff, !N.leb_le. tauto.
Qed.
Lemma is_ascii_upper_spec c : is_ascii_upper c = true <-> (65 <= c <= 90)%N.
Proof.
  unfold is_ascii_upper. rewrite Bool.andb_true_iff, !N.leb_le. tauto.
Qed.

Lemma ascii_upper_idem c : ascii_upper (ascii_upper c) = ascii_upper c.
Proof.
  destruct (ascii_upper_cases c) as [[H ?]|[H ?]]; rewrite H.
  - exact H.
  - destruct (ascii_upper_cases (c - 32)%N) as [[H' ?]|[H' ?]]; rewrite H'; [reflexivity|lia].
Qed.

Lemma ascii_lower_idem c : ascii_lower (ascii_lower c) = ascii_lower c.
Proof.
  destruct (ascii_lower_cases c) as [[H ?]|[H ?]]; rewrite H.
  - exact H.
  - destruct (ascii_lower_cases (c + 32)%N) as [[H' ?]|[H' ?]]; rewrite H'; [reflexivity|lia].
Qed.

Lemma ascii_upper_lower c : ascii_upper (ascii_lower c) = ascii_upper c.
Proof.
  destruct (ascii_lower_cases c) as [[H ?]|[H ?]]; rewrite H; [reflexivity|].
  destruct (ascii_upper_cases (c + 32)%N) as [[H' ?]|[H' ?]]; rewrite H'; [lia|].
  destruct (ascii_upper_cases c) as [[H'' ?]|[H'' ?]]; rewrite H''; lia.
Qed.

Lemma ascii_lower_upper c : ascii_lower (ascii_upper c) = ascii_lower c.
Proof.
  destruct (ascii_upper_cases c) as [[H ?]|[H ?]]; rewrite H; [reflexivity|].
  destruct (ascii_lower_cases (c - 32)%N) as [[H' ?]|[H' ?]]; rewrite H'; [lia|].
  destruct (ascii_lower_cases c) as [[H'' ?]|[H'' ?]]; rewrite H''; lia.
Qed.

Lemma ascii_upper_not_lower c : is_ascii_lower (ascii_upper c) = false.
Proof.
  destruct (is_ascii_lower (ascii_upper c)) eqn:E; [|reflexivity].
  apply is_ascii_lower_spec in E.
  destruct (ascii_upper_cases c) as [[H ?]|[H ?]]; rewrite H in E; lia.
Qed.

Lemma ascii_lower_not_upper c : is_ascii_upper (ascii_lower c) = false.
Proof.
  destruct (is_ascii_upper (ascii_lower c)) eqn:E; [|reflexivity].
  apply is_ascii_upper_spec in E.
  destruct (ascii_lower_cases c) as [[H ?]|[H ?]]; rewrite H in E; lia.
Qed.

(* an ASCII letter is upper-cased to an ASCII upper-case letter; anything else is left alone *)
Lemma ascii_upper_of_alpha c : is_ascii_alpha c = true -> is_ascii_upper (ascii_upper c) = true.
Proof.
  unfold is_ascii_alpha. rewrite Bool.orb_true_iff, is_ascii_lower_spec, !is_ascii_upper_spec.
  intros [Hc|Hc]; destruct (ascii_upper_cases c) as [[H ?]|[H ?]]; rewrite H; lia.
Qed.
Lemma ascii_upper_non_alpha c : is_ascii_lower c = false -> ascii_upper c = c.
Proof.
  intros E. destruct (ascii_upper_cases c) as [[H ?]|[H Hr]]; [exact H|].
  apply is_ascii_lower_spec in Hr. congruence.
Qed.

(* c is x up to ASCII case *)
Definition case_img (x c : char) : Prop := c = x \/ c = ascii_upper x \/ c = ascii_lower x.

Lemma case_img_refl x : case_img x x.
Proof. now left. Qed.
Lemma case_img_upper x c : case_img x c -> case_img x (ascii_upper c).
Proof.
  intros [ -> | [ -> | -> ] ]; unfold case_img.
  - auto.
  - rewrite ascii_upper_idem. auto.
  - rewrite ascii_upper_lower. auto.
Qed.
Lemma case_img_lower x c : case_img x c -> case_img x (ascii_lower c).
Proof.
  intros [ -> | [ -> | -> ] ]; unfold case_img.
  - auto.
  - rewrite ascii_lower_upper. auto.
  - rewrite ascii_lower_idem. auto.
Qed.

(* ================= checked list operations, pointwise ================= *)
Lemma nth_error_ext {A} : forall (l l' : list A), (forall k, nth_error l k = nth_error l' k) -> l = l'.
Proof.
  induction l as [|h t IH]; intros [|h' t'] H.
  - reflexivity.
  - specialize (H 0). discriminate.
  - specialize (H 0). discriminate.
  - f_equal.
    + specialize (H 0). cbn in H. congruence.
    + apply IH. intros k. exact (H (S k)).
Qed.

Lemma nth_chk_ok {A} (l : list A) i x : nth_chk l i = Ok x <-> nth_error l i = Some x.
Proof. unfold nth_chk. destruct (nth_error l i); split; intros H; inversion H; reflexivity. Qed.

Lemma nth_chk_total {A} (l : list A) i : i < length l -> exists x, nth_chk l i = Ok x.
Proof.
  intros H. unfold nth_chk. destruct (nth_error l i) eqn:E; [eauto|].
  apply nth_error_None in E. lia.
Qed.

Lemma set_nth_ok {A} : forall (l : list A) i x l', set_nth l i x = Ok l' ->
  i < length l /\ length l' = length l /\
  forall k, nth_error l' k = if k =? i then Some x else nth_error l k.
Proof.
  induction l as [|h t IH]; intros i x l' H; cbn [set_nth] in H; [discriminate|].
  destruct i as [|i'].
  - inversion H; subst. cbn [length]. repeat split; [lia|].
    intros [|k]; reflexivity.
  - destruct (set_nth t i' x) as [t'|] eqn:E; cbn [bind] in H; [|discriminate].
    inversion H; subst. destruct (IH _ _ _ E) as (Hl & Hn & Hk). cbn [length].
    repeat split; [lia|lia|].
    intros [|k]; [reflexivity|]. cbn [nth_error]. rewrite Hk. reflexivity.
Qed.

Lemma set_nth_total {A} : forall (l : list A) i x, i < length l -> exists l', set_nth l i x = Ok l'.
Proof.
  induction l as [|h t IH]; intros i x H; cbn [length] in H; [lia|].
  destruct i as [|i']; cbn [set_nth]; [eauto|].
  destruct (IH i' x) as [t' E]; [lia|]. rewrite E. cbn [bind]. eauto.
Qed.

Lemma sub_chk_ok a b r : sub_chk a b = Ok r <-> b <= a /\ r = a - b.
Proof.
  unfold sub_chk. destruct (Nat.ltb_spec a b); split; intros H'; try discriminate.
  - lia.
  - inversion H'. split; [lia|reflexivity].
  - destruct H' as [_ ->]. reflexivity.
Qed.

Ltac bool_cases :=
  repeat match goal with
  | |- context [?a <=? ?b] => destruct (Nat.leb_spec a b)
  | |- context [?a <? ?b] => destruct (Nat.ltb_spec a b)
  | |- context [?a =? ?b] => destruct (Nat.eqb_spec a b)
  end; cbn [andb orb negb].

(* the character left by the guarded copy, on optional characters (both are present wherever the
   copy succeeds) *)
Definition pick_opt (lower upper : char -> list char) (x y : option char) : option char :=
  match x, y with Some c, Some b => Some (canon_pick lower upper c b) | _, _ => None end.

Section Loops.
  Variable lower : char -> list char.
  Variable upper : char -> list char.
  Variable is_lowercase : char -> bool.
  Variable dict_canon : text -> option text.
  Variable dict_meta : text -> option wmeta.

  (* ---------- canon_overwrite ---------- *)
  Lemma canon_overwrite_ok cc : forall n out a idx out',
    canon_overwrite lower upper out a n idx cc = Ok out' ->
    length out' = length out /\
    (0 < n -> idx + n <= length cc /\ a + idx + n <= length out) /\
    forall k, nth_error out' k =
              if (a + idx <=? k) && (k <? a + idx + n)
              then pick_opt lower upper (nth_error out k) (nth_error cc (k - a)) else nth_error out k.
  Proof.
    induction n as [|n IH]; intros out a idx out' H; cbn [canon_overwrite] in H.
    - inversion H; subst. repeat split; [lia|lia|]. intros k. bool_cases; try reflexivity; lia.
    - destruct (nth_chk cc idx) as [b|] eqn:Ec; cbn [bind] in H; [|discriminate].
      destruct (nth_chk out (a + idx)) as [c|] eqn:Eo; cbn [bind] in H; [|discriminate].
      destruct (set_nth out (a + idx) (canon_pick lower upper c b)) as [o1|] eqn:Es; cbn [bind] in H; [|discriminate].
      apply nth_chk_ok in Ec. apply nth_chk_ok in Eo. destruct (set_nth_ok _ _ _ _ Es) as (Hb & Hl & Hk).
      destruct (IH _ _ _ _ H) as (Hl' & Hb' & Hk').
      assert (idx < length cc) by (apply nth_error_Some; congruence).
      repeat split.
      + lia.
      + destruct n; [lia|]. lia.
      + destruct n; lia.
      + intros k. rewrite Hk', !Hk. bool_cases; try reflexivity; try lia.
        subst k. replace (a + idx - a) with idx by lia. rewrite Eo, Ec. reflexivity.
  Qed.

  Lemma canon_overwrite_total cc : forall n out a idx,
    idx + n <= length cc -> a + idx + n <= length out ->
    exists out', canon_overwrite lower upper out a n idx cc = Ok out'.
  Proof.
    induction n as [|n IH]; intros out a idx Hc Ho; cbn [canon_overwrite]; [eauto|].
    destruct (nth_chk_total cc idx) as [b Ec]; [lia|]. rewrite Ec. cbn [bind].
    destruct (nth_chk_total out (a + idx)) as [c Eo]; [lia|]. rewrite Eo. cbn [bind].
    destruct (set_nth_total out (a + idx) (canon_pick lower upper c b)) as [o1 Es]; [lia|]. rewrite Es. cbn [bind].
    apply IH; [lia|]. destruct (set_nth_ok _ _ _ _ Es) as (_ & Hl & _). lia.
  Qed.

  (* ---------- lower_loop ---------- *)
  Lemma lower_loop_ok si : forall n out i out',
    lower_loop si out i n = Ok out' ->
    length out' = length out /\
    (0 < n -> si <= i /\ i - si + n <= length out) /\
    forall k, nth_error out' k =
              if (i - si <=? k) && (k <? i - si + n)
              then option_map ascii_lower (nth_error out k) else nth_error out k.
  Proof.
    induction n as [|n IH]; intros out i out' H; cbn [lower_loop] in H.
    - inversion H; subst. repeat split; [lia|lia|]. intros k. bool_cases; try reflexivity; lia.
    - destruct (sub_chk i si) as [j|] eqn:Ej; cbn [bind] in H; [|discriminate].
      apply sub_chk_ok in Ej. destruct Ej as [Hsi ->].
      destruct (nth_chk out (i - si)) as [c|] eqn:Ec; cbn [bind] in H; [|discriminate].
      destruct (set_nth out (i - si) (ascii_lower c)) as [o1|] eqn:Es; cbn [bind] in H; [|discriminate].
      apply nth_chk_ok in Ec. destruct (set_nth_ok _ _ _ _ Es) as (Hb & Hl & Hk).
      destruct (IH _ _ _ H) as (Hl' & Hb' & Hk').
      replace (S i - si) with (S (i - si)) in * by lia.
      repeat split.
      + lia.
      + lia.
      + destruct n; lia.
      + intros k. rewrite Hk', Hk. bool_cases; try reflexivity; try lia.
        subst k. rewrite Ec. reflexivity.
  Qed.

  Lemma lower_loop_total si : forall n out i,
    si <= i -> i - si + n <= length out -> exists out', lower_loop si out i n = Ok out'.
  Proof.
    induction n as [|n IH]; intros out i Hs Ho; cbn [lower_loop]; [eauto|].
    assert (E : sub_chk i si = Ok (i - si)) by (apply sub_chk_ok; lia). rewrite E. cbn [bind].
    destruct (nth_chk_total out (i - si)) as [c Ec]; [lia|]. rewrite Ec. cbn [bind].
    destruct (set_nth_total out (i - si) (ascii_lower c)) as [o1 Es]; [lia|]. rewrite Es. cbn [bind].
    apply IH; [lia|]. destruct (set_nth_ok _ _ _ _ Es) as (_ & Hl & _). lia.
  Qed.
End Loops.

(* ================= spans, hull, content ================= *)
Definition tstart (t : token) : nat := sstart (tspan t).
Definition tend (t : token) : nat := send (tspan t).
Definition endpoints (toks : list token) : list nat := flat_map (fun t => [tstart t; tend t]) toks.

(* where make_title_case anchors its indices, and where the copied text really starts *)
Definition first_start (toks : list token) : nat := match toks with [] => 0 | t :: _ => tstart t end.
Definition hull_start (toks : list token) : nat :=
  match endpoints toks with [] => 0 | x :: xs => fold_left Nat.min xs x end.
Definition hull_end (toks : list token) : nat :=
  match endpoints toks with [] => 0 | x :: xs => fold_left Nat.max xs x end.

(* the token invariant of C02, as far as title-casing reads it: in bounds, ordered, disjoint,
   word-like tokens non-empty *)
Definition toks_ok (n : nat) (toks : list token) : Prop :=
  StronglySorted (fun a b => tend a <= tstart b) toks /\
  Forall (fun t => tstart t <= tend t /\ tend t <= n /\ (tok_word_like t = true -> tstart t < tend t)) toks.

Lemma fold_min_spec : forall xs x,
  fold_left Nat.min xs x <= x /\ Forall (fun y => fold_left Nat.min xs x <= y) xs /\
  In (fold_left Nat.min xs x) (x :: xs).
Proof.
  induction xs as [|y ys IH]; intros x; cbn [fold_left].
  - repeat split; [lia|constructor|now left].
  - destruct (IH (Nat.min x y)) as (H1 & H2 & H3). repeat split.
    + lia.
    + constructor; [lia|exact H2].
    + destruct H3 as [H3|H3]; [|right; right; exact H3].
      rewrite <- H3. destruct (Nat.min_spec x y) as [[_ ->]|[_ ->]]; [now left|right; now left].
Qed.

Lemma fold_max_spec : forall xs x,
  x <= fold_left Nat.max xs x /\ Forall (fun y => y <= fold_left Nat.max xs x) xs /\
  In (fold_left Nat.max xs x) (x :: xs).
Proof.
  induction xs as [|y ys IH]; intros x; cbn [fold_left].
  - repeat split; [lia|constructor|now left].
  - destruct (IH (Nat.max x y)) as (H1 & H2 & H3). repeat split.
    + lia.
    + constructor; [lia|exact H2].
    + destruct H3 as [H3|H3]; [|right; right; exact H3].
      rewrite <- H3. destruct (Nat.max_spec x y) as [[_ ->]|[_ ->]]; [right; now left|now left].
Qed.

Lemma hull_eq toks : toks <> [] ->
  hull toks = Ok (Some (mkspan (hull_start toks) (hull_end toks))) /\ hull_start toks <= hull_end toks /\
  In (hull_start toks) (endpoints toks) /\ In (hull_end toks) (endpoints toks) /\
  Forall (fun y => hull_start toks <= y <= hull_end toks) (endpoints toks).
Proof.
  intros Hne. destruct toks as [|t0 rest]; [congruence|].
  unfold hull_start, hull_end.
  change (endpoints (t0 :: rest)) with (tstart t0 :: tend t0 :: endpoints rest).
  set (x := tstart t0). set (xs := tend t0 :: endpoints rest).
  assert (Hh : hull (t0 :: rest)
               = (do s <- span_new (fold_left Nat.min xs x) (fold_left Nat.max xs x); Ok (Some s))) by reflexivity.
  rewrite Hh. clear Hh.
  destruct (fold_min_spec xs x) as (A1 & A2 & A3). destruct (fold_max_spec xs x) as (B1 & B2 & B3).
  assert (Hle : fold_left Nat.min xs x <= fold_left Nat.max xs x) by lia.
  unfold span_new. destruct (Nat.ltb_spec (fold_left Nat.max xs x) (fold_left Nat.min xs x)); [lia|].
  cbn [bind]. repeat split; try assumption.
  constructor; [lia|]. rewrite Forall_forall in *. intros y Hy. specialize (A2 y Hy). specialize (B2 y Hy). lia.
Qed.

Lemma hull_nil : hull [] = Ok None.
Proof. reflexivity. Qed.

Lemma endpoints_in t toks : In t toks -> In (tstart t) (endpoints toks) /\ In (tend t) (endpoints toks).
Proof.
  intros H. unfold endpoints. split; apply in_flat_map; exists t; (split; [exact H|cbn; auto]).
Qed.

Lemma in_endpoints y toks : In y (endpoints toks) -> exists t, In t toks /\ (y = tstart t \/ y = tend t).
Proof.
  unfold endpoints. intros H. apply in_flat_map in H. destruct H as (t & Ht & Hy).
  exists t. split; [exact Ht|]. cbn in Hy. intuition.
Qed.

(* under the token invariant the hull starts at the first token and ends inside the text *)
Lemma toks_ok_hull n t0 rest :
  toks_ok n (t0 :: rest) ->
  hull_start (t0 :: rest) = tstart t0 /\ hull_end (t0 :: rest) <= n /\
  forall t, In t (t0 :: rest) -> tstart t0 <= tstart t /\ tend t <= hull_end (t0 :: rest).
Proof.
  intros [Hs Hf]. destruct (hull_eq (t0 :: rest)) as (_ & Hle & Hin1 & Hin2 & Hall); [congruence|].
  rewrite Forall_forall in Hf, Hall.
  assert (Hfirst : forall t, In t (t0 :: rest) -> tstart t0 <= tstart t).
  { intros t [<-|Ht]; [lia|]. apply StronglySorted_inv in Hs. destruct Hs as [_ Hs].
    rewrite Forall_forall in Hs. specialize (Hs t Ht). destruct (Hf t0 (or_introl eq_refl)) as (? & _). lia. }
  repeat split.
  - apply in_endpoints in Hin1. destruct Hin1 as (t & Ht & Hy).
    assert (tstart t0 <= hull_start (t0 :: rest)).
    { specialize (Hfirst t Ht). destruct (Hf t Ht) as (? & _). destruct Hy as [->| ->]; lia. }
    destruct (endpoints_in t0 (t0 :: rest)) as [Hi _]; [now left|]. specialize (Hall _ Hi). lia.
  - apply in_endpoints in Hin2. destruct Hin2 as (t & Ht & Hy).
    destruct (Hf t Ht) as (? & ? & _). destruct Hy as [->| ->]; lia.
  - apply Hfirst; assumption.
  - destruct (endpoints_in t (t0 :: rest)) as [_ Hi]; [assumption|]. specialize (Hall _ Hi). lia.
Qed.

(* Span::get_content *)
Lemma get_content_len {A} (sp : span) (src out : list A) :
  get_content sp src = Ok out -> length out = send sp - sstart sp.
Proof.
  unfold get_content, try_get_content.
  destruct ((send sp <? sstart sp) || (length src <=? sstart sp) || (length src <? send sp)) eqn:E.
  - unfold span_len, sub_chk. destruct (send sp <? sstart sp); cbn [bind]; [discriminate|].
    destruct (Nat.eqb_spec (send sp - sstart sp) 0); cbn [bind]; intros H; inversion H. cbn. lia.
  - cbn [bind]. intros H. inversion H. unfold slice. rewrite firstn_length, skipn_length.
    apply Bool.orb_false_iff in E. destruct E as [E E3]. apply Bool.orb_false_iff in E. destruct E as [E1 E2].
    apply Nat.ltb_ge in E1, E3. apply Nat.leb_gt in E2. lia.
Qed.

Lemma nth_error_firstn_lt {A} : forall n (l : list A) k, k < n -> nth_error (firstn n l) k = nth_error l k.
Proof.
  induction n as [|n IH]; intros l k H; [lia|].
  destruct l as [|h t]; [reflexivity|]. destruct k as [|k]; [reflexivity|].
  cbn [firstn nth_error]. apply IH. lia.
Qed.

Lemma nth_error_skipn_add {A} : forall n (l : list A) k, nth_error (skipn n l) k = nth_error l (n + k).
Proof.
  induction n as [|n IH]; intros l k; [reflexivity|].
  destruct l as [|h t]; [cbn; now destruct k|]. cbn [skipn Nat.add nth_error]. apply IH.
Qed.

Lemma slice_nth {A} (l : list A) a b k :
  nth_error (slice l a b) k = if k <? b - a then nth_error l (a + k) else None.
Proof.
  unfold slice. destruct (Nat.ltb_spec k (b - a)).
  - rewrite nth_error_firstn_lt by assumption. apply nth_error_skipn_add.
  - apply nth_error_None. rewrite firstn_length. lia.
Qed.

Lemma get_content_in {A} (src : list A) s e :
  s <= e <= length src -> get_content (mkspan s e) src = Ok (slice src s e).
Proof.
  intros H. unfold get_content, try_get_content. cbn [sstart send].
  destruct (Nat.ltb_spec e s); [lia|]. destruct (Nat.leb_spec (length src) s).
  - cbn [orb]. unfold span_len, sub_chk. cbn [sstart send]. destruct (Nat.ltb_spec e s); [lia|]. cbn [bind].
    assert (e = s) by lia. subst e. rewrite Nat.sub_diag. cbn. unfold slice. rewrite Nat.sub_diag. reflexivity.
  - destruct (Nat.ltb_spec (length src) e); [lia|]. cbn [orb bind]. reflexivity.
Qed.

Lemma get_content_nth {A} (sp : span) (src out : list A) k c :
  get_content sp src = Ok out -> nth_error out k = Some c -> nth_error src (sstart sp + k) = Some c.
Proof.
  unfold get_content, try_get_content.
  destruct ((send sp <? sstart sp) || (length src <=? sstart sp) || (length src <? send sp)) eqn:E.
  - unfold span_len, sub_chk. destruct (send sp <? sstart sp); cbn [bind]; [discriminate|].
    destruct (Nat.eqb_spec (send sp - sstart sp) 0); cbn [bind]; intros H; inversion H.
    subst out. destruct k; discriminate.
  - cbn [bind]. intros H. inversion H. subst out. rewrite slice_nth.
    destruct (k <? send sp - sstart sp); [auto|discriminate].
Qed.

(* ================= one word-like token ================= *)
Definition in_reg (a n k : nat) : bool := (a <=? k) && (k <? a + n).

Section Main.
  Variable lower : char -> list char.
  Variable upper : char -> list char.
  Variable is_lowercase : char -> bool.
  Variable dict_canon : text -> option text.
  Variable dict_meta : text -> option wmeta.

  (* the character at position k after the proper-noun block *)
  Definition base_val (oc : option text) (a n : nat) (out : text) (k : nat) : option char :=
    match oc with
    | Some cc => if in_reg a n k then pick_opt lower upper (nth_error out k) (nth_error cc (k - a)) else nth_error out k
    | None => nth_error out k
    end.

  (* the character at position k after the whole loop body for a token at [a, a+n) *)
  Definition step_val (oc : option text) (cap : bool) (a n : nat) (out : text) (k : nat) : option char :=
    if cap then (if k =? a then option_map ascii_upper (base_val oc a n out k) else base_val oc a n out k)
    else (if in_reg a n k then option_map ascii_lower (base_val oc a n out k) else base_val oc a n out k).

  Notation canon_for' := (canon_for dict_canon).
  Notation sct := (should_capitalize_token lower is_lowercase dict_meta).
  Notation word_step' := (word_step lower upper is_lowercase dict_canon dict_meta).
  Notation tc_loop' := (tc_loop lower upper is_lowercase dict_canon dict_meta).
  Notation mtc := (make_title_case lower upper is_lowercase dict_canon dict_meta).

  Lemma apply_canon_ok si w oc out out1 :
    apply_canon lower upper si w oc out = Ok out1 ->
    length out1 = length out /\
    (forall cc, oc = Some cc ->
       si <= tstart w /\ tstart w <= tend w /\ tend w - si <= length out /\
       (0 < tend w - tstart w -> tend w - tstart w <= length cc)) /\
    forall k, nth_error out1 k = base_val oc (tstart w - si) (tend w - tstart w) out k.
  Proof.
    unfold apply_canon. destruct oc as [cc|].
    - fold (tstart w) (tend w).
      destruct (sub_chk (tstart w) si) as [a|] eqn:Ea; cbn [bind]; [|discriminate].
      destruct (sub_chk (tend w) si) as [b|] eqn:Eb; cbn [bind]; [|discriminate].
      apply sub_chk_ok in Ea, Eb. destruct Ea as [Ha ->]. destruct Eb as [Hb ->].
      unfold slice_chk. destruct (Nat.ltb_spec (tend w - si) (tstart w - si)); cbn [orb bind]; [discriminate|].
      destruct (Nat.ltb_spec (length out) (tend w - si)); cbn [bind]; [discriminate|].
      intros H'. apply canon_overwrite_ok in H'. destruct H' as (Hl & Hbd & Hk).
      replace (tend w - si - (tstart w - si)) with (tend w - tstart w) in * by lia.
      split; [exact Hl|]. split.
      + intros cc' E. inversion E; subst cc'. repeat split; try lia.
      + intros k. rewrite Hk. unfold base_val, in_reg. rewrite !Nat.add_0_r. reflexivity.
    - intros H. inversion H; subst. split; [reflexivity|]. split; [intros cc E; discriminate|].
      intros k. reflexivity.
  Qed.

  Lemma apply_cap_ok si w cap out1 out' :
    apply_cap si w cap out1 = Ok out' ->
    length out' = length out1 /\
    (cap = true -> si <= tstart w /\ tstart w - si < length out1) /\
    (cap = false -> 0 < tend w - tstart w -> si <= tstart w /\ tstart w - si + (tend w - tstart w) <= length out1) /\
    forall k, nth_error out' k =
      if cap then (if k =? tstart w - si then option_map ascii_upper (nth_error out1 k) else nth_error out1 k)
      else (if in_reg (tstart w - si) (tend w - tstart w) k
            then option_map ascii_lower (nth_error out1 k) else nth_error out1 k).
  Proof.
    unfold apply_cap. fold (tstart w) (tend w). destruct cap.
    - destruct (sub_chk (tstart w) si) as [j|] eqn:Ej; cbn [bind]; [|discriminate].
      apply sub_chk_ok in Ej. destruct Ej as [Hj ->].
      destruct (nth_chk out1 (tstart w - si)) as [c|] eqn:Ec; cbn [bind]; [|discriminate].
      apply nth_chk_ok in Ec. intros Hs. destruct (set_nth_ok _ _ _ _ Hs) as (Hb & Hl & Hk).
      repeat split; try assumption; try discriminate.
      intros k. rewrite Hk. destruct (Nat.eqb_spec k (tstart w - si)); [|reflexivity].
      subst k. rewrite Ec. reflexivity.
    - intros H. apply lower_loop_ok in H. destruct H as (Hl & Hb & Hk).
      repeat split; try assumption; try discriminate; try (apply Hb; assumption).
  Qed.

  Lemma word_step_ok si src idx w last out out' :
    word_step' si src idx w last out = Ok out' ->
    exists oc sc,
      canon_for' w src = Ok oc /\ sct w src = Ok sc /\
      let cap := sc || (idx =? 0) || last in
      let a := tstart w - si in
      let n := tend w - tstart w in
      length out' = length out /\
      (forall cc, oc = Some cc -> si <= tstart w /\ tstart w <= tend w /\ tend w - si <= length out /\
                                  (0 < n -> n <= length cc)) /\
      (cap = true -> si <= tstart w /\ a < length out) /\
      (cap = false -> 0 < n -> si <= tstart w /\ a + n <= length out) /\
      forall k, nth_error out' k = step_val oc cap a n out k.
  Proof.
    unfold word_step. intros H.
    destruct (canon_for' w src) as [oc|] eqn:Eoc; cbn [bind] in H; [|discriminate].
    destruct (apply_canon lower upper si w oc out) as [out1|] eqn:E1; cbn [bind] in H; [|discriminate].
    destruct (sct w src) as [sc|] eqn:Esc; cbn [bind] in H; [|discriminate].
    exists oc, sc. split; [reflexivity|]. split; [reflexivity|].
    apply apply_canon_ok in E1. destruct E1 as (Hl1 & Hb1 & Hk1).
    apply apply_cap_ok in H. destruct H as (Hl2 & Hc1 & Hc2 & Hk2).
    cbv zeta. rewrite Hl1 in *.
    split; [exact Hl2|]. split; [exact Hb1|]. split; [exact Hc1|]. split; [exact Hc2|].
    intros k. rewrite Hk2. unfold step_val. rewrite !Hk1. reflexivity.
  Qed.

  (* ================= the whole function ================= *)
  (* ---------- length ---------- *)
  Lemma tc_loop_len : forall wl si src idx out out',
    tc_loop' si src wl idx out = Ok out' -> length out' = length out.
  Proof.
    induction wl as [|w rest IH]; intros si src idx out out' H; cbn [tc_loop] in H.
    - inversion H. reflexivity.
    - destruct (word_step' si src idx w match rest with [] => true | _ :: _ => false end out) as [o1|] eqn:E;
        cbn [bind] in H; [|discriminate].
      apply word_step_ok in E. destruct E as (oc & sc & _ & _ & Hl & _).
      rewrite (IH _ _ _ _ _ H). exact Hl.
  Qed.

  Lemma mtc_unfold t0 rest src out :
    mtc (t0 :: rest) src = Ok out ->
    exists out0,
      get_content (mkspan (hull_start (t0 :: rest)) (hull_end (t0 :: rest))) src = Ok out0 /\
      tc_loop' (tstart t0) src (filter tok_word_like (t0 :: rest)) 0 out0 = Ok out.
  Proof.
    unfold make_title_case. destruct (hull_eq (t0 :: rest)) as (Hh & _); [congruence|].
    rewrite Hh. cbn [bind].
    destruct (get_content {| sstart := hull_start (t0 :: rest); send := hull_end (t0 :: rest) |} src) as [out0|] eqn:E;
      cbn [bind]; [|discriminate].
    intros H. exists out0. split; [reflexivity|exact H].
  Qed.

  (* the output has exactly the length of the hull of the tokens (whatever the tokens are);
     text outside the hull is dropped, and an empty token list gives the empty string *)
  Theorem mtc_length toks src out :
    mtc toks src = Ok out -> length out = hull_end toks - hull_start toks.
  Proof.
    destruct toks as [|t0 rest].
    - cbn. intros H. inversion H. reflexivity.
    - intros H. apply mtc_unfold in H. destruct H as (out0 & Hc & Hl).
      apply tc_loop_len in Hl. apply get_content_len in Hc. cbn [sstart send] in Hc. lia.
  Qed.


  (* ---------- text_eqb, the table's apostrophes ---------- *)
  Lemma text_eqb_eq : forall a b, text_eqb a b = true -> a = b.
  Proof.
    induction a as [|x a IH]; intros [|y b] H; cbn [text_eqb] in H; try discriminate; [reflexivity|].
    apply Bool.andb_true_iff in H. destruct H as [H1 H2]. apply N.eqb_eq in H1. subst y. f_equal. apply IH. exact H2.
  Qed.
  Lemma text_eqb_refl : forall a, text_eqb a a = true.
  Proof. induction a as [|x a IH]; [reflexivity|]. cbn [text_eqb]. rewrite N.eqb_refl, IH. reflexivity. Qed.

  (* the canonical apostrophe and the curly ones are not ASCII letters (computed from the generated table) *)
  Lemma apo_to_upper : ascii_upper tc_canonical_apostrophe_to = tc_canonical_apostrophe_to.
  Proof. reflexivity. Qed.
  Lemma apo_to_lower : ascii_lower tc_canonical_apostrophe_to = tc_canonical_apostrophe_to.
  Proof. reflexivity. Qed.
  Lemma apo_from_high : Forall (fun x => (122 < x)%N) tc_canonical_apostrophe_from.
  Proof. repeat constructor. Qed.

  Lemma existsb_eqb_high (l : list N) c :
    Forall (fun x => (122 < x)%N) l -> (c <= 122)%N -> existsb (N.eqb c) l = false.
  Proof.
    intros Hl Hc. induction Hl as [|x l Hx _ IH]; [reflexivity|]. cbn [existsb]. rewrite IH, Bool.orb_false_r.
    apply N.eqb_neq. lia.
  Qed.

  Lemma apo_from_upper x :
    existsb (N.eqb (ascii_upper x)) tc_canonical_apostrophe_from = existsb (N.eqb x) tc_canonical_apostrophe_from.
  Proof.
    destruct (ascii_upper_cases x) as [[H _]|[H Hr]]; rewrite H; [reflexivity|].
    rewrite !(existsb_eqb_high _ _ apo_from_high); [reflexivity|lia|lia].
  Qed.
  Lemma apo_from_lower x :
    existsb (N.eqb (ascii_lower x)) tc_canonical_apostrophe_from = existsb (N.eqb x) tc_canonical_apostrophe_from.
  Proof.
    destruct (ascii_lower_cases x) as [[H _]|[H Hr]]; rewrite H; [reflexivity|].
    rewrite !(existsb_eqb_high _ _ apo_from_high); [reflexivity|lia|lia].
  Qed.
  Lemma apo_from_not_alpha x : In x tc_canonical_apostrophe_from -> is_ascii_alpha x = false.
  Proof.
    intros Hx. pose proof apo_from_high as Hh. rewrite Forall_forall in Hh. specialize (Hh x Hx).
    unfold is_ascii_alpha, is_ascii_lower, is_ascii_upper.
    destruct (N.leb_spec x 122); [lia|]. destruct (N.leb_spec x 90); [lia|]. rewrite !Bool.andb_false_r. reflexivity.
  Qed.

  (* ---------- the relation between an input and an output character that the property allows ----------
     case_variant a c: the same letter in possibly different case — what is_case_variant computes
     (equal to_lowercase AND equal to_uppercase mappings; KELVIN SIGN / K is NOT a pair: they share the
     lower-case k but not the upper-case mapping). *)
  Definition case_variant (a c : char) : Prop := lower a = lower c /\ upper a = upper c.

  Lemma is_case_variant_spec a c : is_case_variant lower upper a c = true <-> case_variant a c.
  Proof.
    unfold is_case_variant, case_variant. rewrite Bool.andb_true_iff. split.
    - intros [H1 H2]. split; apply text_eqb_eq; assumption.
    - intros [H1 H2]. rewrite H1, H2, !text_eqb_refl. split; reflexivity.
  Qed.
  Lemma is_apostrophe_pair_spec c b :
    is_apostrophe_pair c b = true <-> b = tc_canonical_apostrophe_to /\ In c tc_canonical_apostrophe_from.
  Proof.
    unfold is_apostrophe_pair. rewrite Bool.andb_true_iff, N.eqb_eq, existsb_exists. split.
    - intros [H1 (x & Hx & E)]. apply N.eqb_eq in E. subst x. split; assumption.
    - intros [H1 H2]. split; [exact H1|]. exists c. split; [exact H2|apply N.eqb_refl].
  Qed.

  Lemma case_variant_refl a : case_variant a a.
  Proof. split; reflexivity. Qed.
  Lemma case_variant_sym a c : case_variant a c -> case_variant c a.
  Proof. intros [H1 H2]. split; congruence. Qed.
  Lemma case_variant_trans a b c : case_variant a b -> case_variant b c -> case_variant a c.
  Proof. intros [H1 H2] [H3 H4]. split; congruence. Qed.

  (* laws of char::to_lowercase / to_uppercase (each monitored over ALL code points by the harness):
     the two mappings do not depend on the ASCII case of their argument ... *)
  Definition lower_ascii_law : Prop :=
    forall c, lower (ascii_upper c) = lower c /\ lower (ascii_lower c) = lower c.
  Definition upper_ascii_law : Prop :=
    forall c, upper (ascii_upper c) = upper c /\ upper (ascii_lower c) = upper c.
  (* ... the straight and the curly apostrophes have no case variant but themselves ... *)
  Definition is_apo (x : char) : Prop := x = tc_canonical_apostrophe_to \/ In x tc_canonical_apostrophe_from.
  Definition apostrophes_caseless : Prop := forall x y, is_apo x -> case_variant x y -> y = x.
  (* ... and a case variant of an ASCII letter is an ASCII letter *)
  Definition ascii_variant_closed : Prop :=
    forall a b, is_ascii_alpha a = true -> case_variant a b -> is_ascii_alpha b = true.

  Lemma case_variant_upper : lower_ascii_law -> upper_ascii_law -> forall c, case_variant c (ascii_upper c).
  Proof. intros Hl Hu c. destruct (Hl c) as [L _]. destruct (Hu c) as [U _]. split; congruence. Qed.
  Lemma case_variant_lower : lower_ascii_law -> upper_ascii_law -> forall c, case_variant c (ascii_lower c).
  Proof. intros Hl Hu c. destruct (Hl c) as [_ L]. destruct (Hu c) as [_ U]. split; congruence. Qed.

  (* ---------- every output character is a case variant of the input character at its position, or
     the straight apostrophe over a curly one inside a word-like token whose proper-noun block found a
     canonical spelling with the straight apostrophe at that offset ---------- *)
  Definition apo_site (toks : list token) (src : text) (k : nat) : Prop :=
    exists w cc, In w toks /\ tok_word_like w = true /\ canon_for' w src = Ok (Some cc) /\
                 tstart w <= first_start toks + k < tend w /\
                 nth_error cc (first_start toks + k - tstart w) = Some tc_canonical_apostrophe_to.

  Definition char_rel (toks : list token) (src : text) (k : nat) (a c : char) : Prop :=
    case_variant a c \/
    (In a tc_canonical_apostrophe_from /\ c = tc_canonical_apostrophe_to /\ apo_site toks src k).

  Definition out_rel (toks : list token) (src : text) (k : nat) (c : char) : Prop :=
    exists a, nth_error src (hull_start toks + k) = Some a /\ char_rel toks src k a c.

  Section CaseOnly.
    Hypothesis Hla : lower_ascii_law.
    Hypothesis Hua : upper_ascii_law.
    Hypothesis Hapo : apostrophes_caseless.

    Lemma out_rel_upper toks src k c : out_rel toks src k c -> out_rel toks src k (ascii_upper c).
    Proof.
      intros (a & Ha & [Hv|(H1 & H2 & H3)]); exists a; (split; [exact Ha|]).
      - left. apply (case_variant_trans _ _ _ Hv). apply case_variant_upper; assumption.
      - right. subst c. rewrite apo_to_upper. repeat split; assumption.
    Qed.
    Lemma out_rel_lower toks src k c : out_rel toks src k c -> out_rel toks src k (ascii_lower c).
    Proof.
      intros (a & Ha & [Hv|(H1 & H2 & H3)]); exists a; (split; [exact Ha|]).
      - left. apply (case_variant_trans _ _ _ Hv). apply case_variant_lower; assumption.
      - right. subst c. rewrite apo_to_lower. repeat split; assumption.
    Qed.

    (* the guarded copy keeps the relation *)
    Lemma out_rel_pick toks src k c w cc b :
      In w toks -> tok_word_like w = true -> canon_for' w src = Ok (Some cc) ->
      tstart w <= first_start toks + k < tend w ->
      nth_error cc (first_start toks + k - tstart w) = Some b ->
      out_rel toks src k c -> out_rel toks src k (canon_pick lower upper c b).
    Proof.
      intros W1 W2 W3 W4 W5 (a & Ha & Hr). unfold canon_pick.
      destruct (is_case_variant lower upper c b) eqn:Ev; cbn [orb].
      - apply is_case_variant_spec in Ev. exists a. split; [exact Ha|].
        destruct Hr as [Hv|(H1 & H2 & H3)].
        + left. apply (case_variant_trans _ _ _ Hv Ev).
        + right. subst c. assert (b = tc_canonical_apostrophe_to) by (apply Hapo; [now left|exact Ev]).
          subst b. repeat split; assumption.
      - destruct (is_apostrophe_pair c b) eqn:Ep; [|exists a; split; assumption].
        apply is_apostrophe_pair_spec in Ep. destruct Ep as [-> Hc]. exists a. split; [exact Ha|].
        right. assert (Hsite : apo_site toks src k) by (exists w, cc; repeat split; try assumption; lia).
        destruct Hr as [Hv|(H1 & H2 & H3)].
        + assert (a = c) by (apply Hapo; [now right|apply case_variant_sym; exact Hv]). subst a.
          repeat split; assumption.
        + repeat split; assumption.
    Qed.

    Lemma tc_loop_rel toks src : forall wl idx out out',
      tc_loop' (first_start toks) src wl idx out = Ok out' ->
      (forall w, In w wl -> In w toks /\ tok_word_like w = true) ->
      (forall k c, nth_error out k = Some c -> out_rel toks src k c) ->
      forall k c, nth_error out' k = Some c -> out_rel toks src k c.
    Proof.
      induction wl as [|w rest IH]; intros idx out out' H Hin Hinv; cbn [tc_loop] in H.
      - inversion H; subst. exact Hinv.
      - destruct (word_step' (first_start toks) src idx w match rest with [] => true | _ :: _ => false end out) as [o1|] eqn:E;
          cbn [bind] in H; [|discriminate].
        apply (IH _ _ _ H); [intros w' Hw'; apply Hin; now right|].
        apply word_step_ok in E. destruct E as (oc & sc & Eoc & _ & _ & Hb & _ & _ & Hk).
        set (si := first_start toks) in *. set (a := tstart w - si) in *. set (n := tend w - tstart w) in *.
        assert (Hbase : forall k b, base_val oc a n out k = Some b -> out_rel toks src k b).
        { intros k b. unfold base_val. destruct oc as [cc|]; [|apply Hinv].
          destruct (in_reg a n k) eqn:Er; [|apply Hinv]. intros Hb'.
          destruct (nth_error out k) as [c0|] eqn:Ec0; [|discriminate].
          destruct (nth_error cc (k - a)) as [b0|] eqn:Eb0; [|discriminate].
          cbn [pick_opt] in Hb'. inversion Hb'; subst b.
          destruct (Hb cc eq_refl) as (H1 & H2 & _). unfold in_reg in Er.
          apply Bool.andb_true_iff in Er. destruct Er as [Er1 Er2].
          apply Nat.leb_le in Er1. apply Nat.ltb_lt in Er2.
          destruct (Hin w (or_introl eq_refl)) as [Hw1 Hw2].
          apply (out_rel_pick toks src k c0 w cc b0); try assumption.
          - fold si. unfold a, n in *. lia.
          - fold si. replace (si + k - tstart w) with (k - a) by (unfold a; lia). exact Eb0.
          - apply Hinv. exact Ec0. }
        intros k c. rewrite Hk. unfold step_val.
        destruct (sc || (idx =? 0) || match rest with [] => true | _ :: _ => false end).
        + destruct (k =? a); [|apply Hbase].
          destruct (base_val oc a n out k) as [b|] eqn:Eb; cbn [option_map]; [|discriminate].
          intros Hc. inversion Hc; subst. apply out_rel_upper. apply Hbase. exact Eb.
        + destruct (in_reg a n k); [|apply Hbase].
          destruct (base_val oc a n out k) as [b|] eqn:Eb; cbn [option_map]; [|discriminate].
          intros Hc. inversion Hc; subst. apply out_rel_lower. apply Hbase. exact Eb.
    Qed.

    (* for ANY token list *)
    Theorem mtc_case_only toks src out :
      mtc toks src = Ok out -> forall k c, nth_error out k = Some c -> out_rel toks src k c.
    Proof.
      destruct toks as [|t0 rest].
      - cbn. intros H. inversion H. intros [|k] c Hc; discriminate.
      - intros H. apply mtc_unfold in H. destruct H as (out0 & Hc & Hl).
        change (tstart t0) with (first_start (t0 :: rest)) in Hl.
        apply (tc_loop_rel _ _ _ _ _ _ Hl).
        + intros w Hw. apply filter_In in Hw. exact Hw.
        + intros k c Hk. exists c. split; [|left; apply case_variant_refl].
          apply (get_content_nth _ _ _ _ _ Hc) in Hk. exact Hk.
    Qed.
  End CaseOnly.

  (* ---------- what a step leaves alone ---------- *)
  Lemma step_val_outside oc cap a n out k :
    0 < n -> in_reg a n k = false -> step_val oc cap a n out k = nth_error out k.
  Proof.
    intros Hn Hr. unfold step_val, base_val. rewrite Hr.
    assert (k =? a = false).
    { apply Nat.eqb_neq. intros ->. unfold in_reg in Hr.
      apply Bool.andb_false_iff in Hr. destruct Hr as [Hr|Hr]; [apply Nat.leb_gt in Hr|apply Nat.ltb_ge in Hr]; lia. }
    rewrite H. destruct cap; destruct oc; reflexivity.
  Qed.

  Lemma step_prefix si src idx w last out out' :
    word_step' si src idx w last out = Ok out' ->
    forall k, k < tstart w - si -> nth_error out' k = nth_error out k.
  Proof.
    intros H k Hk. apply word_step_ok in H. destruct H as (oc & sc & _ & _ & _ & _ & _ & _ & Hv).
    rewrite Hv. unfold step_val, base_val, in_reg.
    destruct (Nat.eqb_spec k (tstart w - si)); [lia|].
    destruct (Nat.leb_spec (tstart w - si) k); [lia|]. cbn [andb].
    destruct (sc || (idx =? 0) || last); destruct oc; reflexivity.
  Qed.

  Lemma tc_loop_prefix si src p : forall wl idx out out',
    tc_loop' si src wl idx out = Ok out' ->
    (forall w, In w wl -> p < tstart w - si) ->
    nth_error out' p = nth_error out p.
  Proof.
    induction wl as [|w rest IH]; intros idx out out' H Hp; cbn [tc_loop] in H.
    - inversion H. reflexivity.
    - destruct (word_step' si src idx w match rest with [] => true | _ :: _ => false end out) as [o1|] eqn:E;
        cbn [bind] in H; [|discriminate].
      rewrite (IH _ _ _ H) by (intros w' Hw'; apply Hp; now right).
      apply (step_prefix _ _ _ _ _ _ _ E). apply Hp. now left.
  Qed.

  (* ---------- token invariant and the word-like sub-list ---------- *)
  Lemma sorted_filter {A} (R : A -> A -> Prop) (f : A -> bool) : forall l,
    StronglySorted R l -> StronglySorted R (filter f l).
  Proof.
    induction l as [|x l IH]; intros H; cbn [filter]; [constructor|].
    apply StronglySorted_inv in H. destruct H as [Hs Hf].
    destruct (f x); [|apply IH; exact Hs].
    constructor; [apply IH; exact Hs|].
    rewrite Forall_forall in *. intros y Hy. apply filter_In in Hy. apply Hf. apply Hy.
  Qed.

  (* what the loop needs to know about each word-like token: anchored after start_index, non-empty,
     inside the output and inside the source *)
  Definition wl_ok (si lo ls : nat) (wl : list token) : Prop :=
    StronglySorted (fun a b => tend a <= tstart b) wl /\
    Forall (fun w => si <= tstart w /\ tstart w < tend w /\ tend w - si <= lo /\ tend w <= ls) wl.

  Lemma toks_ok_wl (src : text) t0 rest :
    toks_ok (length src) (t0 :: rest) ->
    wl_ok (tstart t0) (hull_end (t0 :: rest) - hull_start (t0 :: rest)) (length src)
          (filter tok_word_like (t0 :: rest)).
  Proof.
    intros Hok. destruct (toks_ok_hull _ _ _ Hok) as (Hs & He & Hall). destruct Hok as [Hso Hf].
    split; [apply sorted_filter; exact Hso|].
    rewrite Forall_forall in *. intros w Hw. apply filter_In in Hw. destruct Hw as [Hw Hwl].
    destruct (Hall w Hw) as [H1 H2]. destruct (Hf w Hw) as (H3 & H4 & H5). specialize (H5 Hwl).
    rewrite Hs. repeat split; lia.
  Qed.


  (* ---------- the first word-like token starts with an upper-cased character ---------- *)
  (* exact form: to_ascii_uppercase of the token's first character, or of the first character of its
     canonical spelling when the guarded copy took it *)
  Theorem mtc_first_upper_exact toks src out w0 rest :
    toks_ok (length src) toks ->
    mtc toks src = Ok out ->
    filter tok_word_like toks = w0 :: rest ->
    exists oc a b,
      canon_for' w0 src = Ok oc /\ nth_error src (tstart w0) = Some a /\
      match oc with
      | Some cc => exists b0, nth_error cc 0 = Some b0 /\ b = canon_pick lower upper a b0
      | None => b = a
      end /\
      nth_error out (tstart w0 - first_start toks) = Some (ascii_upper b).
  Proof.
    intros Hok H Hf. destruct toks as [|t0 rest0]; [discriminate|].
    destruct (toks_ok_wl _ _ _ Hok) as [Hso Hfa]. destruct (toks_ok_hull _ _ _ Hok) as (Hs & He & _).
    apply mtc_unfold in H. destruct H as (out0 & Hc & Hl). rewrite Hf in *. cbn [first_start].
    cbn [tc_loop] in Hl.
    destruct (word_step' (tstart t0) src 0 w0 match rest with [] => true | _ :: _ => false end out0) as [o1|] eqn:E;
      cbn [bind] in Hl; [|discriminate].
    apply StronglySorted_inv in Hso. destruct Hso as [_ Hlt].
    apply Forall_inv in Hfa as Hw0. destruct Hw0 as (B1 & B2 & B3 & B4).
    rewrite (tc_loop_prefix _ _ (tstart w0 - tstart t0) _ _ _ _ Hl).
    2:{ intros w Hw. rewrite Forall_forall in Hlt. specialize (Hlt w Hw). lia. }
    apply word_step_ok in E. destruct E as (oc & sc & Eoc & _ & _ & Hb & Hcap & _ & Hk).
    rewrite Bool.orb_true_r in Hcap, Hk. cbn [orb] in Hcap, Hk. destruct (Hcap eq_refl) as [_ Hlen].
    exists oc. rewrite Hk. unfold step_val. rewrite Nat.eqb_refl. unfold base_val.
    assert (Hreg : in_reg (tstart w0 - tstart t0) (tend w0 - tstart w0) (tstart w0 - tstart t0) = true).
    { unfold in_reg. apply Bool.andb_true_iff. split; [apply Nat.leb_le|apply Nat.ltb_lt]; lia. }
    destruct (nth_error out0 (tstart w0 - tstart t0)) as [a|] eqn:Ea.
    2:{ apply nth_error_None in Ea. lia. }
    assert (Hsrc : nth_error src (tstart w0) = Some a).
    { apply (get_content_nth _ _ _ _ _ Hc) in Ea. cbn [sstart] in Ea. rewrite Hs in Ea.
      replace (tstart t0 + (tstart w0 - tstart t0)) with (tstart w0) in Ea by lia. exact Ea. }
    destruct oc as [cc|].
    - rewrite Hreg, Nat.sub_diag. destruct (Hb cc eq_refl) as (_ & _ & _ & Hcc).
      destruct (nth_error cc 0) as [b0|] eqn:Eb.
      + exists a, (canon_pick lower upper a b0). split; [exact Eoc|]. split; [exact Hsrc|].
        split; [exists b0; split; reflexivity|reflexivity].
      + apply nth_error_None in Eb. lia.
    - exists a, a. split; [exact Eoc|]. split; [exact Hsrc|]. split; reflexivity.
  Qed.

  (* the clause of the property text: it is never an ASCII lower-case letter, and when the token
     starts with an ASCII letter the output has an ASCII upper-case letter there *)
  Theorem mtc_first_upper toks src out w0 rest :
    ascii_variant_closed ->
    toks_ok (length src) toks ->
    mtc toks src = Ok out ->
    filter tok_word_like toks = w0 :: rest ->
    exists a c,
      nth_error src (tstart w0) = Some a /\ nth_error out (tstart w0 - first_start toks) = Some c /\
      is_ascii_lower c = false /\ (is_ascii_alpha a = true -> is_ascii_upper c = true).
  Proof.
    intros Hcl Hok H Hf.
    destruct (mtc_first_upper_exact _ _ _ _ _ Hok H Hf) as (oc & a & b & _ & Ha & Hb & Hout).
    exists a, (ascii_upper b). split; [exact Ha|]. split; [exact Hout|].
    split; [apply ascii_upper_not_lower|]. intros Halpha. apply ascii_upper_of_alpha.
    destruct oc as [cc|]; [|subst b; exact Halpha].
    destruct Hb as (b0 & _ & ->). unfold canon_pick.
    destruct (is_case_variant lower upper a b0) eqn:Ev; cbn [orb].
    - apply is_case_variant_spec in Ev. apply (Hcl a b0 Halpha Ev).
    - destruct (is_apostrophe_pair a b0) eqn:Ep; [|exact Halpha].
      apply is_apostrophe_pair_spec in Ep. destruct Ep as [_ Hin].
      apply apo_from_not_alpha in Hin. congruence.
  Qed.

  (* ---------- totality ---------- *)
  Lemma apply_canon_total si w oc out :
    si <= tstart w -> tstart w <= tend w -> tend w - si <= length out ->
    (forall cc, oc = Some cc -> tend w - tstart w <= length cc) ->
    exists out1, apply_canon lower upper si w oc out = Ok out1.
  Proof.
    intros H1 H2 H3 H4. unfold apply_canon. destruct oc as [cc|]; [|eauto]. fold (tstart w) (tend w).
    assert (Ea : sub_chk (tstart w) si = Ok (tstart w - si)) by (apply sub_chk_ok; lia).
    assert (Eb : sub_chk (tend w) si = Ok (tend w - si)) by (apply sub_chk_ok; lia).
    rewrite Ea, Eb. cbn [bind]. unfold slice_chk.
    destruct (Nat.ltb_spec (tend w - si) (tstart w - si)); [lia|].
    destruct (Nat.ltb_spec (length out) (tend w - si)); [lia|]. cbn [orb bind].
    apply canon_overwrite_total; specialize (H4 cc eq_refl); lia.
  Qed.

  Lemma apply_cap_total si w cap out1 :
    si <= tstart w -> tstart w < tend w -> tend w - si <= length out1 ->
    exists out', apply_cap si w cap out1 = Ok out'.
  Proof.
    intros H1 H2 H3. unfold apply_cap. fold (tstart w) (tend w). destruct cap.
    - assert (Ea : sub_chk (tstart w) si = Ok (tstart w - si)) by (apply sub_chk_ok; lia).
      rewrite Ea. cbn [bind]. destruct (nth_chk_total out1 (tstart w - si)) as [c Ec]; [lia|].
      rewrite Ec. cbn [bind]. apply set_nth_total. lia.
    - apply lower_loop_total; lia.
  Qed.

  Lemma word_step_total si src idx w last out oc sc :
    canon_for' w src = Ok oc -> sct w src = Ok sc ->
    si <= tstart w -> tstart w < tend w -> tend w - si <= length out ->
    (forall cc, oc = Some cc -> tend w - tstart w <= length cc) ->
    exists out', word_step' si src idx w last out = Ok out'.
  Proof.
    intros Eoc Esc H1 H2 H3 H4. unfold word_step. rewrite Eoc. cbn [bind].
    destruct (apply_canon_total si w oc out) as [out1 E1]; try assumption; try lia.
    rewrite E1. cbn [bind]. rewrite Esc. cbn [bind].
    apply apply_cap_total; try assumption.
    apply apply_canon_ok in E1. destruct E1 as (Hl & _). lia.
  Qed.

  Lemma canon_for_total w src :
    tstart w <= tend w <= length src ->
    exists oc, canon_for' w src = Ok oc /\
               forall cc, oc = Some cc -> dict_canon (slice src (tstart w) (tend w)) = Some cc.
  Proof.
    intros H. unfold canon_for. destruct (tkind_ w) as [[md|]| | | | | | | | | | |]; try (exists None; split; [reflexivity|discriminate]).
    destruct (m_proper md); [|exists None; split; [reflexivity|discriminate]].
    destruct w as [[s e] k]. cbn [tspan tstart tend sstart send] in *.
    rewrite (get_content_in src s e H). cbn [bind]. eexists. split; [reflexivity|].
    intros cc E. exact E.
  Qed.

  Lemma sct_total w src : tstart w <= tend w <= length src -> exists sc, sct w src = Ok sc.
  Proof.
    intros H. unfold should_capitalize_token.
    destruct (tkind_ w) as [[md|]| | | | | | | | | | |]; try (eexists; reflexivity).
    destruct w as [[s e] k]. cbn [tspan tstart tend sstart send] in *.
    rewrite (get_content_in src s e H). cbn [bind].
    match goal with |- context [m_prep ?m] => destruct (m_prep m) end.
    - unfold span_len, sub_chk. cbn [sstart send]. destruct (Nat.ltb_spec e s); [lia|]. cbn [bind]. eauto.
    - cbn [bind]. eauto.
  Qed.

  Lemma tc_loop_total src si : forall wl idx out,
    wl_ok si (length out) (length src) wl ->
    (forall w cc, In w wl -> canon_for' w src = Ok (Some cc) -> tend w - tstart w <= length cc) ->
    exists out', tc_loop' si src wl idx out = Ok out'.
  Proof.
    induction wl as [|w rest IH]; intros idx out [Hso Hfa] Hc; cbn [tc_loop]; [eauto|].
    apply Forall_inv in Hfa as Hw. destruct Hw as (B1 & B2 & B3 & B4).
    destruct (canon_for_total w src) as (oc & Eoc & _); [lia|].
    destruct (sct_total w src) as (sc & Esc); [lia|].
    destruct (word_step_total si src idx w match rest with [] => true | _ :: _ => false end out oc sc)
      as [o1 E]; try assumption.
    { intros cc ->. apply (Hc w cc); [now left|exact Eoc]. }
    rewrite E. cbn [bind].
    apply word_step_ok in E as E'. destruct E' as (_ & _ & _ & _ & Hl & _).
    apply IH.
    - split; [apply StronglySorted_inv in Hso; apply Hso|]. apply Forall_inv_tail in Hfa. rewrite Hl. exact Hfa.
    - intros w' cc Hw'. apply Hc. now right.
  Qed.

  (* H_canon_len (weak form: at least as long; the harness monitors equality) *)
  Theorem mtc_total toks src :
    toks_ok (length src) toks ->
    (forall w cc, dict_canon w = Some cc -> length w <= length cc) ->
    exists out, mtc toks src = Ok out.
  Proof.
    intros Hok Hcanon. destruct toks as [|t0 rest]; [cbn; eauto|].
    destruct (toks_ok_wl _ _ _ Hok) as [Hso Hfa]. destruct (toks_ok_hull _ _ _ Hok) as (Hs & He & _).
    destruct (hull_eq (t0 :: rest)) as (Hh & Hle & _); [congruence|].
    unfold make_title_case. rewrite Hh. cbn [bind].
    rewrite get_content_in by lia. cbn [bind].
    apply tc_loop_total.
    - assert (Hlen : length (slice src (hull_start (t0 :: rest)) (hull_end (t0 :: rest)))
                     = hull_end (t0 :: rest) - hull_start (t0 :: rest)).
      { unfold slice. rewrite firstn_length, skipn_length. lia. }
      rewrite Hlen. split; assumption.
    - intros w cc Hw Ec. rewrite Forall_forall in Hfa. destruct (Hfa w Hw) as (B1 & B2 & B3 & B4).
      destruct (canon_for_total w src) as (oc & Eoc & Hd); [lia|].
      rewrite Ec in Eoc. inversion Eoc; subst oc. specialize (Hd cc eq_refl).
      apply Hcanon in Hd. unfold slice in Hd. rewrite firstn_length, skipn_length in Hd. lia.
  Qed.

  (* ---------- idempotence ---------- *)
  (* `out` is a fixed point of the loop body for a token at [a, a+n) with decision (oc, cap) *)
  Definition settled (oc : option text) (cap : bool) (a n : nat) (out : text) : Prop :=
    forall k, in_reg a n k = true -> step_val oc cap a n out k = nth_error out k.

  Lemma option_map_upper_idem (x : option char) :
    option_map ascii_upper (option_map ascii_upper x) = option_map ascii_upper x.
  Proof. destruct x; cbn; [rewrite ascii_upper_idem|]; reflexivity. Qed.
  Lemma option_map_lower_idem (x : option char) :
    option_map ascii_lower (option_map ascii_lower x) = option_map ascii_lower x.
  Proof. destruct x; cbn; [rewrite ascii_lower_idem|]; reflexivity. Qed.

  (* the guard of the copy does not see the ASCII case of the character it is asked about *)
  Definition guard (x b : char) : bool := is_case_variant lower upper x b || is_apostrophe_pair x b.

  Section Idem.
    Hypothesis Hla : lower_ascii_law.
    Hypothesis Hua : upper_ascii_law.

    Lemma guard_upper x b : guard (ascii_upper x) b = guard x b.
    Proof.
      unfold guard, is_case_variant, is_apostrophe_pair. destruct (Hla x) as [L _]. destruct (Hua x) as [U _].
      rewrite L, U, apo_from_upper. reflexivity.
    Qed.
    Lemma guard_lower x b : guard (ascii_lower x) b = guard x b.
    Proof.
      unfold guard, is_case_variant, is_apostrophe_pair. destruct (Hla x) as [_ L]. destruct (Hua x) as [_ U].
      rewrite L, U, apo_from_lower. reflexivity.
    Qed.
    Lemma guard_refl b : guard b b = true.
    Proof. unfold guard, is_case_variant. rewrite !text_eqb_refl. reflexivity. Qed.

    (* copy, case write, copy again, case write again = copy, case write *)
    Lemma pick_settle (f : char -> char) x b :
      (forall y, guard (f y) b = guard y b) -> (forall y, f (f y) = f y) ->
      f (canon_pick lower upper (f (canon_pick lower upper x b)) b) = f (canon_pick lower upper x b).
    Proof.
      intros Hg Hf. unfold canon_pick. fold (guard x b). destruct (guard x b) eqn:E.
      - fold (guard (f b) b). rewrite Hg, guard_refl. reflexivity.
      - fold (guard (f x) b). rewrite Hg, E. apply Hf.
    Qed.

    Lemma pick_opt_settle (f : char -> char) X Y :
      (forall b y, guard (f y) b = guard y b) -> (forall y, f (f y) = f y) ->
      option_map f (pick_opt lower upper (option_map f (pick_opt lower upper X Y)) Y)
      = option_map f (pick_opt lower upper X Y).
    Proof.
      intros Hg Hf. destruct X as [x|], Y as [b|]; cbn [pick_opt option_map]; try reflexivity.
      f_equal. apply pick_settle; [apply Hg|exact Hf].
    Qed.

    (* the loop body, applied to its own result, changes nothing *)
    Lemma step_settles oc cap a n ob o1 :
      (forall k, nth_error o1 k = step_val oc cap a n ob k) -> settled oc cap a n o1.
    Proof.
      intros Hk k Hr. rewrite Hk. unfold step_val. rewrite Hr.
      unfold base_val. rewrite Hr. destruct oc as [cc|].
      - rewrite Hk. unfold step_val, base_val. rewrite Hr. destruct cap.
        + destruct (k =? a).
          * apply (pick_opt_settle ascii_upper); [intros; apply guard_upper|apply ascii_upper_idem].
          * pose proof (pick_opt_settle (fun y => y) (nth_error ob k) (nth_error cc (k - a))) as P.
            assert (Hid : forall (o : option char), option_map (fun y => y) o = o) by (intros [|]; reflexivity).
            rewrite !Hid in P. apply P; reflexivity.
        + apply (pick_opt_settle ascii_lower); [intros; apply guard_lower|apply ascii_lower_idem].
      - rewrite Hk. unfold step_val, base_val. rewrite Hr. destruct cap.
        + destruct (k =? a); [apply option_map_upper_idem|reflexivity].
        + apply option_map_lower_idem.
    Qed.

    Lemma settled_agree oc cap a n o1 o2 :
      (forall k, in_reg a n k = true -> nth_error o2 k = nth_error o1 k) ->
      settled oc cap a n o1 -> settled oc cap a n o2.
    Proof.
      intros Hag Hs k Hr. specialize (Hs k Hr). rewrite (Hag k Hr). rewrite <- Hs.
      unfold step_val, base_val. rewrite Hr. destruct oc; rewrite ?(Hag k Hr); reflexivity.
    Qed.

  (* what the first pass establishes for the token at each position of the word-like list *)
  Definition pass1_fact (si : nat) (src out : text) (idx : nat) (w : token) (last : bool) : Prop :=
    exists oc sc,
      canon_for' w src = Ok oc /\ sct w src = Ok sc /\
      (forall cc, oc = Some cc -> tend w - tstart w <= length cc) /\
      settled oc (sc || (idx =? 0) || last) (tstart w - si) (tend w - tstart w) out.

  Definition is_nil {A} (l : list A) : bool := match l with [] => true | _ => false end.

  Lemma tc_loop_settled si src : forall wl idx ob out,
    tc_loop' si src wl idx ob = Ok out ->
    wl_ok si (length ob) (length src) wl ->
    forall pre w post, wl = pre ++ w :: post ->
      pass1_fact si src out (idx + length pre) w (is_nil post).
  Proof.
    induction wl as [|w0 rest IH]; intros idx ob out H [Hso Hfa] pre w post Hsplit.
    - destruct pre; discriminate.
    - cbn [tc_loop] in H. fold (is_nil rest) in H.
      destruct (word_step' si src idx w0 (is_nil rest) ob) as [o1|] eqn:E; cbn [bind] in H; [|discriminate].
      apply Forall_inv in Hfa as Hw0. destruct Hw0 as (B1 & B2 & B3 & B4).
      apply StronglySorted_inv in Hso. destruct Hso as [Hso' Hlt].
      apply word_step_ok in E as E'. destruct E' as (oc & sc & Eoc & Esc & Hl & Hb & _ & _ & Hk).
      destruct pre as [|p pre'].
      + cbn [app] in Hsplit. inversion Hsplit; subst w0 rest. cbn [length]. rewrite Nat.add_0_r.
        exists oc, sc. split; [exact Eoc|]. split; [exact Esc|]. split.
        { intros cc ->. destruct (Hb cc eq_refl) as (_ & _ & _ & Hcc). apply Hcc. lia. }
        apply (settled_agree _ _ _ _ o1).
        * intros k Hr. apply (tc_loop_prefix _ _ _ _ _ _ _ H).
          intros w' Hw'. rewrite Forall_forall in Hlt. specialize (Hlt w' Hw').
          unfold in_reg in Hr. apply Bool.andb_true_iff in Hr. destruct Hr as [_ Hr]. apply Nat.ltb_lt in Hr. lia.
        * apply (step_settles _ _ _ _ ob). exact Hk.
      + cbn [app] in Hsplit. inversion Hsplit; subst p rest. cbn [length].
        replace (idx + S (length pre')) with (S idx + length pre') by lia.
        apply (IH (S idx) o1 out H); [|reflexivity].
        split; [exact Hso'|]. apply Forall_inv_tail in Hfa. rewrite Hl. exact Hfa.
  Qed.

  (* a settled token is left alone by the loop body *)
  Lemma word_step_fix si out idx w last oc sc :
    canon_for' w out = Ok oc -> sct w out = Ok sc ->
    si <= tstart w -> tstart w < tend w -> tend w - si <= length out ->
    (forall cc, oc = Some cc -> tend w - tstart w <= length cc) ->
    settled oc (sc || (idx =? 0) || last) (tstart w - si) (tend w - tstart w) out ->
    word_step' si out idx w last out = Ok out.
  Proof.
    intros Eoc Esc H1 H2 H3 H4 Hs.
    destruct (word_step_total si out idx w last out oc sc) as [out' E]; try assumption.
    rewrite E. f_equal. apply nth_error_ext. intros k.
    apply word_step_ok in E. destruct E as (oc' & sc' & Eoc' & Esc' & _ & _ & _ & _ & Hk).
    rewrite Eoc in Eoc'. inversion Eoc'; subst oc'. rewrite Esc in Esc'. inversion Esc'; subst sc'.
    rewrite Hk. destruct (in_reg (tstart w - si) (tend w - tstart w) k) eqn:Er.
    - apply Hs. exact Er.
    - apply step_val_outside; [lia|exact Er].
  Qed.

  Lemma tc_loop_fix si out : forall wl idx,
    (forall pre w post, wl = pre ++ w :: post ->
       word_step' si out (idx + length pre) w (is_nil post) out = Ok out) ->
    tc_loop' si out wl idx out = Ok out.
  Proof.
    induction wl as [|w rest IH]; intros idx H; cbn [tc_loop]; [reflexivity|].
    fold (is_nil rest). specialize (H [] w rest eq_refl) as H0. cbn [length] in H0. rewrite Nat.add_0_r in H0.
    rewrite H0. cbn [bind]. apply IH. intros pre w' post Hsplit.
    replace (S idx + length pre) with (idx + length (w :: pre)) by (cbn [length]; lia).
    apply H. rewrite Hsplit. reflexivity.
  Qed.

  Lemma slice_all {A} (l : list A) : slice l 0 (length l) = l.
  Proof. unfold slice. rewrite Nat.sub_0_r. cbn [skipn]. apply firstn_all. Qed.

  (* Second pass.  Premises: the C02 token invariant; the tokens tile the text (PlainEnglish);
     H_case_stable — the second pass sees the same token list, and for each word-like token the two
     things the code asks the dictionary about the token's text (the canonical spelling copied by
     the proper-noun block, and should_capitalize_token) have the same answer on the output as on
     the input. *)
  Theorem mtc_idempotent toks src out :
    toks_ok (length src) toks ->
    hull_start toks = 0 -> hull_end toks = length src ->
    mtc toks src = Ok out ->
    (forall w, In w toks -> tok_word_like w = true ->
               canon_for' w out = canon_for' w src /\ sct w out = sct w src) ->
    mtc toks out = Ok out.
  Proof.
    intros Hok Hs0 He0 H Hstable. destruct toks as [|t0 rest].
    - cbn in H. inversion H. reflexivity.
    - pose proof (mtc_length _ _ _ H) as Hlen. rewrite Hs0, He0, Nat.sub_0_r in Hlen.
      destruct (toks_ok_wl _ _ _ Hok) as [Hso Hfa]. destruct (toks_ok_hull _ _ _ Hok) as (Hs & _ & _).
      rewrite Hs0 in Hs. rewrite <- Hs in *. rewrite He0, Hs0, Nat.sub_0_r in Hfa.
      apply mtc_unfold in H. destruct H as (out0 & Hc & Hl). rewrite Hs0, He0 in Hc.
      rewrite get_content_in in Hc by lia. inversion Hc; subst out0. rewrite slice_all in Hl.
      destruct (hull_eq (t0 :: rest)) as (Hh & _); [congruence|].
      unfold make_title_case. rewrite Hh, Hs0, He0. cbn [bind]. rewrite <- Hlen.
      rewrite get_content_in by lia. cbn [bind]. rewrite slice_all.
      change (sstart (tspan t0)) with (tstart t0). rewrite <- Hs. rewrite <- Hs in Hl.
      apply tc_loop_fix. intros pre w post Hsplit.
      assert (Hw : In w (filter tok_word_like (t0 :: rest))) by (rewrite Hsplit; apply in_elt).
      destruct (tc_loop_settled _ _ _ _ _ _ Hl (conj Hso Hfa) pre w post Hsplit)
        as (oc & sc & Eoc & Esc & Hcc & Hset).
      apply filter_In in Hw as Hw'. destruct Hw' as [Hin Hwl]. destruct (Hstable w Hin Hwl) as [S1 S2].
      rewrite Forall_forall in Hfa. destruct (Hfa w Hw) as (B1 & B2 & B3 & B4).
      apply (word_step_fix 0 out (0 + length pre) w (is_nil post) oc sc); try assumption; try lia.
      + rewrite S1. exact Eoc.
      + rewrite S2. exact Esc.
  Qed.

    (* ---------- the second pass's decisions follow from case-insensitivity ---------- *)
    (* further laws (monitored): to_lowercase is the identity on is_lowercase characters and on the
       apostrophes; the dictionary's two look-ups do not see a difference that is only case or
       apostrophe style (WordId hashes the normalised, lower-cased word) *)
    Definition lowercase_fixed : Prop := forall c, is_lowercase c = true -> lower c = [c].
    Definition apostrophes_lower_fixed : Prop := forall x, is_apo x -> lower x = [x].
    (* a c related as the property allows, without the position information *)
    Definition tc_rel (a c : char) : Prop :=
      case_variant a c \/ (In a tc_canonical_apostrophe_from /\ c = tc_canonical_apostrophe_to).
    Definition dict_case_insensitive : Prop :=
      forall u v, Forall2 tc_rel u v ->
        dict_canon v = dict_canon u /\
        dict_meta (to_lower lower is_lowercase v) = dict_meta (to_lower lower is_lowercase u).

    Lemma to_lower_flat : lowercase_fixed -> forall w, to_lower lower is_lowercase w = flat_map lower w.
    Proof.
      intros Hf w. unfold to_lower. destruct (forallb is_lowercase w) eqn:E; [|reflexivity].
      induction w as [|c w IH]; [reflexivity|]. cbn [forallb] in E. apply Bool.andb_true_iff in E.
      destruct E as [E1 E2]. cbn [flat_map]. rewrite (Hf c E1). cbn [app]. f_equal. apply IH. exact E2.
    Qed.

    (* the special conjunctions contain no apostrophe of either kind (computed from the table) *)
    Definition apo_b (x : char) : bool :=
      (x =? tc_canonical_apostrophe_to)%N || existsb (N.eqb x) tc_canonical_apostrophe_from.
    Lemma apo_b_spec x : apo_b x = true <-> is_apo x.
    Proof.
      unfold apo_b, is_apo. rewrite Bool.orb_true_iff, N.eqb_eq, existsb_exists. split.
      - intros [H|(y & Hy & E)]; [now left|]. apply N.eqb_eq in E. subst y. now right.
      - intros [H|H]; [now left|]. right. exists x. split; [exact H|apply N.eqb_refl].
    Qed.
    Lemma conj_clean : forallb (fun w => forallb (fun x => negb (apo_b x)) w) tc_special_conjunctions = true.
    Proof. reflexivity. Qed.
    Lemma text_mem_no_apo w x :
      text_mem w tc_special_conjunctions = true -> In x w -> is_apo x -> False.
    Proof.
      unfold text_mem. rewrite existsb_exists. intros (w' & Hw' & E) Hx Ha.
      apply text_eqb_eq in E. subst w'. pose proof conj_clean as Hc. rewrite forallb_forall in Hc.
      specialize (Hc w Hw'). rewrite forallb_forall in Hc. specialize (Hc x Hx).
      apply apo_b_spec in Ha. rewrite Ha in Hc. discriminate.
    Qed.

    Lemma flat_lower_rel : apostrophes_lower_fixed -> forall u v, Forall2 tc_rel u v ->
      flat_map lower v = flat_map lower u \/
      ((exists x, is_apo x /\ In x (flat_map lower u)) /\ (exists y, is_apo y /\ In y (flat_map lower v))).
    Proof.
      intros Hfix u v H. induction H as [|a c u v Hac _ IH]; [now left|]. cbn [flat_map].
      destruct Hac as [[Hl _]|[Ha ->]].
      - destruct IH as [IH|[(x & Hx & Ix) (y & Hy & Iy)]].
        + left. rewrite Hl, IH. reflexivity.
        + right. split; [exists x|exists y]; (split; [assumption|apply in_or_app; now right]).
      - right. split.
        + exists a. split; [now right|]. rewrite (Hfix a) by (now right). now left.
        + exists tc_canonical_apostrophe_to. split; [now left|]. rewrite (Hfix _) by (now left). now left.
    Qed.

    Lemma conj_mem_rel : lowercase_fixed -> apostrophes_lower_fixed -> forall u v, Forall2 tc_rel u v ->
      text_mem (to_lower lower is_lowercase v) tc_special_conjunctions
      = text_mem (to_lower lower is_lowercase u) tc_special_conjunctions.
    Proof.
      intros Hf Hfix u v H. rewrite !(to_lower_flat Hf).
      destruct (flat_lower_rel Hfix u v H) as [E|[(x & Hx & Ix) (y & Hy & Iy)]]; [rewrite E; reflexivity|].
      destruct (text_mem (flat_map lower v) tc_special_conjunctions) eqn:Ev.
      { exfalso. apply (text_mem_no_apo _ y Ev Iy Hy). }
      destruct (text_mem (flat_map lower u) tc_special_conjunctions) eqn:Eu; [|reflexivity].
      exfalso. apply (text_mem_no_apo _ x Eu Ix Hx).
    Qed.

    (* should_capitalize_token reads the source only through to_lower of the token's text (dictionary
       metadata and the special conjunctions), the proper-noun block only through the dictionary's
       answer for the token's text *)
    Lemma sct_depends w (src src' u v : text) :
      get_content (tspan w) src = Ok u -> get_content (tspan w) src' = Ok v ->
      dict_meta (to_lower lower is_lowercase v) = dict_meta (to_lower lower is_lowercase u) ->
      text_mem (to_lower lower is_lowercase v) tc_special_conjunctions
      = text_mem (to_lower lower is_lowercase u) tc_special_conjunctions ->
      sct w src' = sct w src.
    Proof.
      intros Eu Ev Em Ec. unfold should_capitalize_token.
      destruct (tkind_ w) as [[md|]| | | | | | | | | | |]; try reflexivity.
      rewrite Eu, Ev. cbn [bind]. rewrite Em, Ec. reflexivity.
    Qed.

    Lemma canon_for_depends w (src src' u v : text) :
      get_content (tspan w) src = Ok u -> get_content (tspan w) src' = Ok v ->
      dict_canon v = dict_canon u ->
      canon_for' w src' = canon_for' w src.
    Proof.
      intros Eu Ev Ed. unfold canon_for.
      destruct (tkind_ w) as [[md|]| | | | | | | | | | |]; try reflexivity.
      destruct (m_proper md); [|reflexivity]. rewrite Eu, Ev. cbn [bind]. rewrite Ed. reflexivity.
    Qed.

    Lemma Forall2_of_nth {A B} (P : A -> B -> Prop) : forall (u : list A) (v : list B),
      length u = length v ->
      (forall k a c, nth_error u k = Some a -> nth_error v k = Some c -> P a c) ->
      Forall2 P u v.
    Proof.
      induction u as [|a u IH]; intros [|c v] Hl H; try discriminate; constructor.
      - apply (H 0); reflexivity.
      - apply IH; [cbn in Hl; lia|]. intros k a' c' Ha Hc. apply (H (S k)); assumption.
    Qed.

    (* IDEMPOTENCE of make_title_case on a token list: a second pass over the same tokens changes
       nothing.  No premise about the dictionary's answers on the output is left: they follow from the
       case-only theorem and the case-insensitivity of the look-ups. *)
    Theorem mtc_idempotent_tokens toks src out :
      apostrophes_caseless -> lowercase_fixed -> apostrophes_lower_fixed -> dict_case_insensitive ->
      toks_ok (length src) toks ->
      hull_start toks = 0 -> hull_end toks = length src ->
      mtc toks src = Ok out ->
      mtc toks out = Ok out.
    Proof.
      intros Hapo Hf Hfix Hd Hok Hs0 He0 H. apply (mtc_idempotent toks src out Hok Hs0 He0 H).
      intros w Hin Hwl.
      destruct toks as [|t0 rest]; [destruct Hin|].
      pose proof (mtc_length _ _ _ H) as Hlen. rewrite Hs0, He0, Nat.sub_0_r in Hlen.
      destruct Hok as [Hso Hfa]. rewrite Forall_forall in Hfa. destruct (Hfa w Hin) as (B1 & B2 & B3).
      assert (Eu : get_content (tspan w) src = Ok (slice src (tstart w) (tend w))).
      { destruct w as [[s e] kd]. cbn [tspan tstart tend sstart send] in *. apply get_content_in. lia. }
      assert (Ev : get_content (tspan w) out = Ok (slice out (tstart w) (tend w))).
      { destruct w as [[s e] kd]. cbn [tspan tstart tend sstart send] in *. apply get_content_in. lia. }
      assert (Hci : Forall2 tc_rel (slice src (tstart w) (tend w)) (slice out (tstart w) (tend w))).
      { apply Forall2_of_nth.
        - unfold slice. rewrite !firstn_length, !skipn_length. lia.
        - intros k a c. rewrite !slice_nth. destruct (Nat.ltb_spec k (tend w - tstart w)); [|discriminate].
          intros Ha Hc. destruct (mtc_case_only Hla Hua Hapo _ _ _ H _ _ Hc) as (a' & Ha' & Hr).
          rewrite Hs0 in Ha'. cbn [Nat.add] in Ha'. rewrite Ha in Ha'. inversion Ha'; subst a'.
          destruct Hr as [Hv|(R1 & R2 & _)]; [now left|right; split; assumption]. }
      destruct (Hd _ _ Hci) as [D1 D2]. split.
      - apply (canon_for_depends w src out _ _ Eu Ev D1).
      - apply (sct_depends w src out _ _ Eu Ev D2). apply conj_mem_rel; assumption.
    Qed.
  End Idem.
End Main.

(* ================= H_canon_len from the way the dictionary finds a word =================
   WordId::from_word_chars hashes `normalized` then `to_lower` of the word; the entry found for w is
   the entry whose canonical spelling has the same id.  If (hash collisions aside) the two folded
   strings are equal, lower-casing never deletes a character, and every character of the canonical
   spelling lower-cases to exactly one character, the canonical spelling is at least as long as w. *)
Definition fold_word (lower : char -> list char) (w : text) : text :=
  flat_map lower (map normalize_char w).

Lemma flat_map_length_ge {A B} (f : A -> list B) : forall l,
  (forall x, f x <> []) -> length l <= length (flat_map f l).
Proof.
  intros l Hne. induction l as [|x l IH]; [cbn; lia|].
  cbn [flat_map length]. rewrite app_length. specialize (Hne x). destruct (f x); [congruence|]. cbn [length]. lia.
Qed.

Lemma flat_map_length_eq {A B} (f : A -> list B) : forall l,
  Forall (fun x => length (f x) = 1) l -> length (flat_map f l) = length l.
Proof.
  intros l H. induction H as [|x l Hx _ IH]; [reflexivity|].
  cbn [flat_map length]. rewrite app_length, Hx, IH. reflexivity.
Qed.

Lemma canon_len_from_word_id (lower : char -> list char) (w cc : text) :
  (forall c, lower c <> []) ->
  fold_word lower cc = fold_word lower w ->
  Forall (fun c => length (lower (normalize_char c)) = 1) cc ->
  length w <= length cc.
Proof.
  intros Hne Hf Hs. unfold fold_word in Hf.
  assert (H1 : length (flat_map lower (map normalize_char cc)) = length cc).
  { rewrite flat_map_length_eq; [apply map_length|]. rewrite Forall_map. exact Hs. }
  assert (H2 : length w <= length (flat_map lower (map normalize_char w))).
  { rewrite <- (map_length normalize_char w) at 1. apply flat_map_length_ge. exact Hne. }
  rewrite Hf in H1. lia.
Qed.


Lemma mtc_total_word_id lower upper is_lowercase dict_canon dict_meta toks (src : text) :
  toks_ok (length src) toks ->
  (forall c, lower c <> []) ->
  (forall w cc, dict_canon w = Some cc ->
                fold_word lower cc = fold_word lower w /\
                Forall (fun c => length (lower (normalize_char c)) = 1) cc) ->
  exists out, make_title_case lower upper is_lowercase dict_canon dict_meta toks src = Ok out.
Proof.
  intros Hok Hne Hd. apply mtc_total; [exact Hok|].
  intros w cc E. destruct (Hd w cc E) as [H1 H2]. apply (canon_len_from_word_id lower); assumption.
Qed.

(* ================= corollaries and the tie to the generated table ================= *)
Lemma mtc_length_tiling lower upper is_lowercase dict_canon dict_meta toks (src out : text) :
  make_title_case lower upper is_lowercase dict_canon dict_meta toks src = Ok out ->
  hull_start toks = 0 -> hull_end toks = length src -> length out = length src.
Proof. intros H H0 H1. apply mtc_length in H. lia. Qed.

Lemma ascii_upper_spec c :
  is_ascii_lower (ascii_upper c) = false /\
  (is_ascii_alpha c = true -> is_ascii_upper (ascii_upper c) = true) /\
  (is_ascii_lower c = false -> ascii_upper c = c).
Proof.
  split; [apply ascii_upper_not_lower|]. split; [apply ascii_upper_of_alpha|apply ascii_upper_non_alpha].
Qed.

Lemma tc_source_shape :
  tc_uses_unicode_case_on_output = false /\ tc_ascii_upper_sites = 1 /\ tc_ascii_lower_sites = 1 /\
  tc_output_index_writes = 2 /\
  tc_canonical_copy_guarded = true /\ tc_canonical_copy_unguarded_present = false /\
  tc_case_variant_is_lower_and_upper = true /\
  tc_canonical_apostrophe_to = 39%N /\ tc_canonical_apostrophe_from = [8217; 8216; 65287]%N /\
  tc_first_last_forced = true /\
  tc_token_kind_count = 12 /\ tc_word_like_codes = [0; 6; 8; 2; 3] /\
  tc_special_conjunctions = [[97; 110; 100]; [98; 117; 116]; [102; 111; 114]; [111; 114]; [110; 111; 114]]%N /\
  tc_short_preposition_max = 4 /\
  tc_normalize_table = [(8217, 39); (8216, 39); (65287, 39)]%N.
Proof. repeat split; reflexivity. Qed.

(* the full property on a token list, in one statement: under the token invariant and tiling, the
   Unicode-table laws and the dictionary contract, the conversion succeeds, keeps the length, changes
   each character only to a case variant of itself (or a curly apostrophe to the straight one of a
   proper noun's canonical spelling), starts the first word-like token with an upper-case letter when
   it starts with an ASCII letter, and a second pass over the same tokens changes nothing *)
Theorem mtc_property lower upper is_lowercase dict_canon dict_meta toks (src : text) :
  lower_ascii_law lower -> upper_ascii_law upper -> apostrophes_caseless lower upper ->
  ascii_variant_closed lower upper -> lowercase_fixed lower is_lowercase -> apostrophes_lower_fixed lower ->
  dict_case_insensitive lower upper is_lowercase dict_canon dict_meta ->
  (forall w cc, dict_canon w = Some cc -> length w <= length cc) ->
  toks_ok (length src) toks -> hull_start toks = 0 -> hull_end toks = length src ->
  exists out,
    make_title_case lower upper is_lowercase dict_canon dict_meta toks src = Ok out /\
    length out = length src /\
    (forall k c, nth_error out k = Some c ->
       exists a, nth_error src k = Some a /\ char_rel lower upper dict_canon toks src k a c) /\
    (forall w0 rest, filter tok_word_like toks = w0 :: rest ->
       exists a c, nth_error src (tstart w0) = Some a /\ nth_error out (tstart w0) = Some c /\
                   is_ascii_lower c = false /\ (is_ascii_alpha a = true -> is_ascii_upper c = true)) /\
    make_title_case lower upper is_lowercase dict_canon dict_meta toks out = Ok out.
Proof.
  intros Hla Hua Hapo Hcl Hf Hfix Hd Hlen Hok Hs0 He0.
  destruct (mtc_total lower upper is_lowercase dict_canon dict_meta toks src Hok Hlen) as [out H].
  exists out. split; [exact H|]. split; [apply (mtc_length_tiling _ _ _ _ _ _ _ _ H Hs0 He0)|]. split; [|split].
  - intros k c Hc. destruct (mtc_case_only _ _ _ _ _ Hla Hua Hapo _ _ _ H _ _ Hc) as (a & Ha & Hr).
    rewrite Hs0 in Ha. exists a. split; assumption.
  - intros w0 rest Hfl.
    destruct (mtc_first_upper _ _ _ _ _ _ _ _ _ _ Hcl Hok H Hfl) as (a & c & Ha & Hc & H1 & H2).
    exists a, c. repeat split; try assumption.
    destruct toks as [|t0 r0]; [discriminate|]. destruct (toks_ok_hull _ _ _ Hok) as (Hs & _).
    cbn [first_start] in Hc. rewrite <- Hs, Hs0, Nat.sub_0_r in Hc. exact Hc.
  - apply (mtc_idempotent_tokens _ _ _ _ _ Hla Hua toks src out Hapo Hf Hfix Hd Hok Hs0 He0 H).
Qed.

(* ================= a concrete instance (non-vacuity of the hypotheses) ================= *)
Definition ex_lower (c : char) : list char := [ascii_lower c].
Definition ex_upper (c : char) : list char := [ascii_upper c].
Definition ex_islower (c : char) : bool := is_ascii_lower c.
(* the example dictionary finds a word by its folded form, as WordId does: char_to_normalized, then
   lower-case.  "wordpress" / "WordPress", "the" "a" determiners, "of" preposition *)
Definition ex_key (w : text) : text := map (fun c => ascii_lower (normalize_char c)) w.
Definition ex_wordpress : text := [119; 111; 114; 100; 112; 114; 101; 115; 115]%N.
Definition ex_WordPress : text := [87; 111; 114; 100; 80; 114; 101; 115; 115]%N.
Definition ex_canon (w : text) : option text :=
  if text_eqb (ex_key w) ex_wordpress then Some ex_WordPress else None.
Definition ex_meta (w : text) : option wmeta :=
  let l := ex_key w in
  if text_eqb l ex_wordpress then Some (mkmeta true false false)
  else if text_eqb l [116; 104; 101]%N || text_eqb l [97]%N then Some (mkmeta false false true)
  else if text_eqb l [111; 102]%N then Some (mkmeta false true false)
  else None.
(* "the wordpress of a" *)
Definition ex_src : text :=
  [116; 104; 101; 32; 119; 111; 114; 100; 112; 114; 101; 115; 115; 32; 111; 102; 32; 97]%N.
Definition ex_toks : list token :=
  [mktok (mkspan 0 3) (KWord (Some (mkmeta false false true))); mktok (mkspan 3 4) KSpace;
   mktok (mkspan 4 13) (KWord (Some (mkmeta true false false))); mktok (mkspan 13 14) KSpace;
   mktok (mkspan 14 16) (KWord (Some (mkmeta false true false))); mktok (mkspan 16 17) KSpace;
   mktok (mkspan 17 18) (KWord (Some (mkmeta false false true)))].
(* "The WordPress of A" *)
Definition ex_out : text :=
  [84; 104; 101; 32; 87; 111; 114; 100; 80; 114; 101; 115; 115; 32; 111; 102; 32; 65]%N.

Lemma ex_canon_len : forall w cc, ex_canon w = Some cc -> length w <= length cc.
Proof.
  intros w cc. unfold ex_canon. destruct (text_eqb (ex_key w) ex_wordpress) eqn:E; [|discriminate].
  intros H. inversion H; subst cc. apply text_eqb_eq in E.
  apply (f_equal (@length char)) in E. unfold ex_key in E. rewrite map_length in E. rewrite E. cbn. lia.
Qed.

Lemma ex_toks_ok : toks_ok (length ex_src) ex_toks.
Proof.
  split.
  - repeat (constructor; [|repeat constructor; cbn; lia]). constructor.
  - repeat constructor; cbn; try lia; try discriminate.
Qed.

(* the example's case mappings satisfy every law the theorems assume *)
Lemma ex_lower_ascii_law : lower_ascii_law ex_lower.
Proof. intros c. unfold ex_lower. rewrite ascii_lower_upper, ascii_lower_idem. split; reflexivity. Qed.
Lemma ex_upper_ascii_law : upper_ascii_law ex_upper.
Proof. intros c. unfold ex_upper. rewrite ascii_upper_idem, ascii_upper_lower. split; reflexivity. Qed.
Lemma ex_lowercase_fixed : lowercase_fixed ex_lower ex_islower.
Proof.
  intros c H. unfold ex_lower, ex_islower in *. apply is_ascii_lower_spec in H.
  destruct (ascii_lower_cases c) as [[E _]|[_ Hr]]; [rewrite E; reflexivity|lia].
Qed.

Lemma ex_variant_inv a c : case_variant ex_lower ex_upper a c ->
  ascii_lower a = ascii_lower c /\ ascii_upper a = ascii_upper c.
Proof. unfold case_variant, ex_lower, ex_upper. intros [H1 H2]. injection H1 as E1. injection H2 as E2. split; assumption. Qed.

(* a character above 'z' has no ASCII case variant but itself *)
Lemma ex_variant_high a c : case_variant ex_lower ex_upper a c -> (122 < a)%N \/ (122 < c)%N -> c = a.
Proof.
  intros H Hh. apply ex_variant_inv in H. destruct H as [H _].
  destruct (ascii_lower_cases a) as [[Ea Ha]|[Ea Ha]]; destruct (ascii_lower_cases c) as [[Ec Hc]|[Ec Hc]];
    rewrite Ea, Ec in H; lia.
Qed.

Lemma is_apo_cases x : is_apo x -> x = 39%N \/ (122 < x)%N.
Proof.
  intros [->|H]; [now left|right]. pose proof apo_from_high as Hh. rewrite Forall_forall in Hh. exact (Hh x H).
Qed.

Lemma ex_apostrophes_caseless : apostrophes_caseless ex_lower ex_upper.
Proof.
  intros x y Hx Hv. destruct (is_apo_cases x Hx) as [->|Hh].
  - apply ex_variant_inv in Hv. destruct Hv as [H1 H2]. change (ascii_lower 39%N) with 39%N in H1.
    destruct (ascii_lower_cases y) as [[E _]|[E Hr]]; rewrite E in H1; lia.
  - apply (ex_variant_high x y Hv). now left.
Qed.

Lemma ex_apostrophes_lower_fixed : apostrophes_lower_fixed ex_lower.
Proof.
  intros x Hx. unfold ex_lower. destruct (is_apo_cases x Hx) as [->|Hh]; [reflexivity|].
  destruct (ascii_lower_cases x) as [[E _]|[_ Hr]]; [rewrite E; reflexivity|lia].
Qed.

Lemma ex_ascii_variant_closed : ascii_variant_closed ex_lower ex_upper.
Proof.
  intros a b Ha Hv. apply ex_variant_inv in Hv. destruct Hv as [H1 H2].
  unfold is_ascii_alpha in *. apply Bool.orb_true_iff in Ha. apply Bool.orb_true_iff.
  rewrite is_ascii_lower_spec, is_ascii_upper_spec in *.
  destruct (ascii_lower_cases a) as [[Ea Ra]|[Ea Ra]]; destruct (ascii_lower_cases b) as [[Eb Rb]|[Eb Rb]];
    rewrite Ea, Eb in H1; lia.
Qed.

Lemma normalize_char_low x : (x <= 122)%N -> normalize_char x = x.
Proof.
  intros H. unfold normalize_char, tc_normalize_table. cbn [assoc_N].
  repeat match goal with |- context [(?k =? x)%N] => destruct (N.eqb_spec k x); [lia|] end. reflexivity.
Qed.

Lemma ex_key_char_rel a c : tc_rel ex_lower ex_upper a c ->
  ascii_lower (normalize_char a) = ascii_lower (normalize_char c).
Proof.
  intros [Hv|[Ha ->]].
  - destruct (N.le_gt_cases a 122) as [La|La]; destruct (N.le_gt_cases c 122) as [Lc|Lc].
    + rewrite !normalize_char_low by assumption. apply ex_variant_inv in Hv. apply Hv.
    + rewrite (ex_variant_high a c Hv) by (now right). reflexivity.
    + rewrite (ex_variant_high a c Hv) by (now left). reflexivity.
    + rewrite (ex_variant_high a c Hv) by (now left). reflexivity.
  - cbn in Ha. destruct Ha as [<-|[<-|[<-|[]]]]; reflexivity.
Qed.

Lemma ex_key_rel u v : Forall2 (tc_rel ex_lower ex_upper) u v -> ex_key v = ex_key u.
Proof.
  intros H. induction H as [|a c u v Hac _ IH]; [reflexivity|]. unfold ex_key in *. cbn [map].
  rewrite IH, (ex_key_char_rel a c Hac). reflexivity.
Qed.

Lemma ex_key_to_lower w : ex_key (to_lower ex_lower ex_islower w) = ex_key w.
Proof.
  unfold to_lower. destruct (forallb ex_islower w); [reflexivity|].
  induction w as [|c w IH]; [reflexivity|]. unfold ex_key in *. cbn [flat_map ex_lower app map]. rewrite IH. f_equal.
  destruct (N.le_gt_cases c 122) as [L|L].
  - assert (ascii_lower c <= 122)%N by (destruct (ascii_lower_cases c) as [[E _]|[E R]]; rewrite E; lia).
    rewrite !normalize_char_low by assumption. apply ascii_lower_idem.
  - destruct (ascii_lower_cases c) as [[E _]|[_ R]]; [rewrite E; reflexivity|lia].
Qed.

Lemma ex_dict_case_insensitive : dict_case_insensitive ex_lower ex_upper ex_islower ex_canon ex_meta.
Proof.
  intros u v H. apply ex_key_rel in H. unfold ex_canon, ex_meta. rewrite !ex_key_to_lower, H. split; reflexivity.
Qed.

(* ================= regression: the former known class FC18a/FC18b (fixed by 41fa706) =================
   Input "b the.Kelvin" with U+212A KELVIN SIGN for the K.  The tables are the facts dumped from the real
   implementation (corpus/C18/kelvin.json replays it): tokens Word Space Word(the) Punct(.) Word(proper
   noun, canonical spelling "kelvin").  KELVIN SIGN and k share the lower-case mapping but not the
   upper-case one (U+212A is its own upper-case), so the guarded copy leaves the KELVIN SIGN alone; the
   output still contains a non-ASCII letter next to the dot, re-lexes to the same tokens, and a second
   pass is the identity.  (History/C18History.v: what the code did before the fix.) *)
Definition kw_src : text := [98; 32; 116; 104; 101; 46; 8490; 101; 108; 118; 105; 110]%N.
Definition kw_out : text := [66; 32; 116; 104; 101; 46; 8490; 101; 108; 118; 105; 110]%N.
Definition kw_chars : list (char * (bool * (list char * list char))) :=
  [(32, (false, ([32], [32]))); (46, (false, ([46], [46]))); (98, (true, ([98], [66]))); (101, (true, ([101], [69])));
   (104, (true, ([104], [72]))); (105, (true, ([105], [73]))); (108, (true, ([108], [76]))); (110, (true, ([110], [78])));
   (116, (true, ([116], [84]))); (118, (true, ([118], [86]))); (8490, (false, ([107], [8490])));
   (66, (false, ([98], [66]))); (107, (true, ([107], [75])));
   (* the to_ascii_uppercase images of the above (the dump includes them: see run_missing_keys) *)
   (69, (false, ([101], [69]))); (72, (false, ([104], [72]))); (73, (false, ([105], [73])));
   (76, (false, ([108], [76]))); (78, (false, ([110], [78]))); (84, (false, ([116], [84])));
   (86, (false, ([118], [86]))); (75, (false, ([107], [75])))]%N.
Definition kw_canon : list (text * option text) :=
  [([98], Some [98]); ([116; 104; 101], Some [116; 104; 101]);
   ([8490; 101; 108; 118; 105; 110], Some [107; 101; 108; 118; 105; 110]); ([66], Some [98])]%N.
Definition kw_meta : list (text * option wmeta) :=
  [([98]%N, Some (mkmeta true false false)); ([107; 101; 108; 118; 105; 110]%N, Some (mkmeta true false false));
   ([116; 104; 101]%N, Some (mkmeta false true true))].
Definition kw_toks : list (nat * nat * nat * option wmeta) :=
  [(0, 1, 0, Some (mkmeta true false false)); (1, 2, 4, None); (2, 5, 0, Some (mkmeta false true true));
   (5, 6, 1, None); (6, 12, 0, Some (mkmeta true false false))].

Lemma kelvin_regression :
  run_title_case kw_chars kw_canon kw_meta kw_toks kw_src = Ok kw_out /\
  run_title_case kw_chars kw_canon kw_meta kw_toks kw_out = Ok kw_out /\
  run_missing_keys kw_chars kw_canon kw_meta kw_toks kw_src = false /\
  run_missing_keys kw_chars kw_canon kw_meta kw_toks kw_out = false /\
  nth_error kw_src 6 = Some 8490%N /\ nth_error kw_out 6 = Some 8490%N.
Proof. repeat split; vm_compute; reflexivity. Qed.
