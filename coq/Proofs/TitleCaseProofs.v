(* TitleCaseProofs.v — lemmas about Model/TitleCase.v (C18). *)
Require Import Base Tables_titlecase TitleCase ListLemmas.
From Coq Require Import NArith Lia Sorting.Sorted.

(* ================= ASCII case operations ================= *)
Lemma ascii_upper_cases c :
  (ascii_upper c = c /\ ~ (97 <= c <= 122)%N) \/ (ascii_upper c = (c - 32)%N /\ (97 <= c <= 122)%N).
Proof.
  unfold ascii_upper.
  destruct (N.leb_spec 97 c); destruct (N.leb_spec c 122); cbn [andb]; [right|left|left|left]; split; try reflexivity; lia.
Qed.

Lemma ascii_lower_cases c :
  (ascii_lower c = c /\ ~ (65 <= c <= 90)%N) \/ (ascii_lower c = (c + 32)%N /\ (65 <= c <= 90)%N).
Proof.
  unfold ascii_lower.
  destruct (N.leb_spec 65 c); destruct (N.leb_spec c 90); cbn [andb]; [right|left|left|left]; split; try reflexivity; lia.
Qed.

Lemma is_ascii_lower_spec c : is_ascii_lower c = true <-> (97 <= c <= 122)%N.
Proof.
  unfold is_ascii_lower. rewrite Bool.andb_true_iff, !N.leb_le. tauto.
Qed.
Lemma is_ascii_upper_spec c : is_ascii_upper c = true <-> (65 <= c <= 90)%N.
Proof.
  unfold is_ascii_upper. rewrite Bool.andb_true_iff, !N.leb_le. tauto.
Qed.

Lemma ascii_upper_idem c : ascii_upper (ascii_upper c) = ascii_upper c.
Proof.
  destruct (ascii_upper_cases c) as [[H ?]|[H ?]]; rewrite H.
  - exact H.
  - destruct (ascii_upper_cases (c - 32)%N) as [[H' ?]|[H' ?]]; rewrite H'; [reflexivity|lia].
Qed.

Lemma ascii_lower_idem c : ascii_lower (ascii_lower c) = ascii_lower c.
Proof.
  destruct (ascii_lower_cases c) as [[H ?]|[H ?]]; rewrite H.
  - exact H.
  - destruct (ascii_lower_cases (c + 32)%N) as [[H' ?]|[H' ?]]; rewrite H'; [reflexivity|lia].
Qed.

Lemma ascii_upper_lower c : ascii_upper (ascii_lower c) = ascii_upper c.
Proof.
  destruct (ascii_lower_cases c) as [[H ?]|[H ?]]; rewrite H; [reflexivity|].
  destruct (ascii_upper_cases (c + 32)%N) as [[H' ?]|[H' ?]]; rewrite H'; [lia|].
  destruct (ascii_upper_cases c) as [[H'' ?]|[H'' ?]]; rewrite H''; lia.
Qed.

Lemma ascii_lower_upper c : ascii_lower (ascii_upper c) = ascii_lower c.
Proof.
  destruct (ascii_upper_cases c) as [[H ?]|[H ?]]; rewrite H; [reflexivity|].
  destruct (ascii_lower_cases (c - 32)%N) as [[H' ?]|[H' ?]]; rewrite H'; [lia|].
  destruct (ascii_lower_cases c) as [[H'' ?]|[H'' ?]]; rewrite H''; lia.
Qed.

Lemma ascii_upper_not_lower c : is_ascii_lower (ascii_upper c) = false.
Proof.
  destruct (is_ascii_lower (ascii_upper c)) eqn:E; [|reflexivity].
  apply is_ascii_lower_spec in E.
  destruct (ascii_upper_cases c) as [[H ?]|[H ?]]; rewrite H in E; lia.
Qed.

Lemma ascii_lower_not_upper c : is_ascii_upper (ascii_lower c) = false.
Proof.
  destruct (is_ascii_upper (ascii_lower c)) eqn:E; [|reflexivity].
  apply is_ascii_upper_spec in E.
  destruct (ascii_lower_cases c) as [[H ?]|[H ?]]; rewrite H in E; lia.
Qed.

(* an ASCII letter is upper-cased to an ASCII upper-case letter; anything else is left alone *)
Lemma ascii_upper_of_alpha c : is_ascii_alpha c = true -> is_ascii_upper (ascii_upper c) = true.
Proof.
  unfold is_ascii_alpha. rewrite Bool.orb_true_iff, is_ascii_lower_spec, !is_ascii_upper_spec.
  intros [Hc|Hc]; destruct (ascii_upper_cases c) as [[H ?]|[H ?]]; rewrite H; lia.
Qed.
Lemma ascii_upper_non_alpha c : is_ascii_lower c = false -> ascii_upper c = c.
Proof.
  intros E. destruct (ascii_upper_cases c) as [[H ?]|[H Hr]]; [exact H|].
  apply is_ascii_lower_spec in Hr. congruence.
Qed.

(* c is x up to ASCII case *)
Definition case_img (x c : char) : Prop := c = x \/ c = ascii_upper x \/ c = ascii_lower x.

Lemma case_img_refl x : case_img x x.
Proof. now left. Qed.
Lemma case_img_upper x c : case_img x c -> case_img x (ascii_upper c).
Proof.
  intros [ -> | [ -> | -> ] ]; unfold case_img.
  - auto.
  - rewrite ascii_upper_idem. auto.
  - rewrite ascii_upper_lower. auto.
Qed.
Lemma case_img_lower x c : case_img x c -> case_img x (ascii_lower c).
Proof.
  intros [ -> | [ -> | -> ] ]; unfold case_img.
  - auto.
  - rewrite ascii_lower_upper. auto.
  - rewrite ascii_lower_idem. auto.
Qed.

(* ================= checked list operations, pointwise ================= *)
Lemma nth_error_ext {A} : forall (l l' : list A), (forall k, nth_error l k = nth_error l' k) -> l = l'.
Proof.
  induction l as [|h t IH]; intros [|h' t'] H.
  - reflexivity.
  - specialize (H 0). discriminate.
  - specialize (H 0). discriminate.
  - f_equal.
    + specialize (H 0). cbn in H. congruence.
    + apply IH. intros k. exact (H (S k)).
Qed.

Lemma nth_chk_ok {A} (l : list A) i x : nth_chk l i = Ok x <-> nth_error l i = Some x.
Proof. unfold nth_chk. destruct (nth_error l i); split; intros H; inversion H; reflexivity. Qed.

Lemma nth_chk_total {A} (l : list A) i : i < length l -> exists x, nth_chk l i = Ok x.
Proof.
  intros H. unfold nth_chk. destruct (nth_error l i) eqn:E; [eauto|].
  apply nth_error_None in E. lia.
Qed.

Lemma set_nth_ok {A} : forall (l : list A) i x l', set_nth l i x = Ok l' ->
  i < length l /\ length l' = length l /\
  forall k, nth_error l' k = if k =? i then Some x else nth_error l k.
Proof.
  induction l as [|h t IH]; intros i x l' H; cbn [set_nth] in H; [discriminate|].
  destruct i as [|i'].
  - inversion H; subst. cbn [length]. repeat split; [lia|].
    intros [|k]; reflexivity.
  - destruct (set_nth t i' x) as [t'|] eqn:E; cbn [bind] in H; [|discriminate].
    inversion H; subst. destruct (IH _ _ _ E) as (Hl & Hn & Hk). cbn [length].
    repeat split; [lia|lia|].
    intros [|k]; [reflexivity|]. cbn [nth_error]. rewrite Hk. reflexivity.
Qed.

Lemma set_nth_total {A} : forall (l : list A) i x, i < length l -> exists l', set_nth l i x = Ok l'.
Proof.
  induction l as [|h t IH]; intros i x H; cbn [length] in H; [lia|].
  destruct i as [|i']; cbn [set_nth]; [eauto|].
  destruct (IH i' x) as [t' E]; [lia|]. rewrite E. cbn [bind]. eauto.
Qed.

Lemma sub_chk_ok a b r : sub_chk a b = Ok r <-> b <= a /\ r = a - b.
Proof.
  unfold sub_chk. destruct (Nat.ltb_spec a b); split; intros H'; try discriminate.
  - lia.
  - inversion H'. split; [lia|reflexivity].
  - destruct H' as [_ ->]. reflexivity.
Qed.

Ltac bool_cases :=
  repeat match goal with
  | |- context [?a <=? ?b] => destruct (Nat.leb_spec a b)
  | |- context [?a <? ?b] => destruct (Nat.ltb_spec a b)
  | |- context [?a =? ?b] => destruct (Nat.eqb_spec a b)
  end; cbn [andb orb negb].

Section Loops.
  Variable lower : char -> list char.
  Variable is_lowercase : char -> bool.
  Variable dict_canon : text -> option text.
  Variable dict_meta : text -> option wmeta.

  (* ---------- canon_overwrite ---------- *)
  Lemma canon_overwrite_ok cc : forall n out a idx out',
    canon_overwrite out a n idx cc = Ok out' ->
    length out' = length out /\
    (0 < n -> idx + n <= length cc /\ a + idx + n <= length out) /\
    forall k, nth_error out' k =
              if (a + idx <=? k) && (k <? a + idx + n) then nth_error cc (k - a) else nth_error out k.
  Proof.
    induction n as [|n IH]; intros out a idx out' H; cbn [canon_overwrite] in H.
    - inversion H; subst. repeat split; [lia|lia|]. intros k. bool_cases; try reflexivity; lia.
    - destruct (nth_chk cc idx) as [c|] eqn:Ec; cbn [bind] in H; [|discriminate].
      destruct (set_nth out (a + idx) c) as [o1|] eqn:Es; cbn [bind] in H; [|discriminate].
      apply nth_chk_ok in Ec. destruct (set_nth_ok _ _ _ _ Es) as (Hb & Hl & Hk).
      destruct (IH _ _ _ _ H) as (Hl' & Hb' & Hk').
      assert (idx < length cc) by (apply nth_error_Some; congruence).
      repeat split.
      + lia.
      + destruct n; [lia|]. lia.
      + destruct n; lia.
      + intros k. rewrite Hk', Hk. bool_cases; try reflexivity; try lia.
        subst k. replace (a + idx - a) with idx by lia. symmetry. exact Ec.
  Qed.

  Lemma canon_overwrite_total cc : forall n out a idx,
    idx + n <= length cc -> a + idx + n <= length out ->
    exists out', canon_overwrite out a n idx cc = Ok out'.
  Proof.
    induction n as [|n IH]; intros out a idx Hc Ho; cbn [canon_overwrite]; [eauto|].
    destruct (nth_chk_total cc idx) as [c Ec]; [lia|]. rewrite Ec. cbn [bind].
    destruct (set_nth_total out (a + idx) c) as [o1 Es]; [lia|]. rewrite Es. cbn [bind].
    apply IH; [lia|]. destruct (set_nth_ok _ _ _ _ Es) as (_ & Hl & _). lia.
  Qed.

  (* ---------- lower_loop ---------- *)
  Lemma lower_loop_ok si : forall n out i out',
    lower_loop si out i n = Ok out' ->
    length out' = length out /\
    (0 < n -> si <= i /\ i - si + n <= length out) /\
    forall k, nth_error out' k =
              if (i - si <=? k) && (k <? i - si + n)
              then option_map ascii_lower (nth_error out k) else nth_error out k.
  Proof.
    induction n as [|n IH]; intros out i out' H; cbn [lower_loop] in H.
    - inversion H; subst. repeat split; [lia|lia|]. intros k. bool_cases; try reflexivity; lia.
    - destruct (sub_chk i si) as [j|] eqn:Ej; cbn [bind] in H; [|discriminate].
      apply sub_chk_ok in Ej. destruct Ej as [Hsi ->].
      destruct (nth_chk out (i - si)) as [c|] eqn:Ec; cbn [bind] in H; [|discriminate].
      destruct (set_nth out (i - si) (ascii_lower c)) as [o1|] eqn:Es; cbn [bind] in H; [|discriminate].
      apply nth_chk_ok in Ec. destruct (set_nth_ok _ _ _ _ Es) as (Hb & Hl & Hk).
      destruct (IH _ _ _ H) as (Hl' & Hb' & Hk').
      replace (S i - si) with (S (i - si)) in * by lia.
      repeat split.
      + lia.
      + lia.
      + destruct n; lia.
      + intros k. rewrite Hk', Hk. bool_cases; try reflexivity; try lia.
        subst k. rewrite Ec. reflexivity.
  Qed.

  Lemma lower_loop_total si : forall n out i,
    si <= i -> i - si + n <= length out -> exists out', lower_loop si out i n = Ok out'.
  Proof.
    induction n as [|n IH]; intros out i Hs Ho; cbn [lower_loop]; [eauto|].
    assert (E : sub_chk i si = Ok (i - si)) by (apply sub_chk_ok; lia). rewrite E. cbn [bind].
    destruct (nth_chk_total out (i - si)) as [c Ec]; [lia|]. rewrite Ec. cbn [bind].
    destruct (set_nth_total out (i - si) (ascii_lower c)) as [o1 Es]; [lia|]. rewrite Es. cbn [bind].
    apply IH; [lia|]. destruct (set_nth_ok _ _ _ _ Es) as (_ & Hl & _). lia.
  Qed.
End Loops.

(* ================= spans, hull, content ================= *)
Definition tstart (t : token) : nat := sstart (tspan t).
Definition tend (t : token) : nat := send (tspan t).
Definition endpoints (toks : list token) : list nat := flat_map (fun t => [tstart t; tend t]) toks.

(* where make_title_case anchors its indices, and where the copied text really starts *)
Definition first_start (toks : list token) : nat := match toks with [] => 0 | t :: _ => tstart t end.
Definition hull_start (toks : list token) : nat :=
  match endpoints toks with [] => 0 | x :: xs => fold_left Nat.min xs x end.
Definition hull_end (toks : list token) : nat :=
  match endpoints toks with [] => 0 | x :: xs => fold_left Nat.max xs x end.

(* the token invariant of C02, as far as title-casing reads it: in bounds, ordered, disjoint,
   word-like tokens non-empty *)
Definition toks_ok (n : nat) (toks : list token) : Prop :=
  StronglySorted (fun a b => tend a <= tstart b) toks /\
  Forall (fun t => tstart t <= tend t /\ tend t <= n /\ (tok_word_like t = true -> tstart t < tend t)) toks.

Lemma fold_min_spec : forall xs x,
  fold_left Nat.min xs x <= x /\ Forall (fun y => fold_left Nat.min xs x <= y) xs /\
  In (fold_left Nat.min xs x) (x :: xs).
Proof.
  induction xs as [|y ys IH]; intros x; cbn [fold_left].
  - repeat split; [lia|constructor|now left].
  - destruct (IH (Nat.min x y)) as (H1 & H2 & H3). repeat split.
    + lia.
    + constructor; [lia|exact H2].
    + destruct H3 as [H3|H3]; [|right; right; exact H3].
      rewrite <- H3. destruct (Nat.min_spec x y) as [[_ ->]|[_ ->]]; [now left|right; now left].
Qed.

Lemma fold_max_spec : forall xs x,
  x <= fold_left Nat.max xs x /\ Forall (fun y => y <= fold_left Nat.max xs x) xs /\
  In (fold_left Nat.max xs x) (x :: xs).
Proof.
  induction xs as [|y ys IH]; intros x; cbn [fold_left].
  - repeat split; [lia|constructor|now left].
  - destruct (IH (Nat.max x y)) as (H1 & H2 & H3). repeat split.
    + lia.
    + constructor; [lia|exact H2].
    + destruct H3 as [H3|H3]; [|right; right; exact H3].
      rewrite <- H3. destruct (Nat.max_spec x y) as [[_ ->]|[_ ->]]; [right; now left|now left].
Qed.

Lemma hull_eq toks : toks <> [] ->
  hull toks = Ok (Some (mkspan (hull_start toks) (hull_end toks))) /\ hull_start toks <= hull_end toks /\
  In (hull_start toks) (endpoints toks) /\ In (hull_end toks) (endpoints toks) /\
  Forall (fun y => hull_start toks <= y <= hull_end toks) (endpoints toks).
Proof.
  intros Hne. destruct toks as [|t0 rest]; [congruence|].
  unfold hull_start, hull_end.
  change (endpoints (t0 :: rest)) with (tstart t0 :: tend t0 :: endpoints rest).
  set (x := tstart t0). set (xs := tend t0 :: endpoints rest).
  assert (Hh : hull (t0 :: rest)
               = (do s <- span_new (fold_left Nat.min xs x) (fold_left Nat.max xs x); Ok (Some s))) by reflexivity.
  rewrite Hh. clear Hh.
  destruct (fold_min_spec xs x) as (A1 & A2 & A3). destruct (fold_max_spec xs x) as (B1 & B2 & B3).
  assert (Hle : fold_left Nat.min xs x <= fold_left Nat.max xs x) by lia.
  unfold span_new. destruct (Nat.ltb_spec (fold_left Nat.max xs x) (fold_left Nat.min xs x)); [lia|].
  cbn [bind]. repeat split; try assumption.
  constructor; [lia|]. rewrite Forall_forall in *. intros y Hy. specialize (A2 y Hy). specialize (B2 y Hy). lia.
Qed.

Lemma hull_nil : hull [] = Ok None.
Proof. reflexivity. Qed.

Lemma endpoints_in t toks : In t toks -> In (tstart t) (endpoints toks) /\ In (tend t) (endpoints toks).
Proof.
  intros H. unfold endpoints. split; apply in_flat_map; exists t; (split; [exact H|cbn; auto]).
Qed.

Lemma in_endpoints y toks : In y (endpoints toks) -> exists t, In t toks /\ (y = tstart t \/ y = tend t).
Proof.
  unfold endpoints. intros H. apply in_flat_map in H. destruct H as (t & Ht & Hy).
  exists t. split; [exact Ht|]. cbn in Hy. intuition.
Qed.

(* under the token invariant the hull starts at the first token and ends inside the text *)
Lemma toks_ok_hull n t0 rest :
  toks_ok n (t0 :: rest) ->
  hull_start (t0 :: rest) = tstart t0 /\ hull_end (t0 :: rest) <= n /\
  forall t, In t (t0 :: rest) -> tstart t0 <= tstart t /\ tend t <= hull_end (t0 :: rest).
Proof.
  intros [Hs Hf]. destruct (hull_eq (t0 :: rest)) as (_ & Hle & Hin1 & Hin2 & Hall); [congruence|].
  rewrite Forall_forall in Hf, Hall.
  assert (Hfirst : forall t, In t (t0 :: rest) -> tstart t0 <= tstart t).
  { intros t [<-|Ht]; [lia|]. apply StronglySorted_inv in Hs. destruct Hs as [_ Hs].
    rewrite Forall_forall in Hs. specialize (Hs t Ht). destruct (Hf t0 (or_introl eq_refl)) as (? & _). lia. }
  repeat split.
  - apply in_endpoints in Hin1. destruct Hin1 as (t & Ht & Hy).
    assert (tstart t0 <= hull_start (t0 :: rest)).
    { specialize (Hfirst t Ht). destruct (Hf t Ht) as (? & _). destruct Hy as [->| ->]; lia. }
    destruct (endpoints_in t0 (t0 :: rest)) as [Hi _]; [now left|]. specialize (Hall _ Hi). lia.
  - apply in_endpoints in Hin2. destruct Hin2 as (t & Ht & Hy).
    destruct (Hf t Ht) as (? & ? & _). destruct Hy as [->| ->]; lia.
  - apply Hfirst; assumption.
  - destruct (endpoints_in t (t0 :: rest)) as [_ Hi]; [assumption|]. specialize (Hall _ Hi). lia.
Qed.

(* Span::get_content *)
Lemma get_content_len {A} (sp : span) (src out : list A) :
  get_content sp src = Ok out -> length out = send sp - sstart sp.
Proof.
  unfold get_content, try_get_content.
  destruct ((send sp <? sstart sp) || (length src <=? sstart sp) || (length src <? send sp)) eqn:E.
  - unfold span_len, sub_chk. destruct (send sp <? sstart sp); cbn [bind]; [discriminate|].
    destruct (Nat.eqb_spec (send sp - sstart sp) 0); cbn [bind]; intros H; inversion H. cbn. lia.
  - cbn [bind]. intros H. inversion H. unfold slice. rewrite firstn_length, skipn_length.
    apply Bool.orb_false_iff in E. destruct E as [E E3]. apply Bool.orb_false_iff in E. destruct E as [E1 E2].
    apply Nat.ltb_ge in E1, E3. apply Nat.leb_gt in E2. lia.
Qed.

Lemma nth_error_firstn_lt {A} : forall n (l : list A) k, k < n -> nth_error (firstn n l) k = nth_error l k.
Proof.
  induction n as [|n IH]; intros l k H; [lia|].
  destruct l as [|h t]; [reflexivity|]. destruct k as [|k]; [reflexivity|].
  cbn [firstn nth_error]. apply IH. lia.
Qed.

Lemma nth_error_skipn_add {A} : forall n (l : list A) k, nth_error (skipn n l) k = nth_error l (n + k).
Proof.
  induction n as [|n IH]; intros l k; [reflexivity|].
  destruct l as [|h t]; [cbn; now destruct k|]. cbn [skipn Nat.add nth_error]. apply IH.
Qed.

Lemma slice_nth {A} (l : list A) a b k :
  nth_error (slice l a b) k = if k <? b - a then nth_error l (a + k) else None.
Proof.
  unfold slice. destruct (Nat.ltb_spec k (b - a)).
  - rewrite nth_error_firstn_lt by assumption. apply nth_error_skipn_add.
  - apply nth_error_None. rewrite firstn_length. lia.
Qed.

Lemma get_content_in {A} (src : list A) s e :
  s <= e <= length src -> get_content (mkspan s e) src = Ok (slice src s e).
Proof.
  intros H. unfold get_content, try_get_content. cbn [sstart send].
  destruct (Nat.ltb_spec e s); [lia|]. destruct (Nat.leb_spec (length src) s).
  - cbn [orb]. unfold span_len, sub_chk. cbn [sstart send]. destruct (Nat.ltb_spec e s); [lia|]. cbn [bind].
    assert (e = s) by lia. subst e. rewrite Nat.sub_diag. cbn. unfold slice. rewrite Nat.sub_diag. reflexivity.
  - destruct (Nat.ltb_spec (length src) e); [lia|]. cbn [orb bind]. reflexivity.
Qed.

Lemma get_content_nth {A} (sp : span) (src out : list A) k c :
  get_content sp src = Ok out -> nth_error out k = Some c -> nth_error src (sstart sp + k) = Some c.
Proof.
  unfold get_content, try_get_content.
  destruct ((send sp <? sstart sp) || (length src <=? sstart sp) || (length src <? send sp)) eqn:E.
  - unfold span_len, sub_chk. destruct (send sp <? sstart sp); cbn [bind]; [discriminate|].
    destruct (Nat.eqb_spec (send sp - sstart sp) 0); cbn [bind]; intros H; inversion H.
    subst out. destruct k; discriminate.
  - cbn [bind]. intros H. inversion H. subst out. rewrite slice_nth.
    destruct (k <? send sp - sstart sp); [auto|discriminate].
Qed.

(* ================= one word-like token ================= *)
Definition in_reg (a n k : nat) : bool := (a <=? k) && (k <? a + n).

(* the character at position k after the proper-noun block *)
Definition base_val (oc : option text) (a n : nat) (out : text) (k : nat) : option char :=
  match oc with
  | Some cc => if in_reg a n k then nth_error cc (k - a) else nth_error out k
  | None => nth_error out k
  end.

(* the character at position k after the whole loop body for a token at [a, a+n) *)
Definition step_val (oc : option text) (cap : bool) (a n : nat) (out : text) (k : nat) : option char :=
  if cap then (if k =? a then option_map ascii_upper (base_val oc a n out k) else base_val oc a n out k)
  else (if in_reg a n k then option_map ascii_lower (base_val oc a n out k) else base_val oc a n out k).

Section Main.
  Variable lower : char -> list char.
  Variable is_lowercase : char -> bool.
  Variable dict_canon : text -> option text.
  Variable dict_meta : text -> option wmeta.

  Notation canon_for' := (canon_for dict_canon).
  Notation sct := (should_capitalize_token lower is_lowercase dict_meta).
  Notation word_step' := (word_step lower is_lowercase dict_canon dict_meta).
  Notation tc_loop' := (tc_loop lower is_lowercase dict_canon dict_meta).
  Notation mtc := (make_title_case lower is_lowercase dict_canon dict_meta).

  Lemma apply_canon_ok si w oc out out1 :
    apply_canon si w oc out = Ok out1 ->
    length out1 = length out /\
    (forall cc, oc = Some cc ->
       si <= tstart w /\ tstart w <= tend w /\ tend w - si <= length out /\
       (0 < tend w - tstart w -> tend w - tstart w <= length cc)) /\
    forall k, nth_error out1 k = base_val oc (tstart w - si) (tend w - tstart w) out k.
  Proof.
    unfold apply_canon. destruct oc as [cc|].
    - fold (tstart w) (tend w).
      destruct (sub_chk (tstart w) si) as [a|] eqn:Ea; cbn [bind]; [|discriminate].
      destruct (sub_chk (tend w) si) as [b|] eqn:Eb; cbn [bind]; [|discriminate].
      apply sub_chk_ok in Ea, Eb. destruct Ea as [Ha ->]. destruct Eb as [Hb ->].
      unfold slice_chk. destruct (Nat.ltb_spec (tend w - si) (tstart w - si)); cbn [orb bind]; [discriminate|].
      destruct (Nat.ltb_spec (length out) (tend w - si)); cbn [bind]; [discriminate|].
      intros H'. apply canon_overwrite_ok in H'. destruct H' as (Hl & Hbd & Hk).
      replace (tend w - si - (tstart w - si)) with (tend w - tstart w) in * by lia.
      split; [exact Hl|]. split.
      + intros cc' E. inversion E; subst cc'. repeat split; try lia.
      + intros k. rewrite Hk. unfold base_val, in_reg. rewrite !Nat.add_0_r. reflexivity.
    - intros H. inversion H; subst. split; [reflexivity|]. split; [intros cc E; discriminate|].
      intros k. reflexivity.
  Qed.

  Lemma apply_cap_ok si w cap out1 out' :
    apply_cap si w cap out1 = Ok out' ->
    length out' = length out1 /\
    (cap = true -> si <= tstart w /\ tstart w - si < length out1) /\
    (cap = false -> 0 < tend w - tstart w -> si <= tstart w /\ tstart w - si + (tend w - tstart w) <= length out1) /\
    forall k, nth_error out' k =
      if cap then (if k =? tstart w - si then option_map ascii_upper (nth_error out1 k) else nth_error out1 k)
      else (if in_reg (tstart w - si) (tend w - tstart w) k
            then option_map ascii_lower (nth_error out1 k) else nth_error out1 k).
  Proof.
    unfold apply_cap. fold (tstart w) (tend w). destruct cap.
    - destruct (sub_chk (tstart w) si) as [j|] eqn:Ej; cbn [bind]; [|discriminate].
      apply sub_chk_ok in Ej. destruct Ej as [Hj ->].
      destruct (nth_chk out1 (tstart w - si)) as [c|] eqn:Ec; cbn [bind]; [|discriminate].
      apply nth_chk_ok in Ec. intros Hs. destruct (set_nth_ok _ _ _ _ Hs) as (Hb & Hl & Hk).
      repeat split; try assumption; try discriminate.
      intros k. rewrite Hk. destruct (Nat.eqb_spec k (tstart w - si)); [|reflexivity].
      subst k. rewrite Ec. reflexivity.
    - intros H. apply lower_loop_ok in H. destruct H as (Hl & Hb & Hk).
      repeat split; try assumption; try discriminate; try (apply Hb; assumption).
  Qed.

  Lemma word_step_ok si src idx w last out out' :
    word_step' si src idx w last out = Ok out' ->
    exists oc sc,
      canon_for' w src = Ok oc /\ sct w src = Ok sc /\
      let cap := sc || (idx =? 0) || last in
      let a := tstart w - si in
      let n := tend w - tstart w in
      length out' = length out /\
      (forall cc, oc = Some cc -> si <= tstart w /\ tstart w <= tend w /\ tend w - si <= length out /\
                                  (0 < n -> n <= length cc)) /\
      (cap = true -> si <= tstart w /\ a < length out) /\
      (cap = false -> 0 < n -> si <= tstart w /\ a + n <= length out) /\
      forall k, nth_error out' k = step_val oc cap a n out k.
  Proof.
    unfold word_step. intros H.
    destruct (canon_for' w src) as [oc|] eqn:Eoc; cbn [bind] in H; [|discriminate].
    destruct (apply_canon si w oc out) as [out1|] eqn:E1; cbn [bind] in H; [|discriminate].
    destruct (sct w src) as [sc|] eqn:Esc; cbn [bind] in H; [|discriminate].
    exists oc, sc. split; [reflexivity|]. split; [reflexivity|].
    apply apply_canon_ok in E1. destruct E1 as (Hl1 & Hb1 & Hk1).
    apply apply_cap_ok in H. destruct H as (Hl2 & Hc1 & Hc2 & Hk2).
    cbv zeta. rewrite Hl1 in *.
    split; [exact Hl2|]. split; [exact Hb1|]. split; [exact Hc1|]. split; [exact Hc2|].
    intros k. rewrite Hk2. unfold step_val. rewrite !Hk1. reflexivity.
  Qed.
End Main.

(* ================= the whole function ================= *)
Section Thms.
  Variable lower : char -> list char.
  Variable is_lowercase : char -> bool.
  Variable dict_canon : text -> option text.
  Variable dict_meta : text -> option wmeta.

  Notation canon_for' := (canon_for dict_canon).
  Notation sct := (should_capitalize_token lower is_lowercase dict_meta).
  Notation word_step' := (word_step lower is_lowercase dict_canon dict_meta).
  Notation tc_loop' := (tc_loop lower is_lowercase dict_canon dict_meta).
  Notation mtc := (make_title_case lower is_lowercase dict_canon dict_meta).

  (* ---------- length ---------- *)
  Lemma tc_loop_len : forall wl si src idx out out',
    tc_loop' si src wl idx out = Ok out' -> length out' = length out.
  Proof.
    induction wl as [|w rest IH]; intros si src idx out out' H; cbn [tc_loop] in H.
    - inversion H. reflexivity.
    - destruct (word_step' si src idx w match rest with [] => true | _ :: _ => false end out) as [o1|] eqn:E;
        cbn [bind] in H; [|discriminate].
      apply word_step_ok in E. destruct E as (oc & sc & _ & _ & Hl & _).
      rewrite (IH _ _ _ _ _ H). exact Hl.
  Qed.

  Lemma mtc_unfold t0 rest src out :
    mtc (t0 :: rest) src = Ok out ->
    exists out0,
      get_content (mkspan (hull_start (t0 :: rest)) (hull_end (t0 :: rest))) src = Ok out0 /\
      tc_loop' (tstart t0) src (filter tok_word_like (t0 :: rest)) 0 out0 = Ok out.
  Proof.
    unfold make_title_case. destruct (hull_eq (t0 :: rest)) as (Hh & _); [congruence|].
    rewrite Hh. cbn [bind].
    destruct (get_content {| sstart := hull_start (t0 :: rest); send := hull_end (t0 :: rest) |} src) as [out0|] eqn:E;
      cbn [bind]; [|discriminate].
    intros H. exists out0. split; [reflexivity|exact H].
  Qed.

  (* the output has exactly the length of the hull of the tokens (whatever the tokens are);
     text outside the hull is dropped, and an empty token list gives the empty string *)
  Theorem mtc_length toks src out :
    mtc toks src = Ok out -> length out = hull_end toks - hull_start toks.
  Proof.
    destruct toks as [|t0 rest].
    - cbn. intros H. inversion H. reflexivity.
    - intros H. apply mtc_unfold in H. destruct H as (out0 & Hc & Hl).
      apply tc_loop_len in Hl. apply get_content_len in Hc. cbn [sstart send] in Hc. lia.
  Qed.

  (* ---------- every output character is the input character up to ASCII case, or the
     corresponding character of the canonical spelling of a proper-noun token up to ASCII case *)
  Definition out_rel (toks : list token) (src : text) (k : nat) (c : char) : Prop :=
    (exists a, nth_error src (hull_start toks + k) = Some a /\ case_img a c) \/
    (exists w cc b,
        In w toks /\ tok_word_like w = true /\ canon_for' w src = Ok (Some cc) /\
        tstart w <= first_start toks + k < tend w /\
        nth_error cc (first_start toks + k - tstart w) = Some b /\ case_img b c).

  Lemma out_rel_upper toks src k c : out_rel toks src k c -> out_rel toks src k (ascii_upper c).
  Proof.
    intros [(a & Ha & Hi)|(w & cc & b & H1 & H2 & H3 & H4 & H5 & Hi)]; [left|right].
    - exists a. split; [exact Ha|apply case_img_upper; exact Hi].
    - exists w, cc, b. repeat split; try assumption; try lia. apply case_img_upper; exact Hi.
  Qed.
  Lemma out_rel_lower toks src k c : out_rel toks src k c -> out_rel toks src k (ascii_lower c).
  Proof.
    intros [(a & Ha & Hi)|(w & cc & b & H1 & H2 & H3 & H4 & H5 & Hi)]; [left|right].
    - exists a. split; [exact Ha|apply case_img_lower; exact Hi].
    - exists w, cc, b. repeat split; try assumption; try lia. apply case_img_lower; exact Hi.
  Qed.

  Lemma tc_loop_rel toks src : forall wl idx out out',
    tc_loop' (first_start toks) src wl idx out = Ok out' ->
    (forall w, In w wl -> In w toks /\ tok_word_like w = true) ->
    (forall k c, nth_error out k = Some c -> out_rel toks src k c) ->
    forall k c, nth_error out' k = Some c -> out_rel toks src k c.
  Proof.
    induction wl as [|w rest IH]; intros idx out out' H Hin Hinv; cbn [tc_loop] in H.
    - inversion H; subst. exact Hinv.
    - destruct (word_step' (first_start toks) src idx w match rest with [] => true | _ :: _ => false end out) as [o1|] eqn:E;
        cbn [bind] in H; [|discriminate].
      apply (IH _ _ _ H); [intros w' Hw'; apply Hin; now right|].
      apply word_step_ok in E. destruct E as (oc & sc & Eoc & _ & _ & Hb & _ & _ & Hk).
      set (si := first_start toks) in *. set (a := tstart w - si) in *. set (n := tend w - tstart w) in *.
      assert (Hbase : forall k b, base_val oc a n out k = Some b -> out_rel toks src k b).
      { intros k b. unfold base_val. destruct oc as [cc|]; [|apply Hinv].
        destruct (in_reg a n k) eqn:Er; [|apply Hinv]. intros Hb'.
        destruct (Hb cc eq_refl) as (H1 & H2 & _). unfold in_reg in Er.
        apply Bool.andb_true_iff in Er. destruct Er as [Er1 Er2].
        apply Nat.leb_le in Er1. apply Nat.ltb_lt in Er2.
        right. exists w, cc, b. destruct (Hin w (or_introl eq_refl)) as [Hw1 Hw2].
        fold si. repeat split; try assumption; try (unfold a, n in *; lia).
        - replace (si + k - tstart w) with (k - a) by (unfold a; lia). exact Hb'.
        - apply case_img_refl. }
      intros k c. rewrite Hk. unfold step_val.
      destruct (sc || (idx =? 0) || match rest with [] => true | _ :: _ => false end).
      + destruct (k =? a); [|apply Hbase].
        destruct (base_val oc a n out k) as [b|] eqn:Eb; cbn [option_map]; [|discriminate].
        intros Hc. inversion Hc; subst. apply out_rel_upper. apply Hbase. exact Eb.
      + destruct (in_reg a n k); [|apply Hbase].
        destruct (base_val oc a n out k) as [b|] eqn:Eb; cbn [option_map]; [|discriminate].
        intros Hc. inversion Hc; subst. apply out_rel_lower. apply Hbase. exact Eb.
  Qed.

  Theorem mtc_case_only toks src out :
    mtc toks src = Ok out -> forall k c, nth_error out k = Some c -> out_rel toks src k c.
  Proof.
    destruct toks as [|t0 rest].
    - cbn. intros H. inversion H. intros [|k] c Hc; discriminate.
    - intros H. apply mtc_unfold in H. destruct H as (out0 & Hc & Hl).
      change (tstart t0) with (first_start (t0 :: rest)) in Hl.
      apply (tc_loop_rel _ _ _ _ _ _ Hl).
      + intros w Hw. apply filter_In in Hw. exact Hw.
      + intros k c Hk. left. exists c. split; [|apply case_img_refl].
        apply (get_content_nth _ _ _ _ _ Hc) in Hk. exact Hk.
  Qed.

  (* ---------- what a step leaves alone ---------- *)
  Lemma step_val_outside oc cap a n out k :
    0 < n -> in_reg a n k = false -> step_val oc cap a n out k = nth_error out k.
  Proof.
    intros Hn Hr. unfold step_val, base_val. rewrite Hr.
    assert (k =? a = false).
    { apply Nat.eqb_neq. intros ->. unfold in_reg in Hr.
      apply Bool.andb_false_iff in Hr. destruct Hr as [Hr|Hr]; [apply Nat.leb_gt in Hr|apply Nat.ltb_ge in Hr]; lia. }
    rewrite H. destruct cap; destruct oc; reflexivity.
  Qed.

  Lemma step_prefix si src idx w last out out' :
    word_step' si src idx w last out = Ok out' ->
    forall k, k < tstart w - si -> nth_error out' k = nth_error out k.
  Proof.
    intros H k Hk. apply word_step_ok in H. destruct H as (oc & sc & _ & _ & _ & _ & _ & _ & Hv).
    rewrite Hv. unfold step_val, base_val, in_reg.
    destruct (Nat.eqb_spec k (tstart w - si)); [lia|].
    destruct (Nat.leb_spec (tstart w - si) k); [lia|]. cbn [andb].
    destruct (sc || (idx =? 0) || last); destruct oc; reflexivity.
  Qed.

  Lemma tc_loop_prefix si src p : forall wl idx out out',
    tc_loop' si src wl idx out = Ok out' ->
    (forall w, In w wl -> p < tstart w - si) ->
    nth_error out' p = nth_error out p.
  Proof.
    induction wl as [|w rest IH]; intros idx out out' H Hp; cbn [tc_loop] in H.
    - inversion H. reflexivity.
    - destruct (word_step' si src idx w match rest with [] => true | _ :: _ => false end out) as [o1|] eqn:E;
        cbn [bind] in H; [|discriminate].
      rewrite (IH _ _ _ H) by (intros w' Hw'; apply Hp; now right).
      apply (step_prefix _ _ _ _ _ _ _ E). apply Hp. now left.
  Qed.

  (* ---------- token invariant and the word-like sub-list ---------- *)
  Lemma sorted_filter {A} (R : A -> A -> Prop) (f : A -> bool) : forall l,
    StronglySorted R l -> StronglySorted R (filter f l).
  Proof.
    induction l as [|x l IH]; intros H; cbn [filter]; [constructor|].
    apply StronglySorted_inv in H. destruct H as [Hs Hf].
    destruct (f x); [|apply IH; exact Hs].
    constructor; [apply IH; exact Hs|].
    rewrite Forall_forall in *. intros y Hy. apply filter_In in Hy. apply Hf. apply Hy.
  Qed.

  (* what the loop needs to know about each word-like token: anchored after start_index, non-empty,
     inside the output and inside the source *)
  Definition wl_ok (si lo ls : nat) (wl : list token) : Prop :=
    StronglySorted (fun a b => tend a <= tstart b) wl /\
    Forall (fun w => si <= tstart w /\ tstart w < tend w /\ tend w - si <= lo /\ tend w <= ls) wl.

  Lemma toks_ok_wl (src : text) t0 rest :
    toks_ok (length src) (t0 :: rest) ->
    wl_ok (tstart t0) (hull_end (t0 :: rest) - hull_start (t0 :: rest)) (length src)
          (filter tok_word_like (t0 :: rest)).
  Proof.
    intros Hok. destruct (toks_ok_hull _ _ _ Hok) as (Hs & He & Hall). destruct Hok as [Hso Hf].
    split; [apply sorted_filter; exact Hso|].
    rewrite Forall_forall in *. intros w Hw. apply filter_In in Hw. destruct Hw as [Hw Hwl].
    destruct (Hall w Hw) as [H1 H2]. destruct (Hf w Hw) as (H3 & H4 & H5). specialize (H5 Hwl).
    rewrite Hs. repeat split; lia.
  Qed.

  (* ---------- the first word-like token starts with an upper-cased character ---------- *)
  Theorem mtc_first_upper toks src out w0 rest :
    toks_ok (length src) toks ->
    mtc toks src = Ok out ->
    filter tok_word_like toks = w0 :: rest ->
    exists oc b,
      canon_for' w0 src = Ok oc /\
      match oc with Some cc => nth_error cc 0 | None => nth_error src (tstart w0) end = Some b /\
      nth_error out (tstart w0 - first_start toks) = Some (ascii_upper b).
  Proof.
    intros Hok H Hf. destruct toks as [|t0 rest0]; [discriminate|].
    destruct (toks_ok_wl _ _ _ Hok) as [Hso Hfa]. destruct (toks_ok_hull _ _ _ Hok) as (Hs & He & _).
    apply mtc_unfold in H. destruct H as (out0 & Hc & Hl). rewrite Hf in *. cbn [first_start].
    cbn [tc_loop] in Hl.
    destruct (word_step' (tstart t0) src 0 w0 match rest with [] => true | _ :: _ => false end out0) as [o1|] eqn:E;
      cbn [bind] in Hl; [|discriminate].
    apply StronglySorted_inv in Hso. destruct Hso as [_ Hlt].
    apply Forall_inv in Hfa as Hw0. destruct Hw0 as (B1 & B2 & B3 & B4).
    rewrite (tc_loop_prefix _ _ (tstart w0 - tstart t0) _ _ _ _ Hl).
    2:{ intros w Hw. rewrite Forall_forall in Hlt. specialize (Hlt w Hw). lia. }
    apply word_step_ok in E. destruct E as (oc & sc & Eoc & _ & _ & Hb & Hcap & _ & Hk).
    rewrite Bool.orb_true_r in Hcap, Hk. cbn [orb] in Hcap, Hk. destruct (Hcap eq_refl) as [_ Hlen].
    exists oc. rewrite Hk. unfold step_val. rewrite Nat.eqb_refl. unfold base_val.
    assert (Hreg : in_reg (tstart w0 - tstart t0) (tend w0 - tstart w0) (tstart w0 - tstart t0) = true).
    { unfold in_reg. apply Bool.andb_true_iff. split; [apply Nat.leb_le|apply Nat.ltb_lt]; lia. }
    destruct oc as [cc|].
    - rewrite Hreg, Nat.sub_diag. destruct (Hb cc eq_refl) as (_ & _ & _ & Hcc).
      destruct (nth_error cc 0) as [b|] eqn:Eb.
      + exists b. split; [exact Eoc|]. split; reflexivity.
      + apply nth_error_None in Eb. lia.
    - destruct (nth_error out0 (tstart w0 - tstart t0)) as [b|] eqn:Eb.
      + exists b. split; [exact Eoc|]. split; [|reflexivity].
        apply (get_content_nth _ _ _ _ _ Hc) in Eb. cbn [sstart] in Eb. rewrite Hs in Eb.
        replace (tstart t0 + (tstart w0 - tstart t0)) with (tstart w0) in Eb by lia. exact Eb.
      + apply nth_error_None in Eb. lia.
  Qed.

  (* ---------- totality ---------- *)
  Lemma apply_canon_total si w oc out :
    si <= tstart w -> tstart w <= tend w -> tend w - si <= length out ->
    (forall cc, oc = Some cc -> tend w - tstart w <= length cc) ->
    exists out1, apply_canon si w oc out = Ok out1.
  Proof.
    intros H1 H2 H3 H4. unfold apply_canon. destruct oc as [cc|]; [|eauto]. fold (tstart w) (tend w).
    assert (Ea : sub_chk (tstart w) si = Ok (tstart w - si)) by (apply sub_chk_ok; lia).
    assert (Eb : sub_chk (tend w) si = Ok (tend w - si)) by (apply sub_chk_ok; lia).
    rewrite Ea, Eb. cbn [bind]. unfold slice_chk.
    destruct (Nat.ltb_spec (tend w - si) (tstart w - si)); [lia|].
    destruct (Nat.ltb_spec (length out) (tend w - si)); [lia|]. cbn [orb bind].
    apply canon_overwrite_total; specialize (H4 cc eq_refl); lia.
  Qed.

  Lemma apply_cap_total si w cap out1 :
    si <= tstart w -> tstart w < tend w -> tend w - si <= length out1 ->
    exists out', apply_cap si w cap out1 = Ok out'.
  Proof.
    intros H1 H2 H3. unfold apply_cap. fold (tstart w) (tend w). destruct cap.
    - assert (Ea : sub_chk (tstart w) si = Ok (tstart w - si)) by (apply sub_chk_ok; lia).
      rewrite Ea. cbn [bind]. destruct (nth_chk_total out1 (tstart w - si)) as [c Ec]; [lia|].
      rewrite Ec. cbn [bind]. apply set_nth_total. lia.
    - apply lower_loop_total; lia.
  Qed.

  Lemma word_step_total si src idx w last out oc sc :
    canon_for' w src = Ok oc -> sct w src = Ok sc ->
    si <= tstart w -> tstart w < tend w -> tend w - si <= length out ->
    (forall cc, oc = Some cc -> tend w - tstart w <= length cc) ->
    exists out', word_step' si src idx w last out = Ok out'.
  Proof.
    intros Eoc Esc H1 H2 H3 H4. unfold word_step. rewrite Eoc. cbn [bind].
    destruct (apply_canon_total si w oc out) as [out1 E1]; try assumption; try lia.
    rewrite E1. cbn [bind]. rewrite Esc. cbn [bind].
    apply apply_cap_total; try assumption.
    apply apply_canon_ok in E1. destruct E1 as (Hl & _). lia.
  Qed.

  Lemma canon_for_total w src :
    tstart w <= tend w <= length src ->
    exists oc, canon_for' w src = Ok oc /\
               forall cc, oc = Some cc -> dict_canon (slice src (tstart w) (tend w)) = Some cc.
  Proof.
    intros H. unfold canon_for. destruct (tkind_ w) as [[md|]| | | | | | | | | | |]; try (exists None; split; [reflexivity|discriminate]).
    destruct (m_proper md); [|exists None; split; [reflexivity|discriminate]].
    destruct w as [[s e] k]. cbn [tspan tstart tend sstart send] in *.
    rewrite (get_content_in src s e H). cbn [bind]. eexists. split; [reflexivity|].
    intros cc E. exact E.
  Qed.

  Lemma sct_total w src : tstart w <= tend w <= length src -> exists sc, sct w src = Ok sc.
  Proof.
    intros H. unfold should_capitalize_token.
    destruct (tkind_ w) as [[md|]| | | | | | | | | | |]; try (eexists; reflexivity).
    destruct w as [[s e] k]. cbn [tspan tstart tend sstart send] in *.
    rewrite (get_content_in src s e H). cbn [bind].
    match goal with |- context [m_prep ?m] => destruct (m_prep m) end.
    - unfold span_len, sub_chk. cbn [sstart send]. destruct (Nat.ltb_spec e s); [lia|]. cbn [bind]. eauto.
    - cbn [bind]. eauto.
  Qed.

  Lemma tc_loop_total src si : forall wl idx out,
    wl_ok si (length out) (length src) wl ->
    (forall w cc, In w wl -> canon_for' w src = Ok (Some cc) -> tend w - tstart w <= length cc) ->
    exists out', tc_loop' si src wl idx out = Ok out'.
  Proof.
    induction wl as [|w rest IH]; intros idx out [Hso Hfa] Hc; cbn [tc_loop]; [eauto|].
    apply Forall_inv in Hfa as Hw. destruct Hw as (B1 & B2 & B3 & B4).
    destruct (canon_for_total w src) as (oc & Eoc & _); [lia|].
    destruct (sct_total w src) as (sc & Esc); [lia|].
    destruct (word_step_total si src idx w match rest with [] => true | _ :: _ => false end out oc sc)
      as [o1 E]; try assumption.
    { intros cc ->. apply (Hc w cc); [now left|exact Eoc]. }
    rewrite E. cbn [bind].
    apply word_step_ok in E as E'. destruct E' as (_ & _ & _ & _ & Hl & _).
    apply IH.
    - split; [apply StronglySorted_inv in Hso; apply Hso|]. apply Forall_inv_tail in Hfa. rewrite Hl. exact Hfa.
    - intros w' cc Hw'. apply Hc. now right.
  Qed.

  (* H_canon_len (weak form: at least as long; the harness monitors equality) *)
  Theorem mtc_total toks src :
    toks_ok (length src) toks ->
    (forall w cc, dict_canon w = Some cc -> length w <= length cc) ->
    exists out, mtc toks src = Ok out.
  Proof.
    intros Hok Hcanon. destruct toks as [|t0 rest]; [cbn; eauto|].
    destruct (toks_ok_wl _ _ _ Hok) as [Hso Hfa]. destruct (toks_ok_hull _ _ _ Hok) as (Hs & He & _).
    destruct (hull_eq (t0 :: rest)) as (Hh & Hle & _); [congruence|].
    unfold make_title_case. rewrite Hh. cbn [bind].
    rewrite get_content_in by lia. cbn [bind].
    apply tc_loop_total.
    - assert (Hlen : length (slice src (hull_start (t0 :: rest)) (hull_end (t0 :: rest)))
                     = hull_end (t0 :: rest) - hull_start (t0 :: rest)).
      { unfold slice. rewrite firstn_length, skipn_length. lia. }
      rewrite Hlen. split; assumption.
    - intros w cc Hw Ec. rewrite Forall_forall in Hfa. destruct (Hfa w Hw) as (B1 & B2 & B3 & B4).
      destruct (canon_for_total w src) as (oc & Eoc & Hd); [lia|].
      rewrite Ec in Eoc. inversion Eoc; subst oc. specialize (Hd cc eq_refl).
      apply Hcanon in Hd. unfold slice in Hd. rewrite firstn_length, skipn_length in Hd. lia.
  Qed.

  (* ---------- idempotence ---------- *)
  (* `out` is a fixed point of the loop body for a token at [a, a+n) with decision (oc, cap) *)
  Definition settled (oc : option text) (cap : bool) (a n : nat) (out : text) : Prop :=
    forall k, in_reg a n k = true -> step_val oc cap a n out k = nth_error out k.

  Lemma option_map_upper_idem (x : option char) :
    option_map ascii_upper (option_map ascii_upper x) = option_map ascii_upper x.
  Proof. destruct x; cbn; [rewrite ascii_upper_idem|]; reflexivity. Qed.
  Lemma option_map_lower_idem (x : option char) :
    option_map ascii_lower (option_map ascii_lower x) = option_map ascii_lower x.
  Proof. destruct x; cbn; [rewrite ascii_lower_idem|]; reflexivity. Qed.

  (* the loop body, applied to its own result, changes nothing *)
  Lemma step_settles oc cap a n ob o1 :
    (forall k, nth_error o1 k = step_val oc cap a n ob k) -> settled oc cap a n o1.
  Proof.
    intros Hk k Hr. rewrite Hk. unfold step_val. rewrite Hr.
    unfold base_val. rewrite Hr. destruct oc as [cc|].
    - reflexivity.
    - rewrite Hk. unfold step_val, base_val. rewrite Hr. destruct cap.
      + destruct (k =? a); [apply option_map_upper_idem|reflexivity].
      + apply option_map_lower_idem.
  Qed.

  Lemma settled_agree oc cap a n o1 o2 :
    (forall k, in_reg a n k = true -> nth_error o2 k = nth_error o1 k) ->
    settled oc cap a n o1 -> settled oc cap a n o2.
  Proof.
    intros Hag Hs k Hr. specialize (Hs k Hr). rewrite (Hag k Hr). rewrite <- Hs.
    unfold step_val, base_val. rewrite Hr. destruct oc; rewrite ?(Hag k Hr); reflexivity.
  Qed.

  (* what the first pass establishes for the token at each position of the word-like list *)
  Definition pass1_fact (si : nat) (src out : text) (idx : nat) (w : token) (last : bool) : Prop :=
    exists oc sc,
      canon_for' w src = Ok oc /\ sct w src = Ok sc /\
      (forall cc, oc = Some cc -> tend w - tstart w <= length cc) /\
      settled oc (sc || (idx =? 0) || last) (tstart w - si) (tend w - tstart w) out.

  Definition is_nil {A} (l : list A) : bool := match l with [] => true | _ => false end.

  Lemma tc_loop_settled si src : forall wl idx ob out,
    tc_loop' si src wl idx ob = Ok out ->
    wl_ok si (length ob) (length src) wl ->
    forall pre w post, wl = pre ++ w :: post ->
      pass1_fact si src out (idx + length pre) w (is_nil post).
  Proof.
    induction wl as [|w0 rest IH]; intros idx ob out H [Hso Hfa] pre w post Hsplit.
    - destruct pre; discriminate.
    - cbn [tc_loop] in H. fold (is_nil rest) in H.
      destruct (word_step' si src idx w0 (is_nil rest) ob) as [o1|] eqn:E; cbn [bind] in H; [|discriminate].
      apply Forall_inv in Hfa as Hw0. destruct Hw0 as (B1 & B2 & B3 & B4).
      apply StronglySorted_inv in Hso. destruct Hso as [Hso' Hlt].
      apply word_step_ok in E as E'. destruct E' as (oc & sc & Eoc & Esc & Hl & Hb & _ & _ & Hk).
      destruct pre as [|p pre'].
      + cbn [app] in Hsplit. inversion Hsplit; subst w0 rest. cbn [length]. rewrite Nat.add_0_r.
        exists oc, sc. split; [exact Eoc|]. split; [exact Esc|]. split.
        { intros cc ->. destruct (Hb cc eq_refl) as (_ & _ & _ & Hcc). apply Hcc. lia. }
        apply (settled_agree _ _ _ _ o1).
        * intros k Hr. apply (tc_loop_prefix _ _ _ _ _ _ _ H).
          intros w' Hw'. rewrite Forall_forall in Hlt. specialize (Hlt w' Hw').
          unfold in_reg in Hr. apply Bool.andb_true_iff in Hr. destruct Hr as [_ Hr]. apply Nat.ltb_lt in Hr. lia.
        * apply (step_settles _ _ _ _ ob). exact Hk.
      + cbn [app] in Hsplit. inversion Hsplit; subst p rest. cbn [length].
        replace (idx + S (length pre')) with (S idx + length pre') by lia.
        apply (IH (S idx) o1 out H); [|reflexivity].
        split; [exact Hso'|]. apply Forall_inv_tail in Hfa. rewrite Hl. exact Hfa.
  Qed.

  (* a settled token is left alone by the loop body *)
  Lemma word_step_fix si out idx w last oc sc :
    canon_for' w out = Ok oc -> sct w out = Ok sc ->
    si <= tstart w -> tstart w < tend w -> tend w - si <= length out ->
    (forall cc, oc = Some cc -> tend w - tstart w <= length cc) ->
    settled oc (sc || (idx =? 0) || last) (tstart w - si) (tend w - tstart w) out ->
    word_step' si out idx w last out = Ok out.
  Proof.
    intros Eoc Esc H1 H2 H3 H4 Hs.
    destruct (word_step_total si out idx w last out oc sc) as [out' E]; try assumption.
    rewrite E. f_equal. apply nth_error_ext. intros k.
    apply word_step_ok in E. destruct E as (oc' & sc' & Eoc' & Esc' & _ & _ & _ & _ & Hk).
    rewrite Eoc in Eoc'. inversion Eoc'; subst oc'. rewrite Esc in Esc'. inversion Esc'; subst sc'.
    rewrite Hk. destruct (in_reg (tstart w - si) (tend w - tstart w) k) eqn:Er.
    - apply Hs. exact Er.
    - apply step_val_outside; [lia|exact Er].
  Qed.

  Lemma tc_loop_fix si out : forall wl idx,
    (forall pre w post, wl = pre ++ w :: post ->
       word_step' si out (idx + length pre) w (is_nil post) out = Ok out) ->
    tc_loop' si out wl idx out = Ok out.
  Proof.
    induction wl as [|w rest IH]; intros idx H; cbn [tc_loop]; [reflexivity|].
    fold (is_nil rest). specialize (H [] w rest eq_refl) as H0. cbn [length] in H0. rewrite Nat.add_0_r in H0.
    rewrite H0. cbn [bind]. apply IH. intros pre w' post Hsplit.
    replace (S idx + length pre) with (idx + length (w :: pre)) by (cbn [length]; lia).
    apply H. rewrite Hsplit. reflexivity.
  Qed.

  Lemma slice_all {A} (l : list A) : slice l 0 (length l) = l.
  Proof. unfold slice. rewrite Nat.sub_0_r. cbn [skipn]. apply firstn_all. Qed.

  (* Second pass.  Premises: the C02 token invariant; the tokens tile the text (PlainEnglish);
     H_case_stable — the second pass sees the same token list, and for each word-like token the two
     things the code asks the dictionary about the token's text (the canonical spelling copied by
     the proper-noun block, and should_capitalize_token) have the same answer on the output as on
     the input. *)
  Theorem mtc_idempotent toks src out :
    toks_ok (length src) toks ->
    hull_start toks = 0 -> hull_end toks = length src ->
    mtc toks src = Ok out ->
    (forall w, In w toks -> tok_word_like w = true ->
               canon_for' w out = canon_for' w src /\ sct w out = sct w src) ->
    mtc toks out = Ok out.
  Proof.
    intros Hok Hs0 He0 H Hstable. destruct toks as [|t0 rest].
    - cbn in H. inversion H. reflexivity.
    - pose proof (mtc_length _ _ _ H) as Hlen. rewrite Hs0, He0, Nat.sub_0_r in Hlen.
      destruct (toks_ok_wl _ _ _ Hok) as [Hso Hfa]. destruct (toks_ok_hull _ _ _ Hok) as (Hs & _ & _).
      rewrite Hs0 in Hs. rewrite <- Hs in *. rewrite He0, Hs0, Nat.sub_0_r in Hfa.
      apply mtc_unfold in H. destruct H as (out0 & Hc & Hl). rewrite Hs0, He0 in Hc.
      rewrite get_content_in in Hc by lia. inversion Hc; subst out0. rewrite slice_all in Hl.
      destruct (hull_eq (t0 :: rest)) as (Hh & _); [congruence|].
      unfold make_title_case. rewrite Hh, Hs0, He0. cbn [bind]. rewrite <- Hlen.
      rewrite get_content_in by lia. cbn [bind]. rewrite slice_all.
      change (sstart (tspan t0)) with (tstart t0). rewrite <- Hs. rewrite <- Hs in Hl.
      apply tc_loop_fix. intros pre w post Hsplit.
      assert (Hw : In w (filter tok_word_like (t0 :: rest))) by (rewrite Hsplit; apply in_elt).
      destruct (tc_loop_settled _ _ _ _ _ _ Hl (conj Hso Hfa) pre w post Hsplit)
        as (oc & sc & Eoc & Esc & Hcc & Hset).
      apply filter_In in Hw as Hw'. destruct Hw' as [Hin Hwl]. destruct (Hstable w Hin Hwl) as [S1 S2].
      rewrite Forall_forall in Hfa. destruct (Hfa w Hw) as (B1 & B2 & B3 & B4).
      apply (word_step_fix 0 out (0 + length pre) w (is_nil post) oc sc); try assumption; try lia.
      + rewrite S1. exact Eoc.
      + rewrite S2. exact Esc.
  Qed.

  (* ---------- the decision depends on the word only through case-insensitive data ---------- *)
  (* laws of char::to_lowercase / is_lowercase used here (monitored over all ASCII characters /
     all code points by the harness) and case-insensitivity of the dictionary look-up *)
  Definition lower_ascii_law : Prop :=
    forall c, lower (ascii_upper c) = lower c /\ lower (ascii_lower c) = lower c.
  Definition lowercase_fixed : Prop := forall c, is_lowercase c = true -> lower c = [c].
  Definition dict_ascii_ci : Prop := forall u v, Forall2 case_img u v -> dict_canon v = dict_canon u.

  Lemma to_lower_flat : lowercase_fixed -> forall w, to_lower lower is_lowercase w = flat_map lower w.
  Proof.
    intros Hf w. unfold to_lower. destruct (forallb is_lowercase w) eqn:E; [|reflexivity].
    induction w as [|c w IH]; [reflexivity|]. cbn [forallb] in E. apply Bool.andb_true_iff in E.
    destruct E as [E1 E2]. cbn [flat_map]. rewrite (Hf c E1). cbn [app]. f_equal. apply IH. exact E2.
  Qed.

  Lemma to_lower_case_img : lower_ascii_law -> lowercase_fixed ->
    forall u v, Forall2 case_img u v -> to_lower lower is_lowercase v = to_lower lower is_lowercase u.
  Proof.
    intros Hl Hf u v H. rewrite !(to_lower_flat Hf). induction H as [|a c u v Hac _ IH]; [reflexivity|].
    cbn [flat_map]. rewrite IH. f_equal. destruct (Hl a) as [L1 L2].
    destruct Hac as [ -> | [ -> | -> ] ]; [reflexivity|exact L1|exact L2].
  Qed.

  (* should_capitalize_token reads the source only through to_lower of the token's text, the
     proper-noun block only through the dictionary's answer for the token's text *)
  Lemma sct_depends w (src src' u v : text) :
    get_content (tspan w) src = Ok u -> get_content (tspan w) src' = Ok v ->
    to_lower lower is_lowercase v = to_lower lower is_lowercase u ->
    sct w src' = sct w src.
  Proof.
    intros Eu Ev El. unfold should_capitalize_token.
    destruct (tkind_ w) as [[md|]| | | | | | | | | | |]; try reflexivity.
    rewrite Eu, Ev. cbn [bind]. rewrite El. reflexivity.
  Qed.

  Lemma canon_for_depends w (src src' u v : text) :
    get_content (tspan w) src = Ok u -> get_content (tspan w) src' = Ok v ->
    dict_canon v = dict_canon u ->
    canon_for' w src' = canon_for' w src.
  Proof.
    intros Eu Ev Ed. unfold canon_for.
    destruct (tkind_ w) as [[md|]| | | | | | | | | | |]; try reflexivity.
    destruct (m_proper md); [|reflexivity]. rewrite Eu, Ev. cbn [bind]. rewrite Ed. reflexivity.
  Qed.

  Lemma sorted_trichotomy {A} (R : A -> A -> Prop) : forall l, StronglySorted R l ->
    forall a b, In a l -> In b l -> a = b \/ R a b \/ R b a.
  Proof.
    induction l as [|x l IH]; intros Hs a b Ha Hb; [destruct Ha|].
    apply StronglySorted_inv in Hs. destruct Hs as [Hs Hf]. rewrite Forall_forall in Hf.
    destruct Ha as [ -> |Ha]; destruct Hb as [ -> |Hb].
    - now left.
    - right; left. apply Hf. exact Hb.
    - right; right. apply Hf. exact Ha.
    - apply IH; assumption.
  Qed.

  Lemma Forall2_of_nth {A B} (P : A -> B -> Prop) : forall (u : list A) (v : list B),
    length u = length v ->
    (forall k a c, nth_error u k = Some a -> nth_error v k = Some c -> P a c) ->
    Forall2 P u v.
  Proof.
    induction u as [|a u IH]; intros [|c v] Hl H; try discriminate; constructor.
    - apply (H 0); reflexivity.
    - apply IH; [cbn in Hl; lia|]. intros k a' c' Ha Hc. apply (H (S k)); assumption.
  Qed.

  (* Idempotence with the stability premise reduced to what case-insensitivity cannot give:
     for tokens whose text was NOT replaced by a canonical spelling, the second pass's decision is
     derived from (i) to_lowercase ignoring ASCII case, (ii) the dictionary look-up ignoring ASCII
     case; only for tokens whose text WAS replaced (the canonical spelling may differ from the input
     by more than ASCII case: apostrophes, non-ASCII case pairs) the premise stays. *)
  Theorem mtc_idempotent_ci toks src out :
    toks_ok (length src) toks ->
    hull_start toks = 0 -> hull_end toks = length src ->
    lower_ascii_law -> lowercase_fixed -> dict_ascii_ci ->
    mtc toks src = Ok out ->
    (forall w cc, In w toks -> tok_word_like w = true -> canon_for' w src = Ok (Some cc) ->
                  canon_for' w out = Ok (Some cc) /\ sct w out = sct w src) ->
    mtc toks out = Ok out.
  Proof.
    intros Hok Hs0 He0 Hl Hf Hd H Hcanon. apply (mtc_idempotent toks src out Hok Hs0 He0 H).
    intros w Hin Hwl.
    destruct toks as [|t0 rest]; [destruct Hin|].
    pose proof (mtc_length _ _ _ H) as Hlen. rewrite Hs0, He0, Nat.sub_0_r in Hlen.
    destruct (toks_ok_hull _ _ _ Hok) as (Hs & _ & _). rewrite Hs0 in Hs.
    destruct Hok as [Hso Hfa]. rewrite Forall_forall in Hfa. destruct (Hfa w Hin) as (B1 & B2 & B3).
    destruct (canon_for_total w src) as (oc & Eoc & _); [lia|].
    destruct oc as [cc|].
    { destruct (Hcanon w cc Hin Hwl Eoc) as [C1 C2]. rewrite C1, Eoc, C2. split; reflexivity. }
    (* not replaced: the token's text in `out` is its text in `src` up to ASCII case *)
    assert (Eu : get_content (tspan w) src = Ok (slice src (tstart w) (tend w))).
    { destruct w as [[s e] kd]. cbn [tspan tstart tend sstart send] in *. apply get_content_in. lia. }
    assert (Ev : get_content (tspan w) out = Ok (slice out (tstart w) (tend w))).
    { destruct w as [[s e] kd]. cbn [tspan tstart tend sstart send] in *. apply get_content_in. lia. }
    assert (Hci : Forall2 case_img (slice src (tstart w) (tend w)) (slice out (tstart w) (tend w))).
    { apply Forall2_of_nth.
      - unfold slice. rewrite !firstn_length, !skipn_length. lia.
      - intros k a c. rewrite !slice_nth. destruct (Nat.ltb_spec k (tend w - tstart w)); [|discriminate].
        intros Ha Hc. destruct (mtc_case_only _ _ _ H _ _ Hc) as [(a' & Ha' & Hi)|(w' & cc' & b & W1 & W2 & W3 & W4 & _)].
        + rewrite Hs0 in Ha'. cbn [Nat.add] in Ha'. rewrite Ha in Ha'. inversion Ha'; subst a'. exact Hi.
        + exfalso. cbn [first_start] in W4. rewrite <- Hs in W4. cbn [Nat.add] in W4.
          destruct (sorted_trichotomy _ _ Hso w w' Hin W1) as [ <- |[Hr|Hr]].
          * rewrite Eoc in W3. discriminate.
          * lia.
          * lia. }
    split.
    - apply (canon_for_depends w src out _ _ Eu Ev). apply Hd. exact Hci.
    - apply (sct_depends w src out _ _ Eu Ev). apply to_lower_case_img; assumption.
  Qed.

  (* ---------- case only, for any per-character relation S that the canonical spellings respect ----------
     Shape `forall x, ~ KnownClass x -> P x`: S is the relation the property allows between an input and
     an output character; the premise says that no canonical spelling copied by the proper-noun block
     relates a source character to something outside S (after the ASCII case write that may follow).
     The known class FC18a is exactly a canonical spelling violating it (U+212A vs 'k' then 'K'). *)
  Theorem mtc_case_only_rel (S : char -> char -> Prop) toks src out :
    (forall a c, case_img a c -> S a c) ->
    toks_ok (length src) toks ->
    mtc toks src = Ok out ->
    (forall w cc i a b c,
        In w toks -> tok_word_like w = true -> canon_for' w src = Ok (Some cc) ->
        tstart w + i < tend w ->
        nth_error src (tstart w + i) = Some a -> nth_error cc i = Some b -> case_img b c -> S a c) ->
    forall k c, nth_error out k = Some c ->
      exists a, nth_error src (hull_start toks + k) = Some a /\ S a c.
  Proof.
    intros HS Hok H Hcanon k c Hc.
    destruct toks as [|t0 rest]; [cbn in H; inversion H; subst; destruct k; discriminate|].
    destruct (toks_ok_hull _ _ _ Hok) as (Hs & He & _).
    pose proof (mtc_length _ _ _ H) as Hlen.
    assert (Hk : k < length out) by (apply nth_error_Some; congruence).
    destruct (hull_eq (t0 :: rest)) as (_ & Hle & _); [congruence|].
    destruct (nth_error src (hull_start (t0 :: rest) + k)) as [a|] eqn:Ea.
    2:{ apply nth_error_None in Ea. lia. }
    exists a. split; [reflexivity|].
    destruct (mtc_case_only _ _ _ H _ _ Hc) as [(a' & Ha' & Hi)|(w & cc & b & W1 & W2 & W3 & W4 & W5 & Hi)].
    - rewrite Ea in Ha'. inversion Ha'; subst a'. apply HS. exact Hi.
    - cbn [first_start] in W4, W5. rewrite Hs in Ea.
      apply (Hcanon w cc (tstart t0 + k - tstart w) a b c W1 W2 W3); try assumption; try lia.
      replace (tstart w + (tstart t0 + k - tstart w)) with (tstart t0 + k) by lia. exact Ea.
  Qed.
End Thms.

(* ================= H_canon_len from the way the dictionary finds a word =================
   WordId::from_word_chars hashes `normalized` then `to_lower` of the word; the entry found for w is
   the entry whose canonical spelling has the same id.  If (hash collisions aside) the two folded
   strings are equal, lower-casing never deletes a character, and every character of the canonical
   spelling lower-cases to exactly one character, the canonical spelling is at least as long as w. *)
Definition fold_word (lower : char -> list char) (w : text) : text :=
  flat_map lower (map normalize_char w).

Lemma flat_map_length_ge {A B} (f : A -> list B) : forall l,
  (forall x, f x <> []) -> length l <= length (flat_map f l).
Proof.
  intros l Hne. induction l as [|x l IH]; [cbn; lia|].
  cbn [flat_map length]. rewrite app_length. specialize (Hne x). destruct (f x); [congruence|]. cbn [length]. lia.
Qed.

Lemma flat_map_length_eq {A B} (f : A -> list B) : forall l,
  Forall (fun x => length (f x) = 1) l -> length (flat_map f l) = length l.
Proof.
  intros l H. induction H as [|x l Hx _ IH]; [reflexivity|].
  cbn [flat_map length]. rewrite app_length, Hx, IH. reflexivity.
Qed.

Lemma canon_len_from_word_id (lower : char -> list char) (w cc : text) :
  (forall c, lower c <> []) ->
  fold_word lower cc = fold_word lower w ->
  Forall (fun c => length (lower (normalize_char c)) = 1) cc ->
  length w <= length cc.
Proof.
  intros Hne Hf Hs. unfold fold_word in Hf.
  assert (H1 : length (flat_map lower (map normalize_char cc)) = length cc).
  { rewrite flat_map_length_eq; [apply map_length|]. rewrite Forall_map. exact Hs. }
  assert (H2 : length w <= length (flat_map lower (map normalize_char w))).
  { rewrite <- (map_length normalize_char w) at 1. apply flat_map_length_ge. exact Hne. }
  rewrite Hf in H1. lia.
Qed.

Lemma mtc_total_word_id lower is_lowercase dict_canon dict_meta toks (src : text) :
  toks_ok (length src) toks ->
  (forall c, lower c <> []) ->
  (forall w cc, dict_canon w = Some cc ->
                fold_word lower cc = fold_word lower w /\
                Forall (fun c => length (lower (normalize_char c)) = 1) cc) ->
  exists out, make_title_case lower is_lowercase dict_canon dict_meta toks src = Ok out.
Proof.
  intros Hok Hne Hd. apply mtc_total; [exact Hok|].
  intros w cc E. destruct (Hd w cc E) as [H1 H2]. apply (canon_len_from_word_id lower); assumption.
Qed.

(* ================= corollaries and the tie to the generated table ================= *)
Lemma mtc_length_tiling lower is_lowercase dict_canon dict_meta toks (src out : text) :
  make_title_case lower is_lowercase dict_canon dict_meta toks src = Ok out ->
  hull_start toks = 0 -> hull_end toks = length src -> length out = length src.
Proof. intros H H0 H1. apply mtc_length in H. lia. Qed.

Lemma ascii_upper_spec c :
  is_ascii_lower (ascii_upper c) = false /\
  (is_ascii_alpha c = true -> is_ascii_upper (ascii_upper c) = true) /\
  (is_ascii_lower c = false -> ascii_upper c = c).
Proof.
  split; [apply ascii_upper_not_lower|]. split; [apply ascii_upper_of_alpha|apply ascii_upper_non_alpha].
Qed.

Lemma tc_source_shape :
  tc_uses_unicode_case_on_output = false /\ tc_ascii_upper_sites = 1 /\ tc_ascii_lower_sites = 1 /\
  tc_output_index_writes = 2 /\ tc_canonical_overwrite_present = true /\ tc_first_last_forced = true /\
  tc_token_kind_count = 12 /\ tc_word_like_codes = [0; 6; 8; 2; 3] /\
  tc_special_conjunctions = [[97; 110; 100]; [98; 117; 116]; [102; 111; 114]; [111; 114]; [110; 111; 114]]%N /\
  tc_short_preposition_max = 4 /\
  tc_normalize_table = [(8217, 39); (8216, 39); (65287, 39)]%N.
Proof. repeat split; reflexivity. Qed.

(* ================= a concrete instance (non-vacuity of the hypotheses) ================= *)
Definition ex_lower (c : char) : list char := [ascii_lower c].
Definition ex_islower (c : char) : bool := is_ascii_lower c.
(* "wordpress" / "WordPress", "the" "a" determiners, "of" preposition *)
Definition ex_wordpress : text := [119; 111; 114; 100; 112; 114; 101; 115; 115]%N.
Definition ex_WordPress : text := [87; 111; 114; 100; 80; 114; 101; 115; 115]%N.
Definition ex_canon (w : text) : option text :=
  if text_eqb (map ascii_lower w) ex_wordpress then Some ex_WordPress else None.
Definition ex_meta (w : text) : option wmeta :=
  let l := map ascii_lower w in
  if text_eqb l ex_wordpress then Some (mkmeta true false false)
  else if text_eqb l [116; 104; 101]%N || text_eqb l [97]%N then Some (mkmeta false false true)
  else if text_eqb l [111; 102]%N then Some (mkmeta false true false)
  else None.
(* "the wordpress of a" *)
Definition ex_src : text :=
  [116; 104; 101; 32; 119; 111; 114; 100; 112; 114; 101; 115; 115; 32; 111; 102; 32; 97]%N.
Definition ex_toks : list token :=
  [mktok (mkspan 0 3) (KWord (Some (mkmeta false false true))); mktok (mkspan 3 4) KSpace;
   mktok (mkspan 4 13) (KWord (Some (mkmeta true false false))); mktok (mkspan 13 14) KSpace;
   mktok (mkspan 14 16) (KWord (Some (mkmeta false true false))); mktok (mkspan 16 17) KSpace;
   mktok (mkspan 17 18) (KWord (Some (mkmeta false false true)))].
(* "The WordPress of A" *)
Definition ex_out : text :=
  [84; 104; 101; 32; 87; 111; 114; 100; 80; 114; 101; 115; 115; 32; 111; 102; 32; 65]%N.

Lemma text_eqb_eq : forall a b, text_eqb a b = true -> a = b.
Proof.
  induction a as [|x a IH]; intros [|y b] H; cbn [text_eqb] in H; try discriminate; [reflexivity|].
  apply Bool.andb_true_iff in H. destruct H as [H1 H2]. apply N.eqb_eq in H1. subst y. f_equal. apply IH. exact H2.
Qed.

Lemma ex_canon_len : forall w cc, ex_canon w = Some cc -> length w <= length cc.
Proof.
  intros w cc. unfold ex_canon. destruct (text_eqb (map ascii_lower w) ex_wordpress) eqn:E; [|discriminate].
  intros H. inversion H; subst cc. apply text_eqb_eq in E.
  apply (f_equal (@length char)) in E. rewrite map_length in E. rewrite E. cbn. lia.
Qed.

Lemma ex_toks_ok : toks_ok (length ex_src) ex_toks.
Proof.
  split.
  - repeat (constructor; [|repeat constructor; cbn; lia]). constructor.
  - repeat constructor; cbn; try lia; try discriminate.
Qed.

(* ================= the known class FC18a/FC18b: KELVIN SIGN in a proper noun =================
   Input "b the.Kelvin" with U+212A for the K.  The tables are the facts dumped from the real
   implementation for this input (corpus/C18/kelvin.json replays it): first pass over the tokens
   Word Space Word(the) Punct(.) Word(proper noun, canonical spelling "kelvin"), second pass over
   the tokens the lexer produces for the first pass's output: Word Space Hostname("the.Kelvin"). *)
Definition kw_src : text := [98; 32; 116; 104; 101; 46; 8490; 101; 108; 118; 105; 110]%N.
Definition kw_out : text := [66; 32; 116; 104; 101; 46; 75; 101; 108; 118; 105; 110]%N.
Definition kw_out2 : text := [66; 32; 84; 104; 101; 46; 75; 101; 108; 118; 105; 110]%N.
Definition kw_chars : list (char * (bool * list char)) :=
  [(32, (false, [32])); (46, (false, [46])); (98, (true, [98])); (101, (true, [101])); (104, (true, [104]));
   (105, (true, [105])); (108, (true, [108])); (110, (true, [110])); (116, (true, [116])); (118, (true, [118]));
   (8490, (false, [107])); (66, (false, [98])); (75, (false, [107]))]%N.
Definition kw_canon : list (text * option text) :=
  [([98], Some [98]); ([116; 104; 101], Some [116; 104; 101]);
   ([8490; 101; 108; 118; 105; 110], Some [107; 101; 108; 118; 105; 110]); ([66], Some [98])]%N.
Definition kw_meta : list (text * option wmeta) :=
  [([98]%N, Some (mkmeta true false false)); ([107; 101; 108; 118; 105; 110]%N, Some (mkmeta true false false));
   ([116; 104; 101]%N, Some (mkmeta false true true))].
Definition kw_toks1 : list (nat * nat * nat * option wmeta) :=
  [(0, 1, 0, Some (mkmeta true false false)); (1, 2, 4, None); (2, 5, 0, Some (mkmeta false true true));
   (5, 6, 1, None); (6, 12, 0, Some (mkmeta true false false))].
Definition kw_toks2 : list (nat * nat * nat * option wmeta) :=
  [(0, 1, 0, Some (mkmeta true false false)); (1, 2, 4, None); (2, 12, 8, None)].

Lemma kelvin_witness :
  run_title_case kw_chars kw_canon kw_meta kw_toks1 kw_src = Ok kw_out /\
  run_title_case kw_chars kw_canon kw_meta kw_toks2 kw_out = Ok kw_out2 /\
  kw_out2 <> kw_out /\
  nth_error kw_src 6 = Some 8490%N /\ nth_error kw_out 6 = Some 75%N /\ ~ case_img 8490%N 75%N.
Proof.
  split; [vm_compute; reflexivity|]. split; [vm_compute; reflexivity|]. split; [discriminate|].
  split; [reflexivity|]. split; [reflexivity|].
  intros [H|[H|H]]; vm_compute in H; discriminate.
Qed.

(* the whole conversion (first pass, re-lexing, second pass) is not idempotent on this input, and the
   first pass changes a character by more than its case *)
Lemma mtc_idempotent_refuted :
  exists chars canon meta toks toks' src out out',
    run_title_case chars canon meta toks src = Ok out /\
    run_title_case chars canon meta toks' out = Ok out' /\ out' <> out.
Proof.
  exists kw_chars, kw_canon, kw_meta, kw_toks1, kw_toks2, kw_src, kw_out, kw_out2.
  destruct kelvin_witness as (H1 & H2 & H3 & _). repeat split; assumption.
Qed.

Lemma mtc_case_only_strict_refuted :
  exists chars canon meta toks src out k a c,
    run_title_case chars canon meta toks src = Ok out /\
    nth_error src k = Some a /\ nth_error out k = Some c /\ ~ case_img a c.
Proof.
  exists kw_chars, kw_canon, kw_meta, kw_toks1, kw_src, kw_out, 6, 8490%N, 75%N.
  destruct kelvin_witness as (H1 & _ & _ & H4 & H5 & H6). repeat split; assumption.
Qed.
