(* NumberArith.v — C17, arithmetic layer: correct_suffix_for against the English rule for ALL n, the
   from_chars table, decimal rendering (digits only, no leading zero, parse . render = id, injective). *)
Require Import Base Tables_number Number.
From Coq Require Import List Arith NArith Bool Lia.
Import ListNotations.

(* ------------------------------------------------------------------------------------------------ *)
(* correct_suffix_for = the English rule, for every n (N.mod arithmetic; no sweep)                     *)
(* ------------------------------------------------------------------------------------------------ *)
Lemma mod10_cases (n : N) :
  (n mod 10 = 0 \/ n mod 10 = 1 \/ n mod 10 = 2 \/ n mod 10 = 3 \/ n mod 10 = 4 \/
   n mod 10 = 5 \/ n mod 10 = 6 \/ n mod 10 = 7 \/ n mod 10 = 8 \/ n mod 10 = 9)%N.
Proof.
  assert (H : (n mod 10 < 10)%N) by (apply N.mod_lt; discriminate).
  remember (n mod 10)%N as m eqn:Hm. clear Hm. lia.
Qed.

Lemma ordinal_spec (n : N) : correct_suffix_for_int n = Some (ordinal n).
Proof.
  unfold correct_suffix_for_int, ordinal.
  change teens_modulus with 100%N. change teens_lo with 11%N. change teens_hi with 13%N.
  change teens_suffix with Th. change digit_modulus with 10%N.
  destruct ((11 <=? n mod 100)%N && (n mod 100 <=? 13)%N); [reflexivity|].
  destruct (mod10_cases n) as [H|[H|[H|[H|[H|[H|[H|[H|[H|H]]]]]]]]]; rewrite H; reflexivity.
Qed.

(* the rule in words: 11, 12, 13 and everything ending in them take th; otherwise the last digit decides *)
Lemma ordinal_teens (n : N) : (11 <= n mod 100 <= 13)%N -> ordinal n = Th.
Proof.
  intros [A B]. unfold ordinal.
  apply N.leb_le in A. apply N.leb_le in B. rewrite A, B. reflexivity.
Qed.
Lemma ordinal_last_digit (n : N) : ~ (11 <= n mod 100 <= 13)%N ->
  ordinal n = match (n mod 10)%N with 1%N => St | 2%N => Nd | 3%N => Rd | _ => Th end.
Proof.
  intros H. unfold ordinal.
  destruct ((11 <=? n mod 100)%N && (n mod 100 <=? 13)%N) eqn:E; [|reflexivity].
  apply andb_true_iff in E. destruct E as [A B]. apply N.leb_le in A. apply N.leb_le in B. tauto.
Qed.

(* ------------------------------------------------------------------------------------------------ *)
(* from_chars: exactly the 16 casings                                                                 *)
(* ------------------------------------------------------------------------------------------------ *)
Lemma lower_ascii_inv (a c : N) : (97 <= c <= 122)%N -> lower_ascii a = c -> a = c \/ a = (c - 32)%N.
Proof.
  intros Hc. unfold lower_ascii, is_ascii_upper, in_range.
  destruct ((65 <=? a)%N && (a <=? 90)%N) eqn:E.
  - apply andb_true_iff in E. destruct E as [A B]. apply N.leb_le in A. apply N.leb_le in B. lia.
  - intros ->. left. reflexivity.
Qed.

Lemma from_chars_sound (a b : N) (rest : text) (s : suffix) :
  from_chars (a :: b :: rest) = Some s -> map lower_ascii [a; b] = to_chars s.
Proof.
  unfold from_chars.
  destruct (find _ from_chars_table) as [r|] eqn:F; [|discriminate].
  intros H. injection H as <-.
  apply find_some in F. destruct F as [Hin Heq].
  apply andb_true_iff in Heq. destruct Heq as [Ha Hb].
  apply N.eqb_eq in Ha. apply N.eqb_eq in Hb. subst a b.
  unfold from_chars_table in Hin. simpl in Hin.
  repeat (destruct Hin as [Hin|Hin]; [subst r; reflexivity|]). contradiction.
Qed.

Lemma from_chars_complete_dir (a b : N) (s : suffix) :
  map lower_ascii [a; b] = to_chars s -> from_chars [a; b] = Some s.
Proof.
  intros H. cbn [map] in H.
  destruct s; cbn [to_chars] in H; injection H as Ha Hb;
    apply lower_ascii_inv in Ha; try lia; apply lower_ascii_inv in Hb; try lia;
    destruct Ha as [-> | ->]; destruct Hb as [-> | ->]; reflexivity.
Qed.

Lemma from_chars_iff (a b : N) (s : suffix) :
  from_chars [a; b] = Some s <-> map lower_ascii [a; b] = to_chars s.
Proof. split; [apply from_chars_sound | apply from_chars_complete_dir]. Qed.

Lemma from_chars_short (cs : text) : length cs < 2 -> from_chars cs = None.
Proof. destruct cs as [|a [|b r]]; simpl; intros; try reflexivity; lia. Qed.

Lemma from_chars_first_two (a b : N) (rest : text) : from_chars (a :: b :: rest) = from_chars [a; b].
Proof. reflexivity. Qed.

Lemma from_chars_complete :
  (forall a b s, from_chars [a; b] = Some s <-> map lower_ascii [a; b] = to_chars s)
  /\ (forall cs, length cs < 2 -> from_chars cs = None)
  /\ (forall a b rest, from_chars (a :: b :: rest) = from_chars [a; b])
  /\ length from_chars_table = 16.
Proof.
  split; [exact from_chars_iff|]. split; [exact from_chars_short|]. split; [exact from_chars_first_two|].
  reflexivity.
Qed.

(* a row of the table is a recognised casing and vice versa *)
Lemma from_chars_row (a b : N) (s : suffix) :
  In (a, b, s) from_chars_table <-> from_chars [a; b] = Some s.
Proof.
  split.
  - unfold from_chars_table. simpl.
    intros H. repeat (destruct H as [H|H]; [injection H as <- <- <-; reflexivity|]). contradiction.
  - intros H. unfold from_chars in H.
    destruct (find _ from_chars_table) as [r|] eqn:F; [|discriminate].
    injection H as <-. apply find_some in F. destruct F as [Hin Heq].
    apply andb_true_iff in Heq. destruct Heq as [Ha Hb].
    apply N.eqb_eq in Ha. apply N.eqb_eq in Hb. subst a b.
    destruct r as [[x y] z]. exact Hin.
Qed.

(* ------------------------------------------------------------------------------------------------ *)
(* decimal rendering                                                                                  *)
(* ------------------------------------------------------------------------------------------------ *)
Lemma parse_dec_app (l1 l2 : text) :
  parse_dec (l1 ++ l2) = fold_left (fun a c => (10 * a + (c - 48))%N) l2 (parse_dec l1).
Proof. unfold parse_dec. apply fold_left_app. Qed.

Lemma digit_char_digit (d : N) : (d < 10)%N -> is_ascii_digit (digit_char d) = true.
Proof.
  intros H. unfold is_ascii_digit, in_range, digit_char.
  apply andb_true_iff. split; apply N.leb_le; lia.
Qed.

Lemma render_go_S (f : nat) (n : N) (acc : text) :
  render_go (S f) n acc =
  if (n / 10 =? 0)%N then digit_char (n mod 10) :: acc
  else render_go f (n / 10)%N (digit_char (n mod 10) :: acc).
Proof. reflexivity. Qed.

Lemma render_go_spec : forall (fuel : nat) (n : N) (acc : text),
  (n < 2 ^ N.of_nat fuel)%N ->
  exists ds, render_go (S fuel) n acc = ds ++ acc
             /\ Forall (fun c => is_ascii_digit c = true) ds
             /\ ds <> []
             /\ parse_dec ds = n
             /\ (n <> 0%N -> hd 0%N ds <> 48%N)
             /\ (n = 0%N -> ds = [48%N]).
Proof.
  induction fuel as [|f IH]; intros n acc Hn.
  - assert (n = 0%N) by (simpl in Hn; lia). subst n.
    exists [48%N]. repeat split; try reflexivity; try discriminate.
    + repeat constructor.
    + intros H; contradiction.
  - rewrite render_go_S.
    assert (Hm : (n mod 10 < 10)%N) by (apply N.mod_lt; discriminate).
    destruct (n / 10 =? 0)%N eqn:E.
    + apply N.eqb_eq in E.
      assert (Hlt : (n < 10)%N) by (apply N.div_small_iff in E; [exact E | discriminate]).
      rewrite N.mod_small by exact Hlt.
      exists [digit_char n]. repeat split.
      * constructor; [apply digit_char_digit; exact Hlt | constructor].
      * discriminate.
      * unfold parse_dec, digit_char. cbn [fold_left]. lia.
      * intros Hz. unfold digit_char. cbn [hd]. lia.
      * intros ->. reflexivity.
    + apply N.eqb_neq in E.
      assert (Hd : (n / 10 < 2 ^ N.of_nat f)%N).
      { rewrite Nat2N.inj_succ, N.pow_succ_r' in Hn.
        apply N.div_lt_upper_bound; [discriminate|]. lia. }
      destruct (IH (n / 10)%N (digit_char (n mod 10) :: acc) Hd) as (ds & Heq & Hdig & Hne & Hp & Hhd & _).
      exists (ds ++ [digit_char (n mod 10)]). repeat split.
      * rewrite Heq, <- app_assoc. reflexivity.
      * apply Forall_app. split; [exact Hdig|].
        constructor; [apply digit_char_digit; exact Hm | constructor].
      * destruct ds; discriminate.
      * rewrite parse_dec_app, Hp. unfold digit_char. cbn [fold_left].
        pose proof (N.div_mod n 10). remember (n mod 10)%N as m. remember (n / 10)%N as q. lia.
      * intros _. destruct ds as [|d ds']; [contradiction|]. cbn [hd app]. cbn [hd] in Hhd. apply Hhd. exact E.
      * intros ->. exfalso. apply E. reflexivity.
Qed.

Lemma render_spec (n : N) :
  Forall (fun c => is_ascii_digit c = true) (render n)
  /\ render n <> []
  /\ parse_dec (render n) = n
  /\ (n <> 0%N -> hd 0%N (render n) <> 48%N)
  /\ (n = 0%N -> render n = [48%N]).
Proof.
  unfold render.
  destruct (render_go_spec (N.to_nat (N.size n)) n []) as (ds & Heq & H).
  - rewrite N2Nat.id. apply N.size_gt.
  - rewrite Heq, app_nil_r. exact H.
Qed.

Lemma render_digits (n : N) : Forall (fun c => is_ascii_digit c = true) (render n).
Proof. apply render_spec. Qed.
Lemma render_nonempty (n : N) : render n <> [].
Proof. apply render_spec. Qed.
Lemma parse_render (n : N) : parse_dec (render n) = n.
Proof. apply render_spec. Qed.
Lemma render_injective (n m : N) : render n = render m -> n = m.
Proof. intros H. rewrite <- (parse_render n), <- (parse_render m), H. reflexivity. Qed.
Lemma render_no_leading_zero (n : N) : n <> 0%N -> hd 0%N (render n) <> 48%N.
Proof. apply render_spec. Qed.
Lemma render_zero : render 0 = [48%N].
Proof. reflexivity. Qed.
