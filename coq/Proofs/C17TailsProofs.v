(* C17TailsProofs.v — C17 with the URL / e-mail tails instantiated by their models (Model/C17Tails.v): the theorems of
   NumberProofs.v hold for every `ut`, `et`, in particular for these; and the texts that were outside the model
   (`2st@x.com`, `1st://`) are now decided by it: witnesses that the `@` and `://` clauses of ctx_ok cannot be dropped. *)
Require Import Base Overlap Suggestion Tables_number Number NumberArith NumberLex NumberPasses NumberProofs C17Tails.
From Coq Require Import String List Arith NArith Bool Lia.
Import ListNotations.
Local Open Scope string_scope.
Local Open Scope list_scope.

(* what the rule reports on the document of a text, nothing left open but the Unicode predicates and the later passes *)
Definition lint_full (U : uni) (pp : text -> list token -> list token) (src : text) : res (option (list mlint)) :=
  lint_text U (url_tail U) email_tail pp src.
Definition lint_ascii_full (src : text) : res (option (list mlint)) := lint_full ascii_uni id_passes src.

Theorem lint_iff_full_thm :
  forall (U : uni) (pp : text -> list token -> list token),
  ascii_laws U -> numbers_preserved pp ->
  forall (n : N) (a b : N) (sx : suffix) (pre post : text),
  (n < two53)%N -> from_chars [a; b] = Some sx ->
  ctx_ok U pre (render n) [a; b] post = true ->
  exists ls, lint_full U pp (pre ++ render n ++ [a; b] ++ post) = Ok (Some ls)
    /\ (ls = [] <-> sx = ordinal n)
    /\ (sx <> ordinal n ->
        ls = [mkmlint (mkspan (length pre + length (render n)) (length pre + length (render n) + 2))
                      [ReplaceWith (to_chars (ordinal n))]]).
Proof. intros U pp. exact (lint_iff_thm U (url_tail U) email_tail pp). Qed.

(* raw tokens as (start, end, (kind code, argument)): kind 0 Number, 1 Word, 2 Space, 5 Punctuation, 8 Url, 9 EmailAddress, 10 Hostname *)
Lemma tails_witnesses :
  (* a wrong ordinal glued to an e-mail domain: lex_number takes `2`, lex_email_address takes `st@x.com` -> no lint *)
  run_lex_full ascii_uni (txt "2st@x.com") = Some [(0, 1, (0, 0)); (1, 9, (9, 0))]
  /\ lint_ascii_full (txt "2st@x.com") = Ok (Some [])
  /\ ctx_ok ascii_uni [] (render 2) (txt "st") (txt "@x.com") = false
  (* a wrong ordinal read as a URL scheme: `1`, then `st://` is a Url -> no lint *)
  /\ run_lex_full ascii_uni (txt "1th://") = Some [(0, 1, (0, 0)); (1, 6, (8, 0))]
  /\ lint_ascii_full (txt "1th://") = Ok (Some [])
  /\ ctx_ok ascii_uni [] (render 1) (txt "th") (txt "://") = false
  (* inside a local part / a path the ordinal is swallowed whole *)
  /\ lint_ascii_full (txt "mail me at a.2st@x.com now") = Ok (Some [])
  /\ lint_ascii_full (txt "see http://x.com/2st ok") = Ok (Some [])
  (* the lex_hostport quirk: `http://a.b:80/p%20q/r` is the Url `http://` followed by the host name `a.b:80`... *)
  /\ run_lex_full ascii_uni (txt "http://a.b:80/p") = Some [(0, 7, (8, 0)); (7, 10, (10, 0)); (10, 11, (5, 0)); (11, 13, (0, 0)); (13, 14, (5, 0)); (14, 15, (1, 0))]
  (* next to (not glued to) a URL or an address the ordinals are judged as usual *)
  /\ lint_ascii_full (txt "x 2st http://a.b/p%20q 3th")
     = Ok (Some [mkmlint (mkspan 3 5) [ReplaceWith (txt "nd")]; mkmlint (mkspan 24 26) [ReplaceWith (txt "rd")]])
  /\ lint_ascii_full (txt "write u@x.org the 2st time") = Ok (Some [mkmlint (mkspan 19 21) [ReplaceWith (txt "nd")]]).
Proof. vm_compute. repeat split; reflexivity. Qed.
