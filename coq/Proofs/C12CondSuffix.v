(* C12CondSuffix.v — condense_number_suffixes (+ condense_indices) of Model/Condense.v (frozen) as a FUNCTION
   of the token list, and its behaviour on a glued list.
     sfx_spec src : Number + two-letter Word that spells a suffix become one Number, left to right;
     condense_number_suffixes_fun : on a tiling of the text the pass answers Ok (sfx_spec src ts)
       (proof = CondSuffixQuotes.chunks_spec of C02 with an equation as conclusion);
     sfx_spec_app : splits behind A when the last token of A is not a Number (a ParagraphBreak is not);
     sfx_spec_src / sfx_spec_shift : the pass reads the text only under the tokens it merges. *)
Require Import Base Overlap OverlapProofs Tables_lexer Lexer Condense ListLemmas TokenInv CondenseInv LexerProofs
  CondSuffixQuotes C12CondSpaces.
From Coq Require Import List Arith Lia.
Import ListNotations.

Definition sfx_merge (a b : token) (s : num_suffix) : token := with_end (mark_tok a s) (tend b).

Fixpoint sfx_spec (src : text) (l : list token) : list token :=
  match l with
  | [] => []
  | a :: l' =>
      match l' with
      | b :: r => match hit src a b with
                  | Some s => sfx_merge a b s :: sfx_spec src r
                  | None => a :: sfx_spec src l'
                  end
      | [] => [a]
      end
  end.

Lemma sfx_keep src a l' : hd_hit src a l' = None -> sfx_spec src (a :: l') = a :: sfx_spec src l'.
Proof. destruct l' as [|b r]; cbn [hd_hit sfx_spec]; [reflexivity|]. intros ->. reflexivity. Qed.

Lemma sfx_hit src a b r s : hit src a b = Some s -> sfx_spec src (a :: b :: r) = sfx_merge a b s :: sfx_spec src r.
Proof. intros H. cbn [sfx_spec]. rewrite H. reflexivity. Qed.

Lemma starts_nil_sfx src : forall l i, starts src i l = [] -> sfx_spec src l = l.
Proof.
  induction l as [|a l IH]; intros i H; [reflexivity|]. cbn [starts] in H.
  destruct (hd_hit src a l) eqn:E; [discriminate|]. rewrite (sfx_keep src a l E), (IH (S i) H). reflexivity.
Qed.

Lemma chunks_fun src : forall n l pre idx a S',
  length l <= n -> idx = length pre -> Forall (good src) l ->
  starts src idx l = a :: S' ->
  exists mid, ci_chunks 2 (pre ++ upd src l) (a :: S') = Ok mid /\ idx <= a /\
    firstn (a - idx) (upd src l) ++ mid ++ skipn (last (a :: S') 0 + 2) (pre ++ upd src l) = sfx_spec src l.
Proof.
  induction n as [|n IH]; intros l pre idx a S' Hlen Hidx HF Hst.
  - destruct l; [discriminate Hst|cbn [length] in Hlen; lia].
  - destruct l as [|x l']; [discriminate Hst|].
    inversion HF as [|x0 l0 Hx HF']; subst x0 l0.
    cbn [starts upd] in *. destruct (hd_hit src x l') as [s|] eqn:E.
    + pose proof E as E0. apply hd_hit_some in E. destruct E as [y [r [-> Hhit]]].
      assert (a = idx) as -> by congruence.
      assert (S' = starts src (S idx) (y :: r)) as -> by congruence. clear Hst.
      inversion HF' as [|y0 r0 Hy HFr]; subst y0 r0.
      destruct (hit_some src x y s Hhit) as [nb [_ [Hyk _]]].
      assert (hd_hit src y r = None) as Hnone
        by (destruct r as [|z r']; [reflexivity|cbn [hd_hit]; apply hit_word_none; exact Hyk]).
      cbn [starts upd hd]. rewrite Hnone.
      rewrite (sfx_hit src x y r s Hhit). fold (sfx_merge x y s).
      set (m := sfx_merge x y s).
      rewrite Nat.sub_diag. cbn [firstn app].
      destruct (starts src (S (S idx)) r) as [|b S''] eqn:ES.
      * exists [m]. rewrite ci_chunks_one. unfold nth_chk.
        rewrite (nth_error_mid pre m _ idx Hidx). cbn [bind].
        split; [reflexivity|]. split; [lia|]. cbn [last app].
        rewrite (two_app_assoc pre m y).
        rewrite skipn_app_len by (rewrite app_length; cbn [length]; lia).
        rewrite (starts_nil_upd src r _ ES). rewrite (starts_nil_sfx src r _ ES). reflexivity.
      * destruct (IH r (pre ++ [m; y]) (S (S idx)) b S'') as [mid' [Hmid [Hle HG]]].
        -- cbn [length] in Hlen. lia.
        -- rewrite app_length. cbn [length]. lia.
        -- exact HFr.
        -- exact ES.
        -- rewrite <- (two_app_assoc pre m y) in Hmid, HG.
           assert (b + 1 < S (S idx) + length r) as Hb
             by (apply (starts_bounds src r (S (S idx)) b); rewrite ES; left; reflexivity).
           exists (m :: firstn (b - (idx + 2)) (upd src r) ++ mid').
           rewrite ci_chunks_more. unfold nth_chk.
           rewrite (nth_error_mid pre m _ idx Hidx). cbn [bind].
           unfold slice_chk.
           assert (b <? idx + 2 = false) as -> by (apply Nat.ltb_ge; lia).
           assert (length (pre ++ m :: y :: upd src r) <? b = false) as ->.
           { apply Nat.ltb_ge. rewrite app_length. cbn [length]. rewrite upd_length. lia. }
           cbn [orb bind]. rewrite Hmid. cbn [bind].
           rewrite (two_app_assoc pre m y) at 1.
           rewrite skipn_app_len by (rewrite app_length; cbn [length]; lia).
           split; [reflexivity|]. split; [lia|].
           change (last (idx :: b :: S'') 0) with (last (b :: S'') 0).
           cbn [app]. rewrite <- app_assoc.
           replace (b - S (S idx)) with (b - (idx + 2)) in HG by lia.
           rewrite HG. reflexivity.
    + rewrite (cons_app_assoc pre x).
      destruct (IH l' (pre ++ [x]) (S idx) a S') as [mid [Hmid [Hle HG]]].
      * cbn [length] in Hlen. lia.
      * rewrite app_length. cbn [length]. lia.
      * exact HF'.
      * exact Hst.
      * exists mid. split; [exact Hmid|]. split; [lia|].
        replace (a - idx) with (S (a - S idx)) by lia. cbn [firstn app].
        rewrite (sfx_keep src x l' E). rewrite HG. reflexivity.
Qed.

Theorem condense_number_suffixes_fun : forall src ts, Tiling 0 (length src) ts ->
  condense_number_suffixes src ts = Ok (sfx_spec src ts).
Proof.
  intros src ts HT. pose proof (tiling_good src ts HT) as HF.
  unfold condense_number_suffixes. destruct (length ts <? 2) eqn:E2.
  - apply Nat.ltb_lt in E2. destruct ts as [|a [|b r]]; [reflexivity|reflexivity|cbn [length] in E2; lia].
  - pose proof (ns_loop_spec src ts [] 0 eq_refl HF) as Hns. cbn [app length] in Hns.
    rewrite Hns. cbn [bind]. unfold condense_indices.
    pose proof (ci_update_spec src ts [] 0 eq_refl) as Hup. cbn [app] in Hup.
    rewrite Hup. cbn [bind].
    destruct (starts src 0 ts) as [|a S'] eqn:ES.
    + rewrite (starts_nil_upd src ts 0 ES). cbn [length rev ci_chunks bind].
      unfold slice_chk.
      assert (0 <? 0 = false) as -> by reflexivity.
      assert (length ts <? 0 = false) as -> by reflexivity.
      rewrite Nat.ltb_irrefl. rewrite Nat.sub_diag.
      cbn [orb bind skipn firstn app]. rewrite Nat.sub_0_r. rewrite firstn_all.
      rewrite (starts_nil_sfx src ts 0 ES). reflexivity.
    + destruct (chunks_fun src (length ts) ts [] 0 a S' (le_n _) eq_refl HF ES) as [mid [Hmid [_ HG]]].
      cbn [app] in Hmid, HG. rewrite Nat.sub_0_r in HG.
      assert (a + 1 < 0 + length ts) as Ha
        by (apply (starts_bounds src ts 0 a); rewrite ES; left; reflexivity).
      assert (last (a :: S') 0 + 1 < 0 + length ts) as Hl
        by (apply (starts_bounds src ts 0); rewrite ES; apply last_in).
      destruct (rev_last_head S' a) as [rr Hrev].
      rewrite <- HG.
      unfold slice_chk at 1.
      assert (a <? 0 = false) as -> by reflexivity.
      assert (length (upd src ts) <? a = false) as ->
        by (apply Nat.ltb_ge; rewrite upd_length; lia).
      cbn [orb bind skipn]. rewrite Nat.sub_0_r. rewrite Hmid. cbn [bind]. rewrite Hrev.
      unfold slice_chk.
      assert (length (upd src ts) <? last (a :: S') 0 + 2 = false) as ->
        by (apply Nat.ltb_ge; rewrite upd_length; lia).
      rewrite Nat.ltb_irrefl. cbn [orb bind].
      rewrite (firstn_all2 (skipn (last (a :: S') 0 + 2) (upd src ts)))
        by (rewrite skipn_length; lia).
      reflexivity.
Qed.

(* ---------- the split ---------- *)
(* the last token of A (if any) is not a Number *)
Definition sfx_closed (A : list token) : Prop :=
  forall pre x, A = pre ++ [x] -> is_number (tkind_of x) = false.

Lemma sfx_closed_suffix p S : sfx_closed (p ++ S) -> sfx_closed S.
Proof. intros H pre x E. apply (H (p ++ pre) x). rewrite E, app_assoc. reflexivity. Qed.

Lemma hit_not_number src a b : is_number (tkind_of a) = false -> hit src a b = None.
Proof. unfold hit. intros ->. reflexivity. Qed.

Lemma sfx_spec_app src : forall n A B, length A <= n -> sfx_closed A ->
  sfx_spec src (A ++ B) = sfx_spec src A ++ sfx_spec src B.
Proof.
  induction n as [|n IH]; intros A B Hlen HC.
  - destruct A; [reflexivity|cbn [length] in Hlen; lia].
  - destruct A as [|a [|b r]]; [reflexivity| |].
    + pose proof (HC [] a eq_refl) as Ha. cbn [app].
      rewrite sfx_keep; [reflexivity|]. destruct B as [|b0 B']; [reflexivity|]. cbn [hd_hit].
      apply hit_not_number. exact Ha.
    + cbn [app length] in *. destruct (hit src a b) as [s|] eqn:Hh.
      * rewrite !(sfx_hit src a b _ s Hh). cbn [app]. f_equal.
        apply IH; [lia|]. apply (sfx_closed_suffix [a; b]). exact HC.
      * rewrite (sfx_keep src a (b :: r ++ B)) by exact Hh. rewrite (sfx_keep src a (b :: r)) by exact Hh.
        cbn [app]. f_equal. apply (IH (b :: r) B); [cbn [length]; lia|].
        apply (sfx_closed_suffix [a]). exact HC.
Qed.

(* ---------- the text is read only under the tokens ---------- *)
Lemma slice_app_l {A} (P D : list A) s e : e <= length P -> slice (P ++ D) s e = slice P s e.
Proof.
  intros He. unfold slice. destruct (le_lt_dec s (length P)) as [Hs|Hs].
  - rewrite skipn_app. replace (s - length P) with 0 by lia. cbn [skipn].
    rewrite firstn_app. rewrite skipn_length. replace (e - s - (length P - s)) with 0 by lia.
    cbn [firstn]. rewrite app_nil_r. reflexivity.
  - replace (e - s) with 0 by lia. reflexivity.
Qed.

Lemma slice_app_r {A} (P D : list A) s e : slice (P ++ D) (s + length P) (e + length P) = slice D s e.
Proof.
  unfold slice. replace (e + length P - (s + length P)) with (e - s) by lia.
  rewrite skipn_app. rewrite skipn_all2 by lia. replace (s + length P - length P) with s by lia. reflexivity.
Qed.

Lemma hit_src_l P D a b : tend b <= length P -> hit (P ++ D) a b = hit P a b.
Proof. intros H. unfold hit. rewrite slice_app_l by exact H. reflexivity. Qed.

Lemma hit_src_r P D a b : hit (P ++ D) (shift_tk (length P) a) (shift_tk (length P) b) = hit D a b.
Proof.
  unfold hit. rewrite !shift_tk_kind. unfold tlen. rewrite !shift_tk_start, !shift_tk_end.
  rewrite slice_app_r. replace (tend b + length P - (tstart b + length P)) with (tend b - tstart b) by lia.
  reflexivity.
Qed.

Lemma sfx_spec_src_l P D : forall n A, length A <= n -> Forall (fun t => tend t <= length P) A ->
  sfx_spec (P ++ D) A = sfx_spec P A.
Proof.
  induction n as [|n IH]; intros A Hlen HF.
  - destruct A; [reflexivity|cbn [length] in Hlen; lia].
  - destruct A as [|a [|b r]]; [reflexivity|reflexivity|].
    inversion HF as [|a0 l0 Ha HF1]; subst. inversion HF1 as [|b0 l1 Hb HF2]; subst.
    cbn [length] in Hlen. cbn [sfx_spec]. rewrite (hit_src_l P D a b Hb).
    destruct (hit P a b).
    + f_equal. apply IH; [lia|exact HF2].
    + f_equal. apply (IH (b :: r)); [cbn [length]; lia|exact HF1].
Qed.

Lemma sfx_merge_shift k a b s :
  sfx_merge (shift_tk k a) (shift_tk k b) s = shift_tk k (sfx_merge a b s).
Proof.
  unfold sfx_merge, with_end, mark_tok. rewrite shift_tk_kind, shift_tk_end.
  destruct a as [[sa ea] ka]. destruct ka; reflexivity.
Qed.

Lemma sfx_spec_shift P D : forall n B, length B <= n ->
  sfx_spec (P ++ D) (map (shift_tk (length P)) B) = map (shift_tk (length P)) (sfx_spec D B).
Proof.
  induction n as [|n IH]; intros B Hlen.
  - destruct B; [reflexivity|cbn [length] in Hlen; lia].
  - destruct B as [|a [|b r]]; [reflexivity|reflexivity|].
    cbn [length] in Hlen. cbn [map sfx_spec]. rewrite hit_src_r.
    destruct (hit D a b).
    + cbn [map]. rewrite sfx_merge_shift. f_equal. apply IH. lia.
    + cbn [map]. f_equal. apply (IH (b :: r)). cbn [length]. lia.
Qed.

(* ---------- the three facts together: the pass on the glued tokens over the glued text ---------- *)
Theorem sfx_spec_glue (P D : text) A B :
  sfx_closed A -> Forall (fun t => tend t <= length P) A ->
  sfx_spec (P ++ D) (A ++ map (shift_tk (length P)) B) = sfx_spec P A ++ map (shift_tk (length P)) (sfx_spec D B).
Proof.
  intros HC HF. rewrite (sfx_spec_app (P ++ D) (length A) A _ (le_n _) HC).
  rewrite (sfx_spec_src_l P D (length A) A (le_n _) HF). rewrite (sfx_spec_shift P D (length B) B (le_n _)). reflexivity.
Qed.
