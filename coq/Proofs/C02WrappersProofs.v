(* C02WrappersProofs.v — what holds of the output of the two wrapper parsers (Model/C02Wrappers.v), for every
   inner token vector that satisfies the token invariant of the property (C02Gapped.TokInv):
     IsolateEnglish::parse       never panics; its output is the concatenation of the chunks it keeps, hence a
                                 SUB-SEQUENCE of the inner vector: TokInv / Gapped are preserved; a Tiling becomes
                                 Gapped (and is in general NOT a tiling any more — the root of finding F28);
     CollapseIdentifiers::parse  never panics; its output is a GROUPING of the inner vector (word (sep word)+ runs
                                 the dictionary knows become one Word): TokInv / Gapped / Tiling are preserved. *)
Require Import Base Overlap OverlapProofs Tables_lexer Lexer Condense ListLemmas TokenInv CondenseInv LexerProofs
  CondPatterns3 CondPattern CondSpaces C02Wrappers C02Gapped.
From Coq Require Import List Arith Lia.
Import ListNotations.

(* ================= iter_by: never slices out of range, the pieces concatenate to the list ================= *)
Section IterByProofs.
  Context {A : Type}.
  Variable f : A -> bool.

  Lemma firstn_add x y (l : list A) : firstn (x + y) l = firstn x l ++ firstn y (skipn x l).
  Proof. apply firstn_plus. Qed.

  Lemma slice_adj (l : list A) a b c : a <= b -> b <= c -> slice l a b ++ slice l b c = slice l a c.
  Proof.
    intros H1 H2. unfold slice.
    replace (c - a) with ((b - a) + (c - b)) by lia.
    rewrite firstn_add, skipn_skipn. now replace (b - a + a) with b by lia.
  Qed.

  Lemma slice_0_skip (l : list A) b : slice l 0 b ++ skipn b l = l.
  Proof. unfold slice. cbn [skipn]. rewrite Nat.sub_0_r. apply firstn_skipn. Qed.

  Lemma slice_chk_ok' (l : list A) a b : a <= b -> b <= length l -> slice_chk l a b = Ok (slice l a b).
  Proof.
    intros H1 H2. unfold slice_chk, slice.
    destruct (b <? a) eqn:E1; [apply Nat.ltb_lt in E1; lia|].
    destruct (length l <? b) eqn:E2; [apply Nat.ltb_lt in E2; lia|]. reflexivity.
  Qed.

  Lemma slice_from_ok (l : list A) a : a <= length l -> slice_from l a = Ok (skipn a l).
  Proof.
    intros H. unfold slice_from. destruct (length l <? a) eqn:E; [apply Nat.ltb_lt in E; lia|reflexivity].
  Qed.

  Lemma last_cons_nat (b : nat) r a : last (b :: r) a = last r b.
  Proof.
    revert b a. induction r as [|c r IH]; intros b a; [reflexivity|].
    change (last (b :: c :: r) a) with (last (c :: r) a). rewrite !IH. reflexivity.
  Qed.

  Fixpoint chain_lt (lo : nat) (idx : list nat) (n : nat) : Prop :=
    match idx with
    | [] => True
    | a :: r => lo <= a /\ a < n /\ chain_lt (S a) r n
    end.

  Lemma indices_from_chain i (ts : list A) : chain_lt i (indices_from f i ts) (i + length ts).
  Proof.
    revert i. induction ts as [|t r IH]; intros i; cbn [indices_from length]; [exact I|].
    specialize (IH (S i)). replace (S i + length r) with (i + S (length r)) in IH by lia.
    destruct (f t).
    - cbn [chain_lt]. repeat split; [lia|lia|exact IH].
    - clear -IH. revert IH. generalize (indices_from f (S i) r). intros l.
      destruct l as [|a l]; cbn [chain_lt]; [trivial|]. intros [H1 [H2 H3]]. repeat split; [lia|lia|exact H3].
  Qed.

  Lemma indices_from_app i (a b : list A) :
    indices_from f i (a ++ b) = indices_from f i a ++ indices_from f (i + length a) b.
  Proof.
    revert i. induction a as [|x a IH]; intros i; cbn [app indices_from length].
    - now rewrite Nat.add_0_r.
    - rewrite IH. replace (S i + length a) with (i + S (length a)) by lia. now destruct (f x).
  Qed.

  Definition last_opt (l : list nat) : option nat :=
    match l with [] => None | a :: r => Some (last r a) end.

  Lemma last_opt_app_single l x : last_opt (l ++ [x]) = Some x.
  Proof.
    destruct l as [|a l]; [reflexivity|]. cbn [app last_opt]. f_equal.
    revert a. induction l as [|b l IH]; intros a; [reflexivity|]. cbn [app]. rewrite last_cons_nat.
    rewrite <- (IH b) at 2. reflexivity.
  Qed.

  Lemma last_index_spec (ts : list A) : last_index f ts = Ok (last_opt (indices_from f 0 ts)).
  Proof.
    unfold last_index.
    induction ts as [|x ts IH] using rev_ind; [reflexivity|].
    rewrite rev_unit, indices_from_app, app_length. cbn [position length indices_from Nat.add].
    destruct (f x) eqn:Fx.
    - rewrite last_opt_app_single. unfold sub_chk.
      replace (length ts + 1 <? 0) with false by (symmetry; apply Nat.ltb_ge; lia).
      cbn [bind]. replace (length ts + 1 - 0 <? 1) with false by (symmetry; apply Nat.ltb_ge; lia).
      cbn [bind]. do 2 f_equal. lia.
    - rewrite app_nil_r.
      destruct (position f (rev ts)) as [i|] eqn:P.
      + destruct (last_opt (indices_from f 0 ts)) as [L|] eqn:EL.
        * unfold sub_chk in *.
          destruct (length ts <? i) eqn:E1; [discriminate|]. cbn [bind] in IH.
          destruct (length ts - i <? 1) eqn:E2; [discriminate|]. cbn [bind] in IH.
          apply Nat.ltb_ge in E1. apply Nat.ltb_ge in E2.
          replace (length ts + 1 <? S i) with false by (symmetry; apply Nat.ltb_ge; lia).
          cbn [bind]. replace (length ts + 1 - S i <? 1) with false by (symmetry; apply Nat.ltb_ge; lia).
          cbn [bind]. injection IH as IH. do 2 f_equal. lia.
        * unfold sub_chk in IH. destruct (length ts <? i); [discriminate|]. cbn [bind] in IH.
          destruct (length ts - i <? 1); discriminate.
      + destruct (last_opt (indices_from f 0 ts)); [discriminate|reflexivity].
  Qed.

  Lemma windows_spec (ts : list A) a r :
    chain_lt a (a :: r) (length ts) ->
    exists ws, windows ts (a :: r) = Ok ws /\ concat ws = slice ts (S a) (S (last r a)).
  Proof.
    revert a. induction r as [|b r IH]; intros a H.
    - exists []. split; [reflexivity|]. cbn [last concat]. unfold slice. now rewrite Nat.sub_diag.
    - destruct H as [_ [Ha [Hb1 [Hb2 Hr]]]].
      destruct (IH b) as [ws [E C]]; [cbn [chain_lt]; repeat split; [lia|lia|exact Hr]|].
      cbn [windows]. rewrite slice_chk_ok' by lia. cbn [bind].
      cbn [windows] in E. rewrite E. cbn [bind].
      eexists. split; [reflexivity|]. cbn [concat]. rewrite C.
      assert (b <= last r b) as HL.
      { clear -Hr. revert b Hr. induction r as [|c r IH]; intros b Hr; [cbn; lia|].
        destruct Hr as [H1 [H2 H3]]. specialize (IH c H3). rewrite last_cons_nat. lia. }
      rewrite last_cons_nat.
      apply slice_adj; lia.
  Qed.

  Lemma chain_last_lt a r n : chain_lt a (a :: r) n -> last r a < n.
  Proof.
    revert a. induction r as [|b r IH]; intros a H; [cbn in *; lia|].
    destruct H as [_ [_ [H1 [H2 H3]]]]. rewrite last_cons_nat. apply IH. cbn [chain_lt]. repeat split; [lia|lia|exact H3].
  Qed.

  Theorem iter_by_total (ts : list A) : exists cs, iter_by f ts = Ok cs /\ concat cs = ts.
  Proof.
    unfold iter_by. rewrite last_index_spec.
    pose proof (indices_from_chain 0 ts) as HC. cbn [Nat.add] in HC.
    destruct (indices_from f 0 ts) as [|a r] eqn:EI.
    - cbn [windows bind last_opt]. exists [ts]. split; [reflexivity|]. cbn. apply app_nil_r.
    - assert (chain_lt a (a :: r) (length ts)) as HC'.
      { destruct HC as [_ [H2 H3]]. cbn [chain_lt]. repeat split; [lia|lia|exact H3]. }
      destruct HC as [_ [Ha _]].
      rewrite slice_chk_ok' by lia. cbn [bind].
      destruct (windows_spec ts a r HC') as [ws [EW CW]]. rewrite EW. cbn [bind last_opt].
      pose proof (chain_last_lt a r _ HC') as HL.
      assert (a <= last r a) as HA.
      { clear -HC'. revert a HC'. induction r as [|b r IH]; intros a H; [cbn; lia|].
        destruct H as [_ [_ [H1 [H2 H3]]]]. rewrite last_cons_nat.
        assert (b <= last r b); [|lia]. apply IH. cbn [chain_lt]. repeat split; [lia|lia|exact H3]. }
      destruct (S (last r a) <? length ts) eqn:E.
      + apply Nat.ltb_lt in E. rewrite slice_from_ok by lia. cbn [bind].
        eexists. split; [reflexivity|].
        cbn [app]. rewrite concat_cons, concat_app, CW. cbn [concat]. rewrite app_nil_r, app_assoc.
        rewrite slice_adj by lia. apply slice_0_skip.
      + apply Nat.ltb_ge in E. cbn [bind].
        eexists. split; [reflexivity|].
        cbn [app]. rewrite concat_cons, app_nil_r, CW, slice_adj by lia.
        rewrite <- (slice_0_skip ts (S (last r a))) at 2.
        rewrite (skipn_all2 ts) by lia. now rewrite app_nil_r.
  Qed.
End IterByProofs.

Lemma Forall_concat_inv {A} (Q : A -> Prop) (cs : list (list A)) :
  Forall Q (concat cs) -> Forall (Forall Q) cs.
Proof.
  induction cs as [|c cs IH]; intros H; [constructor|]. cbn [concat] in H.
  apply Forall_app in H. destruct H. constructor; [assumption|now apply IH].
Qed.

(* ================= IsolateEnglish ================= *)
(* the only operation of is_likely_english that can panic is get_content of a Word token *)
Definition wgood (src : text) (t : token) : Prop :=
  is_word (tkind_of t) = true -> tstart t < tend t /\ tend t <= length src.

Lemma get_content_in (src : text) sp : sstart sp < send sp -> send sp <= length src ->
  get_content sp src = Ok (slice src (sstart sp) (send sp)).
Proof.
  intros H1 H2. unfold get_content, try_get_content.
  assert (send sp <? sstart sp = false) as -> by (apply Nat.ltb_ge; lia).
  assert (length src <=? sstart sp = false) as -> by (apply Nat.leb_gt; lia).
  assert (length src <? send sp = false) as -> by (apply Nat.ltb_ge; lia).
  reflexivity.
Qed.

Lemma le_count_total dict src : forall toks total valid punc unl,
  Forall (wgood src) toks -> valid <= total ->
  exists total' valid' punc' unl', le_count dict src toks (total, valid, punc, unl) = Ok (total', valid', punc', unl')
    /\ valid' <= total'.
Proof.
  induction toks as [|t r IH]; intros total valid punc unl HF Hle.
  - exists total, valid, punc, unl. split; [reflexivity|exact Hle].
  - inversion HF as [|t0 r0 Ht Hr]; subst. cbn [le_count].
    destruct (tkind_of t) eqn:Ek; try (apply IH; assumption).
    destruct (Ht ltac:(unfold is_word; rewrite Ek; reflexivity)) as [G1 G2].
    rewrite (get_content_in src (tspan t) G1 G2). cbn [bind].
    apply IH; [exact Hr|]. destruct (dict _); lia.
Qed.

Lemma is_likely_english_total dict src toks : Forall (wgood src) toks ->
  exists b, is_likely_english dict src toks = Ok b.
Proof.
  intros HF. unfold is_likely_english.
  destruct (le_count_total dict src toks 0 0 0 0 HF (le_n _)) as (total & valid & punc & unl & E & Hle).
  rewrite E. cbn [bind]. unfold sub_chk.
  assert (total <? valid = false) as -> by (apply Nat.ltb_ge; lia). cbn [bind].
  destruct (_ && _); [eexists; reflexivity|].
  destruct (valid <? unl); [eexists; reflexivity|].
  destruct (4 * valid <? 5 * punc); [eexists; reflexivity|].
  destruct (_ && _); eexists; reflexivity.
Qed.

(* which chunks IsolateEnglish keeps *)
Definition ie_keep (dict : text -> bool) (src : text) (c : list token) : bool :=
  (length c <? 4) || match is_likely_english dict src c with Ok true => true | _ => false end.

Lemma ie_chunks_spec dict src : forall chunks, Forall (Forall (wgood src)) chunks ->
  ie_chunks dict src chunks = Ok (concat (filter (ie_keep dict src) chunks)).
Proof.
  induction chunks as [|c r IH]; intros HF; [reflexivity|].
  inversion HF as [|c0 r0 Hc Hr]; subst. cbn [ie_chunks filter]. rewrite (IH Hr). unfold ie_keep at 2.
  destruct (length c <? 4) eqn:E4; cbn [bind orb].
  - cbn [concat]. reflexivity.
  - destruct (is_likely_english_total dict src c Hc) as [b Eb]. rewrite Eb. cbn [bind].
    destruct b; reflexivity.
Qed.

Lemma filter_concat_sub {A} (p : list A -> bool) : forall cs, Sub (concat (filter p cs)) (concat cs).
Proof.
  induction cs as [|c cs IH]; [constructor|]. cbn [filter concat]. destruct (p c).
  - cbn [concat]. apply sub_app; [apply sub_refl|exact IH].
  - apply sub_app_drop. exact IH.
Qed.

(* IsolateEnglish never panics on a vector whose Word tokens lie inside the text, keeps whole chunks, in
   order: its output is a sub-sequence of the inner vector *)
Theorem isolate_english_spec dict src inner : Forall (wgood src) inner ->
  exists chunks, iter_chunks inner = Ok chunks /\ concat chunks = inner /\
    isolate_english dict src inner = Ok (concat (filter (ie_keep dict src) chunks)) /\
    Sub (concat (filter (ie_keep dict src) chunks)) inner.
Proof.
  intros HF. unfold isolate_english, iter_chunks.
  destruct (iter_by_total (fun t => is_chunk_terminator (tkind_of t)) inner) as [cs [E C]].
  exists cs. split; [exact E|]. split; [exact C|]. rewrite E. cbn [bind].
  split.
  - apply ie_chunks_spec. apply Forall_concat_inv. rewrite C. exact HF.
  - rewrite <- C. apply filter_concat_sub.
Qed.

Lemma tokinv_wgood src ts : TokInv (length src) ts -> Forall (wgood src) ts.
Proof.
  intros [H1 [H2 [_ H4]]]. unfold InBounds, ZeroWidthOnlyBreaks in *. rewrite Forall_forall in *.
  intros t Hin Hw. specialize (H1 t Hin). specialize (H2 t Hin). specialize (H4 t Hin). cbn beta in *.
  assert (tstart t <> tend t) as Hne.
  { intros E. specialize (H4 E). destruct (tkind_of t); try discriminate; exact H4. }
  split; [lia|apply H2; lia].
Qed.

Theorem isolate_english_tokinv dict src inner : TokInv (length src) inner ->
  exists out, isolate_english dict src inner = Ok out /\ Sub out inner /\ TokInv (length src) out.
Proof.
  intros HI. destruct (isolate_english_spec dict src inner (tokinv_wgood _ _ HI)) as [cs [_ [_ [E S]]]].
  eexists. split; [exact E|]. split; [exact S|]. eapply tokinv_sub; eauto.
Qed.

Theorem isolate_english_gapped dict src inner a b : a <= b -> b <= length src -> Gapped a b inner ->
  exists out, isolate_english dict src inner = Ok out /\ Sub out inner /\ Gapped a b out.
Proof.
  intros Hab Hb HG.
  assert (Forall (wgood src) inner) as HW.
  { pose proof (gapped_nonempty _ _ _ HG) as N. pose proof (gapped_in_range _ _ _ HG) as R.
    rewrite Forall_forall in *. intros t Hin _. specialize (N t Hin). specialize (R t Hin). cbn beta in *. lia. }
  destruct (isolate_english_spec dict src inner HW) as [cs [_ [_ [E S]]]].
  eexists. split; [exact E|]. split; [exact S|]. eapply gapped_sub; eauto.
Qed.

(* ================= CollapseIdentifiers ================= *)
(* ---------- the pattern ---------- *)
Definition ident_len (l : list token) : nat :=
  match l with
  | w :: r => if is_word (tkind_of w) then (if sepword_run r =? 0 then 0 else 1 + sepword_run r) else 0
  | [] => 0
  end.

Lemma ident_matches_len src l : ident_matches src l = Ok (ident_len l).
Proof. destruct l as [|w r]; [reflexivity|]. cbn. destruct (is_word (tkind_of w)); reflexivity. Qed.

Lemma sepword_run_le : forall n l, length l <= n -> sepword_run l <= length l.
Proof.
  induction n as [|n IH]; intros l Hl.
  - destruct l; [cbn; lia|cbn in Hl; lia].
  - destruct l as [|s [|w r]]; cbn [sepword_run length]; try lia.
    destruct (_ && _); [|lia]. cbn [length] in Hl. specialize (IH r ltac:(lia)). lia.
Qed.

Lemma ident_len_le l : ident_len l <= length l.
Proof.
  destruct l as [|w r]; [cbn; lia|]. cbn [ident_len length]. destruct (is_word _); [|lia].
  pose proof (sepword_run_le (length r) r (le_n _)). destruct (sepword_run r =? 0); lia.
Qed.

Lemma sep_not_word k : is_case_separator k = true -> is_word k = false.
Proof. destruct k; try discriminate. reflexivity. Qed.

(* a match that starts strictly inside another match ends where that one ends *)
Lemma ident_inner : forall n l d, length l <= n -> 0 < d -> d < ident_len l -> 0 < ident_len (skipn d l) ->
  d + ident_len (skipn d l) = ident_len l.
Proof.
  induction n as [|n IH]; intros l d Hl Hd Hdl Hpos.
  - destruct l; [cbn in Hdl; lia|cbn in Hl; lia].
  - destruct l as [|w r]; [cbn in Hdl; lia|]. cbn [ident_len] in Hdl |- *.
    destruct (is_word (tkind_of w)) eqn:Ew; [|lia].
    destruct (sepword_run r =? 0) eqn:E0; [lia|]. apply Nat.eqb_neq in E0.
    destruct r as [|s [|w' r']]; cbn [sepword_run] in *; try lia.
    destruct (is_case_separator (tkind_of s) && is_word (tkind_of w')) eqn:Esw; [|lia].
    apply andb_prop in Esw. destruct Esw as [Es Ew'].
    destruct d as [|[|d']]; [lia| |].
    + cbn [skipn ident_len] in Hpos. rewrite (sep_not_word _ Es) in Hpos. lia.
    + change (skipn (S (S d')) (w :: s :: w' :: r')) with (skipn d' (w' :: r')) in *.
      destruct d' as [|d''].
      * cbn [skipn] in *. cbn [ident_len] in *. rewrite Ew' in *.
        destruct (sepword_run r' =? 0); lia.
      * assert (ident_len (w' :: r') = 1 + sepword_run r' /\ sepword_run r' <> 0) as [EL NZ].
        { cbn [ident_len]. rewrite Ew'. destruct (sepword_run r' =? 0) eqn:Z; [|apply Nat.eqb_neq in Z; lia].
          apply Nat.eqb_eq in Z. lia. }
        pose proof (IH (w' :: r') (S d'') ltac:(cbn [length] in *; lia) ltac:(lia) ltac:(lia) Hpos) as H.
        lia.
Qed.

Lemma ident_ok src ts : matcher_ok (ident_matches src) ts /\ monotone_ends (ident_matches src) ts.
Proof.
  split.
  - apply matcher_ok_local. intros i _. rewrite ident_matches_len. eexists. split; [reflexivity|apply ident_len_le].
  - intros i j Hij Hj Hi Hjm. unfold match_len in *. rewrite !ident_matches_len in *.
    destruct (Nat.lt_ge_cases j (i + ident_len (skipn i ts))) as [Hin|Hout]; [|lia].
    pose proof (ident_inner (length (skipn i ts)) (skipn i ts) (j - i) (le_n _) ltac:(lia) ltac:(lia)) as H.
    rewrite skipn_skipn in H. replace (j - i + i) with j in H by lia. specialize (H Hjm). lia.
Qed.

(* ---------- what a match is: word (separator word)+ ---------- *)
Inductive SepWords : list token -> Prop :=
| SW_one : forall s w, is_case_separator (tkind_of s) = true -> is_word (tkind_of w) = true -> SepWords [s; w]
| SW_more : forall s w r, is_case_separator (tkind_of s) = true -> is_word (tkind_of w) = true ->
    SepWords r -> SepWords (s :: w :: r).
Definition IdentRun (g : list token) : Prop :=
  exists w r, g = w :: r /\ is_word (tkind_of w) = true /\ SepWords r.

Lemma sepword_run_app : forall n r R, length r <= n -> r <> [] -> sepword_run (r ++ R) = length r -> SepWords r.
Proof.
  induction n as [|n IH]; intros r R Hl Hne H.
  - destruct r; [contradiction|cbn in Hl; lia].
  - destruct r as [|s [|w r']]; [contradiction| |].
    + cbn [app sepword_run length] in H. destruct R as [|w R']; [lia|]. destruct (_ && _); lia.
    + cbn [app sepword_run length] in H.
      destruct (is_case_separator (tkind_of s) && is_word (tkind_of w)) eqn:E; [|lia].
      apply andb_prop in E. destruct E as [Es Ew].
      destruct r' as [|x r''].
      * apply SW_one; assumption.
      * apply SW_more; [assumption|assumption|].
        apply (IH (x :: r'') R); [cbn [length] in *; lia|discriminate|]. cbn [length] in *. lia.
Qed.

Lemma ident_match_run g R : g <> [] -> ident_len (g ++ R) = length g -> IdentRun g.
Proof.
  intros Hne H. destruct g as [|w r]; [contradiction|]. cbn [app ident_len length] in H.
  destruct (is_word (tkind_of w)) eqn:Ew; [|lia].
  destruct (sepword_run (r ++ R) =? 0) eqn:E0; [lia|].
  exists w, r. split; [reflexivity|]. split; [exact Ew|].
  apply (sepword_run_app (length r) r R (le_n _)); [|lia].
  intros ->. cbn [app length] in *. apply Nat.eqb_neq in E0. lia.
Qed.

Definition word_or_sep (t : token) : Prop :=
  is_word (tkind_of t) = true \/ is_case_separator (tkind_of t) = true.

Lemma sepwords_kinds r : SepWords r -> Forall word_or_sep r.
Proof.
  induction 1 as [s w Hs Hw|s w r Hs Hw Hr IH].
  - constructor; [right; exact Hs|]. constructor; [left; exact Hw|constructor].
  - constructor; [right; exact Hs|]. constructor; [left; exact Hw|exact IH].
Qed.
Lemma identrun_kinds g : IdentRun g -> Forall word_or_sep g.
Proof. intros [w [r [-> [Hw Hr]]]]. constructor; [left; exact Hw|apply sepwords_kinds; exact Hr]. Qed.

(* ---------- the hypotheses of the theorem: the tokens a match can touch cover characters of the text ---------- *)
Definition wsgood (src : text) (t : token) : Prop :=
  word_or_sep t -> tstart t < tend t /\ tend t <= length src.

Lemma ordered_from_skip : forall pre lo l, OrderedFrom lo (pre ++ l) -> exists lo', OrderedFrom lo' l.
Proof.
  induction pre as [|x pre IH]; intros lo l H; cbn [app] in H; [eauto|].
  inversion H; subst; eauto.
Qed.

Lemma ordered_from_prefix : forall l lo rest, OrderedFrom lo (l ++ rest) -> OrderedFrom lo l.
Proof.
  induction l as [|x l IH]; intros lo rest H; cbn [app] in H; [constructor|].
  inversion H; subst; [apply OF_zero; eauto|apply OF_cons; eauto].
Qed.

Lemma ordered_first_last : forall g' t0 lo, OrderedFrom lo (t0 :: g') -> Forall covers_chars (t0 :: g') ->
  lo <= tstart t0 /\ tstart t0 < tend (last g' t0).
Proof.
  induction g' as [|t1 g'' IH]; intros t0 lo HO HC.
  - inversion HC as [|x l C0 _]; subst. unfold covers_chars in C0. cbn [last].
    inversion HO; subst; [contradiction|]. lia.
  - inversion HC as [|x l C0 C1]; subst.
    inversion HO as [|lo0 t ts Hz Hr|lo0 t ts Hc Hlo Hr]; subst; [contradiction|].
    destruct (IH t1 (tend t0) Hr C1) as [I1 I2]. unfold covers_chars in C0.
    assert (last (t1 :: g'') t0 = last g'' t1) as -> by apply last_cons_tok. lia.
Qed.

Section Collapse.
  Variable dict : text -> bool.
  Variable src : text.
  Variable ts : list token.
  Hypothesis Hord : OrderedDisjoint ts.
  Hypothesis Hgood : Forall (wsgood src) ts.

  Let m := ident_matches src.

  (* the grouping rule: a run `word (separator word)+` whose text the dictionary contains becomes one Word *)
  Definition G_ident (g : list token) (k : tkind) : Prop :=
    Gsingle g k \/
    (IdentRun g /\ Forall (fun t => tstart t < tend t /\ tend t <= length src) g /\ k = KWord /\
     dict (slice src (group_start g) (group_end g)) = true).

  Lemma G_ident_single t : G_ident [t] (tkind_of t).
  Proof. left. exists t. split; reflexivity. Qed.

  Lemma nth_error_last_of_group (P : list token) t0 g' R st en :
    length P = st -> length (t0 :: g') = en - st -> st < en ->
    nth_error (P ++ (t0 :: g') ++ R) (en - 1) = Some (last g' t0).
  Proof.
    intros HP Hg Hlt. rewrite nth_error_app2 by lia. rewrite nth_error_app1 by (rewrite Hg; lia).
    replace (en - 1 - length P) with (length g') by (cbn [length] in Hg; lia).
    clear. revert t0. induction g' as [|x g IH]; intros t0; [reflexivity|].
    cbn [length nth_error]. rewrite IH. f_equal. symmetry. apply last_cons_tok.
  Qed.

  (* the facts one kept match provides *)
  Lemma match_facts P t0 g' R :
    ts = P ++ (t0 :: g') ++ R -> ident_len ((t0 :: g') ++ R) = length (t0 :: g') ->
    IdentRun (t0 :: g') /\ Forall (fun t => tstart t < tend t /\ tend t <= length src) (t0 :: g') /\
    tstart t0 < tend (last g' t0) /\ tend (last g' t0) <= length src.
  Proof.
    intros Ets Hm. pose proof (ident_match_run (t0 :: g') R ltac:(discriminate) Hm) as HR.
    split; [exact HR|].
    pose proof (identrun_kinds _ HR) as HK.
    assert (Forall (wsgood src) (t0 :: g')) as HG.
    { rewrite Ets in Hgood. apply Forall_app in Hgood. destruct Hgood as [_ H].
      apply Forall_app in H. destruct H as [H _]. exact H. }
    assert (Forall (fun t => tstart t < tend t /\ tend t <= length src) (t0 :: g')) as HC.
    { rewrite Forall_forall in *. intros t Hin. apply (HG t Hin). apply (HK t Hin). }
    assert (Forall covers_chars (t0 :: g')) as HCov
      by (eapply Forall_impl; [|exact HC]; unfold covers_chars; cbn; intros; lia).
    unfold OrderedDisjoint in Hord. rewrite Ets in Hord.
    destruct (ordered_from_skip _ _ _ Hord) as [lo' HO]. apply ordered_from_prefix in HO.
    destruct (ordered_first_last g' t0 lo' HO HCov) as [_ H1]. split; [exact HC|]. split; [exact H1|].
    assert (In (last g' t0) (t0 :: g')) as Hin.
    { clear. revert t0. induction g' as [|x g IH]; intros t0; [left; reflexivity|].
      right. rewrite last_cons_tok. apply IH. }
    rewrite Forall_forall in HC. apply (HC _ Hin).
  Qed.

  Lemma ci_apply_spec : forall kept lo pre, length pre = lo -> lo <= length ts -> DS m ts lo kept ->
    exists suf' q, ci_apply dict src kept (pre ++ skipn lo ts) = Ok (pre ++ suf', q) /\
      length suf' = length ts - lo /\
      QueueIn lo (length ts) q /\
      Grouped G_ident (skipn lo ts) (remove_indices lo q suf').
  Proof.
    induction kept as [|s kept IH]; intros lo pre Hpre Hlo HD.
    - exists (skipn lo ts), []. split; [reflexivity|]. split; [apply skipn_length|]. split; [constructor|].
      rewrite remove_indices_nil. apply grouped_refl. exact G_ident_single.
    - inversion HD as [|lo' s' rest Hls [Hm1 [Hm2 Hm3]] HD']; subst lo' s' rest.
      destruct s as [st en]. cbn [sstart send] in *.
      destruct (skipn_cons_split ts lo st en Hls Hm1 Hm2) as [A0 [t0 [g' [E1 [LA [Lg E2]]]]]].
      pose proof (firstn_skipn st ts) as Ets. rewrite E2 in Ets.
      unfold m in Hm3. rewrite ident_matches_len in Hm3. rewrite E2 in Hm3.
      assert (ident_len ((t0 :: g') ++ skipn en ts) = length (t0 :: g')) as Hm3' by (rewrite Lg; congruence).
      destruct (match_facts (firstn st ts) t0 g' (skipn en ts) (eq_sym Ets) Hm3') as [HR [HCg [HS1 HS2]]].
      destruct (cp_step_ops (pre ++ A0) t0 g' (skipn en ts) st en) as [_ [Hnth Hset]].
      { rewrite app_length. lia. }
      { exact Lg. }
      { exact Hm1. }
      assert (Hlast : nth_chk ((pre ++ A0) ++ (t0 :: g') ++ skipn en ts) (en - 1) = Ok (last g' t0)).
      { unfold nth_chk. rewrite (nth_error_last_of_group (pre ++ A0) t0 g' (skipn en ts) st en);
          [reflexivity|rewrite app_length; lia|exact Lg|exact Hm1]. }
      assert (Hsub : sub_chk en 1 = Ok (en - 1)).
      { unfold sub_chk. assert (en <? 1 = false) as -> by (apply Nat.ltb_ge; lia). reflexivity. }
      assert (Hspan : span_new (tstart t0) (tend (last g' t0)) = Ok (mkspan (tstart t0) (tend (last g' t0)))).
      { unfold span_new. assert (tend (last g' t0) <? tstart t0 = false) as -> by (apply Nat.ltb_ge; lia).
        reflexivity. }
      assert (Hcont : get_content (mkspan (tstart t0) (tend (last g' t0))) src
                      = Ok (slice src (tstart t0) (tend (last g' t0))))
        by (apply get_content_in; cbn [sstart send]; assumption).
      assert (Hgs : group_start (t0 :: g') = tstart t0) by reflexivity.
      assert (Hge : group_end (t0 :: g') = tend (last g' t0)) by (unfold group_end; rewrite last_cons_tok; reflexivity).
      assert (Hstep : ci_apply dict src (mkspan st en :: kept) (pre ++ skipn lo ts) =
                do start_tok <- Ok t0;
                do content <- Ok (slice src (tstart t0) (tend (last g' t0)));
                if dict content then
                  do '(toksF, q) <- ci_apply dict src kept
                       ((pre ++ A0 ++ mktok (mkspan (tstart t0) (tend (last g' t0))) KWord :: g') ++ skipn en ts);
                  Ok (toksF, seq (st + 1) (en - (st + 1)) ++ q)
                else ci_apply dict src kept ((pre ++ A0 ++ t0 :: g') ++ skipn en ts)).
      { cbn [ci_apply sstart send]. rewrite E1.
        replace (pre ++ A0 ++ (t0 :: g') ++ skipn en ts) with ((pre ++ A0) ++ (t0 :: g') ++ skipn en ts)
          by (rewrite <- app_assoc; reflexivity).
        rewrite Hnth. cbn [bind]. rewrite Hsub. cbn [bind]. rewrite Hlast. cbn [bind].
        rewrite Hspan. cbn [bind]. rewrite Hcont. cbn [bind].
        destruct (dict _).
        - rewrite Hset. cbn [bind].
          replace ((pre ++ A0) ++ (mktok (mkspan (tstart t0) (tend (last g' t0))) KWord :: g') ++ skipn en ts)
            with ((pre ++ A0 ++ mktok (mkspan (tstart t0) (tend (last g' t0))) KWord :: g') ++ skipn en ts)
            by (rewrite <- !app_assoc; reflexivity).
          reflexivity.
        - replace ((pre ++ A0) ++ (t0 :: g') ++ skipn en ts) with ((pre ++ A0 ++ t0 :: g') ++ skipn en ts)
            by (rewrite <- !app_assoc; reflexivity).
          reflexivity. }
      rewrite Hstep. cbn [bind]. clear Hstep.
      assert (Lsk : length (skipn en ts) = length ts - en) by apply skipn_length.
      destruct (dict (slice src (tstart t0) (tend (last g' t0)))) eqn:Ed.
      + (* collapsed *)
        set (x := mktok (mkspan (tstart t0) (tend (last g' t0))) KWord) in *.
        destruct (IH en (pre ++ A0 ++ x :: g')) as [suf' [q' [Hcp [Ls [Hq' HG]]]]].
        { rewrite !app_length. cbn [length] in *. lia. }
        { lia. }
        { exact HD'. }
        exists (A0 ++ (x :: g') ++ suf'), (seq (st + 1) (en - (st + 1)) ++ q').
        rewrite Hcp. cbn [bind]. split; [|split; [|split]].
        * f_equal. f_equal. rewrite <- !app_assoc. reflexivity.
        * rewrite !app_length. cbn [length] in *. lia.
        * eapply (queue_in_app lo en); [lia|lia| |exact Hq'].
          apply CondPattern.queue_in_seq; lia.
        * rewrite E1.
          pose proof (remove_indices_app A0 ((x :: g') ++ suf') lo [] (seq (st + 1) (en - (st + 1)) ++ q')) as R1.
          change ([] ++ seq (st + 1) (en - (st + 1)) ++ q') with (seq (st + 1) (en - (st + 1)) ++ q') in R1.
          rewrite R1; clear R1.
          2:{ constructor. }
          2:{ intros r Hr. apply in_app_or in Hr. destruct Hr as [Hr|Hr].
              - apply in_seq in Hr. lia.
              - apply (queue_in_ge _ _ _ Hq') in Hr. lia. }
          rewrite remove_indices_nil. replace (lo + length A0) with st by lia.
          assert (length (x :: g') = en - st) as Lx by (cbn [length] in *; lia).
          rewrite remove_indices_app.
          2:{ apply CondPattern.queue_in_seq; [lia|]. rewrite Lx. lia. }
          2:{ intros r Hr. apply (queue_in_ge _ _ _ Hq') in Hr. rewrite Lx. lia. }
          rewrite Lx. replace (st + (en - st)) with en by lia.
          rewrite remove_indices_group by (cbn [length] in Lg; lia).
          apply grouped_app.
          -- apply grouped_refl. exact G_ident_single.
          -- replace x with (group_token (t0 :: g') KWord)
               by (unfold group_token; rewrite Hgs, Hge; reflexivity).
             cbn [app]. apply (Grouped_cons G_ident (t0 :: g') KWord (skipn en ts)).
             ++ discriminate.
             ++ right. split; [exact HR|]. split; [exact HCg|]. split; [reflexivity|]. rewrite Hgs, Hge. exact Ed.
             ++ exact HG.
      + (* the dictionary does not know the identifier: nothing changes *)
        destruct (IH en (pre ++ A0 ++ t0 :: g')) as [suf' [q' [Hcp [Ls [Hq' HG]]]]].
        { rewrite !app_length. cbn [length] in *. lia. }
        { lia. }
        { exact HD'. }
        exists (A0 ++ (t0 :: g') ++ suf'), q'.
        rewrite Hcp. split; [|split; [|split]].
        * f_equal. f_equal. rewrite <- !app_assoc. reflexivity.
        * rewrite !app_length. cbn [length] in *. lia.
        * eapply queue_in_weaken; [|exact Hq']. lia.
        * rewrite E1.
          pose proof (remove_indices_app A0 ((t0 :: g') ++ suf') lo [] q') as R1.
          change ([] ++ q') with q' in R1. rewrite R1; clear R1.
          2:{ constructor. }
          2:{ intros r Hr. apply (queue_in_ge _ _ _ Hq') in Hr. lia. }
          rewrite remove_indices_nil. replace (lo + length A0) with st by lia.
          pose proof (remove_indices_app (t0 :: g') suf' st [] q') as R2.
          change ([] ++ q') with q' in R2. rewrite R2; clear R2.
          2:{ constructor. }
          2:{ intros r Hr. apply (queue_in_ge _ _ _ Hq') in Hr. rewrite Lg. lia. }
          rewrite remove_indices_nil. rewrite Lg. replace (st + (en - st)) with en by lia.
          apply grouped_app; [apply grouped_refl; exact G_ident_single|].
          apply grouped_app; [apply grouped_refl; exact G_ident_single|exact HG].
  Qed.
End Collapse.

(* ---------- `.sorted().unique()` leaves a strictly increasing queue alone ---------- *)
Lemma sorted_incr lo hi q : QueueIn lo hi q -> sorted q = q.
Proof.
  induction 1 as [|lo hi r q Hlo Hhi HQ IH]; [reflexivity|].
  unfold sorted in *. cbn [fold_right]. rewrite IH.
  inversion HQ as [|lo' hi' r' q' Hlo' Hhi' HQ']; subst; [reflexivity|]. cbn [insert_sorted].
  assert (r <=? r' = true) as -> by (apply Nat.leb_le; lia). reflexivity.
Qed.

Lemma unique_incr lo hi q : QueueIn lo hi q -> forall seen, (forall s, In s seen -> s < lo) -> unique_from seen q = q.
Proof.
  induction 1 as [|lo hi r q Hlo Hhi HQ IH]; intros seen Hs; [reflexivity|]. cbn [unique_from].
  assert (existsb (Nat.eqb r) seen = false) as ->.
  { apply not_true_is_false. intros E. apply existsb_exists in E. destruct E as [s [Hin E]].
    apply Nat.eqb_eq in E. subst s. specialize (Hs r Hin). lia. }
  f_equal. apply IH. intros s [<-|Hin]; [lia|]. specialize (Hs s Hin). lia.
Qed.

Lemma sorted_unique_incr lo hi q : QueueIn lo hi q -> sorted_unique q = q.
Proof.
  intros H. unfold sorted_unique. rewrite (sorted_incr _ _ _ H). apply (unique_incr _ _ _ H). intros s [].
Qed.

(* CollapseIdentifiers never panics on an ordered vector whose Word / Hyphen / Underscore tokens cover
   characters of the text, and its output is a grouping of the inner vector *)
Theorem collapse_identifiers_grouped dict src inner :
  OrderedDisjoint inner -> Forall (wsgood src) inner ->
  exists out, collapse_identifiers dict src inner = Ok out /\ Grouped (G_ident dict src) inner out.
Proof.
  intros HO HG. destruct (ident_ok src inner) as [Hok Hmono].
  destruct (find_all_matches_spec _ inner Hmono Hok) as [kept [Hf HD]].
  destruct (ci_apply_spec dict src inner HO HG kept 0 [] eq_refl ltac:(lia) HD) as [suf' [q [Hcp [_ [HQ HGr]]]]].
  cbn [app skipn] in Hcp, HGr.
  exists (remove_indices 0 q suf'). split; [|exact HGr].
  unfold collapse_identifiers. rewrite Hf. cbn [bind]. rewrite Hcp. cbn [bind].
  rewrite (sorted_unique_incr _ _ _ HQ). reflexivity.
Qed.

Lemma gapped_wsgood src ts a : Gapped a (length src) ts -> Forall (wsgood src) ts.
Proof.
  intros HG. pose proof (gapped_nonempty _ _ _ HG) as N. pose proof (gapped_in_range _ _ _ HG) as R.
  rewrite Forall_forall in *. intros t Hin _. specialize (N t Hin). specialize (R t Hin). cbn beta in *. lia.
Qed.

Theorem collapse_identifiers_gapped dict src inner :
  Gapped 0 (length src) inner ->
  exists out, collapse_identifiers dict src inner = Ok out /\ Grouped (G_ident dict src) inner out /\
              Gapped 0 (length src) out.
Proof.
  intros HG.
  destruct (collapse_identifiers_grouped dict src inner) as [out [E Gr]].
  - eapply gapped_ordered_from; [exact HG|lia].
  - eapply gapped_wsgood; exact HG.
  - exists out. split; [exact E|]. split; [exact Gr|]. eapply grouped_gapped; eauto.
Qed.

Theorem collapse_identifiers_tiling dict src inner :
  Tiling 0 (length src) inner ->
  exists out, collapse_identifiers dict src inner = Ok out /\ Grouped (G_ident dict src) inner out /\
              Tiling 0 (length src) out.
Proof.
  intros HT. destruct (collapse_identifiers_gapped dict src inner (tiling_gapped _ _ _ HT)) as [out [E [Gr _]]].
  exists out. split; [exact E|]. split; [exact Gr|]. eapply grouped_tiling; eauto.
Qed.

(* ---------- the property-level invariant through a grouping whose merged groups cover characters ---------- *)
Lemma ordered_from_weaken : forall l lo1 lo2, lo2 <= lo1 -> OrderedFrom lo1 l -> OrderedFrom lo2 l.
Proof.
  induction l as [|t l IHl]; intros lo1 lo2 Hle HO; [constructor|].
  inversion HO; subst; [apply OF_zero; eauto|apply OF_cons; auto; lia].
Qed.

Lemma ordered_group : forall g lo rest, g <> [] -> Forall covers_chars g -> OrderedFrom lo (g ++ rest) ->
  lo <= group_start g /\ group_start g < group_end g /\ OrderedFrom (group_end g) rest.
Proof.
  induction g as [|t g IH]; intros lo rest Hne HC HO; [contradiction|].
  inversion HC as [|x l C0 C1]; subst. cbn [app] in HO.
  inversion HO as [|lo0 t' ts' Hz Hr|lo0 t' ts' Hc Hlo Hr]; subst; [contradiction|].
  unfold covers_chars in C0. cbn [group_start]. unfold group_end. rewrite last_cons_tok.
  destruct g as [|t1 g'].
  - cbn [last app] in *. split; [lia|]. split; [lia|exact Hr].
  - destruct (IH (tend t) rest ltac:(discriminate) C1 Hr) as [I1 [I2 I3]].
    unfold group_end in I2, I3. rewrite last_cons_tok in I2, I3. cbn [group_start] in I1, I2.
    rewrite last_cons_tok. split; [lia|]. split; [lia|exact I3].
Qed.

Lemma group_end_in g : g <> [] -> exists t, In t g /\ group_end g = tend t.
Proof.
  intros Hne. destruct g as [|t0 g']; [contradiction|]. unfold group_end. rewrite last_cons_tok.
  exists (last g' t0). split; [|reflexivity].
  clear. revert t0. induction g' as [|x g IH]; intros t0; [left; reflexivity|].
  right. rewrite last_cons_tok. apply IH.
Qed.

Theorem grouped_tokinv (G : list token -> tkind -> Prop) n :
  (forall g k, G g k -> Gsingle g k \/ Forall covers_chars g) ->
  forall ts ts', Grouped G ts ts' -> TokInv n ts -> TokInv n ts'.
Proof.
  intros HG ts ts' H. unfold TokInv, InBounds, OrderedDisjoint, ZeroWidthOnlyBreaks.
  generalize 0 as lo.
  induction H as [|g k rest rest' Hne Hg Hrest IH]; intros lo [H1 [H2 [H3 H4]]]; [auto|].
  apply Forall_app in H1. destruct H1 as [H1g H1r].
  apply Forall_app in H2. destruct H2 as [H2g H2r].
  apply Forall_app in H4. destruct H4 as [H4g H4r].
  destruct (HG g k Hg) as [[t [-> ->]]|HC].
  - rewrite group_token_single. cbn [app] in H3.
    inversion H1g; inversion H2g; inversion H4g; subst.
    inversion H3 as [|lo0 t' ts' Hz Hr|lo0 t' ts' Hc Hlo Hr]; subst.
    + destruct (IH lo (conj H1r (conj H2r (conj Hr H4r)))) as [J1 [J2 [J3 J4]]].
      repeat split; solve [constructor; assumption|apply OF_zero; assumption].
    + destruct (IH (tend t) (conj H1r (conj H2r (conj Hr H4r)))) as [J1 [J2 [J3 J4]]].
      repeat split; solve [constructor; assumption|apply OF_cons; assumption].
  - destruct (ordered_group g lo rest Hne HC H3) as [O1 [O2 O3]].
    destruct (IH (group_end g) (conj H1r (conj H2r (conj O3 H4r)))) as [J1 [J2 [J3 J4]]].
    destruct (group_end_in g Hne) as [tl [Hin He]].
    assert (tstart (group_token g k) = group_start g /\ tend (group_token g k) = group_end g) as [Es Ee]
      by (unfold group_token, tstart, tend; cbn; auto).
    repeat split.
    + constructor; [rewrite Es, Ee; lia|exact J1].
    + constructor; [|exact J2]. rewrite Es, Ee. intros _. rewrite He.
      rewrite Forall_forall in H2g, HC. apply (H2g tl Hin). apply (HC tl Hin).
    + apply OF_cons; [unfold covers_chars; rewrite Es, Ee; exact O2|rewrite Es; exact O1|rewrite Ee; exact J3].
    + constructor; [|exact J4]. rewrite Es, Ee. intros E. lia.
Qed.

Lemma tokinv_wsgood src ts : TokInv (length src) ts -> Forall (wsgood src) ts.
Proof.
  intros [H1 [H2 [_ H4]]]. unfold InBounds, ZeroWidthOnlyBreaks in *. rewrite Forall_forall in *.
  intros t Hin Hw. specialize (H1 t Hin). specialize (H2 t Hin). specialize (H4 t Hin). cbn beta in *.
  assert (tstart t <> tend t) as Hne.
  { intros E. specialize (H4 E). destruct Hw as [Hw|Hw]; destruct (tkind_of t); try discriminate; exact H4. }
  split; [lia|apply H2; lia].
Qed.

Theorem collapse_identifiers_tokinv dict src inner : TokInv (length src) inner ->
  exists out, collapse_identifiers dict src inner = Ok out /\ Grouped (G_ident dict src) inner out /\
              TokInv (length src) out.
Proof.
  intros HI. pose proof (tokinv_wsgood src inner HI) as HW.
  destruct (collapse_identifiers_grouped dict src inner) as [out [E Gr]].
  - destruct HI as [_ [_ [H _]]]. exact H.
  - exact HW.
  - exists out. split; [exact E|]. split; [exact Gr|].
    eapply (grouped_tokinv (G_ident dict src)); [|exact Gr|exact HI].
    intros g k [Hs|[_ [HC _]]]; [left; exact Hs|right].
    eapply Forall_impl; [|exact HC]. unfold covers_chars. cbn. intros; lia.
Qed.

Print Assumptions isolate_english_spec.
Print Assumptions collapse_identifiers_grouped.
