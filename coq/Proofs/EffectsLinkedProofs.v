(* EffectsLinkedProofs.v — soundness of the checkers of Model/EffectsLinked.v, for any graph / table. C10. *)
Require Import Base EffectsBase Effects EffectsProofs EffectsLinked.
From Coq Require Import String.
Open Scope string_scope.
Open Scope list_scope.

Definition CrateOkIn (nets procs : list string) (members : list pkg) (t : list (pkg * eclass)) (c : pkg) : Prop :=
  In c members \/
  exists cl, class_of t c = Some cl /\ cl <> CNetClient /\
             (cl = CNetRuntime -> In (fst c) nets) /\
             (cl = CProcess -> In (fst c) procs).

Lemma class_ok_in_spec : forall nets procs members t c,
  class_ok_in nets procs members t c = true -> CrateOkIn nets procs members t c.
Proof.
  intros nets procs members t c H. unfold class_ok_in in H. apply orb_true_iff in H. destruct H as [H | H].
  - left. apply pmem_In; assumption.
  - right. destruct (class_of t c) as [cl |] eqn:Hc; [| discriminate].
    exists cl. split; [reflexivity |].
    destruct cl; try discriminate; (split; [discriminate |]); split; intros E; try discriminate E.
    + apply smem_In; assumption.
    + apply smem_In; assumption.
Qed.

Lemma check_crates_in_sound : forall nets procs g t members roots,
  check_crates_in nets procs g t members roots = true ->
  forall c, Reach g roots c -> CrateOkIn nets procs members t c.
Proof.
  intros nets procs g t members roots H c Hc. unfold check_crates_in in H.
  apply andb_true_iff in H. destruct H as [H Hall]. apply andb_true_iff in H. destruct H as [Hroots Hclosed].
  apply class_ok_in_spec. rewrite forallb_forall in Hall. apply Hall.
  eapply closed_contains_reach; eassumption.
Qed.

Lemma check_crates_in_reach_exact : forall nets procs g t members roots,
  check_crates_in nets procs g t members roots = true ->
  forall c, Reach g roots c <-> In c (reach_set g roots).
Proof.
  intros nets procs g t members roots H c. split; [| apply reach_set_sound].
  unfold check_crates_in in H. apply andb_true_iff in H. destruct H as [H _].
  apply andb_true_iff in H. destruct H as [Hroots Hclosed].
  eapply closed_contains_reach; eassumption.
Qed.

(* a reachable net-capable crate outside the (smaller) list makes the checker answer false *)
Lemma unlisted_net_crate_breaks : forall nets procs g t members roots c,
  Reach g roots c -> ~ In c members -> class_of t c = Some CNetRuntime -> ~ In (fst c) nets ->
  check_crates_in nets procs g t members roots = false.
Proof.
  intros nets procs g t members roots c Hreach Hnm Hcl Hnot.
  destruct (check_crates_in nets procs g t members roots) eqn:Hck; [| reflexivity].
  exfalso. destruct (check_crates_in_sound _ _ _ _ _ _ Hck c Hreach) as [Hin | [cl [Hcl' [_ [Hnet _]]]]].
  - contradiction.
  - rewrite Hcl in Hcl'. inversion Hcl'; subst. apply Hnot. apply Hnet. reflexivity.
Qed.

(* deps g a is the edge list of a row of g keyed a *)
Lemma deps_in_row : forall g a b, In b (deps g a) -> exists ds, In (a, ds) g /\ In b ds.
Proof.
  induction g as [| [k ds] g IH]; intros a b H; cbn [deps] in H.
  - destruct H.
  - destruct (pkg_eqb k a) eqn:E.
    + apply pkg_eqb_eq in E. subst k. exists ds. split; [left; reflexivity | assumption].
    + destruct (IH a b H) as [ds' [Hin Hb]]. exists ds'. split; [right; assumption | assumption].
Qed.

Lemma subgraph_edges : forall g h, subgraph g h = true ->
  forall a b, In b (deps g a) -> In b (deps h a).
Proof.
  intros g h H a b Hb. destruct (deps_in_row _ _ _ Hb) as [ds [Hrow Hin]].
  unfold subgraph in H. rewrite forallb_forall in H. specialize (H _ Hrow). cbn [fst snd] in H.
  rewrite forallb_forall in H. apply pmem_In. apply H. assumption.
Qed.

(* dropping edges can only shrink what is reachable *)
Lemma subgraph_reach : forall g h roots, subgraph g h = true ->
  forall c, Reach g roots c -> Reach h roots c.
Proof.
  intros g h roots H c Hc. induction Hc as [r Hr | a b Ha IH Hb].
  - apply Reach_root; assumption.
  - eapply Reach_step; [exact IH |]. eapply subgraph_edges; eassumption.
Qed.
