(* C03BlanketProofs.v (phase 7) — the blanket `impl Linter for L: PatternLinter` and merge_linters! as whole-document rules:
   a pattern rule that keeps its lints inside the hull of the chunk it is run on (PROVED for every rule of the pattern table,
   C03RootsProofs) is, run over every chunk of the document, a whole-document rule that keeps its lints inside the document
   (doc_ok: every chunk's hull ends inside the source); merging such rules and dropping lints (remove_overlaps) keeps that.
   So the rules of lint_group.rs that are registered as whole-document rules but are pattern rules of the table — TheHowWhy,
   WidelyAccepted, the MapPhraseLinter closed compounds, the four merge_linters! groups — need NO premise. *)
From Coq Require Import List Arith NArith Bool String Lia.
Require Import Base Cache CacheProofs C03LintGroup C03LintGroupProofs C03Roots C03RootsProofs Tables_c03roots.
Require Import C03StructRoots Tables_c03structroots C03StructRootsProofs C03StructWord C03StructWordProofs C03Blanket.
Require Lexer.
Import ListNotations.
Local Open Scope nat_scope.

Section B.
  Variable kind : Type.
  Notation toks := (list (Cache.tok kind)).

  (* the chunk premise for ONE pattern rule (prules_ok for a singleton) *)
  Definition prule_ok (p : prule kind) : Prop :=
    forall t src (ts : toks) sp, toks_wf kind ts -> hull_of ts = Ok (Some sp) -> send sp <= List.length src ->
      Forall (lint_within sp) (p t src ts).

  Lemma lint_within_in n sp l : send sp <= n -> lint_within sp l -> lint_in n l.
  Proof. unfold lint_within, lint_in, span_in. lia. Qed.

  Theorem blanket_wrule_ok p : prule_ok p -> wrule_ok (blanket_wrule p).
  Proof.
    intros HP t d Hd. unfold blanket_wrule. apply Forall_flat_map_intro. intros ts Hin.
    destruct (Hd ts Hin) as [Hw Hb]. destruct (hull_of_total kind ts) as [[sp|] Ho].
    - assert (G : Forall (lint_in (List.length (l_src d))) (p t (l_src d) ts)).
      { eapply Forall_impl; [|exact (HP t (l_src d) ts sp Hw Ho (Hb sp Ho))]. intros l. apply lint_within_in. exact (Hb sp Ho). }
      destruct ts; [constructor|exact G].
    - apply hull_of_none_nil in Ho. subst ts. constructor.
  Qed.

  Theorem merged_wrule_ok keep (rs : list (wrule kind)) :
    (forall l x, In x (keep l) -> In x l) -> Forall wrule_ok rs -> wrule_ok (merged_wrule keep rs).
  Proof.
    intros HK HR t d Hd. unfold merged_wrule. apply Forall_forall. intros x Hx. apply HK in Hx.
    apply in_flat_map in Hx. destruct Hx as (r & Hr & Hx). rewrite Forall_forall in HR.
    specialize (HR r Hr t d Hd). rewrite Forall_forall in HR. now apply HR.
  Qed.
End B.
Arguments prule_ok {kind}.

(* every rule of the pattern table satisfies the chunk premise (C03RootsProofs.table_pattern_rules_ok, for one rule) *)
Theorem table_rule_prule_ok r : table_rule r -> prule_ok r.
Proof.
  intros H t src ts sp Hw Ho Hb.
  exact (table_pattern_rules_ok [(0%N, r)] (fun n r' Hin => match Hin with or_introl E => eq_ind r table_rule H r' (f_equal snd E) | or_intror F => match F with end end)
           0%N r t src ts sp (or_introl eq_refl) Hw Ho Hb).
Qed.

(* the whole-document rules of LintGroup that are pattern rules of the table: one through the blanket impl, or several merged by
   merge_linters! (each through the blanket impl, the collected lints filtered by `keep`) *)
Inductive blanket_table_rule : wrule pkind -> Prop :=
| BT_blanket : forall p, table_rule p -> blanket_table_rule (blanket_wrule p)
| BT_merged : forall keep ps, (forall l x, In x (keep l) -> In x l) -> Forall table_rule ps ->
                              blanket_table_rule (merged_wrule keep (map blanket_wrule ps)).

Theorem blanket_table_rule_ok r : blanket_table_rule r -> wrule_ok r.
Proof.
  intros [p Hp|keep ps HK HR].
  - apply blanket_wrule_ok. now apply table_rule_prule_ok.
  - apply merged_wrule_ok; [exact HK|]. apply Forall_forall. intros r' Hr'. apply in_map_iff in Hr'.
    destruct Hr' as (p & <- & Hp). rewrite Forall_forall in HR. apply blanket_wrule_ok. apply table_rule_prule_ok. now apply HR.
Qed.

(* the registrations of new_curated that are whole-document rules but not struct rows (regenerated list
   Tables_c03structroots.whole_document_nonrow_registrations: name -> the PatternLinter types behind it): every such type has a row
   in the pattern table whose Lint sources are all rooted in the matched tokens — so each registration is a blanket_table_rule *)
Definition blanket_registered : list string := flat_map snd whole_document_nonrow_registrations.
Lemma blanket_rows_today :
  forallb (fun n => existsb (fun row => String.eqb (p_name row) n && row_lints_matched row) pattern_rule_bodies) blanket_registered = true /\
  5 <= List.length whole_document_nonrow_registrations.
Proof. split; vm_compute; [reflexivity|repeat constructor]. Qed.

(* LintGroup::lint on plain-English documents with ALL kinds of curated registrations: whole-document rules = struct rows over the
   plain tokens, or pattern rules of the table through the blanket impl / merge_linters!; pattern rules = rules of the table *)
Theorem plain_curated_lintgroup_history_in_bounds
    (cfg : Type) (enabled : cfg -> N -> bool) (cfg_hash : cfg -> N) (tok_hash : list (Cache.tok pkind) -> N)
    (u : Lexer.uni) (enc : Lexer.token -> pkind)
    (linters : list (N * wrule pkind)) (plinters : list (N * prule pkind)) :
  (forall n r, In (n, r) linters -> struct_table_rule_ne (plain_dtoks u enc) r \/ blanket_table_rule r) ->
  (forall n r, In (n, r) plinters -> table_rule r) ->
  forall h st, hist_ok cfg pkind h -> cache_ok (lg_cache st) ->
    exists st' outs, lg_run cfg pkind enabled cfg_hash tok_hash linters plinters h st = Ok (st', outs) /\
                     cache_ok (lg_cache st') /\ map fst outs = hist_docs cfg pkind h /\ outs_in pkind outs.
Proof.
  intros HW HP. apply (plain_struct_lintgroup_history_in_bounds cfg enabled cfg_hash tok_hash u enc); [|exact HP].
  intros n r Hin. destruct (HW n r Hin) as [H|H]; [now left|right; now apply blanket_table_rule_ok].
Qed.

(* ---------- non-vacuity: the Hereby row of the pattern table as a WHOLE-DOCUMENT rule (blanket impl) on a document with the
   chunk "ab cd ef." at 2..11 and an empty chunk; merged with itself under a `keep` that drops every second lint ---------- *)
Definition exb_doc : ldoc pkind := mkldoc (repeat 97%N 11) [exr_chunk; []] 0%N.
Fixpoint exb_keep (l : list clint) : list clint := match l with a :: _ :: r => a :: exb_keep r | _ => l end.
Lemma exb_keep_in l : forall x, In x (exb_keep l) -> In x l.
Proof.
  enough (H : forall n l, List.length l <= n -> forall x, In x (exb_keep l) -> In x l) by (apply (H (List.length l)); lia).
  clear l. induction n as [|n IH]; intros [|a [|b r]] Hl x Hx; cbn [exb_keep] in Hx; cbn [List.length] in Hl; try exact Hx; try lia.
  destruct Hx as [<-|Hx]; [now left|]. right. right. apply IH; [lia|exact Hx].
Qed.
Example blanket_rule_example :
  table_rule exr_rule /\ doc_ok pkind exb_doc /\
  blanket_table_rule (blanket_wrule exr_rule) /\
  blanket_wrule exr_rule 0 exb_doc = [mkclint (mkspan 2 7) 5%N; mkclint (mkspan 7 11) 5%N] /\
  blanket_table_rule (merged_wrule exb_keep (map blanket_wrule [exr_rule; exr_rule])) /\
  merged_wrule exb_keep (map blanket_wrule [exr_rule; exr_rule]) 0 exb_doc = [mkclint (mkspan 2 7) 5%N; mkclint (mkspan 2 7) 5%N] /\
  Forall (lint_in 11) (merged_wrule exb_keep (map blanket_wrule [exr_rule; exr_rule]) 0 exb_doc).
Proof.
  pose proof (proj1 (proj2 (proj2 table_rule_example))) as TR.
  assert (DO : doc_ok pkind exb_doc).
  { intros ts [<-|[<-|[]]].
    - split; [repeat constructor; cbn; lia|]. intros sp Ho. vm_compute in Ho. injection Ho as <-. cbn. lia.
    - split; [constructor|]. intros sp Ho. vm_compute in Ho. discriminate. }
  split; [exact TR|]. split; [exact DO|]. split; [now constructor|]. split; [vm_compute; reflexivity|].
  assert (BM : blanket_table_rule (merged_wrule exb_keep (map blanket_wrule [exr_rule; exr_rule]))).
  { constructor; [exact exb_keep_in|repeat constructor; exact TR]. }
  split; [exact BM|]. split; [vm_compute; reflexivity|].
  exact (blanket_table_rule_ok _ BM 0 exb_doc DO).
Qed.
