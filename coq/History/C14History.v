(* C14History.v — HISTORY for property C14: LintContext::from_lint BEFORE the fix commits
     8948350  fix: an ignored lint's context does not depend on the position of a quote's twin        (F12)
     4550195  fix: an ignored lint's context is the two characters before its start and after its end  (F13, F13b, F13c, F13e)
     483b7cf  fix: an ignored lint's context does not depend on the dictionary metadata of neighbouring words (C16-N1)
   Nothing here describes the current tree: every statement about `context_old` is about the old code
   (windows span.with_len(2).pulled_by(2) = [s-2,s) — NONE when s < 2 —, [s,e), span.with_len(2).pushed_by(2)
   = [s+2,s+4) from the span START; fat tokens hashed with twin_loc and word metadata).  Kept so that the
   regression inputs of corpus/C14 have a machine-checked explanation: each witness below satisfies the
   property's premise, the OLD context breaks the property on it, the CURRENT context (Model/Ignore.v) does not. *)
Require Import Base Suggestion Ignore ListLemmas IgnoreProofs IgnoreWitness.

Definition prequel_window_old (sp : span) : option span := pulled_by (with_len sp 2) 2.
Definition sequel_window_old (sp : span) : span := push_by (with_len sp 2) 2.
Definition context_indices_old (l : ilint) (d : doc) : list nat :=
  let problem := token_indices_intersecting d (il_span l) in
  let prequel := match prequel_window_old (il_span l) with
                 | Some v => token_indices_intersecting d v
                 | None => []                                   (* unwrap_or_default *)
                 end in
  let sequel := token_indices_intersecting d (sequel_window_old (il_span l)) in
  prequel ++ problem ++ sequel.
Definition context_tokens_old (l : ilint) (d : doc) : res (list ftok) :=
  map_res (to_fat (dsrc d)) (get_tokens (dtoks d) (context_indices_old l d)).
Definition context_old (l : ilint) (d : doc) : res ctx :=
  do toks <- context_tokens_old l d;
  Ok (mkctx (il_kind l) (il_sugg l) (il_msg l) (il_prio l) toks).

Example context_indices_old_example :
  context_indices_old f12_l1 f12_d1 = [3; 4; 5; 6; 7] /\ context_indices_old f13o_l1 f13o_d1 = [0; 1; 2; 2] /\
  context_indices_old (mkilint (mkspan 0 3) 0%N [] [] 0%N) f13o_d1 = [0; 1; 1; 2].
Proof. repeat split; vm_compute; reflexivity. Qed.

(* F12: text is prepended, nothing else changes; the old contexts differ (twin_loc), the current ones do not *)
Theorem stable_old_refuted_F12 :
  untouched f12_l1 f12_d1 f12_l2 f12_d2 /\ f12_l2 = shift_lint 13 f12_l1 /\ skipn 13 (dsrc f12_d2) = dsrc f12_d1 /\
  context f12_l1 f12_d1 = context f12_l2 f12_d2 /\
  exists c c', context_old f12_l1 f12_d1 = Ok c /\ context_old f12_l2 f12_d2 = Ok c' /\ c <> c' /\
    forall hash : ctx -> N, hash c <> hash c' ->
      exists s1, ignore_lint context_old hash [] f12_l1 f12_d1 = Ok s1 /\ is_ignored context_old hash s1 f12_l2 f12_d2 = Ok false.
Proof.
  split; [apply f12_untouched|]. split; [apply f12_is_prepend|]. split; [apply f12_is_prepend|]. split; [apply f12_same|].
  apply refutes; [apply res_ctx_neq; vm_compute; reflexivity | vm_compute; reflexivity | vm_compute; reflexivity].
Qed.

(* F13: a one-character lint; a word three characters after it is edited *)
Theorem stable_old_refuted_F13 :
  untouched f13s_l1 f13s_d1 f13s_l2 f13s_d2 /\ il_span f13s_l2 = il_span f13s_l1 /\ span_len_wf (il_span f13s_l1) = 1 /\
  context f13s_l1 f13s_d1 = context f13s_l2 f13s_d2 /\
  exists c c', context_old f13s_l1 f13s_d1 = Ok c /\ context_old f13s_l2 f13s_d2 = Ok c' /\ c <> c' /\
    forall hash : ctx -> N, hash c <> hash c' ->
      exists s1, ignore_lint context_old hash [] f13s_l1 f13s_d1 = Ok s1 /\ is_ignored context_old hash s1 f13s_l2 f13s_d2 = Ok false.
Proof.
  split; [apply f13s_untouched|]. split; [reflexivity|]. split; [reflexivity|]. split; [apply f13s_same|].
  apply refutes; [apply res_ctx_neq; vm_compute; reflexivity | vm_compute; reflexivity | vm_compute; reflexivity].
Qed.

(* F13e: a lint at offset 1 had no prequel window; a Markdown paragraph put in front gave it one *)
Theorem stable_old_refuted_prequel :
  untouched f13e_l1 f13e_d1 f13e_l2 f13e_d2 /\ f13e_l2 = shift_lint 33 f13e_l1 /\ skipn 33 (dsrc f13e_d2) = dsrc f13e_d1 /\
  sstart (il_span f13e_l1) = 1 /\
  context f13e_l1 f13e_d1 = context f13e_l2 f13e_d2 /\
  exists c c', context_old f13e_l1 f13e_d1 = Ok c /\ context_old f13e_l2 f13e_d2 = Ok c' /\ c <> c' /\
    forall hash : ctx -> N, hash c <> hash c' ->
      exists s1, ignore_lint context_old hash [] f13e_l1 f13e_d1 = Ok s1 /\ is_ignored context_old hash s1 f13e_l2 f13e_d2 = Ok false.
Proof.
  split; [apply f13e_untouched|]. split; [vm_compute; reflexivity|]. split; [vm_compute; reflexivity|]. split; [reflexivity|].
  split; [apply f13e_same|].
  apply refutes; [apply res_ctx_neq; vm_compute; reflexivity | vm_compute; reflexivity | vm_compute; reflexivity].
Qed.

(* C16-N1: the word before the lint is added to the dictionary; the text is the same *)
Theorem stable_old_refuted_dictionary :
  blank_doc dict_d1 = blank_doc dict_d2 /\ untouched dict_l dict_d1 dict_l dict_d2 /\
  context dict_l dict_d1 = context dict_l dict_d2 /\
  exists c c', context_old dict_l dict_d1 = Ok c /\ context_old dict_l dict_d2 = Ok c' /\ c <> c' /\
    forall hash : ctx -> N, hash c <> hash c' ->
      exists s1, ignore_lint context_old hash [] dict_l dict_d1 = Ok s1 /\ is_ignored context_old hash s1 dict_l dict_d2 = Ok false.
Proof.
  split; [apply dict_same_blank|]. split; [split; [repeat split|]; eexists; split; vm_compute; reflexivity|].
  split; [apply dict_same|].
  apply refutes; [apply res_ctx_neq; vm_compute; reflexivity | vm_compute; reflexivity | vm_compute; reflexivity].
Qed.

(* hence the property's third sentence was false of the old code *)
Theorem stays_ignored_old_refuted : ~ stays_ignored context_old.
Proof.
  apply (not_stays_ignored context_old f12_l1 f12_d1 f12_l2 f12_d2);
    [apply f12_wf | apply f12_wf | apply f12_untouched | apply res_ctx_neq; vm_compute; reflexivity | vm_compute; reflexivity | vm_compute; reflexivity].
Qed.

(* F13b: two `recieve` lints of one document, different followers, had the same old context (the sequel
   window [s+2,s+4) lay inside the seven-character word); the current context tells them apart *)
Theorem only_old_refuted_F13 :
  same_report f13o_l1 f13o_l2 /\ il_span f13o_l1 <> il_span f13o_l2 /\
  nb_tokens f13o_l1 f13o_d1 <> nb_tokens f13o_l2 f13o_d1 /\
  context_old f13o_l1 f13o_d1 = context_old f13o_l2 f13o_d1 /\ is_ok (context_old f13o_l1 f13o_d1) = true /\
  context f13o_l1 f13o_d1 <> context f13o_l2 f13o_d1.
Proof.
  split; [repeat split|]. split; [intros E; vm_compute in E; discriminate E|].
  split; [apply res_toks_neq; vm_compute; reflexivity|]. split; [vm_compute; reflexivity|]. split; [vm_compute; reflexivity|].
  apply f13o_differ.
Qed.
