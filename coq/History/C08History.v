(* C08History.v — HISTORY for property C08: the behaviour of harper-ls/src/pos_conv.rs:position_to_index
   BEFORE the commit 229693d ("fix: position_to_index resolves a position on the last line of a
   document on that line", finding F9).  Nothing here describes the current tree: every statement
   is about Model/PosConv.v:position_to_index_old / range_to_span_old / selected_old.  Kept so that
   the regression inputs in corpus/C08 ("ab\ncd" (1,0), ...) have a machine-checked explanation
   and so that the reverse-fix mutation (notes/mutations/C08-revert-F9.diff) is characterised
   exactly: the old code answered EVERY valid position of KnownClass wrongly and no other. *)
Require Import Base Suggestion PosConv ListLemmas SuggestionProofs PosConvProofs.

(* outside the class the old code was right (PosConvProofs.lookup_old_outside) ... *)
(* ... and inside the class it never was: KnownClass was exactly the set of failures *)
Theorem lookup_old_known_class_wrong (t : text) (line col i : nat) :
  resolve t (line, col) = Some i -> KnownClass t line ->
  exists j, position_to_index_old t line col = Ok j /\ j < i.
Proof.
  intros H [H1 HK].
  destruct (resolve_inv t line col i H) as [P [ln [r [k [-> [HP [Hc [Hln [Hr [Hk [Hs ->]]]]]]]]]]].
  destruct Hr as [->|[r' ->]].
  2:{ exfalso. rewrite !count_nl_app, count_nl_cons, is_nl_NL in HK. lia. }
  rewrite app_nil_r. assert (P <> []) as Hne by (intros ->; cbn in Hc; lia).
  destruct (complete_last_line P HP Hne) as [Q [ln0 [-> [HQ Hln0]]]].
  assert (count_nl Q + 1 = line) as HcQ.
  { rewrite !count_nl_app, (count_nl_nonl ln0 Hln0) in Hc. cbn in Hc. lia. }
  replace ((Q ++ ln0 ++ [NL]) ++ ln) with (Q ++ ln0 ++ NL :: ln) by (now rewrite <- !app_assoc).
  rewrite (p2i_last_terminated Q ln0 ln line col HQ Hln0 Hln) by lia.
  eexists. split; [reflexivity|].
  rewrite !app_length. cbn [length].
  destruct col as [|col].
  - replace (ln0 ++ [NL]) with ((ln0 ++ [NL])) by reflexivity.
    destruct (ln0 ++ [NL]) as [|c seg] eqn:E; [now destruct ln0|]. rewrite col_result_0. lia.
  - pose proof (col_result_bound (length Q) (ln0 ++ [NL]) (S col)) as B.
    rewrite app_length in B. cbn [length] in B.
    assert (1 <= k). { destruct k; [cbn in Hs; discriminate|lia]. }
    lia.
Qed.



Theorem range_to_span_old_correct (t : text) (p1 p2 : position) (i1 i2 : nat) :
  resolve t p1 = Some i1 -> resolve t p2 = Some i2 -> i1 <= i2 ->
  ~ KnownClass t (fst p1) -> ~ KnownClass t (fst p2) ->
  range_to_span_old t (p1, p2) = Ok (mkspan i1 i2).
Proof.
  destruct p1 as [l1 c1], p2 as [l2 c2]. cbn [fst]. intros R1 R2 Hle K1 K2.
  unfold range_to_span_old. rewrite (lookup_old_outside t l1 c1 i1 R1 K1), (lookup_old_outside t l2 c2 i2 R2 K2).
  cbn [bind]. unfold span_new. destruct (i2 <? i1) eqn:E; [apply Nat.ltb_lt in E; lia|reflexivity].
Qed.



(* generate_code_actions offers exactly the lints that contain the character under the start of
   the requested range *)
Theorem selected_old_correct (t : text) (p1 p2 : position) (i1 i2 : nat) (lints : list span) :
  resolve t p1 = Some i1 -> resolve t p2 = Some i2 -> i1 <= i2 ->
  ~ KnownClass t (fst p1) -> ~ KnownClass t (fst p2) ->
  selected_old t (p1, p2) lints = Ok (filter (covers i1) lints).
Proof.
  intros R1 R2 Hle K1 K2. unfold selected_old, lookup_span_old.
  rewrite (range_to_span_old_correct t p1 p2 i1 i2 R1 R2 Hle K1 K2). cbn [bind]. f_equal.
  apply filter_ext. intros l. unfold overlaps, with_len, covers. cbn [sstart send].
  destruct (sstart l <=? i1) eqn:A; destruct (sstart l <? i1 + 1) eqn:B; try reflexivity.
  - apply Nat.leb_le in A. apply Nat.ltb_ge in B. lia.
  - apply Nat.leb_gt in A. apply Nat.ltb_lt in B. lia.
Qed.

(* hence: a request whose start lies inside a lint's (non-empty) span gets that lint *)
Theorem code_action_selected_old (t : text) (p1 p2 : position) (i1 i2 : nat) (lints : list span) (sp : span) :
  resolve t p1 = Some i1 -> resolve t p2 = Some i2 -> i1 <= i2 ->
  ~ KnownClass t (fst p1) -> ~ KnownClass t (fst p2) ->
  In sp lints -> sstart sp <= i1 < send sp ->
  exists sel, selected_old t (p1, p2) lints = Ok sel /\ In sp sel.
Proof.
  intros R1 R2 Hle K1 K2 Hin [Ha Hb]. eexists. split; [now apply (selected_old_correct t p1 p2 i1 i2)|].
  apply filter_In. split; [exact Hin|]. unfold covers.
  apply andb_true_iff. split; [now apply Nat.leb_le|now apply Nat.ltb_lt].
Qed.



Theorem lookup_old_correct_lsp (t : text) (line col i : nat) :
  no_lone_cr t -> resolve_lsp t (line, col) = Some i -> ~ KnownClass t line ->
  position_to_index_old t line col = Ok i.
Proof. intros Hn H HK. apply lookup_old_outside; [now apply resolve_lsp_sub|exact HK]. Qed.



(* ------------------------------------------------------------------------------------------ *)
(*  F9: the witness                                                                             *)
(* ------------------------------------------------------------------------------------------ *)
(* "ab\ncd", position (1,0) denotes index 3 (the 'c'), position_to_index_old answers 0 *)
Lemma lookup_old_refuted :
  exists t line col i,
    KnownClass t line /\ resolve t (line, col) = Some i /\ i < length t /\
    position_to_index_old t line col <> Ok i /\
    (* ... hence a lint on "cd" is not selected for a cursor on its first character *)
    selected_old t ((line, col), (line, col)) [mkspan 3 5] = Ok [].
Proof.
  exists [97; 98; 10; 99; 100]%N, 1, 0, 3. unfold KnownClass.
  vm_compute. repeat split; try lia. discriminate.
Qed.


(* the fix changed nothing else: PosConvProofs.fix_confined
     ~ KnownClass t line -> position_to_index t line col = position_to_index_old t line col *)
Theorem fix_changes_every_valid_position_of_the_class (t : text) (line col i : nat) :
  resolve t (line, col) = Some i -> KnownClass t line ->
  position_to_index t line col = Ok i /\ position_to_index_old t line col <> Ok i.
Proof.
  intros H HK. split; [now apply lookup_correct|].
  destruct (lookup_old_known_class_wrong t line col i H HK) as [j [E Hj]]. rewrite E.
  intros X. injection X as X. lia.
Qed.
