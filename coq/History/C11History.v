(* C11History.v — behaviour that a `fix:` commit has since removed (kept so that the corpus cases of
   corpus/C11/edge.json, kind wasm_history, have a machine-checked explanation).
   FC11a (b67a243 "setting the lint configuration resets rules the new configuration leaves unset"):
   harper_wasm::Linter::set_lint_config_from_json / _object MERGED the parsed object into the stored
   configuration (wasm_set_config_old) instead of clearing it first (wasm_set_config).  Over a history of
   settings objects a switch then held the last EXPLICIT value of the whole history, so a rule switched off
   once and later left null / unmentioned stayed off.  NOTHING here describes the current code. *)
From Coq Require Import List NArith Bool.
Require Import Base Tables_rules.
Require Import LintGroupCfg LintGroupCfgProofs LintGroupCfgJson.
Import ListNotations.

Definition wasm_seq_old (base : config) (us : list config) : config :=
  fold_left (fun s u => fst (wasm_set_config_old s u)) us base.

Lemma wasm_seq_old_merge_seq base us : wasm_seq_old base us = merge_seq base us.
Proof. reflexivity. Qed.

(* what the OLD code did: the last explicit true/false of the whole history, else the curated value *)
Lemma wasm_history_old (cur : config) (us : list config) (k : key) : wf cur -> Forall wf us ->
  get k (fill_with_curated cur (wasm_seq_old (clear cur) us))
  = match last_explicit k us with Some v => Some (Some v) | None => get k cur end.
Proof.
  intros Hc HF. rewrite wasm_seq_old_merge_seq.
  rewrite get_fill; [|apply wf_merge_seq, wf_clear, Hc].
  rewrite (get_merge_seq _ _ _ HF). destruct (last_explicit k us) as [v|]; [reflexivity|].
  rewrite get_clear. destruct (get k cur); reflexivity.
Qed.

(* the regression witness: SpellCheck switched off by u1 and left null by u2 stayed off under the OLD code,
   and is on (its curated default) under the current code *)
Lemma wasm_null_reset_old_refuted :
  exists (u1 u2 : config) (k : key),
    wf u1 /\ wf u2 /\ get k u2 = Some None /\
    is_rule_enabled (fill_with_curated curated_cfg u2) k = true /\
    is_rule_enabled (fill_with_curated curated_cfg (wasm_seq_old (clear curated_cfg) [u1; u2])) k = false /\
    is_rule_enabled (fill_with_curated curated_cfg (wasm_seq (clear curated_cfg) [u1; u2])) k = true.
Proof.
  exists [(k_SpellCheck, Some false)], [(k_SpellCheck, None)], k_SpellCheck.
  repeat split; try exact I; vm_compute; reflexivity.
Qed.
