(* C18History.v — HISTORY for property C18: what harper-core/src/title_case.rs:make_title_case did
   BEFORE the commit 41fa706 ("fix: title-casing copies only the capitalisation of a proper noun's
   canonical spelling", findings FC18a/FC18b).  Nothing here describes the current tree: every
   statement is about the `_old` definitions below, which differ from Model/TitleCase.v in one place —
   the proper-noun block copied `correct_caps[idx]` over the output character UNCONDITIONALLY.
   Kept so that the regression inputs in corpus/C18/kelvin.json have a machine-checked explanation and
   the reverse-fix mutation (notes/mutations/C18-revert-FC18.diff) is characterised. *)
Require Import Base Tables_titlecase TitleCase TitleCaseProofs.

(* output[a..b].iter_mut().enumerate().for_each(|(idx, c)| *c = correct_caps[idx])   (old) *)
Fixpoint canon_overwrite_old (out : text) (a n idx : nat) (cc : text) : res text :=
  match n with
  | 0 => Ok out
  | S n' =>
      do c <- nth_chk cc idx;
      do out' <- set_nth out (a + idx) c;
      canon_overwrite_old out' a n' (S idx) cc
  end.

Definition apply_canon_old (start_index : nat) (w : token) (oc : option text) (out : text) : res text :=
  match oc with
  | Some cc =>
      do a <- sub_chk (sstart (tspan w)) start_index;
      do b <- sub_chk (send (tspan w)) start_index;
      do _s <- slice_chk out a b;
      canon_overwrite_old out a (b - a) 0 cc
  | None => Ok out
  end.

Section Old.
  Variable lower : char -> list char.
  Variable is_lowercase : char -> bool.
  Variable dict_canon : text -> option text.
  Variable dict_meta : text -> option wmeta.

  Definition word_step_old (start_index : nat) (src : text) (index : nat) (w : token) (is_last : bool)
             (out : text) : res text :=
    do oc <- canon_for dict_canon w src;
    do out1 <- apply_canon_old start_index w oc out;
    do sc <- should_capitalize_token lower is_lowercase dict_meta w src;
    apply_cap start_index w (sc || (index =? 0) || is_last) out1.

  Fixpoint tc_loop_old (start_index : nat) (src : text) (wl : list token) (index : nat) (out : text)
    : res text :=
    match wl with
    | [] => Ok out
    | w :: rest =>
        do out' <- word_step_old start_index src index w (match rest with [] => true | _ => false end) out;
        tc_loop_old start_index src rest (S index) out'
    end.

  Definition make_title_case_old (toks : list token) (src : text) : res text :=
    match toks with
    | [] => Ok []
    | t0 :: _ =>
        let start_index := sstart (tspan t0) in
        do h <- hull toks;
        match h with
        | None => Panic PUnwrap
        | Some sp =>
            do out <- get_content sp src;
            tc_loop_old start_index src (filter tok_word_like toks) 0 out
        end
    end.
End Old.

Definition run_title_case_old
           (chars : list (char * (bool * (list char * list char))))
           (canon : list (text * option text))
           (meta : list (text * option wmeta))
           (toks : list (nat * nat * nat * option wmeta))
           (src : text) : res text :=
  let lower c := match assoc_char chars c with Some (_, (l, _)) => l | None => [c] end in
  let isl c := match assoc_char chars c with Some (b, _) => b | None => false end in
  let dc w := match assoc_text canon w with Some r => r | None => None end in
  let dm w := match assoc_text meta w with Some r => r | None => None end in
  let kind_of code m :=
      match code with
      | 0 => KWord m | 1 => KPunct | 2 => KDecade | 3 => KNumber | 4 => KSpace | 5 => KNewline
      | 6 => KEmail | 7 => KUrl | 8 => KHostname | 9 => KUnlintable | 10 => KParaBreak | _ => KRegexish
      end in
  let toks' := map (fun q => match q with (s, e, k, m) => mktok (mkspan s e) (kind_of k m) end) toks in
  make_title_case_old lower isl dc dm toks' src.

(* "b the.Kelvin" (U+212A for the K), the facts of Proofs/TitleCaseProofs.v (the kw_ definitions) plus the ASCII K the
   old code produced.  First pass (old): the canonical spelling "kelvin" is copied over "Kelvin", the
   first-letter write makes it 'K' — U+212A has become U+004B (FC18a).  The output "B the.Kelvin" is all
   ASCII around the dot and re-lexes as Word Space Hostname("the.Kelvin"); the second pass upper-cases
   the hostname's first letter: "B The.Kelvin" (FC18b). *)
Definition kw_out_old : text := [66; 32; 116; 104; 101; 46; 75; 101; 108; 118; 105; 110]%N.
Definition kw_out2_old : text := [66; 32; 84; 104; 101; 46; 75; 101; 108; 118; 105; 110]%N.
Definition kw_chars_old : list (char * (bool * (list char * list char))) := kw_chars.
Definition kw_toks2_old : list (nat * nat * nat * option wmeta) :=
  [(0, 1, 0, Some (mkmeta true false false)); (1, 2, 4, None); (2, 12, 8, None)].

Lemma kelvin_old_refuted :
  run_title_case_old kw_chars_old kw_canon kw_meta kw_toks kw_src = Ok kw_out_old /\
  run_title_case_old kw_chars_old kw_canon kw_meta kw_toks2_old kw_out_old = Ok kw_out2_old /\
  kw_out2_old <> kw_out_old /\
  nth_error kw_src 6 = Some 8490%N /\ nth_error kw_out_old 6 = Some 75%N /\
  is_case_variant (fun c => match assoc_char kw_chars_old c with Some (_, (l, _)) => l | None => [c] end)
                  (fun c => match assoc_char kw_chars_old c with Some (_, (_, u)) => u | None => [c] end)
                  8490%N 75%N = false /\
  (* the same input under the CURRENT model: unchanged KELVIN SIGN, second pass the identity *)
  run_title_case kw_chars kw_canon kw_meta kw_toks kw_src = Ok kw_out /\
  run_title_case kw_chars kw_canon kw_meta kw_toks kw_out = Ok kw_out.
Proof.
  split; [vm_compute; reflexivity|]. split; [vm_compute; reflexivity|]. split; [discriminate|].
  split; [reflexivity|]. split; [reflexivity|]. split; [vm_compute; reflexivity|].
  split; vm_compute; reflexivity.
Qed.
