(* C01History.v — witnesses for behaviour that `fix:` commits have since removed (kept so that the
   corpus cases have a machine-checked explanation).
   F1 (826a5e5): Invert returned 1 on the empty slice, so a SequencePattern ending in an Invert
                 reported a match one token longer than the tokens on offer and run_on_chunk sliced
                 out of range ("I know the how").
   F2 (be8029b): LongSentences built Span::new(first.start, last.end); see
                 TokenSeqProofs.long_sentences_old_refuted. *)
Require Import Base Overlap TokenSeq Pattern.

Definition hw (a b : nat) : tok := mktok (mkspan a b) 1 1%N 0.     (* a Word *)
Definition hs (a b : nat) : tok := mktok (mkspan a b) 2 2%N 0.     (* a Space *)
(* "I know the how" *)
Definition f1_src : text := ch [73; 32; 107; 110; 111; 119; 32; 116; 104; 101; 32; 104; 111; 119].
Definition f1_toks : list tok := [hw 0 1; hs 1 2; hw 2 6; hs 6 7; hw 7 10; hs 10 11; hw 11 14].
Definition w_the := ch [116; 104; 101].  Definition w_how := ch [104; 111; 119].  Definition w_to := ch [116; 111].

(* TheHowWhy's first alternative: the · how · Invert(whitespace · to), with Invert as it WAS *)
Definition the_how_old (ts : list tok) : res nat :=
  seq_fixed [ (fun ts => m_anycap w_the ts f1_src); (fun ts => Ok (ws_go ts)); (fun ts => m_anycap w_how ts f1_src);
              invert_old (seq_fixed [ (fun ts => Ok (ws_go ts)); (fun ts => m_anycap w_to ts f1_src) ]) ] ts.
(* … and as it is NOW *)
Definition the_how_now : pat :=
  PSeq [PAnyCap w_the; PWhitespace; PAnyCap w_how; PInvert (PSeq [PWhitespace; PAnyCap w_to])].

Theorem invert_old_refuted :
  (* the match is longer than the three tokens on offer … *)
  the_how_old (skipn 4 f1_toks) = Ok 4 /\ length (skipn 4 f1_toks) = 3 /\
  (* … and run_on_chunk slices out of range *)
  run_on_chunk_f the_how_old f1_toks = Panic PIndex.
Proof. repeat split; vm_compute; reflexivity. Qed.

Theorem invert_now_ok : forall leaf oracle,
  matches leaf oracle the_how_now (skipn 4 f1_toks) f1_src = Ok 0 /\
  run_on_chunk leaf oracle the_how_now f1_toks f1_src = Ok [].
Proof. intros. split; vm_compute; reflexivity. Qed.
