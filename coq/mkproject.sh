#!/bin/sh
# regenerate _CoqProject and Makefile from the .v files present (full .vo builds only)
cd "$(dirname "$0")"
{ echo "-R . HV"; echo "-arg -w -arg -notation-overridden,-deprecated-hint-without-locality,-deprecated-instance-without-locality"; ls Model/*.v Proofs/*.v Properties/*.v Extract/*.v History/*.v 2>/dev/null | sort; } > _CoqProject.new
if ! cmp -s _CoqProject.new _CoqProject; then mv _CoqProject.new _CoqProject; coq_makefile -f _CoqProject -o Makefile >/dev/null; else rm _CoqProject.new; fi
[ -f Makefile ] || coq_makefile -f _CoqProject -o Makefile >/dev/null
