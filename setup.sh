#!/bin/sh
# setup.sh — build the framework offline from files on disk: Coq development (full .vo build),
# extracted-model drivers, Rust harness against /repo's working tree.
set -u
cd "$(dirname "$0")"
export CARGO_NET_OFFLINE=true
mkdir -p .work evidence replays ocaml/gen ocaml/build
[ -f tools/gen_tables.py ] && python3 tools/gen_tables.py || true
( cd coq && sh mkproject.sh && timeout 3000 make -k -j16 >../.work/setup-coq.log 2>&1 ) || { echo "coq build failed (see .work/setup-coq.log)"; tail -20 .work/setup-coq.log; }
( cd ocaml && sh build.sh ) || echo "ocaml driver build failed"
( cd harness && cp /repo/Cargo.lock Cargo.lock && timeout 3000 cargo build --offline --keep-going --bins --features ls,ts >../.work/setup-cargo.log 2>&1 ) || { echo "harness build failed (see .work/setup-cargo.log)"; tail -20 .work/setup-cargo.log; }
# C10: the real harper-ls and harper-cli binaries (one target directory), so that the quick tier always runs the real-binary checks (listener address with
# port 4000 busy / free, strace of real sessions). Built from a cwd OUTSIDE /repo (its rust-toolchain.toml names the
# channel "stable" + a wasm32 target, which makes rustup go to the network) with the toolchain named explicitly.
# A read-only seed copy outside /verif lets tools/mutcheck.sh (whose private /verif has an empty .work) start warm.
( cd /tmp && RUSTUP_TOOLCHAIN="${RUSTUP_TOOLCHAIN:-stable-x86_64-unknown-linux-gnu}" CARGO_TARGET_DIR="$OLDPWD/.work/c10-ls-target" \
    timeout 3000 cargo build --offline --locked --manifest-path /repo/Cargo.toml -p harper-ls -p harper-cli >"$OLDPWD/.work/setup-c10-ls.log" 2>&1 \
  && mkdir -p /var/tmp/verif-c10-ls-target-seed \
  && rsync -a --delete "$OLDPWD/.work/c10-ls-target/" /var/tmp/verif-c10-ls-target-seed/ ) || { echo "harper-ls pre-build failed (see .work/setup-c10-ls.log)"; tail -5 .work/setup-c10-ls.log; }
echo "setup done"
