#!/bin/sh
# setup.sh — build the framework offline from files on disk: Coq development (full .vo build),
# extracted-model drivers, Rust harness against /repo's working tree.
set -u
cd "$(dirname "$0")"
export CARGO_NET_OFFLINE=true
mkdir -p .work evidence replays ocaml/gen ocaml/build
[ -f tools/gen_tables.py ] && python3 tools/gen_tables.py || true
( cd coq && sh mkproject.sh && timeout 3000 make -k -j16 >../.work/setup-coq.log 2>&1 ) || { echo "coq build failed (see .work/setup-coq.log)"; tail -20 .work/setup-coq.log; }
( cd ocaml && sh build.sh ) || echo "ocaml driver build failed"
( cd harness && cp /repo/Cargo.lock Cargo.lock && timeout 3000 cargo build --offline --keep-going --bins --features ls,ts >../.work/setup-cargo.log 2>&1 ) || { echo "harness build failed (see .work/setup-cargo.log)"; tail -20 .work/setup-cargo.log; }
echo "setup done"
