//! C01, rule bodies (deepening goal 1): the tie of coq/Model/Tables_rulebodies.v + Model/C01Len.v to the code.
//!
//! Every PatternLinter rule that is public in harper_core::linting and classified by tools/tables/rulebodies.py is
//! wrapped in a recording PatternLinter (same pattern(), match_to_lint records the length of the slice it is handed
//! and then calls the real body under catch_unwind) and run through the real `impl Linter for PatternLinter`
//! (iter_chunks + run_on_chunk) on: the sentences of the rule's own unit tests (read from the rule's source file),
//! whitespace-mutated variants of them (single spaces replaced by runs that lex to two or three whitespace tokens —
//! the situation of finding F31), each as plain text and as Markdown.
//!   correspondence: `B <Rule> <n>` for every distinct observed length n  -> impl "ok"; the extracted model answers
//!     "ok" iff the rule is in rule_table and min_len <= n <= max_len of the pattern the translator read
//!     (a translator that misreads a pattern, or a pattern that changes without the table following, shows here);
//!   oracle: a panic inside match_to_lint is a failure of the property (class rule_body_panic), with the text.
use harper_core::linting::{
    ChockFull, Dashes, Hereby, HyphenateNumberDay, LeftRightHand, Lint, Linter, MultipleSequentialPronouns, Nobody, PatternLinter, PiqueInterest, ThatWhich, TheHowWhy, ThenThan,
    UseGenitive, WasAloud,
};
use harper_core::parsers::{Markdown, PlainEnglish};
use harper_core::patterns::Pattern;
use harper_core::{Document, FstDictionary, Token};
use hv::common::{guarded, last_panic_location, Args, Report};
use serde_json::{json, Value};
use std::collections::{BTreeMap, BTreeSet};
use std::sync::Mutex;

struct Rec<L: PatternLinter> {
    inner: L,
    lens: Mutex<BTreeMap<usize, u64>>,
    panics: Mutex<Vec<(usize, String)>>,
}
impl<L: PatternLinter> PatternLinter for Rec<L> {
    fn pattern(&self) -> &dyn Pattern {
        self.inner.pattern()
    }
    fn match_to_lint(&self, matched: &[Token], source: &[char]) -> Option<Lint> {
        *self.lens.lock().unwrap().entry(matched.len()).or_insert(0) += 1;
        match guarded(|| self.inner.match_to_lint(matched, source)) {
            Ok(l) => l,
            Err(m) => {
                let loc = last_panic_location();
                self.panics.lock().unwrap().push((matched.len(), format!("{}: {}", loc.strip_prefix("/repo/").unwrap_or(&loc), m.chars().take(200).collect::<String>())));
                None
            }
        }
    }
    fn description(&self) -> &str {
        "recording wrapper"
    }
}

/// the string literals of the `#[cfg(test)]` part of a rule's source file (its own positive and negative examples)
fn test_sentences(file: &str) -> Vec<String> {
    let Ok(src) = std::fs::read_to_string(format!("/repo/{file}")) else { return vec![] };
    let Some(cut) = src.find("#[cfg(test)]") else { return vec![] };
    let s: Vec<char> = src[cut..].chars().collect();
    let mut out = vec![];
    let mut i = 0;
    while i < s.len() {
        if s[i] == '"' {
            let mut cur = String::new();
            i += 1;
            while i < s.len() && s[i] != '"' {
                if s[i] == '\\' && i + 1 < s.len() {
                    i += 1;
                    match s[i] {
                        'n' => cur.push('\n'),
                        't' => cur.push('\t'),
                        '\n' => {
                            // line continuation: skip the indentation of the next line
                            while i + 1 < s.len() && s[i + 1].is_whitespace() {
                                i += 1;
                            }
                        }
                        c => cur.push(c),
                    }
                } else {
                    cur.push(s[i]);
                }
                i += 1;
            }
            if cur.chars().count() >= 3 && cur.contains(' ') {
                out.push(cur);
            }
        }
        i += 1;
    }
    out
}

/// every single space replaced by `with`
fn respace(s: &str, with: &str) -> String {
    s.replace(' ', with)
}

pub fn texts_for(file: &str, extra: &[&str]) -> Vec<String> {
    let mut base = test_sentences(file);
    base.extend(extra.iter().map(|s| s.to_string()));
    let mut out = BTreeSet::new();
    for b in &base {
        out.insert(b.clone());
        for w in ["  ", "\n ", " \n", " \n ", "\t "] {
            out.insert(respace(b, w));
        }
        // one space at a time (the other gaps stay single)
        let idx: Vec<usize> = b.match_indices(' ').map(|(i, _)| i).collect();
        for &i in idx.iter().take(8) {
            let mut t = b.clone();
            t.replace_range(i..i + 1, "\n ");
            out.insert(t);
        }
    }
    out.into_iter().collect()
}

fn run_rule<L: PatternLinter>(rep: &mut Report, name: &str, file: &str, extra: &[&str], inner: L, only: Option<&str>) {
    let dict = FstDictionary::curated();
    let mut rec = Rec { inner, lens: Mutex::new(BTreeMap::new()), panics: Mutex::new(vec![]) };
    let texts: Vec<String> = match only {
        Some(t) => vec![t.to_string()],
        None => texts_for(file, extra),
    };
    for t in &texts {
        for md in [false, true] {
            rep.eval();
            let before = rec.panics.lock().unwrap().len();
            let doc = match guarded(|| if md { Document::new(t, &Markdown::default(), &dict) } else { Document::new(t, &PlainEnglish, &dict) }) {
                Ok(d) => d,
                Err(_) => continue, // document construction is the search's business (bin c01), not this stream's
            };
            if let Err(m) = guarded(|| rec.lint(&doc)) {
                let loc = last_panic_location();
                rep.fail("rule_framework_panic", format!("{name}: panic outside match_to_lint at {}: {}", loc.strip_prefix("/repo/").unwrap_or(&loc), m.chars().take(200).collect::<String>()), json!({"kind": "rule_body", "rule": name, "text": t, "markdown": md}));
            }
            let ps = rec.panics.lock().unwrap();
            if ps.len() > before {
                let (n, what) = &ps[before];
                rep.fail("rule_body_panic", format!("{name}::match_to_lint panicked on a matched slice of {n} tokens at {what}"), json!({"kind": "rule_body", "rule": name, "text": t, "markdown": md}));
            }
        }
    }
    let lens = rec.lens.lock().unwrap();
    rep.count_n(&format!("rule-body:{name}:texts"), texts.len() as u64);
    rep.count_n(&format!("rule-body:{name}:matches"), lens.values().sum());
    if lens.is_empty() && only.is_none() {
        // a rule whose own test sentences never reach match_to_lint: the stream is blind for it
        rep.monitor("rule_body_rules_never_matched", 1);
    }
    for (n, _) in lens.iter() {
        rep.case(&format!("B {name} {n}"), "ok");
        rep.nontrivial(&(name, *n));
    }
    if lens.len() > 1 {
        rep.count("rule-body:rules-with-several-match-lengths");
    }
}

macro_rules! each_rule {
    ($rep:expr, $only_rule:expr, $only_text:expr; $( $name:ident, $file:expr, [$($extra:expr),*] );* $(;)?) => {
        $(
            if $only_rule.map(|r: &str| r == stringify!($name)).unwrap_or(true) {
                run_rule($rep, stringify!($name), $file, &[$($extra),*], <$name>::default(), $only_text);
            }
        )*
    };
}

fn all(rep: &mut Report, only_rule: Option<&str>, only_text: Option<&str>) {
    each_rule!(rep, only_rule, only_text;
        ChockFull, "harper-core/src/linting/chock_full.rs", ["It is chalk full of it.", "choke-full of"];
        Dashes, "harper-core/src/linting/dashes.rs", ["a -- b", "a --- b", "a ---- b", "a ----- b", "--", "---"];
        Hereby, "harper-core/src/linting/hereby.rs", ["I here by declare it."];
        HyphenateNumberDay, "harper-core/src/linting/hyphenate_number_day.rs", ["a 4 day work week", "a 4 day-long trip"];
        LeftRightHand, "harper-core/src/linting/left_right_hand.rs", ["the left hand side"];
        MultipleSequentialPronouns, "harper-core/src/linting/multiple_sequential_pronouns.rs", ["he she it they we", "me my"];
        Nobody, "harper-core/src/linting/nobody.rs", ["No body knows."];
        PiqueInterest, "harper-core/src/linting/pique_interest.rs", ["It peaked my interest."];
        ThatWhich, "harper-core/src/linting/that_which.rs", ["I know that that is true."];
        TheHowWhy, "harper-core/src/linting/the_how_why.rs", ["I know the how", "the who's who", "the why"];
        ThenThan, "harper-core/src/linting/then_than.rs", ["It is bigger then me.", "more stupid then him"];
        UseGenitive, "harper-core/src/linting/use_genitive.rs", ["I saw there dog.", "Take there big red car."];
        WasAloud, "harper-core/src/linting/was_aloud.rs", ["He was aloud to go."];
    );
}

/// the three lists of the generated table, by name, for the evidence (the Coq theorem C01_rule_bodies_census pins them)
fn table_names() -> Value {
    let path = concat!(env!("CARGO_MANIFEST_DIR"), "/../coq/Model/Tables_rulebodies.v");
    let Ok(s) = std::fs::read_to_string(path) else { return json!({"error": "Tables_rulebodies.v not readable"}) };
    let mut classified = vec![];
    let mut nothing = vec![];
    let mut unclassified = vec![];
    let mut section = 0;
    for line in s.lines() {
        if line.starts_with("Definition rule_table") {
            section = 1;
        } else if line.starts_with("Definition rules_nothing_to_check") {
            section = 2;
        } else if line.starts_with("Definition rules_unclassified") {
            section = 3;
        } else if line.starts_with("Definition rule_impl_count") {
            section = 0;
        }
        let l = line.trim_start();
        let strs: Vec<&str> = l.split('"').collect();
        match section {
            1 if l.starts_with("mkrule (* ") => classified.push(l["mkrule (* ".len()..].split(' ').next().unwrap_or("").to_string()),
            2 if l.starts_with("(\"") => nothing.push(strs[1].to_string()),
            3 if l.starts_with("(\"") && strs.len() >= 6 => unclassified.push(json!({"rule": strs[1], "file": strs[3], "reason": strs[5..strs.len() - 1].join("\"")})),
            _ => {}
        }
    }
    json!({"classified_and_proved": classified, "nothing_to_check": nothing, "unclassified_by_name": unclassified})
}

pub fn run(rep: &mut Report, _a: &Args) {
    rep.extra.insert("rule_bodies".into(), table_names());
    rep.monitor("rule_body_rules_never_matched", 0);
    all(rep, None, None);
    if rep.monitors.get("rule_body_rules_never_matched").copied().unwrap_or(0) > 0 {
        rep.fail("rule_body_stream_blind", "a classified rule never reached match_to_lint on its own test sentences: the length tie observes nothing for it".into(), json!({"kind": "rule_body_all"}));
    }
}

pub fn replay(rep: &mut Report, v: &Value) {
    match v["kind"].as_str().unwrap_or("") {
        "rule_body" => all(rep, v["rule"].as_str(), v["text"].as_str()),
        "rule_body_all" => all(rep, None, None),
        _ => {}
    }
}
