//! C04 generator: source files assembled from prose and non-prose segments with ground truth by construction.
//! Prose words come from vocabulary A (plain dictionary words), every non-prose segment (code, string literals,
//! inline code, fences, math, tags, URLs, ignore-marked comments) is filled from vocabulary B (multi-byte, or
//! ASCII non-words) and from A-words that must NOT be offered because of where they stand.
use hv::common::Rng;

pub struct Built {
    pub fe: String,
    pub text: String,
    /// (char offset, word) of every prose word: exactly these must come out as Word tokens
    pub words: Vec<(usize, String)>,
    /// char ranges no lintable token may touch, with a label
    pub forbidden: Vec<(usize, usize, String)>,
}

pub const A: &[&str] = &[
    "river", "stone", "window", "garden", "yellow", "simple", "paper", "silver", "market", "bridge", "forest", "coffee",
    "letter", "summer", "winter", "animal", "planet", "doctor", "pencil", "mirror", "butter", "candle", "dinner", "engine",
    "farmer", "flower", "guitar", "hammer", "island", "jacket", "kitten", "ladder", "monkey", "napkin", "orange", "pocket",
    "rabbit", "saddle", "ticket", "valley", "wallet", "zipper", "the", "quick", "brown", "house", "little", "green",
];
/// multi-byte non-prose filler
pub const B: &[&str] = &["zählen", "値段", "😀", "ñandú", "Ωmega", "données", "ключ", "日本語", "τιμή", "qzxvb", "wrtgh", "naïvé", "🦀🦀", "ß"];
/// ASCII identifiers for code
/// every occurrence of an A-word as a whole ASCII-alphanumeric run inside a non-prose segment: if such a word is
/// offered at all (known findings, by-design exceptions), it must be offered at exactly this span
pub fn vocab_in_nonprose(text: &str, forbidden: &[(usize, usize, String)]) -> Vec<(usize, String)> {
    let cs: Vec<char> = text.chars().collect();
    let mut out = vec![];
    for (s, e, _) in forbidden {
        let (s, e) = (*s, (*e).min(cs.len()));
        let mut i = s;
        while i < e {
            if cs[i].is_ascii_alphanumeric() || cs[i] == '_' {
                let mut j = i;
                while j < cs.len() && (cs[j].is_ascii_alphanumeric() || cs[j] == '_') {
                    j += 1;
                }
                let run: String = cs[i..j].iter().collect();
                let clean_left = i == 0 || (cs[i - 1].is_ascii() && cs[i - 1] != '\'');
                let clean_right = j == cs.len() || (cs[j].is_ascii() && cs[j] != '\'');
                // (an escape letter glued to the word, as in "\nriver", makes the run "nriver": not a vocabulary run)
                if A.contains(&run.as_str()) && clean_left && clean_right && j <= e {
                    out.push((i, run));
                }
                i = j;
            } else {
                i += 1;
            }
        }
    }
    out
}

pub const IDS: &[&str] = &["qzxvb", "wrtgh", "zzkpl", "xq_1", "vbnmq", "kjhgf"];

struct Bld {
    s: String,
    n: usize,
    nl: &'static str,
    words: Vec<(usize, String)>,
    forbidden: Vec<(usize, usize, String)>,
}
impl Bld {
    fn new(crlf: bool) -> Self {
        Bld { s: String::new(), n: 0, nl: if crlf { "\r\n" } else { "\n" }, words: vec![], forbidden: vec![] }
    }
    /// neutral syntax: leaders, delimiters, whitespace
    fn raw(&mut self, x: &str) {
        self.s.push_str(x);
        self.n += x.chars().count();
    }
    fn newline(&mut self) {
        let nl = self.nl;
        self.raw(nl);
    }
    /// a non-prose segment
    fn non(&mut self, x: &str, label: &str) {
        let a = self.n;
        self.raw(x);
        if self.n > a {
            self.forbidden.push((a, self.n, label.to_string()));
        }
    }
    /// prose: k words separated by single spaces / ", " and optionally a final period
    fn prose(&mut self, r: &mut Rng, k: usize) {
        for i in 0..k {
            if i > 0 {
                if r.chance(1, 8) {
                    self.raw(", ");
                } else {
                    self.raw(" ");
                }
            }
            let w = r.s(A);
            self.words.push((self.n, w.to_string()));
            self.raw(w);
        }
        if k > 0 && r.chance(1, 3) {
            self.raw(".");
        }
    }
    /// words that look like prose but stand where nothing may be linted (inside a string literal, an ignored comment, ...)
    fn filler(&mut self, r: &mut Rng, k: usize, label: &str) {
        let mut x = String::new();
        for i in 0..k {
            if i > 0 {
                x.push(' ');
            }
            if r.chance(1, 3) {
                x.push_str(r.s(A));
            } else {
                x.push_str(r.s(B));
            }
        }
        self.non(&x, label);
    }
    fn finish(self, fe: &str) -> Built {
        Built { fe: fe.to_string(), text: self.s, words: self.words, forbidden: self.forbidden }
    }
}

struct Lang {
    line: &'static [&'static str],
    block: &'static [(&'static str, &'static str)],
    strings: &'static [(&'static str, &'static str)],
    stmts: &'static [&'static str],
    header: &'static str,
    footer: &'static str,
    /// code lines may be indented
    indent_code: bool,
}

fn lang(id: &str) -> Lang {
    let c_block: &'static [(&str, &str)] = &[("/*", "*/"), ("/**", "*/")];
    match id {
        "rust" => Lang { line: &["//", "///", "//!"], block: c_block, strings: &[("\"", "\"")], stmts: &["const {ID}: &str = {lit};", "static {ID}: &str = {lit};", "fn {id}() { let {id} = {lit}; }"], header: "", footer: "", indent_code: true },
        "typescript" | "typescriptreact" | "javascript" | "javascriptreact" => Lang { line: &["//"], block: c_block, strings: &[("\"", "\""), ("'", "'"), ("`", "`")], stmts: &["var {id} = {lit};", "const {id} = {lit};", "function {id}() { return {lit}; }"], header: "", footer: "", indent_code: true },
        "python" => Lang { line: &["#"], block: &[], strings: &[("\"", "\""), ("'", "'"), ("\"\"\"", "\"\"\"")], stmts: &["{id} = {lit}", "def {id}(): return {lit}"], header: "", footer: "", indent_code: false },
        "nix" => Lang { line: &["#"], block: &[("/*", "*/")], strings: &[("\"", "\"")], stmts: &["{id} = {lit};"], header: "{\n", footer: "}\n", indent_code: true },
        "go" => Lang { line: &["//"], block: &[("/*", "*/")], strings: &[("\"", "\""), ("`", "`")], stmts: &["var {id} = {lit}", "const {id} = {lit}"], header: "package main\n", footer: "", indent_code: true },
        "c" => Lang { line: &["//"], block: &[("/*", "*/")], strings: &[("\"", "\"")], stmts: &["const char *{id} = {lit};", "int {id}(void) { return 0; }"], header: "", footer: "", indent_code: true },
        "cpp" => Lang { line: &["//"], block: &[("/*", "*/")], strings: &[("\"", "\"")], stmts: &["const char *{id} = {lit};", "auto {id} = {lit};"], header: "", footer: "", indent_code: true },
        "cmake" => Lang { line: &["#"], block: &[("#[[", "]]")], strings: &[("\"", "\"")], stmts: &["set({ID} {lit})", "message(STATUS {lit})"], header: "", footer: "", indent_code: true },
        "ruby" => Lang { line: &["#"], block: &[], strings: &[("\"", "\""), ("'", "'")], stmts: &["{id} = {lit}", "puts {lit}"], header: "", footer: "", indent_code: true },
        "swift" => Lang { line: &["//", "///"], block: &[("/*", "*/")], strings: &[("\"", "\"")], stmts: &["let {id} = {lit}", "var {id} = {lit}"], header: "", footer: "", indent_code: true },
        "csharp" => Lang { line: &["//", "///"], block: &[("/*", "*/")], strings: &[("\"", "\"")], stmts: &["string {id} = {lit};"], header: "class Qzxvb {\n", footer: "}\n", indent_code: true },
        "toml" => Lang { line: &["#"], block: &[], strings: &[("\"", "\""), ("'", "'")], stmts: &["{id} = {lit}"], header: "", footer: "", indent_code: true },
        "lua" => Lang { line: &["--"], block: &[("--[[", "]]")], strings: &[("\"", "\""), ("'", "'")], stmts: &["local {id} = {lit}"], header: "", footer: "", indent_code: true },
        "shellscript" => Lang { line: &["#"], block: &[], strings: &[("\"", "\""), ("'", "'")], stmts: &["{ID}={lit}", "echo {lit}"], header: "", footer: "", indent_code: true },
        "java" => Lang { line: &["//"], block: c_block, strings: &[("\"", "\"")], stmts: &["String {id} = {lit};"], header: "class Qzxvb {\n", footer: "}\n", indent_code: true },
        "haskell" => Lang { line: &["--", "-- |"], block: &[("{-", "-}")], strings: &[("\"", "\"")], stmts: &["{id} = {lit}"], header: "", footer: "", indent_code: false },
        "php" => Lang { line: &["//", "#"], block: c_block, strings: &[("\"", "\""), ("'", "'")], stmts: &["${id} = {lit};"], header: "<?php\n", footer: "", indent_code: true },
        "dart" => Lang { line: &["//", "///"], block: &[("/*", "*/")], strings: &[("\"", "\""), ("'", "'")], stmts: &["var {id} = {lit};"], header: "", footer: "", indent_code: true },
        "scala" => Lang { line: &["//"], block: c_block, strings: &[("\"", "\"")], stmts: &["val {id} = {lit}"], header: "", footer: "", indent_code: true },
        _ => Lang { line: &["//"], block: c_block, strings: &[("\"", "\"")], stmts: &["var {id} = {lit};"], header: "", footer: "", indent_code: true },
    }
}

/// (line comment leaders, first block comment delimiters, statement templates, header, footer) of a language
pub fn line_leaders(id: &str) -> (&'static [&'static str], Option<(&'static str, &'static str)>, &'static [&'static str], &'static str, &'static str) {
    let l = lang(id);
    (l.line, l.block.first().copied(), l.stmts, l.header, l.footer)
}

const MARKERS: &[&str] = &["harper:ignore", "harper: ignore", "spellchecker:ignore", "spellchecker: ignore", "spell-checker:ignore", "spell-checker: ignore", "spellcheck:ignore", "spellcheck: ignore"];

fn indent(r: &mut Rng) -> &'static str {
    r.s(&["", "", "  ", "\t", "    ", "\t\t"])
}

/// one code statement; the whole of it is a non-prose segment, the literal is filled with B (and A) words
fn code_stmt(b: &mut Bld, l: &Lang, r: &mut Rng) {
    let tmpl = r.s(l.stmts);
    let (q1, q2) = *r.pick(l.strings);
    let mut lit = String::from(q1);
    for i in 0..r.range(1, 3) {
        if i > 0 {
            lit.push(' ');
        }
        lit.push_str(if r.chance(1, 3) { r.s(A) } else { r.s(B) });
    }
    lit.push_str(q2);
    let id = r.s(IDS);
    let s = tmpl.replace("{lit}", &lit).replace("{id}", id).replace("{ID}", &id.to_uppercase());
    b.non(&s, "code");
}

fn comment_file(fe: &str, id: &str, r: &mut Rng) -> Built {
    let l = lang(id);
    let mut b = Bld::new(r.chance(1, 4));
    if id == "shellscript" && r.chance(1, 3) {
        // non-ASCII interpreter paths: the length of the shebang line in chars differs from its length in bytes
        b.non(r.s(&["#!/bin/sh teh", "#!/home/zoë/bin/sh teh", "#!/usr/bin/env ключ -x", "#!/opt/値段/sh"]), "ignored_comment");
        b.newline();
        if r.chance(1, 4) {
            // the comment block merged with the shebang carries an ignore marker: the shebang hides its own line,
            // the marker the rest of the block (up to the next code line)
            let a = b.n;
            for i in 0..r.range(1, 2) {
                b.raw("# ");
                b.raw(r.s(A));
                b.raw(" ");
                if i == 0 {
                    b.raw(r.s(MARKERS));
                    b.raw(" ");
                }
                b.raw(r.s(B));
                b.newline();
            }
            let e = b.n;
            b.forbidden.push((a, e, "ignored_comment".into()));
            code_stmt(&mut b, &l, r);
            b.newline();
        }
    }
    for part in l.header.split_inclusive('\n') {
        b.non(part.trim_end_matches('\n'), "code");
        b.newline();
    }
    if id == "go" && r.chance(1, 4) {
        // a compiler directive, then (adjacent or after a blank line) an ordinary comment: one merged comment block
        b.non(r.s(&["//go:build linux", "//go:generate stringer -type=Qzxvb"]), "go_directive");
        b.newline();
        if r.chance(1, 2) {
            b.newline();
        }
        b.raw("// ");
        let k = r.range(1, 5);
        b.prose(r, k);
        b.newline();
        code_stmt(&mut b, &l, r);
        b.newline();
    }
    let n = r.range(1, 7);
    // `need_code` forces a code line between an ignore-marked comment and its neighbours (adjacent comments are
    // merged into one block by merge_whitespace_sep and the marker then covers the whole block)
    let mut need_code = false;
    for _ in 0..n {
        let choice = if need_code { 0 } else { r.below(10) };
        need_code = false;
        match choice {
            0 | 1 => {
                if l.indent_code {
                    b.raw(indent(r));
                }
                code_stmt(&mut b, &l, r);
                b.newline();
            }
            2 => {
                // code with a trailing line comment
                if l.indent_code {
                    b.raw(indent(r));
                }
                code_stmt(&mut b, &l, r);
                b.raw(" ");
                b.raw(r.s(l.line));
                b.raw(" ");
                let k = r.range(1, 5);
                b.prose(r, k);
                b.newline();
            }
            3 | 4 | 5 => {
                // one to three line comments
                let ind = indent(r);
                let leader = r.s(l.line);
                for _ in 0..r.range(1, 3) {
                    b.raw(ind);
                    b.raw(leader);
                    b.raw(r.s(&[" ", " ", "  ", "\t"]));
                    let k = r.range(1, 6);
                    b.prose(r, k);
                    b.newline();
                }
            }
            6 | 7 if !l.block.is_empty() => {
                let ind = indent(r);
                let (o, c) = *r.pick(l.block);
                b.raw(ind);
                b.raw(o);
                if r.chance(1, 2) {
                    // single line
                    b.raw(" ");
                    let k = r.range(1, 5);
                    b.prose(r, k);
                    b.raw(" ");
                    b.raw(c);
                } else {
                    let star = o.starts_with("/*");
                    for _ in 0..r.range(1, 3) {
                        b.newline();
                        b.raw(ind);
                        b.raw(if star { " * " } else { "  " });
                        let k = r.range(1, 5);
                        b.prose(r, k);
                    }
                    b.newline();
                    b.raw(ind);
                    b.raw(if star { " " } else { "" });
                    b.raw(c);
                }
                b.newline();
            }
            9 if id == "ruby" => {
                b.non("=begin", "block_delimiter");
                b.newline();
                for _ in 0..r.range(1, 3) {
                    let k = r.range(1, 5);
                    b.prose(r, k);
                    b.newline();
                }
                b.non("=end", "block_delimiter");
                b.newline();
            }
            9 if (id.starts_with("javascript") || id.starts_with("typescript") || id == "java") => {
                // a doc comment with an inline tag and a block tag: the tag contents are not prose
                let ind = indent(r);
                b.raw(ind);
                b.raw("/**");
                b.newline();
                b.raw(ind);
                b.raw(" * ");
                let k = r.range(1, 4);
                b.prose(r, k);
                b.raw(" ");
                b.non(&format!("{{@link {}}}", r.s(IDS)), "doc_tag");
                b.raw(" ");
                let k = r.range(1, 3);
                b.prose(r, k);
                b.newline();
                b.raw(ind);
                b.raw(" * ");
                b.non(&format!("@param {}", r.s(IDS)), "doc_tag");
                b.newline();
                b.raw(ind);
                b.raw(" */");
                b.newline();
            }
            9 if id == "python" => {
                // a docstring is a string literal, not a comment: nothing in it is prose — not its words, not a line that
                // looks like a comment (`# river` inside the string), whatever multi-byte text it holds
                b.non(&format!("def {}():", r.s(IDS)), "code");
                b.newline();
                let q = r.s(&["\"\"\"", "'''"]);
                let a = b.n;
                b.raw("    ");
                b.raw(q);
                for i in 0..r.range(1, 3) {
                    if i > 0 {
                        b.newline();
                        b.raw("    ");
                        if r.chance(1, 3) {
                            b.raw("# ");
                        }
                    }
                    for j in 0..r.range(1, 4) {
                        if j > 0 {
                            b.raw(" ");
                        }
                        b.raw(if r.chance(1, 2) { r.s(A) } else { r.s(B) });
                    }
                }
                b.raw(q);
                let e = b.n;
                b.forbidden.push((a, e, "docstring".into()));
                b.newline();
                b.non("    return 0", "code");
                b.newline();
            }
            9 if matches!(id, "rust" | "swift" | "haskell" | "scala" | "dart") => {
                // a nested block comment is ONE comment: the words before, inside and after the inner comment are prose,
                // also when multi-byte code precedes it
                let (o, c) = if id == "haskell" { ("{-", "-}") } else { ("/*", "*/") };
                let ind = indent(r);
                if l.indent_code {
                    b.raw(ind);
                }
                b.raw(o);
                b.raw(" ");
                let k = r.range(1, 3);
                b.prose(r, k);
                b.raw(" ");
                b.raw(o);
                b.raw(" ");
                let k = r.range(1, 3);
                b.prose(r, k);
                b.raw(" ");
                b.raw(c);
                if r.chance(1, 2) {
                    b.newline();
                    if l.indent_code {
                        b.raw(ind);
                    }
                    b.raw("   ");
                } else {
                    b.raw(" ");
                }
                let k = r.range(1, 3);
                b.prose(r, k);
                b.raw(" ");
                b.raw(c);
                b.newline();
            }
            8 => {
                // a comment carrying an ignore marker, isolated by code lines
                if l.indent_code {
                    b.raw(indent(r));
                }
                code_stmt(&mut b, &l, r);
                b.newline();
                let a = b.n;
                b.raw(indent(r));
                b.raw(r.s(l.line));
                b.raw(" ");
                if r.chance(1, 2) {
                    b.raw(r.s(A));
                    b.raw(" ");
                }
                b.raw(r.s(MARKERS));
                b.raw(" ");
                b.raw(r.s(A));
                b.raw(" ");
                b.raw(r.s(B));
                let e = b.n;
                b.forbidden.push((a, e, "ignored_comment".into()));
                b.newline();
                need_code = true;
            }
            _ => {
                b.newline();
            }
        }
    }
    if need_code {
        code_stmt(&mut b, &l, r);
        b.newline();
    }
    for part in l.footer.split_inclusive('\n') {
        b.non(part.trim_end_matches('\n'), "code");
        b.newline();
    }
    b.finish(fe)
}

fn markdown_block(b: &mut Bld, r: &mut Rng, git: bool, ilt: bool) {
    match r.below(13) {
        0 => {
            b.raw(r.s(&["# ", "## ", "### "]));
            let k = r.range(1, 5);
            b.prose(r, k);
        }
        1 => {
            for i in 0..r.range(1, 3) {
                if i > 0 {
                    b.newline();
                }
                b.raw(r.s(&["- ", "* ", "1. "]));
                let k = r.range(1, 5);
                b.prose(r, k);
            }
        }
        2 => {
            let k = r.range(1, 4);
            b.prose(r, k);
            b.raw(" ");
            b.raw("`");
            b.filler(r, 2, "inline_code");
            b.raw("`");
            b.raw(" ");
            let k = r.range(1, 4);
            b.prose(r, k);
        }
        3 => {
            b.raw("```");
            b.non(r.s(&["rust", "text", ""]), "fence");
            b.newline();
            for _ in 0..r.range(1, 3) {
                b.filler(r, 3, "fence");
                b.newline();
            }
            b.raw("```");
        }
        4 => {
            b.raw("[");
            if ilt {
                // ignore_link_title: the link text is configured away
                b.non(r.s(A), "link_text_ignored");
            } else {
                let k = r.range(1, 3);
                b.prose(r, k);
            }
            b.raw("](");
            b.non(&format!("https://example.com/{}", r.s(IDS)), "url");
            b.raw(") ");
            let k = r.range(1, 3);
            b.prose(r, k);
        }
        5 => {
            for i in 0..r.range(1, 2) {
                if i > 0 {
                    b.newline();
                }
                b.raw("> ");
                let k = r.range(1, 5);
                b.prose(r, k);
            }
        }
        6 if !git => {
            b.raw("| ");
            b.prose(r, 1);
            b.raw(" | ");
            b.prose(r, 1);
            b.raw(" |");
            b.newline();
            b.raw("|---|---|");
            b.newline();
            b.raw("| ");
            let k = r.range(1, 3);
            b.prose(r, k);
            b.raw(" | ");
            b.raw("`");
            b.filler(r, 1, "inline_code");
            b.raw("`");
            b.raw(" |");
        }
        7 => {
            let k = r.range(1, 3);
            b.prose(r, k);
            b.raw(" $");
            b.non(&format!("{}^2 + {}", r.s(IDS), r.s(IDS)), "math");
            b.raw("$ ");
            let k = r.range(1, 3);
            b.prose(r, k);
        }
        8 => {
            let d = r.s(&["*", "**", "~~"]);
            b.raw(d);
            let k = r.range(1, 3);
            b.prose(r, k);
            b.raw(d);
            b.raw(" ");
            let k = r.range(1, 3);
            b.prose(r, k);
        }
        9 => {
            let k = r.range(1, 3);
            b.prose(r, k);
            b.raw(" ");
            b.non(&format!("<span class=\"{}\">", r.s(B)), "tag");
            b.raw(" ");
            let k = r.range(1, 3);
            b.prose(r, k);
        }
        10 => {
            let k = r.range(1, 3);
            b.prose(r, k);
            b.raw(" <");
            b.non(&format!("https://example.com/{}", r.s(IDS)), "url");
            b.raw("> ");
            let k = r.range(1, 3);
            b.prose(r, k);
        }
        _ => {
            for i in 0..r.range(1, 3) {
                if i > 0 {
                    b.newline();
                }
                let k = r.range(2, 8);
                b.prose(r, k);
            }
        }
    }
}

fn markdown_file(fe: &str, r: &mut Rng) -> Built {
    let mut b = Bld::new(r.chance(1, 4));
    let git = fe == "gitcommit";
    if git && r.chance(1, 12) {
        // an untouched commit template: git comment lines only, the first one opens the file
        for _ in 0..r.range(1, 3) {
            let a = b.n;
            b.raw("# ");
            b.raw(r.s(A));
            b.raw(" ");
            b.raw(r.s(B));
            let e = b.n;
            b.forbidden.push((a, e, "git_comment".into()));
            b.newline();
        }
        return b.finish(fe);
    }
    if r.chance(1, 3) {
        // multi-byte material before the first prose
        b.raw("`");
        b.filler(r, 2, "inline_code");
        b.raw("`");
        b.newline();
        b.newline();
    }
    for i in 0..r.range(1, 5) {
        if i > 0 {
            b.newline();
            b.newline();
        }
        if git {
            // no '#' in the blocks of a commit body (a heading opens a line with '#': for git that is a comment line
            // and the parser cuts there); a mid-line '#' is generated below
            loop {
                let save = (b.s.len(), b.n, b.words.len(), b.forbidden.len());
                markdown_block(&mut b, r, true, false);
                if b.s[save.0..].contains('#') {
                    b.s.truncate(save.0);
                    b.n = save.1;
                    b.words.truncate(save.2);
                    b.forbidden.truncate(save.3);
                } else {
                    break;
                }
            }
        } else {
            markdown_block(&mut b, r, false, fe == "markdown-ilt");
        }
    }
    b.newline();
    if git && r.chance(1, 5) {
        // an issue reference in the body: '#' in the middle of a line is not a git comment
        b.newline();
        let k = r.range(1, 3);
        b.prose(r, k);
        b.raw(" ");
        b.raw(&format!("#{}", r.range(1, 999)));
        b.raw(" ");
        let k = r.range(1, 4);
        b.prose(r, k);
        b.newline();
    }
    if git && r.chance(1, 2) {
        b.newline();
        for _ in 0..r.range(1, 3) {
            let a = b.n;
            b.raw("# ");
            b.raw(r.s(A));
            b.raw(" ");
            b.raw(r.s(B));
            let e = b.n;
            b.forbidden.push((a, e, "git_comment".into()));
            b.newline();
        }
    }
    b.finish(fe)
}

fn html_file(fe: &str, r: &mut Rng) -> Built {
    let mut b = Bld::new(r.chance(1, 4));
    b.non("<html>", "tag");
    b.non("<body>", "tag");
    b.newline();
    for _ in 0..r.range(1, 5) {
        b.raw(indent(r));
        match r.below(8) {
            0 => {
                b.non("<h1>", "tag");
                let k = r.range(1, 4);
                b.prose(r, k);
                b.non("</h1>", "tag");
            }
            1 => {
                b.non(&format!("<p class=\"{}\">", r.s(B)), "tag");
                let k = r.range(1, 4);
                b.prose(r, k);
                b.raw(" ");
                b.non("<b>", "tag");
                b.prose(r, 1);
                b.non("</b>", "tag");
                b.raw(" ");
                let k = r.range(1, 3);
                b.prose(r, k);
                b.non("</p>", "tag");
            }
            2 => {
                b.non("<script>", "tag");
                b.non(&format!("var {} = \"{} {}\";", r.s(IDS), r.s(B), r.s(A)), "script");
                b.non("</script>", "tag");
            }
            3 => {
                b.non(&format!("<!-- {} {} -->", r.s(B), r.s(A)), "html_comment");
            }
            4 => {
                b.non("<style>", "tag");
                b.non(&format!(".{} {{ color: red; }}", r.s(IDS)), "style");
                b.non("</style>", "tag");
            }
            5 => {
                b.non("<ul>", "tag");
                b.non("<li>", "tag");
                let k = r.range(1, 4);
                b.prose(r, k);
                b.non("</li>", "tag");
                b.non("</ul>", "tag");
            }
            6 => {
                b.non(&format!("<a href=\"https://example.com/{}\" title=\"{}\">", r.s(IDS), r.s(B)), "tag");
                let k = r.range(1, 3);
                b.prose(r, k);
                b.non("</a>", "tag");
            }
            _ => {
                b.non("<p>", "tag");
                let k = r.range(2, 7);
                b.prose(r, k);
                b.non("</p>", "tag");
            }
        }
        b.newline();
    }
    b.non("</body>", "tag");
    b.non("</html>", "tag");
    b.newline();
    b.finish(fe)
}

fn typst_file(fe: &str, r: &mut Rng) -> Built {
    let mut b = Bld::new(r.chance(1, 4));
    for i in 0..r.range(1, 5) {
        if i > 0 {
            b.newline();
            b.newline();
        }
        match r.below(10) {
            0 => {
                b.raw(r.s(&["= ", "== "]));
                let k = r.range(1, 4);
                b.prose(r, k);
            }
            1 => {
                b.non(&format!("#let {} = {}", r.s(IDS), r.range(1, 99)), "code");
            }
            2 => {
                let k = r.range(1, 3);
                b.prose(r, k);
                b.raw(" $");
                b.non(&format!("{}^2 + {}", r.s(IDS), r.s(IDS)), "math");
                b.raw("$ ");
                let k = r.range(1, 3);
                b.prose(r, k);
            }
            3 => {
                for j in 0..r.range(1, 3) {
                    if j > 0 {
                        b.newline();
                    }
                    b.raw(r.s(&["- ", "+ "]));
                    let k = r.range(1, 4);
                    b.prose(r, k);
                }
            }
            4 => {
                b.raw("*");
                let k = r.range(1, 3);
                b.prose(r, k);
                b.raw("* _");
                let k = r.range(1, 3);
                b.prose(r, k);
                b.raw("_");
            }
            5 => {
                let k = r.range(1, 3);
                b.prose(r, k);
                b.raw(" `");
                b.filler(r, 2, "inline_code");
                b.raw("` ");
                let k = r.range(1, 3);
                b.prose(r, k);
            }
            6 => {
                b.non(&format!("// {} {}", r.s(B), r.s(A)), "typst_comment");
            }
            7 => {
                // a string literal in code; half of them with backslash escapes followed by vocabulary words (the
                // escape is shorter in the resolved string than in the file: offsets must be those of the file)
                let mut lit = String::new();
                let escapes = r.chance(1, 2);
                for i in 0..r.range(2, 6) {
                    if i > 0 {
                        lit.push(' ');
                    }
                    if escapes && r.chance(1, 3) {
                        lit.push_str(r.s(&["\\n", "\\t", "\\\"", "\\\\", "\\u{2014}", "\\u{ab}"]));
                        if r.chance(1, 2) {
                            // directly followed by a word, as in "\"river\""
                            lit.push_str(r.s(A));
                            lit.push_str(r.s(&["", "\\\""]));
                        }
                    } else if r.chance(1, 2) {
                        lit.push_str(r.s(A));
                    } else {
                        lit.push_str(r.s(B));
                    }
                }
                let head = r.s(&["#let {} = ", "#figure(caption: ", "#text("]).replace("{}", r.s(IDS));
                let tail = if head.starts_with("#let") { "" } else { ")" };
                b.non(&format!("{head}\"{lit}\"{tail}"), "string_literal");
            }
            8 => {
                b.non(&format!("#link(\"https://example.com/{}\")", r.s(IDS)), "url");
                b.raw("[");
                let k = r.range(1, 3);
                b.prose(r, k);
                b.raw("]");
            }
            _ => {
                for j in 0..r.range(1, 3) {
                    if j > 0 {
                        b.newline();
                    }
                    let k = r.range(2, 7);
                    b.prose(r, k);
                }
            }
        }
    }
    b.newline();
    b.finish(fe)
}

fn lhs_file(fe: &str, r: &mut Rng) -> Built {
    let mut b = Bld::new(false);
    for i in 0..r.range(1, 5) {
        if i > 0 {
            b.newline(); // blank line between blocks (required around bird tracks)
        }
        match r.below(4) {
            0 => {
                // Haskell report 10.4: program lines start with '>' and are separated from text by blank lines;
                // a bird block may open the file (there is no preceding line to be adjacent to)
                let label = "code";
                for _ in 0..r.range(1, 3) {
                    b.non(&format!("> {} = \"{} {}\"", r.s(IDS), r.s(B), r.s(A)), label);
                    b.newline();
                }
            }
            1 => {
                b.non("\\begin{code}", "code");
                b.newline();
                for _ in 0..r.range(1, 3) {
                    b.non(&format!("{} = \"{} {}\"", r.s(IDS), r.s(B), r.s(A)), "code");
                    b.newline();
                }
                b.non("\\end{code}", "code");
                b.newline();
            }
            _ => {
                for _ in 0..r.range(1, 3) {
                    let k = r.range(2, 7);
                    b.prose(r, k);
                    b.newline();
                }
            }
        }
    }
    b.finish(fe)
}

pub fn build_file(fe: &str, r: &mut Rng) -> Built {
    let base = fe.split('+').next().unwrap();
    match base {
        "markdown" | "markdown-ilt" | "gitcommit" => markdown_file(fe, r),
        "html" => html_file(fe, r),
        "typst" => typst_file(fe, r),
        "lhaskell" => lhs_file(fe, r),
        other => {
            let id = other.strip_prefix("c:").unwrap_or(other);
            comment_file(fe, id, r)
        }
    }
}
