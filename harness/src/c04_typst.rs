//! C04, Typst: the abstract tree of Model/C04Typst.v built from typst-syntax's AST by following the arms of
//! harper-typst/src/typst_translator.rs (tools/tables/typst.py pins the arms), and the cursor-free expected token
//! list (tr_spec of Proofs/C04TypstProofs.v) computed with str::chars().count().
use harper_core::parsers::{PlainEnglish, StrParser};
use harper_core::{Token, TokenKind};
use typst_syntax::ast::{Arg, ArrayItem, AstNode, DestructuringItem, DictItem, Expr, FuncCall, Ident, LetBindingKind, Param, Pattern, Spread};
use typst_syntax::Source;

pub type R = Option<(usize, usize)>;

#[derive(Debug, Clone)]
pub enum TN {
    Leaf(R, u64),
    Text(R, String),
    Str(R, String),
    Tok(R, u64),
    Node(R, Vec<TN>),
    Group(Vec<TN>),
}

pub const K_PARBREAK: u64 = 1;
pub const K_UNL: u64 = 2;
pub const K_NL1: u64 = 3;
pub const K_WORD: u64 = 5;
pub const K_PUNCT: u64 = 6;
pub const K_URL: u64 = 10;

pub struct Builder<'a> {
    pub doc: &'a Source,
}

impl<'a> Builder<'a> {
    fn rng(&self, span: typst_syntax::Span) -> R {
        self.doc.range(span).map(|r| (r.start, r.end))
    }

    /// convert_parbreaks (lib.rs) + the filter_map(parse_expr) over the result
    pub fn seq(&self, exprs: Vec<Expr>) -> Vec<TN> {
        let hl = |e: &Expr| matches!(e, Expr::Heading(_) | Expr::List(_));
        let n = exprs.len();
        (0..n)
            .map(|i| {
                if i >= 1 && i + 1 < n && matches!(exprs[i], Expr::Space(_)) && (hl(&exprs[i - 1]) || hl(&exprs[i + 1])) {
                    TN::Leaf(self.rng(exprs[i].span()), K_PARBREAK)
                } else {
                    self.expr(exprs[i])
                }
            })
            .collect()
    }

    fn ident(&self, i: Ident) -> TN {
        self.expr(Expr::Ident(i))
    }

    fn spread(&self, s: Spread) -> TN {
        let mut v = vec![self.expr(s.expr())];
        if let Some(i) = s.sink_ident() {
            v.push(self.ident(i));
        }
        TN::Group(v)
    }

    fn pattern(&self, p: Pattern) -> TN {
        match p {
            Pattern::Normal(e) => self.expr(e),
            Pattern::Placeholder(u) => TN::Tok(self.rng(u.span()), K_UNL),
            Pattern::Parenthesized(p) => TN::Group(vec![self.expr(p.expr()), self.pattern(p.pattern())]),
            Pattern::Destructuring(d) => TN::Group(
                d.items()
                    .map(|item| match item {
                        DestructuringItem::Pattern(p) => self.pattern(p),
                        DestructuringItem::Named(n) => TN::Group(vec![TN::Tok(self.rng(n.name().span()), K_WORD), self.pattern(n.pattern())]),
                        DestructuringItem::Spread(s) => {
                            let mut v = vec![];
                            if let Some(i) = s.sink_ident() {
                                v.push(self.ident(i));
                            }
                            if let Some(e) = s.sink_expr() {
                                v.push(self.expr(e));
                            }
                            TN::Group(v)
                        }
                    })
                    .collect(),
            ),
        }
    }

    fn args(&self, items: Vec<Arg>) -> Vec<TN> {
        items
            .into_iter()
            .map(|a| match a {
                Arg::Pos(e) => self.expr(e),
                Arg::Named(n) => TN::Group(vec![self.ident(n.name()), self.expr(n.expr())]),
                Arg::Spread(s) => self.spread(s),
            })
            .collect()
    }

    fn func_call(&self, r: R, func: FuncCall) -> TN {
        let callee = self.rng(func.callee().span());
        let mut kids = vec![TN::Tok(callee, K_UNL)];
        let Some((a, b)) = callee else {
            return TN::Node(r, kids); // the translator panics on the unwrap; so does the model at this Tok
        };
        let text = self.doc.get(a..b).unwrap_or("");
        let ignored: Option<(bool, &[&str])> = match text {
            "std.rgb" | "color.rgb" | "rgb" => Some((true, &[])),
            "std.plugin" | "plugin" => Some((true, &[])),
            "std.bibliography" | "bibliography" => Some((true, &["style"])),
            "std.cite" | "cite" => Some((true, &["style"])),
            "std.raw" | "raw" => Some((false, &["syntaxes", "theme"])),
            "std.image" | "image" => Some((true, &[])),
            "std.regex" | "regex" => Some((true, &[])),
            _ if text.ends_with(".display") => Some((true, &[])),
            _ => None,
        };
        match ignored {
            None => kids.extend(self.args(func.args().items().collect())),
            Some((ignore_pos, nameds)) => {
                // 3103238 (F34): the arguments stay in text order — a dead one is one Unlintable token, a live one goes
                // through parse_args on its own
                for a in func.args().items() {
                    let dead = match &a {
                        Arg::Pos(_) => ignore_pos,
                        Arg::Named(n) => nameds.contains(&n.name().as_str()),
                        Arg::Spread(_) => false,
                    };
                    if dead {
                        kids.push(TN::Tok(self.rng(a.span()), K_UNL));
                    } else {
                        kids.extend(self.args(vec![a]));
                    }
                }
            }
        }
        TN::Node(r, kids)
    }

    pub fn expr(&self, e: Expr) -> TN {
        let r = self.rng(e.span());
        match e {
            Expr::Text(t) => TN::Text(r, t.get().to_string()),
            Expr::Space(_) => {
                let kind = match r {
                    Some((a, b)) => {
                        let s = self.doc.get(a..b).unwrap_or(" ");
                        if s.starts_with('\n') {
                            K_NL1
                        } else {
                            2000 + (s.chars().count() as u64).min(900)
                        }
                    }
                    None => K_UNL,
                };
                TN::Leaf(r, kind)
            }
            Expr::Linebreak(_) => TN::Leaf(r, K_NL1),
            Expr::Parbreak(_) => TN::Leaf(r, K_PARBREAK),
            Expr::SmartQuote(_) => TN::Leaf(r, K_PUNCT),
            Expr::Strong(x) => TN::Node(r, self.seq(x.body().exprs().collect())),
            Expr::Emph(x) => TN::Node(r, self.seq(x.body().exprs().collect())),
            Expr::Link(_) => TN::Leaf(r, K_URL),
            Expr::Heading(x) => TN::Node(r, self.seq(x.body().exprs().collect())),
            Expr::List(x) => TN::Node(r, self.seq(x.body().exprs().collect())),
            Expr::Enum(x) => TN::Node(r, self.seq(x.body().exprs().collect())),
            Expr::Term(x) => TN::Node(r, self.seq(x.term().exprs().chain(x.description().exprs()).collect())),
            Expr::Str(t) => TN::Str(r, t.to_untyped().text().to_string()),
            Expr::Content(x) => TN::Node(r, self.seq(x.body().exprs().collect())),
            Expr::Parenthesized(p) => TN::Node(r, vec![self.expr(p.expr())]),
            Expr::Array(a) => TN::Node(r, a.items().filter_map(|i| if let ArrayItem::Pos(e) = i { Some(self.expr(e)) } else { None }).collect()),
            Expr::Dict(d) => TN::Node(
                r,
                d.items()
                    .map(|di| match di {
                        DictItem::Named(n) => TN::Group(vec![self.ident(n.name()), self.expr(n.expr())]),
                        DictItem::Keyed(k) => TN::Group(vec![self.expr(k.key()), self.expr(k.expr())]),
                        DictItem::Spread(s) => self.spread(s),
                    })
                    .collect(),
            ),
            Expr::FieldAccess(f) => TN::Node(r, vec![self.expr(f.target()), TN::Tok(self.rng(f.field().span()), K_WORD)]),
            Expr::Let(l) => {
                let mut v = vec![match l.kind() {
                    LetBindingKind::Normal(p) => self.pattern(p),
                    LetBindingKind::Closure(i) => self.ident(i),
                }];
                if let Some(e) = l.init() {
                    v.push(self.expr(e));
                }
                TN::Node(r, v)
            }
            Expr::DestructAssign(d) => TN::Node(r, vec![self.expr(d.value())]),
            Expr::Set(s) => {
                // 3103238: target, args, condition (source order)
                let mut v = vec![self.expr(s.target())];
                v.extend(self.args(s.args().items().collect()));
                if let Some(c) = s.condition() {
                    v.push(self.expr(c));
                }
                TN::Node(r, v)
            }
            Expr::Show(s) => {
                // 3103238: selector, then transform (source order)
                let mut v = vec![];
                if let Some(c) = s.selector() {
                    v.push(self.expr(c));
                }
                v.push(self.expr(s.transform()));
                TN::Node(r, v)
            }
            Expr::Contextual(c) => TN::Node(r, vec![self.expr(c.body())]),
            Expr::Conditional(c) => {
                let mut v = vec![self.expr(c.condition()), self.expr(c.if_body())];
                if let Some(e) = c.else_body() {
                    v.push(self.expr(e));
                }
                TN::Node(r, v)
            }
            Expr::While(w) => TN::Node(r, vec![self.expr(w.condition()), self.expr(w.body())]),
            Expr::For(f) => TN::Node(r, vec![self.expr(f.iterable()), self.expr(f.body())]),
            Expr::Code(c) => TN::Node(r, self.seq(c.body().exprs().collect())),
            Expr::Closure(c) => {
                let mut v = vec![];
                if let Some(i) = c.name() {
                    v.push(self.ident(i));
                }
                for p in c.params().children() {
                    v.push(match p {
                        Param::Pos(p) => self.pattern(p),
                        Param::Named(n) => TN::Group(vec![self.ident(n.name()), self.expr(n.expr())]),
                        Param::Spread(s) => self.spread(s),
                    });
                }
                v.push(self.expr(c.body()));
                TN::Node(r, v)
            }
            Expr::FuncCall(f) => self.func_call(r, f),
            _ => TN::Leaf(r, K_UNL),
        }
    }
}

/// prefix serialisation read by Model/C04Typst.v parse_tree
pub fn ser(n: &TN, out: &mut Vec<u64>) {
    let r = |r: &R, out: &mut Vec<u64>| match r {
        Some((a, b)) => out.extend([1, *a as u64, *b as u64]),
        None => out.extend([0, 0, 0]),
    };
    match n {
        TN::Leaf(x, k) => {
            out.push(0);
            r(x, out);
            out.push(*k);
        }
        TN::Text(x, t) => {
            out.push(1);
            r(x, out);
            out.push(t.chars().count() as u64);
            out.extend(t.chars().map(|c| c as u64));
        }
        TN::Str(x, t) => {
            out.push(2);
            r(x, out);
            out.push(t.len() as u64);
            out.extend(t.bytes().map(|c| c as u64));
        }
        TN::Tok(x, k) => {
            out.push(3);
            r(x, out);
            out.push(*k);
        }
        TN::Node(x, cs) => {
            out.push(4);
            r(x, out);
            out.push(cs.len() as u64);
            for c in cs {
                ser(c, out);
            }
        }
        TN::Group(cs) => {
            out.push(5);
            out.push(cs.len() as u64);
            for c in cs {
                ser(c, out);
            }
        }
    }
}

/// the texts handed to PlainEnglish (table entries of the model)
pub fn lexed_texts(n: &TN, out: &mut Vec<String>) {
    match n {
        TN::Text(Some(_), t) => out.push(t.clone()),
        TN::Str(Some(_), raw) => {
            if raw.len() >= 2 && raw.is_char_boundary(1) && raw.is_char_boundary(raw.len() - 1) {
                out.push(raw[1..raw.len() - 1].to_string());
            }
        }
        TN::Node(Some(_), cs) | TN::Group(cs) => cs.iter().for_each(|c| lexed_texts(c, out)),
        _ => {}
    }
}

/// tn_ok of Proofs/C04TypstProofs.v (the range contract) and, separately, "the node's text is the text of its range"
pub fn contract(src: &str, lo: usize, n: &TN, range_ok: &mut bool, text_ok: &mut bool) {
    let rok = |a: usize, b: usize| lo <= a && a <= b && src.is_char_boundary(a) && src.is_char_boundary(b);
    match n {
        TN::Leaf(Some((a, b)), _) | TN::Tok(Some((a, b)), _) => *range_ok &= rok(*a, *b),
        TN::Tok(None, _) => *range_ok = false,
        TN::Text(Some((a, b)), t) => {
            *range_ok &= rok(*a, *b);
            *text_ok &= rok(*a, *b) && &src[*a..*b] == t.as_str();
        }
        TN::Str(Some((a, b)), raw) => {
            *range_ok &= rok(*a, *b) && raw.len() >= 2 && raw.is_char_boundary(1) && raw.is_char_boundary(raw.len() - 1);
            *text_ok &= rok(*a, *b) && &src[*a..*b] == raw.as_str() && raw.starts_with('"') && raw.ends_with('"');
        }
        TN::Node(Some((a, b)), cs) => {
            *range_ok &= rok(*a, *b);
            cs.iter().for_each(|c| contract(src, *a, c, range_ok, text_ok));
        }
        TN::Group(cs) => cs.iter().for_each(|c| contract(src, lo, c, range_ok, text_ok)),
        _ => {}
    }
}

/// tr_spec: the token list without any cursor; None = the translator must panic (an unwrapped detached span)
pub fn expected(src: &str, n: &TN, out: &mut Vec<(usize, usize, u64)>, kc: &dyn Fn(&TokenKind) -> u64) -> Option<()> {
    let cb = |x: usize| src.get(..x).map(|s| s.chars().count());
    match n {
        TN::Leaf(Some((a, b)), k) | TN::Tok(Some((a, b)), k) => out.push((cb(*a)?, cb(*b)?, *k)),
        TN::Tok(None, _) => return None,
        TN::Text(Some((a, _)), t) => {
            let off = cb(*a)?;
            let toks: Vec<Token> = PlainEnglish.parse_str(t);
            out.extend(toks.iter().map(|t| (t.span.start + off, t.span.end + off, kc(&t.kind))));
        }
        TN::Str(Some((a, _)), raw) => {
            let off = cb(*a)? + 1;
            let inner = raw.get(1..raw.len().checked_sub(1)?)?;
            let toks: Vec<Token> = PlainEnglish.parse_str(inner);
            out.extend(toks.iter().map(|t| (t.span.start + off, t.span.end + off, kc(&t.kind))));
        }
        TN::Node(Some(_), cs) | TN::Group(cs) => {
            for c in cs {
                expected(src, c, out, kc)?;
            }
        }
        _ => {}
    }
    Some(())
}
