//! Shared harness plumbing: deterministic PRNG, report file, panic capture.
use serde_json::{json, Value};
use std::collections::BTreeMap;
use std::io::Write;
use std::panic::{catch_unwind, AssertUnwindSafe};

/// SplitMix64: every random choice of a run derives from one seed, so a disagreement replays exactly.
#[derive(Clone)]
pub struct Rng(pub u64);
impl Rng {
    pub fn new(seed: u64) -> Self {
        Rng(seed.wrapping_mul(0x9E3779B97F4A7C15) ^ 0xD1B54A32D192ED03)
    }
    pub fn next(&mut self) -> u64 {
        self.0 = self.0.wrapping_add(0x9E3779B97F4A7C15);
        let mut z = self.0;
        z = (z ^ (z >> 30)).wrapping_mul(0xBF58476D1CE4E5B9);
        z = (z ^ (z >> 27)).wrapping_mul(0x94D049BB133111EB);
        z ^ (z >> 31)
    }
    pub fn below(&mut self, n: usize) -> usize {
        if n == 0 { 0 } else { (self.next() % n as u64) as usize }
    }
    pub fn range(&mut self, lo: usize, hi: usize) -> usize {
        lo + self.below(hi - lo + 1)
    }
    pub fn chance(&mut self, num: usize, den: usize) -> bool {
        self.below(den) < num
    }
    pub fn pick<'a, T>(&mut self, xs: &'a [T]) -> &'a T {
        let i = self.below(xs.len());
        &xs[i]
    }
    pub fn s(&mut self, xs: &[&'static str]) -> &'static str {
        let i = self.below(xs.len());
        xs[i]
    }
    pub fn fork(&mut self) -> Rng {
        Rng(self.next())
    }
}

pub struct Args {
    pub tier: String,
    pub seed: u64,
    pub out: String,
    pub replay: Option<String>,
}
impl Args {
    pub fn thorough(&self) -> bool {
        self.tier == "thorough"
    }
    pub fn scale(&self, quick: usize, thorough: usize) -> usize {
        if self.thorough() { thorough } else { quick }
    }
}

/// One property-oracle failure on the implementation.
/// `class` is the key matched against known_findings.json; `input` replays it.
#[derive(Clone)]
pub struct Failure {
    pub class: String,
    pub what: String,
    pub input: Value,
}

pub struct Report {
    pub dir: String,
    pub cases: std::io::BufWriter<std::fs::File>,
    pub impl_out: std::io::BufWriter<std::fs::File>,
    pub evaluations: u64,
    pub nontrivial: std::collections::HashSet<u64>,
    pub samples: Vec<Value>,
    pub failures: Vec<Failure>,
    pub dist: BTreeMap<String, u64>,
    pub monitors: BTreeMap<String, u64>,
    pub rule: String,
    pub extra: BTreeMap<String, Value>,
    pub n_cases: u64,
}

impl Report {
    pub fn new(dir: &str) -> Self {
        std::fs::create_dir_all(dir).unwrap();
        let f = |n: &str| std::io::BufWriter::new(std::fs::File::create(format!("{dir}/{n}")).unwrap());
        Report {
            dir: dir.to_string(),
            cases: f("cases.txt"),
            impl_out: f("impl.txt"),
            evaluations: 0,
            nontrivial: Default::default(),
            samples: vec![],
            failures: vec![],
            dist: Default::default(),
            monitors: Default::default(),
            rule: String::new(),
            extra: Default::default(),
            n_cases: 0,
        }
    }
    /// A correspondence case: one line for the model driver and the implementation's answer.
    pub fn case(&mut self, case_line: &str, impl_line: &str) {
        debug_assert!(!case_line.contains('\n') && !impl_line.contains('\n'));
        writeln!(self.cases, "{case_line}").unwrap();
        writeln!(self.impl_out, "{impl_line}").unwrap();
        self.n_cases += 1;
    }
    pub fn count(&mut self, key: &str) {
        *self.dist.entry(key.to_string()).or_insert(0) += 1;
    }
    pub fn count_n(&mut self, key: &str, n: u64) {
        *self.dist.entry(key.to_string()).or_insert(0) += n;
    }
    pub fn monitor(&mut self, key: &str, n: u64) {
        *self.monitors.entry(key.to_string()).or_insert(0) += n;
    }
    pub fn eval(&mut self) {
        self.evaluations += 1;
    }
    /// Record a distinct non-trivial case by a hash of its content.
    pub fn nontrivial<T: std::hash::Hash>(&mut self, t: &T) {
        use std::hash::Hasher;
        let mut h = std::collections::hash_map::DefaultHasher::new();
        t.hash(&mut h);
        self.nontrivial.insert(h.finish());
    }
    pub fn sample(&mut self, v: Value) {
        if self.samples.len() < 8 {
            self.samples.push(v);
        }
    }
    pub fn fail(&mut self, class: &str, what: String, input: Value) {
        if self.failures.len() < 2000 {
            self.failures.push(Failure { class: class.to_string(), what, input });
        }
        self.count(&format!("fail:{class}"));
    }
    pub fn finish(mut self) {
        self.cases.flush().unwrap();
        self.impl_out.flush().unwrap();
        let fails: Vec<Value> = self
            .failures
            .iter()
            .map(|f| json!({"class": f.class, "what": f.what, "input": f.input}))
            .collect();
        let v = json!({
            "evaluations": self.evaluations,
            "distinct_nontrivial": self.nontrivial.len(),
            "rule": self.rule,
            "samples": self.samples,
            "failures": fails,
            "distribution": self.dist,
            "monitors": self.monitors,
            "correspondence_cases": self.n_cases,
            "extra": self.extra,
        });
        std::fs::write(format!("{}/report.json", self.dir), serde_json::to_string_pretty(&v).unwrap()).unwrap();
    }
}

thread_local! {
    static GUARD_DEPTH: std::cell::Cell<u32> = std::cell::Cell::new(0);
    static LAST_LOC: std::cell::RefCell<String> = std::cell::RefCell::new(String::new());
}

/// Panic hook installed by `hv::cli()`: silent inside `guarded` (the location is remembered, see
/// `last_panic_location`), loud for a panic of the harness itself so that an abnormal exit is explained.
pub fn install_panic_hook() {
    std::panic::set_hook(Box::new(|info| {
        let loc = info.location().map(|l| format!("{}:{}", l.file(), l.line())).unwrap_or_default();
        let depth = GUARD_DEPTH.with(|d| d.get());
        if depth == 0 {
            let msg = if let Some(s) = info.payload().downcast_ref::<String>() {
                s.clone()
            } else if let Some(s) = info.payload().downcast_ref::<&str>() {
                s.to_string()
            } else {
                "panic".to_string()
            };
            eprintln!("UNGUARDED PANIC in harness at {loc}: {msg}");
        }
        LAST_LOC.with(|l| *l.borrow_mut() = loc);
    }));
}

/// Source location (`file:line`) of the most recent panic on this thread ("" if none).
pub fn last_panic_location() -> String {
    LAST_LOC.with(|l| l.borrow().clone())
}

/// Run `f`, mapping a panic to Err(message).  The hook installed by `hv::cli()` keeps it silent.
pub fn guarded<T>(f: impl FnOnce() -> T) -> Result<T, String> {
    GUARD_DEPTH.with(|d| d.set(d.get() + 1));
    let r = catch_unwind(AssertUnwindSafe(f));
    GUARD_DEPTH.with(|d| d.set(d.get().saturating_sub(1)));
    match r {
        Ok(v) => Ok(v),
        Err(e) => Err(if let Some(s) = e.downcast_ref::<String>() {
            s.clone()
        } else if let Some(s) = e.downcast_ref::<&str>() {
            s.to_string()
        } else {
            "panic".to_string()
        }),
    }
}

pub fn cps(s: &[char]) -> String {
    s.iter().map(|c| (*c as u32).to_string()).collect::<Vec<_>>().join(" ")
}
pub fn chars(s: &str) -> Vec<char> {
    s.chars().collect()
}
