//! C01 correspondence for the modelled cores (module of bin c01; not part of the hv library).
use hv::common::*;
use serde_json::Value;

pub fn replay(_rep: &mut Report, _v: &Value) {}
pub fn run(_rep: &mut Report, _a: &Args, _r: &mut Rng) {}
