//! hv — shared library of the verification harness (one binary per property in src/bin/).
//! binary usage: <bin> <tier> <seed> <outdir> [--replay FILE] [--corpus DIR]
pub mod common;
pub mod frontends;
pub mod gen;

use common::Args;
use serde_json::Value;

pub fn load_inputs(path: &str) -> Vec<Value> {
    // a replay / corpus file holds either {"input": ...}, {"inputs": [...]} or a bare input
    let Ok(s) = std::fs::read_to_string(path) else { return vec![] };
    let Ok(v) = serde_json::from_str::<Value>(&s) else { return vec![] };
    if let Some(a) = v.get("inputs").and_then(|x| x.as_array()) {
        a.clone()
    } else if let Some(i) = v.get("input") {
        vec![i.clone()]
    } else {
        vec![v]
    }
}

/// Parse the command line shared by every property binary; returns the arguments and the corpus /
/// replay inputs (run first).  Also silences the default panic hook: panics are caught and classified.
pub fn cli() -> (Args, Vec<Value>) {
    let argv: Vec<String> = std::env::args().collect();
    if argv.len() < 4 {
        eprintln!("usage: {} <tier> <seed> <outdir> [--replay FILE] [--corpus DIR]", argv[0]);
        std::process::exit(2);
    }
    let mut args = Args { tier: argv[1].clone(), seed: argv[2].parse().unwrap_or(0), out: argv[3].clone(), replay: None };
    let mut corpus: Vec<Value> = vec![];
    let mut i = 4;
    while i < argv.len() {
        match argv[i].as_str() {
            "--replay" => {
                args.replay = Some(argv[i + 1].clone());
                corpus = load_inputs(&argv[i + 1]);
                i += 2;
            }
            "--corpus" => {
                if args.replay.is_none() {
                    let mut files: Vec<_> = std::fs::read_dir(&argv[i + 1]).map(|d| d.filter_map(|e| e.ok()).map(|e| e.path()).collect()).unwrap_or_default();
                    files.sort();
                    for f in files {
                        if f.extension().map(|e| e == "json").unwrap_or(false) {
                            corpus.extend(load_inputs(f.to_str().unwrap()));
                        }
                    }
                }
                i += 2;
            }
            _ => i += 1,
        }
    }
    common::install_panic_hook();
    (args, corpus)
}
