//! hv — the verification harness.  usage: hv <property> <tier> <seed> <outdir> [--replay FILE] [--corpus DIR]
mod common;
mod gen;
mod c13;
mod c03;
mod frontends;

use common::Args;
use serde_json::Value;

fn load_inputs(path: &str) -> Vec<Value> {
    // a replay / corpus file holds either {"input": ...}, {"inputs": [...]} or a bare input
    let Ok(s) = std::fs::read_to_string(path) else { return vec![] };
    let Ok(v) = serde_json::from_str::<Value>(&s) else { return vec![] };
    if let Some(a) = v.get("inputs").and_then(|x| x.as_array()) {
        a.clone()
    } else if let Some(i) = v.get("input") {
        vec![i.clone()]
    } else {
        vec![v]
    }
}

fn main() {
    let argv: Vec<String> = std::env::args().collect();
    if argv.len() < 5 {
        eprintln!("usage: hv <property> <tier> <seed> <outdir> [--replay FILE] [--corpus DIR]");
        std::process::exit(2);
    }
    let mut args = Args { tier: argv[2].clone(), seed: argv[3].parse().unwrap_or(0), out: argv[4].clone(), replay: None };
    let mut corpus: Vec<Value> = vec![];
    let mut i = 5;
    while i < argv.len() {
        match argv[i].as_str() {
            "--replay" => {
                args.replay = Some(argv[i + 1].clone());
                corpus = load_inputs(&argv[i + 1]);
                i += 2;
            }
            "--corpus" => {
                if args.replay.is_none() {
                    let mut files: Vec<_> = std::fs::read_dir(&argv[i + 1]).map(|d| d.filter_map(|e| e.ok()).map(|e| e.path()).collect()).unwrap_or_default();
                    files.sort();
                    for f in files {
                        if f.extension().map(|e| e == "json").unwrap_or(false) {
                            corpus.extend(load_inputs(f.to_str().unwrap()));
                        }
                    }
                }
                i += 2;
            }
            _ => i += 1,
        }
    }
    // panics are caught and classified by the harness; keep stderr quiet
    std::panic::set_hook(Box::new(|_| {}));
    match argv[1].as_str() {
        "c13" => c13::run(&args, &corpus),
        "c03" => c03::run(&args, &corpus),
        p => {
            eprintln!("unknown property {p}");
            std::process::exit(2);
        }
    }
}
