//! C10 — "the text being checked never leaves the machine": the run-time half.
//!
//! The parent (this binary as started by ./check) generates a scenario, pre-writes every document into a scratch
//! directory, and re-executes ITSELF as a child under
//!     strace -f -e trace=network,<file-modifying syscalls> -o <log>
//! The child drives (phase "lib") every front-end of the library on generated documents with the curated
//! rule set, (phase "wasm") harper_wasm::Linter natively, (phases "ls:<k>[b]") in-process language-server
//! sessions through the reference client of lsclient.rs: open / change / save / close, configuration change, code
//! actions and EVERY execute_command they offer except HarperOpen, add-to-user/file-dictionary, shutdown — with the
//! user-dictionary, file-dictionary and statistics paths explicit, defaulted ($HOME) or `~`-relative.  Phases are
//! delimited in the syscall log by marker opens of /c10-marker/<phase>.  The child itself writes NO file.
//!
//! The parent parses the log into syscall records and judges each with `judge` (an independent Rust copy of
//! Effects.judge; the extracted Coq function is run on the same records by ocaml/c10_main.ml and compared line by
//! line): no socket/connect/send/bind outside AF_UNIX, no connect at all, no open of a resolver file, and every
//! open-for-writing / unlink hits the user dictionary, its `.tmp` sibling, the statistics file or a file directly
//! inside the file-dictionary directory of that phase; the only rename is `<dictionary>.tmp` -> `<dictionary>`
//! (save_dict since 87b8642); mkdir only towards a configured location.  Afterwards the scratch tree is walked: every
//! file is a pre-written document (unchanged) or a configured file.
//!
//! Every op of a session is announced by a marker `<phase>#<index>[.<step>]`, so each system call is attributed to
//! the document URI and command in progress.  Sessions include unusual URIs (untitled: opaque / absolute path / `..`,
//! notebook cell, `file:///`, directory, %2F) each followed by HarperAddToFileDict and HarperAddToUserDict.  For
//! every add-to-dictionary command the open-for-writing and rename calls actually issued are compared with the
//! extracted save-path model (EffectsSave.file_dict_plan / user_dict_plan): correspondence lines `F …` / `U …`.
//!
//! Thorough tier: additionally builds the real harper-ls binary and runs it under strace in --stdio mode and in
//! TCP mode (the listener must be one AF_INET socket bound to 127.0.0.1:4000; nothing else).
//!
//! Phase 4 (both tiers): the real harper-cli binary, every subcommand, under the EMPTY monitor configuration (it may
//! write nothing at all); the two dictionary files `lint` reads vs the extracted C10Cli.cli_lint_reads (cases `K`);
//! real harper-ls mode `stdio-userdir` (userDictPath `<dir>/..`: regression of FC10b, fixed by a91f3ee — nothing written).
#[path = "../lsclient.rs"]
mod lsclient;
use hv::common::*;
use hv::{frontends, gen};
use lsclient::*;
use serde_json::{json, Value};
use std::collections::{BTreeMap, BTreeSet};
use std::io::{BufRead, BufReader, Read, Write};
use std::path::Path;
use std::process::{Command, Stdio};
use std::sync::{Arc, Mutex};
use std::time::{Duration, Instant};

const TRACE: &str = "trace=network,open,openat,openat2,creat,rename,renameat,renameat2,unlink,unlinkat,rmdir,mkdir,mkdirat,link,linkat,symlink,symlinkat,truncate,chdir";
const UNSET: &[u8] = &[0]; // a "path" no syscall can name: this phase has no such configured file

// ------------------------------------------------------------------------------------------------ monitor model
#[derive(Clone, Debug, PartialEq)]
enum Ev {
    Socket(u32),
    Connect(u32, Vec<u8>),
    Send(u32),
    Bind(u32),
    Open(bool, Vec<u8>),
    Rename(Vec<u8>, Vec<u8>),
    Unlink(Vec<u8>),
    Mkdir(Vec<u8>),
}

#[derive(Clone, Debug)]
struct MCfg {
    user: Vec<u8>,
    filedir: Vec<u8>,
    stats: Vec<u8>,
    own: Vec<Vec<u8>>,
}
impl MCfg {
    fn none() -> MCfg {
        MCfg { user: UNSET.to_vec(), filedir: UNSET.to_vec(), stats: UNSET.to_vec(), own: vec![] }
    }
}

const RESOLVER_FILES: [&str; 8] = [
    "/etc/resolv.conf",
    "/etc/hosts",
    "/etc/nsswitch.conf",
    "/etc/host.conf",
    "/etc/gai.conf",
    "/var/run/nscd/socket",
    "/run/nscd/socket",
    "/run/systemd/resolve/io.systemd.Resolve",
];

fn is_resolver(p: &[u8]) -> bool {
    RESOLVER_FILES.iter().any(|r| r.as_bytes() == p)
}
fn parent_dir(p: &[u8]) -> &[u8] {
    match p.iter().rposition(|c| *c == b'/') {
        Some(i) => &p[..i],
        None => &[],
    }
}
fn leads_to(dir: &[u8], target: &[u8]) -> bool {
    target.len() > dir.len() + 1 && target.starts_with(dir) && target[dir.len()] == b'/'
}
/// `<p>.tmp`: the temporary sibling save_dict writes before renaming it over the dictionary `p`
fn tmp_sibling(p: &[u8]) -> Vec<u8> {
    let mut v = p.to_vec();
    v.extend_from_slice(b".tmp");
    v
}
/// the user dictionary or a file directly inside the file-dictionary directory
fn is_dict_file(c: &MCfg, p: &[u8]) -> bool {
    p == c.user.as_slice() || parent_dir(p) == c.filedir.as_slice()
}
/// may be created / opened for writing / removed: user dictionary, its `.tmp` sibling, the statistics file (no
/// temporary sibling: save_stats appends in place), any file directly inside the file-dictionary directory
fn path_allowed(c: &MCfg, p: &[u8]) -> bool {
    p == c.user.as_slice()
        || p.strip_suffix(b".tmp".as_slice()).map_or(false, |stem| stem == c.user.as_slice())
        || p == c.stats.as_slice()
        || parent_dir(p) == c.filedir.as_slice()
        || c.own.iter().any(|o| o.as_slice() == p)
}
/// the only rename: `<dictionary>.tmp` over `<dictionary>`
fn rename_allowed(c: &MCfg, src: &[u8], dst: &[u8]) -> bool {
    is_dict_file(c, dst) && src == tmp_sibling(dst).as_slice()
}
fn mkdir_allowed(c: &MCfg, p: &[u8]) -> bool {
    leads_to(p, &c.user) || leads_to(p, &c.stats) || leads_to(p, &c.filedir) || p == c.filedir.as_slice()
}
/// 0 ok, 1 net, 2 name resolution, 3 stray write — written independently of Effects.judge, compared with its extraction
fn judge(c: &MCfg, e: &Ev) -> u8 {
    match e {
        Ev::Socket(f) | Ev::Send(f) | Ev::Bind(f) => {
            if *f == 1 {
                0
            } else {
                1
            }
        }
        Ev::Connect(f, up) => {
            if *f == 1 && is_resolver(up) {
                2
            } else {
                1
            }
        }
        Ev::Open(w, p) => {
            if is_resolver(p) {
                2
            } else if *w && !path_allowed(c, p) {
                3
            } else {
                0
            }
        }
        Ev::Rename(a, b) => {
            if rename_allowed(c, a, b) {
                0
            } else {
                3
            }
        }
        Ev::Unlink(p) => {
            if path_allowed(c, p) {
                0
            } else {
                3
            }
        }
        Ev::Mkdir(p) => {
            if mkdir_allowed(c, p) {
                0
            } else {
                3
            }
        }
    }
}

fn hex(b: &[u8]) -> String {
    if b.is_empty() {
        "-".to_string()
    } else {
        b.iter().map(|x| format!("{x:02x}")).collect()
    }
}
fn cfg_line(c: &MCfg) -> String {
    let own = if c.own.is_empty() { "-".to_string() } else { c.own.iter().map(|o| hex(o)).collect::<Vec<_>>().join(",") };
    format!("C {} {} {} {}", hex(&c.user), hex(&c.filedir), hex(&c.stats), own)
}
fn ev_line(e: &Ev) -> String {
    match e {
        Ev::Socket(f) => format!("E S {f}"),
        Ev::Connect(f, p) => format!("E C {f} {}", hex(p)),
        Ev::Send(f) => format!("E D {f}"),
        Ev::Bind(f) => format!("E B {f}"),
        Ev::Open(w, p) => format!("E O {} {}", *w as u8, hex(p)),
        Ev::Rename(a, b) => format!("E R {} {}", hex(a), hex(b)),
        Ev::Unlink(p) => format!("E U {}", hex(p)),
        Ev::Mkdir(p) => format!("E M {}", hex(p)),
    }
}

// ------------------------------------------------------------------------------------------------ strace log parser
fn family(name: &str) -> u32 {
    match name {
        "AF_UNSPEC" => 0,
        "AF_UNIX" | "AF_LOCAL" | "AF_FILE" => 1,
        "AF_INET" => 2,
        "AF_INET6" => 10,
        "AF_NETLINK" => 16,
        "AF_PACKET" => 17,
        _ => 255,
    }
}

/// split the argument text of one syscall at top-level commas
fn split_args(s: &str) -> Vec<String> {
    let b = s.as_bytes();
    let (mut out, mut cur, mut depth, mut i) = (vec![], Vec::<u8>::new(), 0i32, 0usize);
    while i < b.len() {
        let c = b[i];
        if c == b'"' {
            cur.push(c);
            i += 1;
            while i < b.len() {
                cur.push(b[i]);
                if b[i] == b'\\' && i + 1 < b.len() {
                    cur.push(b[i + 1]);
                    i += 2;
                    continue;
                }
                if b[i] == b'"' {
                    break;
                }
                i += 1;
            }
            i += 1;
            continue;
        }
        match c {
            b'(' | b'[' | b'{' => depth += 1,
            b')' | b']' | b'}' => depth -= 1,
            _ => {}
        }
        if c == b',' && depth == 0 {
            out.push(String::from_utf8_lossy(&cur).trim().to_string());
            cur.clear();
        } else {
            cur.push(c);
        }
        i += 1;
    }
    if !cur.is_empty() {
        out.push(String::from_utf8_lossy(&cur).trim().to_string());
    }
    out
}

/// decode a strace C string literal `"…"` (escapes \n \t \\ \" \NNN octal \xHH) to bytes
fn c_string(tok: &str) -> Option<Vec<u8>> {
    let t = tok.trim();
    let t = t.strip_suffix("...").unwrap_or(t);
    let b = t.as_bytes();
    if b.len() < 2 || b[0] != b'"' || b[b.len() - 1] != b'"' {
        return None;
    }
    let b = &b[1..b.len() - 1];
    let (mut out, mut i) = (vec![], 0);
    while i < b.len() {
        if b[i] != b'\\' {
            out.push(b[i]);
            i += 1;
            continue;
        }
        i += 1;
        if i >= b.len() {
            break;
        }
        match b[i] {
            b'n' => out.push(b'\n'),
            b't' => out.push(b'\t'),
            b'r' => out.push(b'\r'),
            b'v' => out.push(11),
            b'f' => out.push(12),
            b'x' => {
                let h = std::str::from_utf8(&b[i + 1..(i + 3).min(b.len())]).ok()?;
                out.push(u8::from_str_radix(h, 16).ok()?);
                i += 2;
            }
            d if (b'0'..=b'7').contains(&d) => {
                let mut v = 0u32;
                let mut n = 0;
                while n < 3 && i < b.len() && (b'0'..=b'7').contains(&b[i]) {
                    v = v * 8 + (b[i] - b'0') as u32;
                    i += 1;
                    n += 1;
                }
                out.push(v as u8);
                continue;
            }
            other => out.push(other),
        }
        i += 1;
    }
    Some(out)
}

fn normalize(cwd: &[u8], p: &[u8]) -> Vec<u8> {
    let mut full = vec![];
    if !p.starts_with(b"/") {
        full.extend_from_slice(cwd);
        full.push(b'/');
    }
    full.extend_from_slice(p);
    let mut parts: Vec<&[u8]> = vec![];
    for seg in full.split(|c| *c == b'/') {
        match seg {
            b"" | b"." => {}
            b".." => {
                parts.pop();
            }
            s => parts.push(s),
        }
    }
    let mut out = vec![];
    for s in parts {
        out.push(b'/');
        out.extend_from_slice(s);
    }
    if out.is_empty() {
        out.push(b'/');
    }
    out
}

fn at_path(cwd: &[u8], dirfd: &str, tok: &str) -> Option<Vec<u8>> {
    let p = c_string(tok)?;
    if p.starts_with(b"/") || dirfd.trim() == "AT_FDCWD" {
        Some(normalize(cwd, &p))
    } else {
        // relative to a directory descriptor we do not track: cannot be a configured path
        let mut v = format!("<dirfd:{}>/", dirfd.trim()).into_bytes();
        v.extend_from_slice(&p);
        Some(v)
    }
}

fn writing_flags(flags: &str) -> bool {
    ["O_WRONLY", "O_RDWR", "O_CREAT", "O_TRUNC", "O_APPEND", "O_TMPFILE"].iter().any(|f| flags.contains(f))
}

fn sa_family(s: &str) -> u32 {
    match s.find("sa_family=") {
        Some(i) => {
            let rest = &s[i + 10..];
            let end = rest.find(|c: char| !(c.is_ascii_alphanumeric() || c == '_')).unwrap_or(rest.len());
            family(&rest[..end])
        }
        None => 0,
    }
}
fn sun_path(s: &str) -> Vec<u8> {
    match s.find("sun_path=") {
        Some(i) => {
            let rest = s[i + 9..].trim_start_matches('@');
            match rest.find('"').and_then(|a| rest[a + 1..].find('"').map(|b| (a, a + 1 + b))) {
                Some((a, b)) => c_string(&rest[a..=b]).unwrap_or_default(),
                None => vec![],
            }
        }
        None => vec![],
    }
}

enum Parsed {
    Marker(String),
    Event(Ev),
    Chdir(Vec<u8>),
    NetOther(String),
    Nothing,
}

/// one complete `name(args) = ret` record -> what it means for the monitor
fn interpret(cwd: &[u8], name: &str, args: &str, ret_ok: bool) -> Parsed {
    let a = split_args(args);
    let g = |i: usize| a.get(i).map(|s| s.as_str()).unwrap_or("");
    match name {
        "socket" | "socketpair" => Parsed::Event(Ev::Socket(family(g(0)))),
        "connect" => Parsed::Event(Ev::Connect(sa_family(g(1)), sun_path(g(1)))),
        "bind" => Parsed::Event(Ev::Bind(sa_family(g(1)))),
        "sendto" => Parsed::Event(Ev::Send(sa_family(g(4)))),
        "sendmsg" | "sendmmsg" => Parsed::Event(Ev::Send(match args.find("msg_name=") {
            Some(i) => sa_family(&args[i..]),
            None => 0,
        })),
        "open" | "openat" | "openat2" | "creat" => {
            let (dirfd, ptok, flags) = match name {
                "open" => ("AT_FDCWD", g(0), g(1).to_string()),
                "creat" => ("AT_FDCWD", g(0), "O_CREAT|O_WRONLY|O_TRUNC".to_string()),
                _ => (g(0), g(1), g(2).to_string()),
            };
            match at_path(cwd, dirfd, ptok) {
                Some(p) => {
                    if p.starts_with(b"/c10-marker/") {
                        Parsed::Marker(String::from_utf8_lossy(&p[12..]).to_string())
                    } else {
                        Parsed::Event(Ev::Open(writing_flags(&flags), p))
                    }
                }
                None => Parsed::Nothing,
            }
        }
        "rename" => match (at_path(cwd, "AT_FDCWD", g(0)), at_path(cwd, "AT_FDCWD", g(1))) {
            (Some(x), Some(y)) => Parsed::Event(Ev::Rename(x, y)),
            _ => Parsed::Nothing,
        },
        "renameat" | "renameat2" => match (at_path(cwd, g(0), g(1)), at_path(cwd, g(2), g(3))) {
            (Some(x), Some(y)) => Parsed::Event(Ev::Rename(x, y)),
            _ => Parsed::Nothing,
        },
        "unlink" | "rmdir" => at_path(cwd, "AT_FDCWD", g(0)).map(|p| Parsed::Event(Ev::Unlink(p))).unwrap_or(Parsed::Nothing),
        "unlinkat" => at_path(cwd, g(0), g(1)).map(|p| Parsed::Event(Ev::Unlink(p))).unwrap_or(Parsed::Nothing),
        "mkdir" => at_path(cwd, "AT_FDCWD", g(0)).map(|p| Parsed::Event(Ev::Mkdir(p))).unwrap_or(Parsed::Nothing),
        "mkdirat" => at_path(cwd, g(0), g(1)).map(|p| Parsed::Event(Ev::Mkdir(p))).unwrap_or(Parsed::Nothing),
        // a new name appears: treated as creating that file
        "link" | "symlink" => at_path(cwd, "AT_FDCWD", g(1)).map(|p| Parsed::Event(Ev::Open(true, p))).unwrap_or(Parsed::Nothing),
        "linkat" => at_path(cwd, g(2), g(3)).map(|p| Parsed::Event(Ev::Open(true, p))).unwrap_or(Parsed::Nothing),
        "symlinkat" => at_path(cwd, g(1), g(2)).map(|p| Parsed::Event(Ev::Open(true, p))).unwrap_or(Parsed::Nothing),
        "truncate" => at_path(cwd, "AT_FDCWD", g(0)).map(|p| Parsed::Event(Ev::Open(true, p))).unwrap_or(Parsed::Nothing),
        "chdir" => {
            if ret_ok {
                at_path(cwd, "AT_FDCWD", g(0)).map(Parsed::Chdir).unwrap_or(Parsed::Nothing)
            } else {
                Parsed::Nothing
            }
        }
        "listen" | "accept" | "accept4" | "getsockname" | "getpeername" | "setsockopt" | "getsockopt" | "recvfrom" | "recvmsg"
        | "recvmmsg" | "shutdown" => Parsed::NetOther(name.to_string()),
        _ => Parsed::Nothing,
    }
}

struct Record {
    line: String,
    name: String,
    args: String,
    ret_ok: bool,
}

/// join `<unfinished ...>` / `<... resumed>` halves per pid; returns complete records in log order (order of completion)
fn records(log: &str) -> Vec<Record> {
    let mut pending: BTreeMap<String, String> = BTreeMap::new();
    let mut out = vec![];
    for raw in log.lines() {
        let (pid, rest) = match raw.find(' ') {
            Some(i) if raw[..i].chars().all(|c| c.is_ascii_digit()) && i > 0 => (raw[..i].to_string(), raw[i + 1..].trim_start()),
            _ => ("0".to_string(), raw),
        };
        if rest.starts_with("+++") || rest.starts_with("---") {
            continue;
        }
        let full: String;
        if let Some(s) = rest.strip_suffix("<unfinished ...>") {
            pending.insert(pid, s.trim_end().to_string());
            continue;
        } else if rest.starts_with("<... ") {
            let Some(k) = rest.find("resumed>") else { continue };
            let head = pending.remove(&pid).unwrap_or_default();
            full = format!("{head}{}", &rest[k + 8..]);
        } else {
            full = rest.to_string();
        }
        let Some(po) = full.find('(') else { continue };
        let name = full[..po].trim().to_string();
        if !name.chars().all(|c| c.is_ascii_alphanumeric() || c == '_') || name.is_empty() {
            continue;
        }
        let Some(eq) = full.rfind(") = ") else { continue };
        if eq < po {
            continue;
        }
        let ret = full[eq + 4..].trim();
        out.push(Record { line: full.clone(), name, args: full[po + 1..eq].to_string(), ret_ok: !ret.starts_with('-') && !ret.starts_with('?') });
    }
    out
}

// ------------------------------------------------------------------------------------------------ scenario
fn lang_of(fe: &str) -> String {
    match fe {
        "plain" => "plaintext".into(),
        "markdown" | "markdown-ilt" => "markdown".into(),
        "gitcommit" => "git-commit".into(),
        "lhaskell" => "lhaskell".into(),
        other => other.strip_prefix("c:").unwrap_or(other).to_string(),
    }
}

/// where a path setting ends up: explicit (absolute or ~-relative) or the Config::default() location under $HOME
fn effective(setting: Option<&str>, home: &str, default_rel: &str) -> Vec<u8> {
    normalize(b"/", effective_raw(setting, home, default_rel).as_bytes())
}
/// the same before normalisation (trailing slash, `//`, `/./` kept): what the save-path model is given
fn effective_raw(setting: Option<&str>, home: &str, default_rel: &str) -> String {
    match setting {
        Some(s) if !s.is_empty() => {
            if let Some(rest) = s.strip_prefix("~/") {
                format!("{home}/{rest}")
            } else {
                s.to_string()
            }
        }
        _ => format!("{home}/{default_rel}"),
    }
}
/// (userDictPath, fileDictPath) as configured, `~` expanded, not normalised
fn raw_dict_paths(settings: &Value, home: &str) -> (String, String) {
    let h = &settings["harper-ls"];
    (
        effective_raw(h["userDictPath"].as_str(), home, ".config/harper-ls/dictionary.txt"),
        effective_raw(h["fileDictPath"].as_str(), home, ".local/share/harper-ls/file_dictionaries"),
    )
}
/// the file path of a document URI, by the url crate's own `to_file_path` (third-party: an INPUT of the save-path model)
fn uri_file_path(uri: &str) -> Option<Vec<u8>> {
    use std::os::unix::ffi::OsStrExt;
    lsx::tower_lsp::lsp_types::Url::parse(uri).ok().and_then(|u| u.to_file_path().ok()).map(|p| p.as_os_str().as_bytes().to_vec())
}
/// no component besides the root: file_dict_name fails since 08b9da8 (it was the empty string before: FC10a), nothing is written
fn empty_dict_name(fp: &Option<Vec<u8>>) -> bool {
    match fp {
        Some(p) => p.split(|c| *c == b'/').all(|seg| seg.is_empty() || seg == b"."),
        None => false,
    }
}
/// a DIRECTORY as the monitor is told it: the prefix `d` such that its children are `d/<name>` — the root directory is
/// the empty prefix, not "/" (Coq: EffectsConfig.mcfg_of uses render' for the file-dictionary directory)
fn dir_prefix(mut v: Vec<u8>) -> Vec<u8> {
    if v == b"/" {
        v.clear();
    }
    v
}
fn cfg_of(settings: &Value, home: &str) -> MCfg {
    let h = &settings["harper-ls"];
    MCfg {
        user: effective(h["userDictPath"].as_str(), home, ".config/harper-ls/dictionary.txt"),
        filedir: dir_prefix(effective(h["fileDictPath"].as_str(), home, ".local/share/harper-ls/file_dictionaries")),
        stats: effective(h["statsPath"].as_str(), home, ".local/share/harper-ls/stats.txt"),
        own: vec![],
    }
}

fn session_settings(k: usize, scratch: &str, r: &mut Rng) -> Value {
    let d = format!("{scratch}/s{k}");
    let mut inner = serde_json::Map::new();
    match k % 5 {
        // everything explicit
        0 => {
            inner.insert("userDictPath".into(), json!(format!("{d}/cfg/user dict.txt")));
            inner.insert("fileDictPath".into(), json!(format!("{d}/fd")));
            inner.insert("statsPath".into(), json!(format!("{d}/data/stats.txt")));
        }
        // only the user dictionary: the other two fall back to $HOME
        1 => {
            inner.insert("userDictPath".into(), json!(format!("{d}/only-user.txt")));
        }
        // nothing: all three are the defaults
        2 => {}
        // `~`, a trailing slash, non-ASCII directory names
        3 => {
            inner.insert("userDictPath".into(), json!(format!("~/wörter-{k}/mine.txt")));
            inner.insert("fileDictPath".into(), json!(format!("{d}/fïle dicts/")));
            inner.insert("statsPath".into(), json!(format!("{d}/stats-日本.txt")));
        }
        // only the statistics file (the F18 setting)
        _ => {
            inner.insert("statsPath".into(), json!(format!("{d}/deep/er/stats.log")));
        }
    }
    if r.chance(1, 2) {
        inner.insert("isolateEnglish".into(), json!(r.chance(1, 2)));
    }
    if r.chance(1, 3) {
        inner.insert("dialect".into(), json!(*r.pick(&["American", "British", "Canadian", "Australian"])));
    }
    if r.chance(1, 3) {
        inner.insert("linters".into(), json!({"SpellCheck": true, "LongSentences": r.chance(1, 2), "NoSuchRule": true}));
    }
    json!({ "harper-ls": Value::Object(inner) })
}

fn build_scenario(scratch: &str, seed: u64, n_lib: usize, n_sessions: usize, docs_per_session: usize) -> Value {
    let mut r = Rng::new(seed ^ 0xC10);
    let fes = frontends::base_frontends();
    let mut lib = vec![];
    for i in 0..n_lib {
        let fe = fes[i % fes.len()].clone();
        let fe = if r.chance(1, 6) { format!("{fe}+ci") } else if r.chance(1, 8) { format!("{fe}+ie") } else { fe };
        lib.push(json!({"fe": fe, "text": frontends::embed(&fe, &mut r)}));
    }
    let mut wasm = vec![];
    for _ in 0..(n_lib / 3).max(4) {
        wasm.push(json!(if r.chance(1, 5) { gen::malformed(&mut r, 120) } else { gen::any_text(&mut r) }));
    }
    let mut sessions = vec![];
    for k in 0..n_sessions {
        let settings = session_settings(k, scratch, &mut r);
        // half of the sessions switch every path in the middle
        let settings2 = if k % 2 == 0 {
            let d = format!("{scratch}/s{k}/moved");
            Some(json!({"harper-ls": {"userDictPath": format!("{d}/u.txt"), "fileDictPath": format!("{d}/fdir"), "statsPath": format!("{d}/st.txt")}}))
        } else {
            None
        };
        let mut docs = vec![];
        for j in 0..docs_per_session {
            let fe = fes[(k * docs_per_session + j + r.below(3)) % fes.len()].clone();
            let ext = match fe.as_str() {
                "plain" => "txt",
                "markdown" | "markdown-ilt" => "md",
                "html" => "html",
                "typst" => "typ",
                "lhaskell" => "lhs",
                "gitcommit" => "COMMIT_EDITMSG",
                _ => "src",
            };
            let name = if r.chance(1, 4) { format!("dö c {j}%25.{ext}") } else { format!("doc{j}.{ext}") };
            let path = format!("{scratch}/docs/s{k}/{}", name.replace("%25", "%"));
            let uri = format!("file://{}", format!("{scratch}/docs/s{k}/{name}").replace(' ', "%20").replace('ö', "%C3%B6"));
            let text = format!("{}\n{} zorgle{j} teh recieve.\n", frontends::embed(&fe, &mut r), gen::sentence(&mut r));
            let text2 = format!("{}\nAn other blorfl{j} sentance here.\n", frontends::embed(&fe, &mut r));
            // the file on disk holds either version (didSave / add-to-dictionary re-read it)
            let on_disk = if r.chance(1, 2) { text.clone() } else { text2.clone() };
            docs.push(json!({"uri": uri, "path": path, "lang": lang_of(&fe), "text": text, "text2": text2, "on_disk": on_disk}));
        }
        // unusual document URIs (seed c10-2: a file-dictionary name that is absolute or contains `..` makes
        // PathBuf::join leave fileDictPath): unsaved buffers in VS Code's three shapes — opaque `untitled:Untitled-1`,
        // with an associated absolute path, with `..` —, a notebook cell, directory / root / dot-dot / %2F file URLs.
        // Every escape these could cause lands inside the scratch tree (at most two `..`), never in `/`.
        let dd = format!("{scratch}/docs/s{k}");
        let enc = |p: &str| p.replace(' ', "%20").replace('ö', "%C3%B6").replace('ü', "%C3%BC");
        let odd: Vec<String> = vec![
            "untitled:Untitled-1".to_string(),
            format!("untitled:{}", enc(&format!("{dd}/draft-{k}.md"))),
            format!("untitled:../../escape-{k}.md"),
            format!("untitled:{}", enc(&format!("{dd}/sub dir/../ünsaved {k}.md"))),
            format!("untitled:..%2F..%2Fesc-enc-{k}.md"),
            format!("untitled:Untitled-{k}/../../../nested-{k}"),
            format!("vscode-notebook-cell:{}#W0sZmlsZQ%3D%3D", enc(&format!("{dd}/nb-{k}.ipynb"))),
            format!("file://{}/", enc(&dd)),
            format!("file://{}/a/../../up-{k}.md", enc(&dd)),
            format!("file://{}/enc%2F..%2F..%2Fslash-{k}.md", enc(&dd)),
            format!("file://localhost{}/lh-{k}.md", enc(&dd)),
            format!("file://{}/..", enc(&dd)),
            "file:///".to_string(),
        ];
        let mut ops = vec![];
        for j in 0..docs_per_session {
            ops.push(json!({"op": "open", "doc": j}));
            if r.chance(2, 3) {
                ops.push(json!({"op": "change", "doc": j}));
            }
            if r.chance(1, 2) {
                ops.push(json!({"op": "save", "doc": j}));
            }
        }
        ops.push(json!({"op": "actions", "doc": 0, "max": 14}));
        ops.push(json!({"op": "add_user", "doc": 0, "word": format!("zorgle{k}")}));
        ops.push(json!({"op": "add_file", "doc": 0, "word": format!("blorfl{k}")}));
        if docs_per_session > 1 {
            ops.push(json!({"op": "add_file", "doc": 1, "word": "wörd’s"}));
            ops.push(json!({"op": "actions", "doc": 1, "max": 8}));
        }
        for i in 0..odd.len() {
            ops.push(json!({"op": "odd", "i": i, "word": format!("qvex{k}x{i}")}));
        }
        ops.push(json!({"op": "unknown_command"}));
        if settings2.is_some() {
            ops.push(json!({"op": "config"}));
            for i in 0..odd.len() {
                ops.push(json!({"op": "odd", "i": i, "word": format!("movedqvex{k}x{i}")}));
            }
            ops.push(json!({"op": "add_user", "doc": 0, "word": "movedword"}));
            ops.push(json!({"op": "add_file", "doc": 0, "word": "movedfileword"}));
            ops.push(json!({"op": "actions", "doc": 0, "max": 6}));
        }
        if docs_per_session > 1 {
            ops.push(json!({"op": "watched_delete", "doc": 1}));
        }
        ops.push(json!({"op": "close", "doc": 0}));
        ops.push(json!({"op": "untitled"}));
        ops.push(json!({"op": "shutdown"}));
        sessions.push(json!({"name": format!("s{k}"), "settings": settings, "settings2": settings2, "docs": docs, "odd": odd, "ops": ops}));
    }
    json!({"lib_docs": lib, "wasm_texts": wasm, "sessions": sessions})
}

// ------------------------------------------------------------------------------------------------ the child
fn marker(name: &str) {
    let _ = std::fs::File::open(format!("/c10-marker/{name}"));
}

fn request_value(s: &mut Session, method: &str, params: Value) -> Option<Value> {
    let fut = s.start(method, params, true);
    let slot: Arc<Mutex<Option<Value>>> = Arc::new(Mutex::new(None));
    let slot2 = slot.clone();
    let wrapped: HandlerFut = Box::pin(async move {
        let r = fut.await;
        if let Some(resp) = &r {
            *slot2.lock().unwrap() = serde_json::to_value(resp).ok();
        }
        r
    });
    s.drive(wrapped);
    let v = slot.lock().unwrap().take();
    v.map(|v| v["result"].clone())
}

fn run_child(scratch: &str) {
    let sc: Value = serde_json::from_str(&std::fs::read_to_string(format!("{scratch}/scenario.json")).expect("scenario")).expect("scenario json");
    let mut summary = serde_json::Map::new();
    // ---- library front-ends
    marker("lib");
    {
        use harper_core::linting::{LintGroup, Linter};
        let dict = harper_core::FstDictionary::curated();
        let (mut docs, mut lints, mut panics) = (0u64, 0u64, 0u64);
        for d in sc["lib_docs"].as_array().unwrap() {
            let (fe, text) = (d["fe"].as_str().unwrap(), d["text"].as_str().unwrap());
            let r = guarded(|| {
                let doc = frontends::make_document(fe, text, &dict);
                let mut lg = LintGroup::new_curated(dict.clone(), harper_core::Dialect::American);
                lg.set_all_rules_to(Some(true));
                lg.lint(&doc).len()
            });
            docs += 1;
            match r {
                Ok(n) => lints += n as u64,
                Err(_) => panics += 1,
            }
        }
        summary.insert("lib".into(), json!({"docs": docs, "lints": lints, "panics": panics}));
    }
    // ---- the JS-facing API, natively
    marker("wasm");
    {
        use harper_wasm::{Dialect as WD, Language, Linter as WL};
        let (mut texts, mut lints, mut applied, mut panics) = (0u64, 0u64, 0u64, 0u64);
        let r = guarded(|| {
            let mut l = WL::new(WD::American);
            let cfg = l.get_lint_config_as_json();
            let _ = l.set_lint_config_from_json(cfg);
            let _ = harper_wasm::get_default_lint_config_as_json();
            let _ = l.get_lint_descriptions_as_json();
            for t in sc["wasm_texts"].as_array().unwrap() {
                let text = t.as_str().unwrap().to_string();
                texts += 1;
                let _ = l.is_likely_english(text.clone());
                let _ = l.isolate_english(text.clone());
                let _ = harper_wasm::to_title_case(text.chars().take(60).collect());
                for lang in [Language::Plain, Language::Markdown] {
                    let ls = l.lint(text.clone(), lang);
                    lints += ls.len() as u64;
                    if let Some(first) = ls.into_iter().next() {
                        if let Some(s) = first.suggestions().into_iter().next() {
                            if l.apply_suggestion(text.clone(), &first, &s).is_ok() {
                                applied += 1;
                            }
                        }
                        l.ignore_lint(text.clone(), first);
                    }
                }
                l.import_words(vec![format!("zorgle{texts}"), "blorfl".to_string()]);
            }
            let ig = l.export_ignored_lints();
            let _ = l.import_ignored_lints(ig);
            let _ = l.export_words();
            let st = l.generate_stats_file();
            let _ = l.import_stats_file(st);
            l.clear_ignored_lints();
        });
        if r.is_err() {
            panics += 1;
        }
        summary.insert("wasm".into(), json!({"texts": texts, "lints": lints, "applied": applied, "panics": panics}));
    }
    // ---- in-process language-server sessions
    let rt = runtime();
    let _g = rt.enter();
    let mut ls_sum = vec![];
    for sess in sc["sessions"].as_array().unwrap() {
        let name = sess["name"].as_str().unwrap();
        marker(&format!("ls:{name}"));
        let mut ops_done: BTreeMap<String, u64> = BTreeMap::new();
        let mut commands: BTreeMap<String, u64> = BTreeMap::new();
        let mut odd_forms: BTreeMap<String, u64> = BTreeMap::new();
        let mut stuck = 0u64;
        let res = guarded(|| {
            let mut s = Session::new(sess["settings"].clone());
            let docs = sess["docs"].as_array().unwrap();
            // every op is announced by a marker `<phase>#<index>[.<step>]`: the parent attributes each system call to
            // the op (and so to the document URI / command) in progress
            let mut cur = format!("ls:{name}");
            for (opi, op) in sess["ops"].as_array().unwrap().iter().enumerate() {
                let kind = op["op"].as_str().unwrap();
                *ops_done.entry(kind.to_string()).or_insert(0) += 1;
                marker(&format!(
                    "{cur}#{opi}{}",
                    match kind {
                        "add_file" => ".file",
                        "add_user" => ".user",
                        "odd" => ".open",
                        _ => "",
                    }
                ));
                let d = &docs[op["doc"].as_u64().unwrap_or(0) as usize % docs.len()];
                let uri = d["uri"].as_str().unwrap();
                let ok = match kind {
                    "open" => s.did_open(uri, d["lang"].as_str().unwrap(), d["text"].as_str().unwrap()),
                    "change" => s.did_change(uri, d["text2"].as_str().unwrap()),
                    "save" => s.did_save(uri),
                    "close" => s.did_close(uri),
                    "add_user" => s.command("HarperAddToUserDict", vec![op["word"].clone(), json!(uri)]),
                    "add_file" => s.command("HarperAddToFileDict", vec![op["word"].clone(), json!(uri)]),
                    "unknown_command" => s.command("HarperNoSuchCommand", vec![json!("x")]) && s.command("HarperRecordLint", vec![json!("not json")]) && s.command("HarperIgnoreLint", vec![json!("not a url")]),
                    "watched_delete" => s.notify("workspace/didChangeWatchedFiles", json!({"changes": [{"uri": uri, "type": 3}]})),
                    "odd" => {
                        // an unusual URI: open, change, add a word to ITS file dictionary and to the user dictionary, close
                        let u = sess["odd"][op["i"].as_u64().unwrap_or(0) as usize].as_str().unwrap_or("untitled:Untitled-1");
                        let w = op["word"].as_str().unwrap_or("qvex");
                        let form = if u.starts_with("untitled:/") {
                            "untitled-absolute"
                        } else if u.starts_with("untitled:") && u.contains("..") {
                            "untitled-dotdot"
                        } else if u.starts_with("untitled:") {
                            "untitled-opaque"
                        } else if u.starts_with("file:") {
                            "file-odd"
                        } else {
                            "other-scheme"
                        };
                        *odd_forms.entry(form.to_string()).or_insert(0) += 1;
                        let a = s.did_open(u, "markdown", &format!("Here {w} is, and teh {w}s too.\n"));
                        marker(&format!("{cur}#{opi}.file"));
                        let b = s.command("HarperAddToFileDict", vec![json!(w), json!(u)]);
                        marker(&format!("{cur}#{opi}.user"));
                        let c = s.command("HarperAddToUserDict", vec![json!(format!("{w}u")), json!(u)]);
                        marker(&format!("{cur}#{opi}.rest"));
                        let d = s.did_change(u, &format!("Now {w}u and {w} are known.\n"));
                        let e = s.did_save(u);
                        let f = s.did_close(u);
                        a && b && c && d && e && f
                    }
                    "untitled" => {
                        s.did_open("untitled:Untitled-1", "plaintext", "Here vlimp is.") && s.command("HarperAddToFileDict", vec![json!("vlimp"), json!("untitled:Untitled-1")])
                    }
                    "config" => {
                        cur = format!("ls:{name}b");
                        marker(&cur);
                        let s2 = sess["settings2"].clone();
                        s.settings = s2.clone();
                        s.notify("workspace/didChangeConfiguration", json!({"settings": s2}))
                    }
                    "actions" => {
                        // one request per range the server itself published for this document
                        let ranges: Vec<Value> = s.last_published(uri).and_then(|d| d.as_array().cloned()).unwrap_or_default().iter().map(|d| d["range"].clone()).collect();
                        let mut all = vec![];
                        for rg in ranges.iter().take(12) {
                            if let Some(Value::Array(a)) = request_value(&mut s, "textDocument/codeAction", json!({"textDocument": {"uri": uri}, "range": rg, "context": {"diagnostics": []}})) {
                                all.extend(a);
                            }
                        }
                        let acts = Some(Value::Array(all));
                        let mut n = 0u64;
                        let max = op["max"].as_u64().unwrap_or(8);
                        let mut seen_kinds: BTreeMap<String, u64> = BTreeMap::new();
                        if let Some(Value::Array(a)) = acts {
                            for act in a {
                                let cmd = if act["command"].is_string() { act.clone() } else { act["command"].clone() };
                                let Some(cname) = cmd["command"].as_str() else { continue };
                                // the user-initiated open-URL command is outside the property's quantifier
                                if cname == "HarperOpen" {
                                    continue;
                                }
                                let k = seen_kinds.entry(cname.to_string()).or_insert(0);
                                if *k >= 3 || n >= max {
                                    continue;
                                }
                                *k += 1;
                                n += 1;
                                *commands.entry(cname.to_string()).or_insert(0) += 1;
                                let args = cmd["arguments"].as_array().cloned().unwrap_or_default();
                                if !s.command(cname, args) {
                                    stuck += 1;
                                }
                            }
                        }
                        true
                    }
                    "shutdown" => {
                        // `shutdown` takes no parameters (tower-lsp answers "invalid params" to `params: null`)
                        use lsx::tower::Service;
                        let req = lsx::tower_lsp::jsonrpc::Request::build("shutdown").id(999_999).finish();
                        let fut = s.service.call(req);
                        s.drive(Box::pin(async move { fut.await.ok().flatten() }))
                    }
                    _ => true,
                };
                if !ok {
                    stuck += 1;
                }
            }
            (s.published.len(), s.config_requests)
        });
        ls_sum.push(json!({"name": name, "ops": ops_done, "commands": commands, "odd_forms": odd_forms, "stuck": stuck,
            "published": res.as_ref().map(|r| r.0).unwrap_or(0), "config_requests": res.as_ref().map(|r| r.1).unwrap_or(0),
            "panic": res.err()}));
    }
    marker("end");
    summary.insert("sessions".into(), Value::Array(ls_sum));
    println!("C10-CHILD-SUMMARY {}", Value::Object(summary));
}

// ------------------------------------------------------------------------------------------------ the parent
struct Judged {
    phase: String,
    ev: Ev,
    verdict: u8,
    line: String,
}

/// `ls:s3b#17.file` -> `ls:s3b`: the part of a marker that selects the configuration
fn base_phase(p: &str) -> &str {
    p.split('#').next().unwrap_or(p)
}

/// parse a strace log, split it into phases, judge every record; emits the correspondence lines
fn judge_log(rep: &mut Report, log: &str, cwd: &[u8], cfgs: &BTreeMap<String, MCfg>, first_phase: &str, tag: &str) -> (Vec<Judged>, BTreeMap<String, u64>) {
    let mut phase = first_phase.to_string();
    let mut cfg = cfgs.get(base_phase(&phase)).cloned().unwrap_or_else(MCfg::none);
    let mut cwd = cwd.to_vec();
    let mut out = vec![];
    let mut stats: BTreeMap<String, u64> = BTreeMap::new();
    let mut seen: BTreeSet<String> = BTreeSet::new();
    rep.case(&cfg_line(&cfg), "cfg");
    for rec in records(log) {
        *stats.entry(format!("syscall:{}", rec.name)).or_insert(0) += 1;
        match interpret(&cwd, &rec.name, &rec.args, rec.ret_ok) {
            Parsed::Marker(m) => {
                let new_base = base_phase(&m) != base_phase(&phase);
                phase = m;
                if new_base {
                    cfg = cfgs.get(base_phase(&phase)).cloned().unwrap_or_else(MCfg::none);
                    rep.case(&cfg_line(&cfg), "cfg");
                    seen.clear();
                    *stats.entry("markers".into()).or_insert(0) += 1;
                } else {
                    *stats.entry("op_markers".into()).or_insert(0) += 1;
                }
            }
            Parsed::Chdir(p) => cwd = p,
            Parsed::NetOther(n) => *stats.entry(format!("net_other:{n}")).or_insert(0) += 1,
            Parsed::Nothing => {}
            Parsed::Event(ev) => {
                let v = judge(&cfg, &ev);
                let el = ev_line(&ev);
                if seen.insert(el.clone()) {
                    rep.case(&el, &v.to_string());
                }
                rep.eval();
                let kind = match &ev {
                    Ev::Open(true, _) => "open_write",
                    Ev::Open(false, _) => "open_read",
                    Ev::Mkdir(_) => "mkdir",
                    Ev::Rename(..) => "rename",
                    Ev::Unlink(_) => "unlink",
                    Ev::Socket(_) => "socket",
                    Ev::Connect(..) => "connect",
                    Ev::Send(_) => "send",
                    Ev::Bind(_) => "bind",
                };
                *stats.entry(format!("{tag}:{}:{kind}", phase.split(':').next().unwrap_or(""))).or_insert(0) += 1;
                if !matches!(ev, Ev::Open(false, _)) {
                    rep.nontrivial(&(phase.clone(), el));
                }
                out.push(Judged { phase: phase.clone(), ev, verdict: v, line: rec.line.clone() });
            }
        }
    }
    (out, stats)
}

fn show(p: &[u8]) -> String {
    if p == UNSET {
        "(none in this phase)".to_string()
    } else {
        String::from_utf8_lossy(p).to_string()
    }
}

fn verdict_class(v: u8) -> &'static str {
    match v {
        1 => "net-syscall",
        2 => "name-resolution",
        _ => "stray-write",
    }
}

fn walk(dir: &Path, out: &mut Vec<String>) {
    if let Ok(rd) = std::fs::read_dir(dir) {
        for e in rd.flatten() {
            let p = e.path();
            if p.is_dir() {
                walk(&p, out);
            } else {
                out.push(p.to_string_lossy().to_string());
            }
        }
    }
}

fn strace_cmd(log: &str) -> Command {
    let mut c = Command::new("strace");
    c.args(["-f", "-qq", "-s", "4096", "-e", TRACE, "-o", log]);
    c
}

/// the monitored run of the library + wasm API + in-process language server
fn monitored_run(rep: &mut Report, args: &Args, seed: u64, replaying: bool, small: Option<(usize, usize, usize)>) {
    let scratch = format!("/tmp/w-c10-{}-{}", std::process::id(), seed);
    let log = format!("{scratch}.strace");
    let _ = std::fs::remove_dir_all(&scratch);
    let home = format!("{scratch}/home");
    std::fs::create_dir_all(format!("{scratch}/cwd")).unwrap();
    std::fs::create_dir_all(&home).unwrap();
    let (n_lib, n_sess, n_docs) = small.unwrap_or((args.scale(58, 2000), args.scale(5, 40), args.scale(2, 3)));
    let sc = build_scenario(&scratch, seed, n_lib, n_sess, n_docs);
    // pre-write every document and the scenario: the child writes nothing itself
    let mut prewritten: BTreeMap<String, String> = BTreeMap::new();
    for s in sc["sessions"].as_array().unwrap() {
        for d in s["docs"].as_array().unwrap() {
            let p = d["path"].as_str().unwrap();
            std::fs::create_dir_all(Path::new(p).parent().unwrap()).unwrap();
            std::fs::write(p, d["on_disk"].as_str().unwrap()).unwrap();
            prewritten.insert(p.to_string(), d["on_disk"].as_str().unwrap().to_string());
        }
    }
    std::fs::write(format!("{scratch}/scenario.json"), serde_json::to_string(&sc).unwrap()).unwrap();
    let mut cfgs: BTreeMap<String, MCfg> = BTreeMap::new();
    for s in sc["sessions"].as_array().unwrap() {
        let name = s["name"].as_str().unwrap();
        cfgs.insert(format!("ls:{name}"), cfg_of(&s["settings"], &home));
        if !s["settings2"].is_null() {
            cfgs.insert(format!("ls:{name}b"), cfg_of(&s["settings2"], &home));
        }
    }
    let exe = std::env::current_exe().unwrap();
    let t0 = Instant::now();
    let outp = strace_cmd(&log)
        .arg(&exe)
        .args([&args.tier, &seed.to_string(), &args.out, "--child", &scratch])
        .env_clear()
        .env("PATH", std::env::var("PATH").unwrap_or_default())
        .env("HOME", &home)
        .current_dir(format!("{scratch}/cwd"))
        .stdin(Stdio::null())
        .output()
        .expect("cannot run strace");
    let child_out = String::from_utf8_lossy(&outp.stdout).to_string();
    let child_err = String::from_utf8_lossy(&outp.stderr).to_string();
    let Some(sumline) = child_out.lines().find(|l| l.starts_with("C10-CHILD-SUMMARY ")) else {
        panic!("the traced child did not finish (status {:?}); stderr: {}", outp.status, &child_err[child_err.len().saturating_sub(1500)..]);
    };
    let summary: Value = serde_json::from_str(&sumline[18..]).unwrap();
    rep.extra.insert("child_summary".into(), summary.clone());
    for d in sc["lib_docs"].as_array().unwrap() {
        let fe = d["fe"].as_str().unwrap();
        rep.count(&format!("lib_doc:{}", fe.split(':').next().unwrap_or(fe)));
        rep.count(if d["text"].as_str().unwrap().len() < 200 { "lib_doc_len:<200" } else { "lib_doc_len:>=200" });
    }
    for (k, s) in sc["sessions"].as_array().unwrap().iter().enumerate() {
        rep.count(["session_paths:all-explicit", "session_paths:user-only", "session_paths:all-default", "session_paths:tilde+slash+non-ascii", "session_paths:stats-only"][k % 5]);
        if !s["settings2"].is_null() {
            rep.count("session_paths:switched-mid-session");
        }
        for d in s["docs"].as_array().unwrap() {
            rep.count(&format!("session_doc_lang:{}", d["lang"].as_str().unwrap()));
        }
    }
    for s in summary["sessions"].as_array().unwrap() {
        for (k, v) in s["ops"].as_object().unwrap() {
            rep.count_n(&format!("ls_op:{k}"), v.as_u64().unwrap_or(0));
        }
        for (k, v) in s["commands"].as_object().unwrap() {
            rep.count_n(&format!("ls_command:{k}"), v.as_u64().unwrap_or(0));
        }
        for (k, v) in s["odd_forms"].as_object().unwrap() {
            rep.count_n(&format!("ls_odd_uri:{k}"), v.as_u64().unwrap_or(0));
        }
        rep.count_n("ls_handlers_stuck", s["stuck"].as_u64().unwrap_or(0));
        if !s["panic"].is_null() {
            rep.count("ls_session_panicked");
            eprintln!("note: language-server session {} (seed {seed}) panicked: {}", s["name"], s["panic"]);
        }
    }
    rep.extra.insert("child_wall_s".into(), json!(t0.elapsed().as_secs_f64()));
    let logtext = String::from_utf8_lossy(&std::fs::read(&log).expect("strace log")).to_string();
    let (judged, stats) = judge_log(rep, &logtext, format!("{scratch}/cwd").as_bytes(), &cfgs, "startup", "child");
    // the monitor must not be vacuous: strace attached, markers seen, writes seen in language-server phases
    let markers = stats.get("markers").copied().unwrap_or(0);
    let ls_writes = judged.iter().filter(|j| j.phase.starts_with("ls:") && matches!(j.ev, Ev::Open(true, _))).count();
    if markers < 3 + n_sess as u64 || ls_writes < n_sess {
        panic!("vacuous trace: {markers} markers, {ls_writes} write-opens in language-server phases (strace not attached?)");
    }
    for (k, v) in &stats {
        rep.count_n(k, *v);
    }
    rep.monitor("strace_records", judged.len() as u64);
    rep.monitor("ls_write_opens_seen", ls_writes as u64);
    // ---- which op (document URI, command) each `<phase>#<index>.<step>` marker stands for
    struct OpInfo {
        describe: String,
        uri: String,
        user_raw: String,
        filedir_raw: String,
    }
    let mut ops: BTreeMap<String, OpInfo> = BTreeMap::new();
    for sess in sc["sessions"].as_array().unwrap() {
        let name = sess["name"].as_str().unwrap();
        let mut cur = format!("ls:{name}");
        let mut raw = raw_dict_paths(&sess["settings"], &home);
        for (opi, op) in sess["ops"].as_array().unwrap().iter().enumerate() {
            let kind = op["op"].as_str().unwrap();
            let docs = sess["docs"].as_array().unwrap();
            let uri = match kind {
                "odd" => sess["odd"][op["i"].as_u64().unwrap_or(0) as usize].as_str().unwrap_or("").to_string(),
                "untitled" => "untitled:Untitled-1".to_string(),
                _ => docs[op["doc"].as_u64().unwrap_or(0) as usize % docs.len()]["uri"].as_str().unwrap_or("").to_string(),
            };
            let steps: &[(&str, &str)] = match kind {
                "add_file" => &[(".file", "HarperAddToFileDict")],
                "add_user" => &[(".user", "HarperAddToUserDict")],
                "odd" => &[(".open", "didOpen"), (".file", "HarperAddToFileDict"), (".user", "HarperAddToUserDict"), (".rest", "didChange/didSave/didClose")],
                other => &[("", other)],
            };
            for (suffix, what) in steps {
                let what = if suffix.is_empty() { format!("op {what}") } else { what.to_string() };
                ops.insert(
                    format!("{cur}#{opi}{suffix}"),
                    OpInfo { describe: format!("{what} on document URI {uri}"), uri: uri.clone(), user_raw: raw.0.clone(), filedir_raw: raw.1.clone() },
                );
            }
            if kind == "config" {
                cur = format!("ls:{name}b");
                raw = raw_dict_paths(&sess["settings2"], &home);
            }
        }
    }
    // ---- correspondence of the save-path model (EffectsSave.file_dict_plan / user_dict_plan, extracted) with the
    // open-for-writing and rename system calls the implementation issued during each add-to-dictionary command
    let mut by_phase: BTreeMap<&str, Vec<&Judged>> = BTreeMap::new();
    for j in &judged {
        by_phase.entry(j.phase.as_str()).or_default().push(j);
    }
    let observed = |ph: &str| -> String {
        let mut parts = vec![];
        for j in by_phase.get(ph).map(|v| v.as_slice()).unwrap_or(&[]) {
            match &j.ev {
                Ev::Open(true, p) => parts.push(format!("O{}", hex(p))),
                Ev::Rename(a, b) => parts.push(format!("R{}:{}", hex(a), hex(b))),
                Ev::Unlink(p) => parts.push(format!("X{}", hex(p))),
                _ => {}
            }
        }
        if parts.is_empty() {
            "-".to_string()
        } else {
            parts.join(" ")
        }
    };
    let (mut n_file_plans, mut n_user_plans, mut n_nothing) = (0u64, 0u64, 0u64);
    for (ph, info) in &ops {
        if ph.ends_with(".file") {
            let fp = uri_file_path(&info.uri);
            let obs = observed(ph);
            rep.case(&format!("F {} {}", hex(info.filedir_raw.as_bytes()), fp.as_ref().map(|p| hex(p)).unwrap_or_else(|| "N".to_string())), &obs);
            rep.eval();
            n_file_plans += 1;
            if obs == "-" {
                n_nothing += 1;
            }
            rep.count(match (&fp, empty_dict_name(&fp)) {
                (None, _) => "file_dict_save:url-without-file-path(nothing written)",
                (Some(_), true) => "file_dict_save:file-path-without-component(nothing written)",
                (Some(_), false) => "file_dict_save:named",
            });
        } else if ph.ends_with(".user") {
            rep.case(&format!("U {}", hex(info.user_raw.as_bytes())), &observed(ph));
            rep.eval();
            n_user_plans += 1;
        }
    }
    rep.monitor("file_dict_saves_compared_with_model", n_file_plans);
    rep.monitor("user_dict_saves_compared_with_model", n_user_plans);
    rep.monitor("file_dict_commands_that_wrote_nothing", n_nothing);

    let input = |j: &Judged| {
        json!({"kind": "run", "seed": seed, "tier": args.tier, "sessions": n_sess, "lib": n_lib, "docs": n_docs, "phase": j.phase, "syscall": j.line,
               "during": ops.get(&j.phase).map(|o| o.describe.clone()).unwrap_or_default()})
    };
    for j in &judged {
        if j.verdict != 0 {
            let cfg = cfgs.get(base_phase(&j.phase)).cloned().unwrap_or_else(MCfg::none);
            let op = ops.get(&j.phase);
            rep.fail(
                verdict_class(j.verdict),
                format!(
                    "phase {}{}: {}  [configured: user={} filedir={} stats={}]",
                    j.phase,
                    op.map(|o| format!(" ({})", o.describe)).unwrap_or_default(),
                    j.line.chars().take(300).collect::<String>(),
                    show(&cfg.user),
                    show(&cfg.filedir),
                    show(&cfg.stats)
                ),
                input(j),
            );
        }
    }
    // ---- the file system afterwards: pre-written documents unchanged, everything else is a configured file
    let mut files = vec![];
    walk(Path::new(&scratch), &mut files);
    files.sort();
    let all_cfgs: Vec<&MCfg> = cfgs.values().collect();
    let (mut n_cfg_files, mut n_docs_ok) = (0u64, 0u64);
    for f in &files {
        if f == &format!("{scratch}/scenario.json") {
            continue;
        }
        if let Some(orig) = prewritten.get(f) {
            if std::fs::read_to_string(f).ok().as_deref() == Some(orig.as_str()) {
                n_docs_ok += 1;
            } else {
                rep.fail("document-modified", format!("the document {f} was modified on disk"), json!({"kind": "run", "seed": seed, "tier": args.tier, "sessions": n_sess, "lib": n_lib, "docs": n_docs, "file": f}));
            }
            continue;
        }
        let fb = f.as_bytes();
        if all_cfgs.iter().any(|c| path_allowed(c, fb)) {
            n_cfg_files += 1;
        } else {
            rep.fail("stray-file", format!("file {f} exists after the run and is no configured dictionary / statistics file"), json!({"kind": "run", "seed": seed, "tier": args.tier, "sessions": n_sess, "lib": n_lib, "docs": n_docs, "file": f}));
        }
    }
    rep.monitor("configured_files_present_after_run", n_cfg_files);
    rep.monitor("documents_unchanged_after_run", n_docs_ok);
    // every session must have persisted its user dictionary and its statistics where the settings say
    let mut persisted = 0u64;
    for (ph, c) in &cfgs {
        let u = Path::new(std::str::from_utf8(&c.user).unwrap_or("")).exists();
        let st = Path::new(std::str::from_utf8(&c.stats).unwrap_or("")).exists();
        // statistics are written at shutdown, i.e. under the LAST configuration of a session
        let last = ph.ends_with('b') || !cfgs.contains_key(&format!("{ph}b"));
        if u && (st || !last) {
            persisted += 1;
        } else {
            rep.count("configured_file_missing_after_run");
            eprintln!("note: phase {ph}: user dictionary present={u}, statistics present={st}");
        }
    }
    rep.monitor("phases_with_files_where_configured", persisted);
    rep.sample(json!({"child": summary, "phases": cfgs.len(), "records": judged.len()}));
    let _ = replaying;
    if std::env::var("C10_KEEP").is_err() {
        let _ = std::fs::remove_dir_all(&scratch);
        let _ = std::fs::remove_file(&log);
    }
}

// ------------------------------------------------------------------------------------------------ loopback literals
fn loopback_cases(rep: &mut Report, r: &mut Rng, n: usize) {
    let mut lits: Vec<String> = [
        "127.0.0.1:4000", "0.0.0.0:4000", "[::1]:4000", "[::]:4000", "localhost:4000", "127.0.0.1", "127.0.0.1:", ":4000", "127.1:4000",
        "127.0.0.1:65535", "127.0.0.1:65536", "127.0.0.1:0", "127.255.255.254:1", "128.0.0.1:4000", "126.255.255.255:4000", "0127.0.0.1:4000",
        "127.0.0.01:4000", "127.0.0.256:4000", "127.0.0.1:004000", "127.0.0.1:4000 ", " 127.0.0.1:4000", "127.0.0.1:40a0", "127.0.0.1.1:4000",
        "127..0.1:4000", "192.168.0.1:4000", "10.0.0.1:80", "255.255.255.255:1", "127.0.0.1:4000:1", "[::1]:", "[::1]:70000", "[::1]4000", "::1:4000",
        "example.com:443", "", "127.0.0.1:٤٠٠٠", "１２７.0.0.1:4000", "127.0.0.1:99999999999999999999",
    ]
    .iter()
    .map(|s| s.to_string())
    .collect();
    // the literal harper-ls uses right now
    if let Ok(src) = std::fs::read_to_string("/repo/harper-ls/src/main.rs") {
        if let Some(i) = src.find("DEFAULT_ADDRESS: &str = \"") {
            let rest = &src[i + 25..];
            if let Some(j) = rest.find('"') {
                lits.push(rest[..j].to_string());
                rep.extra.insert("default_address".into(), json!(&rest[..j]));
            }
        }
    }
    for _ in 0..n {
        let oct = |r: &mut Rng| match r.below(8) {
            0 => "127".to_string(),
            1 => "0".to_string(),
            2 => "255".to_string(),
            3 => "256".to_string(),
            4 => format!("0{}", r.below(100)),
            _ => r.below(300).to_string(),
        };
        let first = if r.chance(1, 2) { "127".to_string() } else { oct(r) };
        let port = match r.below(6) {
            0 => "65536".to_string(),
            1 => format!("0{}", r.below(70000)),
            2 => "".to_string(),
            _ => r.below(70000).to_string(),
        };
        let n_oct = if r.chance(1, 8) { r.range(2, 5) } else { 4 };
        let mut parts = vec![first];
        for _ in 1..n_oct {
            parts.push(oct(r));
        }
        lits.push(format!("{}:{}", parts.join("."), port));
    }
    for l in lits {
        rep.eval();
        // the implementation's view: Rust's own parser (what TcpListener::bind uses before falling back to a name lookup)
        let ok = l.parse::<std::net::SocketAddr>().map(|a| a.ip().is_loopback()).unwrap_or(false);
        rep.count(if ok { "loopback_literal:accepted" } else { "loopback_literal:rejected" });
        rep.case(&format!("L {}", hex(l.as_bytes())), if ok { "1" } else { "0" });
    }
}

// ------------------------------------------------------------------------------------------------ settings -> paths
/// Config::from_lsp_config (harper-ls/src/config.rs + resolve-path) run IN PROCESS under a chosen $HOME / XDG dirs /
/// working directory, against the extracted EffectsConfig.parse_render: case `G <home> <cwd> <cfgdir> <datadir> <u> <f> <s>`
/// (setting = A absent | X not a string | S<hex>), implementation line = the three paths Config holds (lexically
/// normalised, hex) or `E`.  Only called while no other thread of this process runs (it sets environment variables).
fn config_cases(rep: &mut Report, r: &mut Rng, n: usize, only: Option<&Value>) {
    use std::os::unix::ffi::OsStrExt;
    let root = format!("/tmp/w-c10-{}-cfg", std::process::id());
    let _ = std::fs::remove_dir_all(&root);
    let envs: Vec<(String, String, Option<String>, Option<String>)> = vec![
        (format!("{root}/home/u"), format!("{root}/work/proj"), None, None),
        (format!("{root}/home/ü ser"), format!("{root}/work/deep/er/proj"), Some(format!("{root}/xdg/cfg")), Some(format!("{root}/xdg/data"))),
        (format!("{root}/h"), format!("{root}/h"), None, Some(format!("{root}/xdg2/data"))),
    ];
    let fixed = [
        "", "~", "~/", "~//", "~/x/d.txt", "~//x//d.txt", "~/x/../d.txt", "~/..", "~user/d.txt", "~x", "./~/fd", "rel/d.txt", "./rel/",
        "../up/d.txt", "..", "a/..", "a/b/..", ".", "./", "/", "//", "/abs/d.txt", "/abs//./d.txt/", "/abs/../d.txt", "/..", "x/../../y",
        "wörter/dé.txt", " ", "~ /x", "a/~/b", "dicts/", "日本/s.txt", "~/.config/harper-ls/dictionary.txt",
    ];
    let segs = ["a", "b.txt", "..", ".", "", "~", "dö", "x y", "fd", "~u"];
    let gen_path = |r: &mut Rng| -> String {
        if r.chance(2, 3) {
            return r.pick(&fixed[..]).to_string();
        }
        let mut p = match r.below(4) {
            0 => "/".to_string(),
            1 => "~/".to_string(),
            2 => "./".to_string(),
            _ => String::new(),
        };
        for i in 0..r.range(0, 5) {
            if i > 0 {
                p.push('/');
            }
            let sg: &str = *r.pick(&segs[..]);
            p.push_str(sg);
        }
        p
    };
    let gen_val = |r: &mut Rng| -> Option<Value> {
        match r.below(10) {
            0 | 1 => None,
            2 => Some(r.pick(&[json!(null), json!(7), json!(true), json!(["a"]), json!({"p": "x"})]).clone()),
            3 => Some(json!("")),
            _ => Some(json!(gen_path(r))),
        }
    };
    let enc = |v: &Option<Value>| match v {
        None => "A".to_string(),
        Some(Value::String(s)) => format!("S{}", hex(s.as_bytes())),
        Some(_) => "X".to_string(),
    };
    let saved_cwd = std::env::current_dir().ok();
    let saved: Vec<(&str, Option<std::ffi::OsString>)> = ["HOME", "XDG_CONFIG_HOME", "XDG_DATA_HOME"].iter().map(|k| (*k, std::env::var_os(k))).collect();
    let mut cases: Vec<(usize, Option<Value>, Option<Value>, Option<Value>)> = vec![];
    if let Some(v) = only {
        let g = |k: &str| if v[k].is_null() && v.get(k).is_none() { None } else { Some(v[k].clone()) };
        cases.push((v["env"].as_u64().unwrap_or(0) as usize % envs.len(), g("userDictPath"), g("fileDictPath"), g("statsPath")));
    } else {
        // every fixed string in every position once, then random triples
        for (i, f) in fixed.iter().enumerate() {
            cases.push((i % envs.len(), Some(json!(f)), None, None));
            cases.push(((i + 1) % envs.len(), None, Some(json!(f)), None));
            cases.push(((i + 2) % envs.len(), None, None, Some(json!(f))));
        }
        cases.push((0, Some(json!("")), Some(json!("")), Some(json!(""))));
        for _ in 0..n {
            let e = r.below(envs.len());
            cases.push((e, gen_val(r), gen_val(r), gen_val(r)));
        }
    }
    for (ei, u, f, st) in cases {
        let (home, cwd, xc, xd) = &envs[ei];
        std::fs::create_dir_all(home).unwrap();
        std::fs::create_dir_all(cwd).unwrap();
        std::env::set_var("HOME", home);
        match xc {
            Some(x) => std::env::set_var("XDG_CONFIG_HOME", x),
            None => std::env::remove_var("XDG_CONFIG_HOME"),
        }
        match xd {
            Some(x) => std::env::set_var("XDG_DATA_HOME", x),
            None => std::env::remove_var("XDG_DATA_HOME"),
        }
        std::env::set_current_dir(cwd).unwrap();
        // the dirs crate's rule on Linux, written down independently: $XDG_* when absolute, else under $HOME
        let cfgdir = xc.clone().unwrap_or_else(|| format!("{home}/.config"));
        let datadir = xd.clone().unwrap_or_else(|| format!("{home}/.local/share"));
        let mut inner = serde_json::Map::new();
        for (k, v) in [("userDictPath", &u), ("fileDictPath", &f), ("statsPath", &st)] {
            if let Some(v) = v {
                inner.insert(k.to_string(), v.clone());
            }
        }
        let settings = json!({ "harper-ls": Value::Object(inner) });
        rep.eval();
        let got = guarded(|| lsx::config::Config::from_lsp_config(settings.clone()));
        let norm = |p: &std::path::PathBuf| normalize(b"/", p.as_os_str().as_bytes());
        let impl_line = match &got {
            Ok(Ok(c)) => format!("{} {} {} {}", hex(&norm(&c.user_dict_path)), hex(&norm(&c.file_dict_path)), hex(&norm(&c.stats_path)), hex(&dir_prefix(norm(&c.file_dict_path)))),
            Ok(Err(_)) => "E".to_string(),
            Err(_) => "P".to_string(),
        };
        let case = format!("G {} {} {} {} {} {} {}", hex(home.as_bytes()), hex(cwd.as_bytes()), hex(cfgdir.as_bytes()), hex(datadir.as_bytes()), enc(&u), enc(&f), enc(&st));
        rep.nontrivial(&case);
        rep.count(&format!("config:{}", if impl_line == "E" { "error" } else { "parsed" }));
        for (k, v) in [("user", &u), ("filedict", &f), ("stats", &st)] {
            rep.count(&format!(
                "config:{k}:{}",
                match v {
                    None => "absent",
                    Some(Value::String(s)) if s.is_empty() => "empty",
                    Some(Value::String(s)) if s.starts_with('/') => "absolute",
                    Some(Value::String(s)) if s.starts_with('~') => "tilde",
                    Some(Value::String(_)) => "relative",
                    Some(_) => "not-a-string",
                }
            ));
        }
        let input = json!({"kind": "config", "env": ei, "userDictPath": u, "fileDictPath": f, "statsPath": st});
        // property oracle on the implementation (independent of the model): an absent or EMPTY dictionary setting
        // means the default location under the config / data directory, never the working directory
        if let Ok(Ok(c)) = &got {
            let unset = |v: &Option<Value>| matches!(v, None) || matches!(v, Some(Value::String(s)) if s.is_empty());
            if unset(&u) && norm(&c.user_dict_path) != normalize(b"/", format!("{cfgdir}/harper-ls/dictionary.txt").as_bytes()) {
                rep.fail("config-unset-not-default", format!("userDictPath {:?} makes the user dictionary {}", u, show(&norm(&c.user_dict_path))), input.clone());
            }
            if unset(&f) && norm(&c.file_dict_path) != normalize(b"/", format!("{datadir}/harper-ls/file_dictionaries").as_bytes()) {
                rep.fail("config-unset-not-default", format!("fileDictPath {:?} makes the file-dictionary directory {}", f, show(&norm(&c.file_dict_path))), input.clone());
            }
        }
        if matches!(got, Err(_)) {
            rep.fail("config-panic", format!("Config::from_lsp_config panicked at {}", last_panic_location()), input.clone());
        }
        rep.case(&case, &impl_line);
    }
    for (k, v) in saved {
        match v {
            Some(x) => std::env::set_var(k, x),
            None => std::env::remove_var(k),
        }
    }
    if let Some(c) = saved_cwd {
        let _ = std::env::set_current_dir(c);
    }
    let _ = std::fs::remove_dir_all(&root);
}

// ------------------------------------------------------------------------------------------------ thorough: the real binary
fn frame(v: &Value) -> Vec<u8> {
    let body = serde_json::to_vec(v).unwrap();
    let mut out = format!("Content-Length: {}\r\n\r\n", body.len()).into_bytes();
    out.extend(body);
    out
}

fn spawn_reader<R: Read + Send + 'static>(r: R) -> std::sync::mpsc::Receiver<Value> {
    let (tx, rx) = std::sync::mpsc::channel();
    std::thread::spawn(move || {
        let mut br = BufReader::new(r);
        loop {
            let mut len = 0usize;
            loop {
                let mut line = String::new();
                match br.read_line(&mut line) {
                    Ok(0) | Err(_) => return,
                    Ok(_) => {}
                }
                let l = line.trim();
                if l.is_empty() {
                    if len > 0 {
                        break;
                    }
                    continue;
                }
                if let Some(v) = l.strip_prefix("Content-Length:") {
                    len = v.trim().parse().unwrap_or(0);
                }
            }
            let mut buf = vec![0u8; len];
            if br.read_exact(&mut buf).is_err() {
                return;
            }
            if let Ok(v) = serde_json::from_slice::<Value>(&buf) {
                if tx.send(v).is_err() {
                    return;
                }
            }
        }
    });
    rx
}

/// a minimal editor: sends a message, then serves the server's requests until `done` says the exchange is over
fn exchange(w: &mut dyn Write, rx: &std::sync::mpsc::Receiver<Value>, settings: &Value, msg: Value, done: &dyn Fn(&Value) -> bool) -> bool {
    if w.write_all(&frame(&msg)).is_err() || w.flush().is_err() {
        return false;
    }
    let t0 = Instant::now();
    while t0.elapsed() < Duration::from_secs(60) {
        let Ok(m) = rx.recv_timeout(Duration::from_secs(60)) else { return false };
        if m.get("method").is_some() && m.get("id").is_some() {
            let result = if m["method"] == "workspace/configuration" { json!([settings]) } else { Value::Null };
            let _ = w.write_all(&frame(&json!({"jsonrpc": "2.0", "id": m["id"], "result": result})));
            let _ = w.flush();
        }
        if done(&m) {
            return true;
        }
    }
    false
}

const EDITOR_EXCHANGES: u64 = 14;

fn editor_session(w: &mut dyn Write, rx: &std::sync::mpsc::Receiver<Value>, settings: &Value, doc: &str) -> u64 {
    let uri = format!("file://{doc}");
    let resp = |id: i64| move |m: &Value| m.get("method").is_none() && m["id"] == json!(id);
    let publ = |m: &Value| m["method"] == "textDocument/publishDiagnostics";
    let mut ok = 0;
    ok += exchange(w, rx, settings, json!({"jsonrpc":"2.0","id":1,"method":"initialize","params":{"capabilities":{}}}), &resp(1)) as u64;
    // `initialized` pulls the configuration and registers a capability
    ok += exchange(w, rx, settings, json!({"jsonrpc":"2.0","method":"initialized","params":{}}), &|m: &Value| m["method"] == "client/registerCapability") as u64;
    let text = std::fs::read_to_string(doc).unwrap_or_default();
    ok += exchange(w, rx, settings, json!({"jsonrpc":"2.0","method":"textDocument/didOpen","params":{"textDocument":{"uri":uri,"languageId":"markdown","version":1,"text":text}}}), &publ) as u64;
    ok += exchange(w, rx, settings, json!({"jsonrpc":"2.0","method":"textDocument/didChange","params":{"textDocument":{"uri":uri,"version":2},"contentChanges":[{"text":"Teh quick zorgle."}]}}), &publ) as u64;
    ok += exchange(w, rx, settings, json!({"jsonrpc":"2.0","id":2,"method":"workspace/executeCommand","params":{"command":"HarperAddToUserDict","arguments":["zorgle",uri]}}), &resp(2)) as u64;
    ok += exchange(w, rx, settings, json!({"jsonrpc":"2.0","id":3,"method":"workspace/executeCommand","params":{"command":"HarperAddToFileDict","arguments":["blorfl",uri]}}), &resp(3)) as u64;
    // unsaved buffers in VS Code's three URI shapes (seed c10-2): each gets a word added to "its" file dictionary
    for (i, u) in [format!("untitled:{doc}.draft"), "untitled:Untitled-1".to_string(), "untitled:../../escape.md".to_string()].iter().enumerate() {
        ok += exchange(w, rx, settings, json!({"jsonrpc":"2.0","method":"textDocument/didOpen","params":{"textDocument":{"uri":u,"languageId":"plaintext","version":1,"text":"Here vlimp is."}}}), &publ) as u64;
        ok += exchange(w, rx, settings, json!({"jsonrpc":"2.0","id":10 + i as i64,"method":"workspace/executeCommand","params":{"command":"HarperAddToFileDict","arguments":["vlimp",u]}}), &resp(10 + i as i64)) as u64;
    }
    ok += exchange(w, rx, settings, json!({"jsonrpc":"2.0","id":4,"method":"textDocument/codeAction","params":{"textDocument":{"uri":uri},"range":{"start":{"line":0,"character":0},"end":{"line":9,"character":0}},"context":{"diagnostics":[]}}}), &resp(4)) as u64;
    ok += exchange(w, rx, settings, json!({"jsonrpc":"2.0","id":5,"method":"shutdown"}), &resp(5)) as u64;
    let _ = w.write_all(&frame(&json!({"jsonrpc":"2.0","method":"exit","params":null})));
    let _ = w.flush();
    ok
}

/// where the real harper-ls is built: `.work/c10-ls-target` (setup.sh pre-builds it). Inside tools/mutcheck.sh's
/// private namespace `.work` starts empty: the build cache is then seeded by COPYING the read-only seed setup.sh left
/// outside /verif (never built in place: another tree's objects must not be mistaken for this one's), after which
/// cargo rebuilds exactly the crates whose sources differ.
fn ls_target() -> String {
    std::env::var("C10_LS_TARGET").unwrap_or_else(|_| "/verif/.work/c10-ls-target".to_string())
}
fn ls_seed() -> String {
    std::env::var("C10_LS_SEED").unwrap_or_else(|_| "/var/tmp/verif-c10-ls-target-seed".to_string())
}
fn build_real_binary(rep: &mut Report) -> String {
    let target = ls_target();
    let bin = format!("{target}/debug/harper-ls");
    let t0 = Instant::now();
    let mut cache = "warm";
    if !Path::new(&bin).exists() {
        let seed = ls_seed();
        if Path::new(&format!("{seed}/debug/harper-ls")).exists() {
            let _ = std::fs::remove_dir_all(&target);
            if let Some(parent) = Path::new(&target).parent() {
                let _ = std::fs::create_dir_all(parent);
            }
            let ok = Command::new("cp").args(["-a", "--reflink=auto", &seed, &target]).status().map(|s| s.success()).unwrap_or(false);
            cache = if ok { "seeded" } else { "cold" };
        } else {
            cache = "cold";
        }
    }
    rep.extra.insert("harper_ls_build_cache".into(), json!(cache));
    let b = Command::new("cargo")
        // not from inside /repo: its rust-toolchain.toml (channel "stable" + wasm32 target) would make rustup try to
        // sync the channel over the network; the toolchain is named explicitly instead
        .args(["build", "--offline", "--locked", "--manifest-path", "/repo/Cargo.toml", "-p", "harper-ls", "-p", "harper-cli"])
        .current_dir(std::env::temp_dir())
        .env("CARGO_TARGET_DIR", &target)
        .env("CARGO_NET_OFFLINE", "true")
        .env("RUSTUP_TOOLCHAIN", std::env::var("RUSTUP_TOOLCHAIN").unwrap_or_else(|_| "stable-x86_64-unknown-linux-gnu".to_string()))
        .output()
        .expect("cargo");
    rep.extra.insert("harper_ls_build_s".into(), json!(t0.elapsed().as_secs_f64()));
    if !b.status.success() || !Path::new(&bin).exists() || !Path::new(&format!("{target}/debug/harper-cli")).exists() {
        let err = String::from_utf8_lossy(&b.stderr).to_string();
        panic!("cargo build -p harper-ls -p harper-cli failed: {}", &err[err.len().saturating_sub(1500)..]);
    }
    bin
}

/// the address of a traced `bind`: (family, "ip:port" / "[ip6]:port" as Rust would write the literal)
fn bind_address(line: &str) -> (u32, Option<String>) {
    let fam = sa_family(line);
    let quoted = |key: &str| line.find(key).and_then(|i| line[i + key.len()..].split('"').next().map(|s| s.to_string()));
    let port = |key: &str| line.find(key).and_then(|i| line[i + key.len()..].split(')').next().map(|s| s.to_string()));
    match fam {
        2 => (fam, quoted("inet_addr(\"").zip(port("sin_port=htons(")).map(|(a, p)| format!("{a}:{p}"))),
        10 => (fam, quoted("inet_pton(AF_INET6, \"").zip(port("sin6_port=htons(")).map(|(a, p)| format!("[{a}]:{p}"))),
        _ => (fam, None),
    }
}

/// seeds c10-1 / c10-3: 127.0.0.1:4000 is BUSY when the server starts. Whatever it does then (the code as it is:
/// panics on the failed bind), every address it tries to bind must be a loopback address. The addresses seen are also
/// handed to the extracted `Effects.loopback_bytes` (correspondence cases `L`).
fn real_tcp_busy(rep: &mut Report, bin: &str) {
    let mode = "tcp-busy";
    let scratch = format!("/tmp/w-c10-{}-{mode}", std::process::id());
    let log = format!("{scratch}.strace");
    let _ = std::fs::remove_dir_all(&scratch);
    let home = format!("{scratch}/home");
    std::fs::create_dir_all(&home).unwrap();
    std::fs::create_dir_all(format!("{scratch}/cwd")).unwrap();
    let lock = std::fs::OpenOptions::new().create(true).write(true).open("/tmp/c10-port4000.lock").expect("port lock");
    lock.lock().expect("flock");
    // occupy the port; when somebody outside the lock discipline owns it, it is busy all the same
    let holder = std::net::TcpListener::bind("127.0.0.1:4000");
    rep.monitor("real_tcp_busy_port_held_by_harness", holder.is_ok() as u64);
    let mut cmd = strace_cmd(&log);
    cmd.arg(bin);
    cmd.env_clear().env("PATH", std::env::var("PATH").unwrap_or_default()).env("HOME", &home).current_dir(format!("{scratch}/cwd"));
    cmd.stdin(Stdio::piped()).stdout(Stdio::piped()).stderr(Stdio::null());
    let mut child = cmd.spawn().expect("strace harper-ls");
    let stdin = child.stdin.take().unwrap();
    let stdout = child.stdout.take().unwrap();
    let (tx, rx) = std::sync::mpsc::channel();
    std::thread::spawn(move || {
        let mut line = String::new();
        let _ = BufReader::new(stdout).read_line(&mut line);
        let _ = tx.send(line);
    });
    // the code as it is exits at once (unwrap on EADDRINUSE); a server that found another address prints a banner and waits
    let t0 = Instant::now();
    let mut banner = String::new();
    let mut exited = false;
    while t0.elapsed() < Duration::from_secs(20) {
        if let Ok(Some(_)) = child.try_wait() {
            exited = true;
            break;
        }
        if let Ok(l) = rx.try_recv() {
            banner = l.trim().to_string();
            if !banner.is_empty() {
                std::thread::sleep(Duration::from_millis(300));
                break;
            }
        }
        std::thread::sleep(Duration::from_millis(20));
    }
    drop(stdin);
    if !exited {
        let _ = Command::new("pkill").args(["-f", bin]).status();
        std::thread::sleep(Duration::from_millis(200));
        let _ = child.kill();
        let _ = child.wait();
    }
    drop(holder);
    drop(lock);
    rep.extra.insert("tcp_busy_banner".into(), json!(banner));
    rep.monitor("real_tcp_busy_server_exited_by_itself", exited as u64);
    let logtext = String::from_utf8_lossy(&std::fs::read(&log).unwrap_or_default()).to_string();
    let input = |what: &str| json!({"kind": "real", "mode": mode, "precondition": "127.0.0.1:4000 is in use when harper-ls starts in TCP mode", "syscall": what});
    let (mut binds, mut busy, mut listens) = (0u64, 0u64, 0u64);
    for r in records(&logtext) {
        match r.name.as_str() {
            "bind" => {
                binds += 1;
                let (fam, addr) = bind_address(&r.line);
                if r.line.contains("EADDRINUSE") && r.line.contains("htons(4000)") {
                    busy += 1;
                }
                let ok = match (&fam, &addr) {
                    (1, _) => true,
                    (_, Some(a)) => {
                        rep.eval();
                        let ok = a.parse::<std::net::SocketAddr>().map(|x| x.ip().is_loopback()).unwrap_or(false);
                        rep.case(&format!("L {}", hex(a.as_bytes())), if ok { "1" } else { "0" });
                        rep.count(&format!("real-tcp-busy:bind {a}"));
                        ok
                    }
                    _ => false,
                };
                if !ok {
                    rep.fail(
                        "listener-not-loopback-only",
                        format!("real harper-ls (tcp, 127.0.0.1:4000 busy at start-up) binds {}: {}", addr.unwrap_or_else(|| format!("family {fam}")), r.line.chars().take(300).collect::<String>()),
                        input(&r.line),
                    );
                }
            }
            "listen" if r.ret_ok => listens += 1,
            "connect" | "sendto" | "sendmsg" | "sendmmsg" => {
                if let Parsed::Event(e) = interpret(format!("{scratch}/cwd").as_bytes(), &r.name, &r.args, r.ret_ok) {
                    if judge(&MCfg::none(), &e) != 0 && !matches!(e, Ev::Send(0)) {
                        rep.fail(verdict_class(judge(&MCfg::none(), &e)), format!("real harper-ls ({mode}): {}", r.line.chars().take(300).collect::<String>()), input(&r.line));
                    }
                }
            }
            _ => {}
        }
    }
    rep.monitor("real_tcp_busy_binds_seen", binds);
    rep.monitor("real_tcp_busy_listens_seen", listens);
    if busy == 0 {
        panic!("real harper-ls ({mode}): vacuous — no bind of port 4000 failed with EADDRINUSE ({binds} binds traced)");
    }
    let mut files = vec![];
    walk(Path::new(&scratch), &mut files);
    for f in files {
        rep.fail("stray-file", format!("real harper-ls ({mode}) left {f}"), input(&f));
    }
    if std::env::var("C10_KEEP").is_err() {
        let _ = std::fs::remove_dir_all(&scratch);
        let _ = std::fs::remove_file(&log);
    }
}


// ------------------------------------------------------------------------------------------------ the real harper-cli binary
/// harper-cli's own file_dict_name, restated from the documentation of std::path::Path::components: every component
/// except the root followed by '%'. The harness only uses it to PRE-WRITE a file dictionary where the tool will look
/// (the comparison itself is against the extracted C10Cli.cli_lint_reads).
fn cli_dict_name(file: &str) -> String {
    let mut out = String::new();
    for c in Path::new(file).components() {
        if !matches!(c, std::path::Component::RootDir) {
            out.push_str(&c.as_os_str().to_string_lossy());
            out.push('%');
        }
    }
    out
}

struct CliRun {
    argv: Vec<String>,
    /// Some((user, filedir, file)) for `lint`: absolute user / filedir as openat(AT_FDCWD) will see them, file as typed
    lint: Option<(String, String, String)>,
    doc: Option<String>,
}

/// harper-cli writes nothing and talks to nobody, whatever the subcommand: every invocation runs under strace with the
/// EMPTY monitor configuration (any open-for-writing / rename / unlink / mkdir / socket is a failure); the two
/// dictionary files `lint` opens for reading are compared with the extracted C10Cli.cli_lint_reads (cases `K`); the
/// scratch tree must be byte-identical afterwards.
fn real_cli(rep: &mut Report, args: &Args, cli: &str) {
    let scratch = format!("/tmp/w-c10-{}-cli", std::process::id());
    let _ = std::fs::remove_dir_all(&scratch);
    let home = format!("{scratch}/home");
    let cwd = format!("{scratch}/cwd");
    let mut r = Rng::new(args.seed ^ 0xC11);
    let mut pre: BTreeMap<String, Vec<u8>> = BTreeMap::new();
    let mut put = |p: String, text: &str| {
        if let Some(d) = Path::new(&p).parent() {
            std::fs::create_dir_all(d).unwrap();
        }
        std::fs::write(&p, text).unwrap();
        pre.insert(p, text.as_bytes().to_vec());
    };
    let md = "# Teh titel\n\nSome blorfl text with a zorgle in it. This are an test.\n";
    put(format!("{cwd}/a.md"), md);
    put(format!("{cwd}/sub/b.md"), "An other  sentence with vlimp.\n");
    put(format!("{cwd}/wörter dé.md"), "Ein zorgle, deux blorfl.\n");
    put(format!("{cwd}/notes.lhs"), "A literate file with teh typo.\n\n> main = putStrLn \"hi\"\n");
    put(format!("{cwd}/paper.typ"), "= Heading\n\nSome typst text with a zorgle.\n");
    put(format!("{cwd}/main.rs"), "// A comment with teh typo and a zorgle.\nfn main() {}\n");
    put(format!("{cwd}/script.py"), "# anohter comment\nprint(1)\n");
    put(format!("{cwd}/plain.txt"), "No language for this one.\n");
    put(format!("{cwd}/stats.txt"), "{\"kind\":\"nothing a Stats::read accepts\"}\n");
    put(format!("{cwd}/u.txt"), "zorgle\n");
    put(format!("{home}/.config/harper-ls/dictionary.txt"), "blorfl\n");
    // file dictionaries where `lint` will look: for a.md typed absolutely, typed relatively, and under the default directory
    put(format!("{cwd}/fd/{}", cli_dict_name(&format!("{cwd}/a.md"))), "blorfl\n");
    put(format!("{cwd}/fd/{}", cli_dict_name("a.md")), "blorfl\n");
    put(format!("{home}/.local/share/harper-ls/file_dictionaries/{}", cli_dict_name("sub/b.md")), "vlimp\n");
    drop(put);
    let sv = |v: &[&str]| v.iter().map(|s| s.to_string()).collect::<Vec<String>>();
    let dflt_user = format!("{home}/.config/harper-ls/dictionary.txt");
    let dflt_fd = format!("{home}/.local/share/harper-ls/file_dictionaries/");
    let abs = |p: &str| if p.starts_with('/') { p.to_string() } else { format!("{cwd}/{p}") };
    let mut runs: Vec<CliRun> = vec![];
    let mut lint = |file: &str, u: Option<&str>, f: Option<&str>, extra: &[&str]| {
        let mut argv = sv(&["lint"]);
        argv.extend(sv(extra));
        if let Some(u) = u {
            argv.extend(sv(&["-u", u]));
        }
        if let Some(f) = f {
            argv.extend(sv(&["-f", f]));
        }
        argv.push(file.to_string());
        runs.push(CliRun {
            argv,
            lint: Some((u.map(|x| abs(x)).unwrap_or_else(|| dflt_user.clone()), f.map(|x| abs(x)).unwrap_or_else(|| dflt_fd.clone()), file.to_string())),
            doc: Some(abs(file)),
        });
    };
    let abs_a = format!("{cwd}/a.md");
    lint(&abs_a, Some(&format!("{cwd}/u.txt")), Some(&format!("{cwd}/fd")), &[]);
    lint("a.md", Some("u.txt"), Some("fd"), &[]);
    lint("./sub/../a.md", Some("./u.txt"), Some("fd/"), &[]);
    lint("sub/b.md", None, None, &[]);
    lint("wörter dé.md", Some("no-such-dict.txt"), Some("no/such/dir"), &["--count"]);
    lint("main.rs", Some("u.txt"), Some("fd/../fd"), &["-o", "SpellCheck", "-d", "British"]);
    lint("notes.lhs", Some("u.txt"), None, &[]);
    lint("paper.typ", None, Some("fd"), &[]);
    lint("script.py", Some("sub/../u.txt"), Some("."), &["--count"]);
    if args.thorough() {
        lint("plain.txt", Some("u.txt"), Some("fd"), &[]);
    }
    lint("missing.md", Some("u.txt"), Some("fd"), &[]);
    lint(".", Some("u.txt"), Some("fd"), &[]);
    lint("/", Some("u.txt"), Some("fd"), &[]);
    let files = ["a.md", "sub/b.md", "./a.md", "sub/./b.md", "sub/../sub/b.md", "././main.rs", "../cwd/a.md", "sub//b.md", "paper.typ", "wörter dé.md"];
    let dicts = ["u.txt", "./u.txt", "nope.txt", "sub/../u.txt"];
    let dirs = ["fd", "fd/", "./fd", "sub/../fd", ".", "nodir", "fd/.."];
    for _ in 0..args.scale(2, 40) {
        let f = if r.chance(1, 4) { format!("{cwd}/{}", r.pick(&files[..])) } else { r.pick(&files[..]).to_string() };
        let u = if r.chance(1, 5) { None } else { Some(*r.pick(&dicts[..])) };
        let d = if r.chance(1, 5) { None } else { Some(*r.pick(&dirs[..])) };
        let extra: &[&str] = if r.chance(1, 2) { &["--count"] } else { &[] };
        lint(&f, u, d, extra);
    }
    drop(lint);
    for (argv, doc) in [
        (sv(&["parse", "a.md"]), Some("a.md")),
        (sv(&["spans", "-i", "main.rs"]), Some("main.rs")),
        (sv(&["words"]), None),
        (sv(&["metadata", "hello"]), None),
        (sv(&["forms", "zorgle/S"]), None),
        (sv(&["config"]), None),
        (sv(&["mine-words", "sub/b.md"]), Some("sub/b.md")),
        (sv(&["summarize-lint-record", "stats.txt"]), Some("stats.txt")),
        (sv(&["--version"]), None),
    ] {
        // quick tier: the subcommands that only print built-in data once (`words`) — the others in the thorough tier
        if !args.thorough() && matches!(argv[0].as_str(), "metadata" | "forms" | "--version") {
            continue;
        }
        runs.push(CliRun { argv, lint: None, doc: doc.map(|d| abs(d)) });
    }
    // run them in parallel (each ~3 s of CPU in a debug build: the curated dictionary is built at start-up)
    let results: Vec<(String, usize, i32)> = {
        let handles: Vec<_> = runs
            .iter()
            .enumerate()
            .map(|(i, run)| {
                let log = format!("{scratch}.{i}.strace");
                let mut cmd = strace_cmd(&log);
                cmd.arg(cli).args(&run.argv);
                cmd.env_clear().env("PATH", std::env::var("PATH").unwrap_or_default()).env("HOME", &home).current_dir(&cwd);
                cmd.stdin(Stdio::null()).stdout(Stdio::piped()).stderr(Stdio::null());
                std::thread::spawn(move || {
                    let out = cmd.output().expect("strace harper-cli");
                    let text = String::from_utf8_lossy(&std::fs::read(&log).unwrap_or_default()).to_string();
                    let _ = std::fs::remove_file(&log);
                    (text, out.stdout.iter().filter(|c| **c == b'\n').count(), out.status.code().unwrap_or(-1))
                })
            })
            .collect();
        handles.into_iter().map(|h| h.join().expect("cli thread")).collect()
    };
    let mut cfgs = BTreeMap::new();
    cfgs.insert("cli".to_string(), MCfg::none());
    let (mut n_k, mut n_doc_reads, mut n_dict_found) = (0u64, 0u64, 0u64);
    for (run, (logtext, out_lines, code)) in runs.iter().zip(results.iter()) {
        let sub = run.argv[0].clone();
        let input = |what: &str| json!({"kind": "cli", "argv": run.argv, "syscall": what});
        let (judged, stats) = judge_log(rep, logtext, cwd.as_bytes(), &cfgs, "cli", "real-cli");
        for (k, v) in &stats {
            if k.starts_with("real-cli") {
                rep.count_n(&format!("{k}:{sub}"), *v);
            }
        }
        rep.count(&format!("real-cli:{sub}:exit {code}"));
        if judged.is_empty() || !logtext.contains("execve(") && !judged.iter().any(|j| matches!(j.ev, Ev::Open(false, _))) {
            panic!("real harper-cli {:?}: vacuous trace ({} records)", run.argv, judged.len());
        }
        if sub == "words" && *out_lines < 10000 {
            panic!("real harper-cli words: only {out_lines} lines of output");
        }
        for j in &judged {
            if j.verdict != 0 {
                rep.fail(verdict_class(j.verdict), format!("real harper-cli {:?}: {}", run.argv, j.line.chars().take(300).collect::<String>()), input(&j.line));
            }
        }
        let reads: Vec<&Vec<u8>> = judged.iter().filter_map(|j| match &j.ev { Ev::Open(false, p) if p.starts_with(scratch.as_bytes()) => Some(p), _ => None }).collect();
        if let Some(doc) = &run.doc {
            if Path::new(doc).is_file() {
                if reads.iter().any(|p| **p == normalize(b"/", doc.as_bytes())) {
                    n_doc_reads += 1;
                } else {
                    panic!("real harper-cli {:?}: the document {doc} was never opened — vacuous", run.argv);
                }
            }
        }
        if let Some((u, d, f)) = &run.lint {
            // the two dictionary loads come first in `lint` (before the document is read)
            let got: Vec<String> = reads.iter().take(2).map(|p| hex(p)).collect();
            rep.eval();
            rep.case(&format!("K {} {} {}", hex(u.as_bytes()), hex(d.as_bytes()), hex(f.as_bytes())), &got.join(" "));
            rep.nontrivial(&(u, d, f));
            n_k += 1;
            if reads.len() >= 2 && Path::new(&String::from_utf8_lossy(reads[1]).to_string()).is_file() {
                n_dict_found += 1;
            }
            rep.count(&format!("real-cli:lint:file {}", if f.starts_with('/') { "absolute" } else if f.starts_with('.') { "relative, leading dot" } else { "relative" }));
        }
    }
    rep.monitor("real_cli_invocations", runs.len() as u64);
    rep.monitor("real_cli_lint_dictionary_reads_compared_with_model", n_k);
    rep.monitor("real_cli_documents_seen_opened", n_doc_reads);
    rep.monitor("real_cli_file_dictionaries_found_where_the_model_says", n_dict_found);
    // (no panic when few are found: a harper-cli that looks elsewhere must surface as `K` disagreements with a concrete
    // command line, not as an abnormal exit; the count is in the monitors)
    if n_k == 0 {
        panic!("real harper-cli: no lint run was compared with the model — vacuous");
    }
    let mut files = vec![];
    walk(Path::new(&scratch), &mut files);
    for f in files {
        match pre.get(&f) {
            Some(orig) => {
                if std::fs::read(&f).ok().as_deref() != Some(orig.as_slice()) {
                    rep.fail("document-modified", format!("real harper-cli modified {f}"), json!({"kind": "cli", "file": f}));
                }
            }
            None => rep.fail("stray-file", format!("real harper-cli left {f}"), json!({"kind": "cli", "file": f})),
        }
    }
    if std::env::var("C10_KEEP").is_err() {
        let _ = std::fs::remove_dir_all(&scratch);
    }
}

fn ud_dir(scratch: &str) -> String {
    format!("{scratch}/ud")
}

fn real_binary(rep: &mut Report, _args: &Args) {
    let bin = build_real_binary(rep);
    real_tcp_busy(rep, &bin);
    // "stdio-empty": an editor that sends the string-typed path settings present but EMPTY (seed c10-4) and a relative
    // statsPath: the dictionaries must land in the default locations under $HOME, the statistics under the cwd
    real_cli(rep, _args, &format!("{}/debug/harper-cli", ls_target()));
    // "stdio-userdir": a userDictPath that names a DIRECTORY by ending in `..` (config.rs accepts it; save_dict refuses it
    // since a91f3ee): the regression of finding FC10b — nothing may be written for the user dictionary
    for mode in ["stdio", "stdio-empty", "stdio-userdir", "tcp"] {
        let scratch = format!("/tmp/w-c10-{}-{mode}", std::process::id());
        let log = format!("{scratch}.strace");
        let _ = std::fs::remove_dir_all(&scratch);
        let home = format!("{scratch}/home");
        std::fs::create_dir_all(&home).unwrap();
        std::fs::create_dir_all(format!("{scratch}/cwd")).unwrap();
        let doc = format!("{scratch}/cwd/readme.md");
        let doc_text = "# Teh titel\n\nSome blorfl text with a zorgle in it.\n";
        std::fs::write(&doc, doc_text).unwrap();
        // stdio: explicit paths; tcp: nothing configured (Config::default under $HOME), the editor answers `{}`-like settings
        let settings = if mode == "stdio" {
            json!({"harper-ls": {"userDictPath": format!("{scratch}/u/dict.txt"), "fileDictPath": format!("{scratch}/fd"), "statsPath": format!("{scratch}/st/stats.txt")}})
        } else if mode == "stdio-empty" {
            json!({"harper-ls": {"userDictPath": "", "fileDictPath": "", "statsPath": "rel-stats/../rel-stats/s.txt"}})
        } else if mode == "stdio-userdir" {
            json!({"harper-ls": {"userDictPath": format!("{scratch}/ud/inner/.."), "fileDictPath": format!("{scratch}/fd"), "statsPath": format!("{scratch}/st/stats.txt")}})
        } else {
            json!({"harper-ls": {}})
        };
        let mut cfgs = BTreeMap::new();
        let mut mc = cfg_of(&settings, &home);
        if mode == "stdio-empty" {
            mc.stats = format!("{scratch}/cwd/rel-stats/s.txt").into_bytes();
        }
        cfgs.insert("real".to_string(), mc);
        // TCP mode uses the fixed port 4000: serialise with other C10 runs on this machine (flock holds the lock
        // for as long as the traced server lives)
        let port_lock = if mode == "tcp" {
            let l = std::fs::OpenOptions::new().create(true).write(true).open("/tmp/c10-port4000.lock").expect("port lock");
            l.lock().expect("flock");
            Some(l)
        } else {
            None
        };
        let mut cmd = strace_cmd(&log);
        cmd.arg(&bin);
        if mode != "tcp" {
            cmd.arg("--stdio");
        }
        cmd.env_clear().env("PATH", std::env::var("PATH").unwrap_or_default()).env("HOME", &home).current_dir(format!("{scratch}/cwd"));
        cmd.stdin(Stdio::piped()).stdout(Stdio::piped()).stderr(Stdio::null());
        let mut child = cmd.spawn().expect("strace harper-ls");
        let mut stdin = child.stdin.take().unwrap();
        let mut stdout = child.stdout.take().unwrap();
        let ok = if mode != "tcp" {
            let rx = spawn_reader(stdout);
            editor_session(&mut stdin, &rx, &settings, &doc)
        } else {
            // wait for "Listening on …", then be the editor that connects to the loopback listener
            let mut line = String::new();
            let mut br = BufReader::new(&mut stdout);
            let _ = br.read_line(&mut line);
            rep.extra.insert("tcp_banner".into(), json!(line.trim()));
            let mut ok = 0;
            for _ in 0..50 {
                if let Ok(sock) = std::net::TcpStream::connect("127.0.0.1:4000") {
                    let rx = spawn_reader(sock.try_clone().unwrap());
                    let mut w = sock;
                    ok = editor_session(&mut w, &rx, &settings, &doc);
                    let _ = w.shutdown(std::net::Shutdown::Both);
                    break;
                }
                std::thread::sleep(Duration::from_millis(100));
            }
            ok
        };
        drop(stdin);
        let t1 = Instant::now();
        loop {
            match child.try_wait() {
                Ok(Some(_)) => break,
                _ if t1.elapsed() > Duration::from_secs(20) => {
                    let _ = child.kill();
                    let _ = Command::new("pkill").args(["-f", &bin]).status();
                    break;
                }
                _ => std::thread::sleep(Duration::from_millis(50)),
            }
        }
        drop(port_lock);
        rep.monitor(&format!("real_{mode}_exchanges_completed"), ok);
        if mode == "tcp" && ok < EDITOR_EXCHANGES && String::from_utf8_lossy(&std::fs::read(&log).unwrap_or_default()).contains("EADDRINUSE") {
            // somebody else on this machine owns port 4000 right now: nothing can be observed, nothing is claimed
            rep.monitor("real_tcp_skipped_port_4000_in_use", 1);
            let _ = std::fs::remove_dir_all(&scratch);
            let _ = std::fs::remove_file(&log);
            continue;
        }
        if ok < EDITOR_EXCHANGES {
            panic!("real harper-ls ({mode}): only {ok} of {EDITOR_EXCHANGES} editor exchanges completed");
        }
        let logtext = String::from_utf8_lossy(&std::fs::read(&log).unwrap_or_default()).to_string();
        let (judged, stats) = judge_log(rep, &logtext, format!("{scratch}/cwd").as_bytes(), &cfgs, "real", &format!("real-{mode}"));
        for (k, v) in &stats {
            rep.count_n(&format!("real-{mode}:{k}"), *v);
        }
        let writes = judged.iter().filter(|j| matches!(j.ev, Ev::Open(true, _))).count();
        if writes < 3 {
            panic!("real harper-ls ({mode}): vacuous trace ({} records, {writes} write-opens)", judged.len());
        }
        let input = |what: &str| json!({"kind": "real", "mode": mode, "settings": settings, "syscall": what});
        let mut inet_sockets = 0;
        for j in &judged {
            let net = matches!(j.ev, Ev::Socket(_) | Ev::Connect(..) | Ev::Send(_) | Ev::Bind(_));
            if mode == "tcp" && net {
                // the listener: exactly one internet socket, bound to the loopback address; replies on the accepted
                // connection are address-less sends; nothing else
                let fine = match &j.ev {
                    Ev::Socket(2) | Ev::Socket(10) => {
                        inet_sockets += 1;
                        inet_sockets == 1
                    }
                    Ev::Bind(2) => j.line.contains("sin_port=htons(4000)") && j.line.contains("inet_addr(\"127."),
                    Ev::Bind(10) => j.line.contains("sin6_port=htons(4000)") && j.line.contains("\"::1\""),
                    Ev::Send(0) => true,
                    other => judge(&cfgs["real"], other) == 0,
                };
                if !fine {
                    rep.fail("listener-not-loopback-only", format!("real harper-ls (tcp): {}", j.line.chars().take(300).collect::<String>()), input(&j.line));
                }
            } else if j.verdict != 0 {
                // (FC10b — a userDictPath naming a directory made save_dict put `.tmp` inside it — is fixed in /repo by
                // a91f3ee; the narrow class is gone: in mode stdio-userdir any such call is an ordinary stray-write again)
                let class = verdict_class(j.verdict);
                rep.fail(class, format!("real harper-ls ({mode}): {}", j.line.chars().take(300).collect::<String>()), input(&j.line));
            }
        }
        if mode == "stdio-userdir" {
            // the same command against the extracted save-path model: correspondence case `U` (since a91f3ee: `-`, nothing
            // written; before: O<ud>/.tmp R<ud>/.tmp:<ud>). The directory <ud> itself must not have been created either.
            if Path::new(&ud_dir(&scratch)).exists() {
                rep.fail("stray-file", format!("real harper-ls ({mode}) created the directory {}", ud_dir(&scratch)), input("directory created"));
            }
            let ud = format!("{scratch}/ud");
            let mut parts: Vec<String> = vec![];
            for j in &judged {
                let part = match &j.ev {
                    Ev::Open(true, p) if p.starts_with(ud.as_bytes()) => Some(format!("O{}", hex(p))),
                    Ev::Rename(a, b) if a.starts_with(ud.as_bytes()) || b.starts_with(ud.as_bytes()) => Some(format!("R{}:{}", hex(a), hex(b))),
                    _ => None,
                };
                if let Some(x) = part {
                    if !parts.contains(&x) {
                        parts.push(x);
                    }
                }
            }
            rep.eval();
            rep.case(&format!("U {}", hex(format!("{scratch}/ud/inner/..").as_bytes())), &if parts.is_empty() { "-".to_string() } else { parts.join(" ") });
            rep.count("real-stdio-userdir:user_dict_save_compared_with_model");
        }
        if mode == "tcp" && inet_sockets != 1 {
            rep.fail("listener-not-loopback-only", format!("real harper-ls (tcp) created {inet_sockets} internet sockets, expected exactly the listener"), input("socket count"));
        }
        let mut files = vec![];
        walk(Path::new(&scratch), &mut files);
        for f in files {
            if f == doc {
                if std::fs::read_to_string(&f).ok().as_deref() != Some(doc_text) {
                    rep.fail("document-modified", format!("real harper-ls ({mode}) modified {f}"), input(&f));
                }
            } else if !path_allowed(&cfgs["real"], f.as_bytes()) {
                rep.fail("stray-file", format!("real harper-ls ({mode}) left {f}"), input(&f));
            }
        }
        if std::env::var("C10_KEEP").is_err() {
            let _ = std::fs::remove_dir_all(&scratch);
            let _ = std::fs::remove_file(&log);
        }
    }
}

// ------------------------------------------------------------------------------------------------ corpus: parser / judge self-tests
fn selftest(rep: &mut Report, v: &Value) {
    let c = &v["cfg"];
    let b = |k: &str| c[k].as_str().map(|s| s.as_bytes().to_vec()).unwrap_or_else(|| UNSET.to_vec());
    let cfg = MCfg { user: b("user"), filedir: b("filedir"), stats: b("stats"), own: c["own"].as_array().map(|a| a.iter().filter_map(|x| x.as_str()).map(|s| s.as_bytes().to_vec()).collect()).unwrap_or_default() };
    let mut cfgs = BTreeMap::new();
    cfgs.insert("t".to_string(), cfg);
    let log = v["lines"].as_array().unwrap().iter().filter_map(|l| l.as_str()).collect::<Vec<_>>().join("\n");
    let (judged, _) = judge_log(rep, &log, v["cwd"].as_str().unwrap_or("/").as_bytes(), &cfgs, "t", "selftest");
    let got: Vec<u64> = judged.iter().map(|j| j.verdict as u64).collect();
    let want: Vec<u64> = v["expect"].as_array().unwrap().iter().filter_map(|x| x.as_u64()).collect();
    rep.count("corpus:selftest");
    if got != want {
        // not a property failure: the monitor itself is broken
        panic!("monitor self-test {:?}: verdicts {:?}, expected {:?}", v["name"], got, want);
    }
}

fn main() {
    let argv: Vec<String> = std::env::args().collect();
    let (args, corpus) = hv::cli();
    if let Some(i) = argv.iter().position(|a| a == "--child") {
        run_child(&argv[i + 1]);
        return;
    }
    let mut rep = Report::new(&args.out);
    rep.rule = "no socket/connect/send/bind outside AF_UNIX, no connect, no resolver file; files opened for writing / removed: only the user dictionary, its .tmp sibling, the statistics file, files directly inside the file-dictionary directory; only rename: <dictionary>.tmp -> <dictionary>; mkdir only towards a configured location (strace of library + wasm API + language-server sessions incl. untitled:/odd URIs); per add-to-dictionary command the write/rename calls equal the extracted save-path model; dependency graph and call-site theorems in coq/Properties/C10.v".into();
    let mut ran_replay = false;
    for inp in &corpus {
        match inp["kind"].as_str().unwrap_or("") {
            "events" => selftest(&mut rep, inp),
            "run" => {
                let seed = inp["seed"].as_u64().unwrap_or(args.seed);
                // a recorded failure carries the size of the run it came from; hand-written corpus entries may ask for a small one
                let small = match (inp["lib"].as_u64(), inp["sessions"].as_u64(), inp["docs"].as_u64()) {
                    (Some(l), Some(n), Some(d)) if n >= 1 && d >= 1 => Some((l as usize, n as usize, d as usize)),
                    _ => None,
                };
                monitored_run(&mut rep, &args, seed, args.replay.is_some(), small);
                ran_replay = true;
            }
            "real" => {
                real_binary(&mut rep, &args);
                ran_replay = true;
            }
            "cli" => {
                let _ = build_real_binary(&mut rep);
                real_cli(&mut rep, &args, &format!("{}/debug/harper-cli", ls_target()));
                ran_replay = true;
            }
            "config" => {
                let mut r = Rng::new(args.seed);
                config_cases(&mut rep, &mut r, 0, Some(inp));
                ran_replay = true;
            }
            _ => rep.count("corpus:ignored"),
        }
    }
    if args.replay.is_none() {
        monitored_run(&mut rep, &args, args.seed, false, None);
        let mut r = Rng::new(args.seed);
        loopback_cases(&mut rep, &mut r, args.scale(300, 5000));
        config_cases(&mut rep, &mut r, args.scale(600, 20000), None);
        // the real harper-ls binary (TCP with port 4000 busy, stdio, TCP listener): in BOTH tiers. setup.sh pre-builds it
        // (warm: the rebuild takes < 1 s; seeded copy inside mutcheck: ~10 s + the crates that changed; cold: ~2.5 min)
        real_binary(&mut rep, &args);
    } else if !ran_replay {
        eprintln!("replay file holds no input I know how to run");
    }
    rep.finish();
}
