use harper_core::{Document, FstDictionary};
fn main() {
    let dict = FstDictionary::curated();
    for s in std::env::args().skip(1) {
        let doc = Document::new_plain_english(&s, &dict);
        let toks: Vec<String> = doc.get_tokens().iter().map(|t| format!("{}@{}..{}", format!("{:?}", t.kind).chars().take(8).collect::<String>(), t.span.start, t.span.end)).collect();
        println!("{s:?}: {toks:?}");
    }
}
