//! C11 — rule switches.
//! Correspondence (model = coq/Model/LintGroupCfg.v, extracted):
//!   T  the generated rule table vs LintGroup::new_curated (config + iter_keys)
//!   C  random sequences of LintGroupConfig operations on a register bank (real rule names + unknown keys,
//!      merges, fills, clears, the clear+merge of harper-wasm set_lint_config, JSON round trips through serde_json and
//!      harper-ls Config::from_lsp_config; complete rule maps minus k rules plus >= k stale keys before a fill):
//!      every register's map and is_rule_enabled of every probe key
//!   J  JSON texts (valid, whitespace/escape variants, duplicates, malformed) through serde_json::from_str
//!   W  the same texts through serde_json::from_str::<Value> + from_value (model: C11JsonValue.parse_json + from_value)
//!   V  complete settings texts through from_str::<Value> + harper-ls Config::from_lsp_config(..).lint_config
//!      (model: parse_json + lsp_lint_config over the key list generated from config.rs)
//!   P  serde_json::to_string byte for byte        H  the Hasher::write calls of impl Hash
//!   L  LintGroup::lint on groups assembled from test rules (add / add_pattern_linter / merge_from /
//!      set_all_rules_to / config ops): config, iter_keys and the exact lint sequence (panics included)
//! Search oracle on the real curated LintGroup (long-lived instance, so the chunk cache is in play):
//!   lint(cfg) vs the multiset union of single-switch runs, random two-way partitions, toggles (others keep
//!   value and order), unknown keys, cleared / unset configs are silent, the save/fill/lint/restore dance
//!   (harper-ls DocumentState::generate_diagnostics, harper_wasm::Linter::lint), overlay and merge laws.
use harper_core::linting::{Lint, LintGroup, LintGroupConfig, Linter, PatternLinter};
use harper_core::patterns::Pattern;
use harper_core::{remove_overlaps, Dialect, Document, FstDictionary, Span, Token, TokenStringExt};
use hv::common::*;
use hv::gen;
use serde_json::{json, Map, Value};
use std::collections::{BTreeMap, BTreeSet, HashMap};
use std::hash::{Hash, Hasher};
use std::sync::Arc;

type CMap = BTreeMap<String, Option<bool>>;

// ------------------------------------------------------------------------------------------------
// observing and building configurations
// ------------------------------------------------------------------------------------------------
fn hex(s: &[u8]) -> String {
    if s.is_empty() {
        "-".into()
    } else {
        s.iter().map(|b| format!("{b:02x}")).collect()
    }
}
fn cfg_map(c: &LintGroupConfig) -> CMap {
    // the only window onto the private map: #[serde(transparent)]
    match serde_json::to_value(c).unwrap() {
        Value::Object(m) => m.into_iter().map(|(k, v)| (k, v.as_bool())).collect(),
        _ => panic!("LintGroupConfig does not serialise to an object"),
    }
}
fn val(v: Option<bool>) -> &'static str {
    match v {
        Some(true) => "1",
        Some(false) => "0",
        None => "n",
    }
}
fn dump_map(m: &CMap) -> String {
    // BTreeMap<String,_> iterates in byte order, the order of the model
    format!("{{{}}}", m.iter().map(|(k, v)| format!("{}={}", hex(k.as_bytes()), val(*v))).collect::<Vec<_>>().join(","))
}
fn dump(c: &LintGroupConfig) -> String {
    dump_map(&cfg_map(c))
}
fn map_arg(m: &CMap) -> String {
    if m.is_empty() {
        "-".into()
    } else {
        m.iter().map(|(k, v)| format!("{}={}", hex(k.as_bytes()), val(*v))).collect::<Vec<_>>().join(",")
    }
}
/// Build a config without going through serde: None entries via set + clear.
fn mk_cfg(m: &CMap) -> LintGroupConfig {
    let mut c = LintGroupConfig::default();
    for (k, v) in m {
        if v.is_none() {
            c.set_rule_enabled(k, true);
        }
    }
    c.clear();
    for (k, v) in m {
        if let Some(b) = v {
            c.set_rule_enabled(k, *b);
        }
    }
    c
}
fn map_json(m: &CMap) -> Value {
    Value::Object(m.iter().map(|(k, v)| (k.clone(), v.map(Value::Bool).unwrap_or(Value::Null))).collect::<Map<_, _>>())
}
fn json_map(v: &Value) -> CMap {
    v.as_object().map(|o| o.iter().map(|(k, v)| (k.clone(), v.as_bool())).collect()).unwrap_or_default()
}

const UNKNOWN_KEYS: &[&str] = &[
    "", "a", "b", "Zz", "SpellCheck ", "spellcheck", "Spell", "SpellCheckX", "a\u{0}\u{0}b", "\u{1}", "\u{0}", "quote\"d",
    "back\\slash", "tab\tkey", "nl\nkey", "cr\rkey", "\u{8}\u{c}", "\u{7f}", "\u{1f}x", "é", "日本", "😀", "a/b", "\u{2028}",
    "\u{80}", "\u{7ff}\u{800}", "\u{ffff}", "\u{10000}", "{\"a\":true}", "null", " ", "A", "AN", "An", "ana",
];

struct Ctx {
    dict: Arc<FstDictionary>,
    curated: CMap,
    names: Vec<String>,
    keys_in_order: Vec<String>,
}
impl Ctx {
    fn new() -> Self {
        let dict = FstDictionary::curated();
        let g = LintGroup::new_curated(dict.clone(), Dialect::American);
        let curated = cfg_map(&g.config);
        let names: Vec<String> = curated.keys().cloned().collect();
        let keys_in_order = g.iter_keys().map(|s| s.to_string()).collect();
        Ctx { dict, curated, names, keys_in_order }
    }
    fn any_key(&self, r: &mut Rng) -> String {
        match r.below(10) {
            0..=5 => r.pick(&self.names).clone(),
            6..=8 => r.s(UNKNOWN_KEYS).to_string(),
            _ => {
                // a fresh identifier-like or arbitrary short string
                let n = r.range(1, 6);
                (0..n).map(|_| char::from_u32(if r.chance(4, 5) { 0x41 + r.below(58) as u32 } else { r.below(0x250) as u32 }).unwrap_or('x')).collect()
            }
        }
    }
    fn small_key(&self, r: &mut Rng) -> String {
        // a small universe so that operations collide
        match r.below(12) {
            0 => "SpellCheck".into(),
            1 => "AnA".into(),
            2 => "Intact".into(),
            3 => "LinkingVerbs".into(),
            4 => "a".into(),
            5 => "b".into(),
            6 => "a\u{0}\u{0}b".into(),
            7 => "".into(),
            _ => self.any_key(r),
        }
    }
    fn random_map(&self, r: &mut Rng, max: usize) -> CMap {
        let n = r.below(max + 1);
        (0..n).map(|_| (self.small_key(r), *r.pick(&[Some(true), Some(false), None]))).collect()
    }
}

// ------------------------------------------------------------------------------------------------
// C: operation sequences
// ------------------------------------------------------------------------------------------------
#[derive(Clone, Debug)]
enum Op {
    Set(usize, String, bool),
    Unset(usize, String),
    IfUnset(usize, String, bool),
    Clear(usize),
    Merge(usize, usize),
    /// what harper_wasm::Linter::set_lint_config_from_json does with its stored configuration (register i) and the
    /// parsed object (register j): clear(), then merge_from
    WasmSet(usize, usize),
    Fill(usize),
    Curated(usize),
    Default(usize),
    Copy(usize, usize),
    Json(usize),
}
impl Op {
    fn line(&self) -> String {
        let b = |x: &bool| if *x { 1 } else { 0 };
        match self {
            Op::Set(i, k, v) => format!("s {i} {} {}", hex(k.as_bytes()), b(v)),
            Op::Unset(i, k) => format!("u {i} {}", hex(k.as_bytes())),
            Op::IfUnset(i, k, v) => format!("i {i} {} {}", hex(k.as_bytes()), b(v)),
            Op::Clear(i) => format!("c {i}"),
            Op::Merge(i, j) => format!("m {i} {j}"),
            Op::WasmSet(i, j) => format!("w {i} {j}"),
            Op::Fill(i) => format!("f {i}"),
            Op::Curated(i) => format!("k {i}"),
            Op::Default(i) => format!("d {i}"),
            Op::Copy(i, j) => format!("y {i} {j}"),
            Op::Json(i) => format!("j {i}"),
        }
    }
    fn to_json(&self) -> Value {
        match self {
            Op::Set(i, k, v) => json!(["s", i, k, v]),
            Op::Unset(i, k) => json!(["u", i, k]),
            Op::IfUnset(i, k, v) => json!(["i", i, k, v]),
            Op::Clear(i) => json!(["c", i]),
            Op::Merge(i, j) => json!(["m", i, j]),
            Op::WasmSet(i, j) => json!(["w", i, j]),
            Op::Fill(i) => json!(["f", i]),
            Op::Curated(i) => json!(["k", i]),
            Op::Default(i) => json!(["d", i]),
            Op::Copy(i, j) => json!(["y", i, j]),
            Op::Json(i) => json!(["j", i]),
        }
    }
    fn from_json(v: &Value) -> Option<Op> {
        let a = v.as_array()?;
        let u = |i: usize| a.get(i).and_then(|x| x.as_u64()).map(|x| x as usize);
        let s = |i: usize| a.get(i).and_then(|x| x.as_str()).map(|x| x.to_string());
        let b = |i: usize| a.get(i).and_then(|x| x.as_bool());
        Some(match a.first()?.as_str()? {
            "s" => Op::Set(u(1)?, s(2)?, b(3)?),
            "u" => Op::Unset(u(1)?, s(2)?),
            "i" => Op::IfUnset(u(1)?, s(2)?, b(3)?),
            "c" => Op::Clear(u(1)?),
            "m" => Op::Merge(u(1)?, u(2)?),
            "w" => Op::WasmSet(u(1)?, u(2)?),
            "f" => Op::Fill(u(1)?),
            "k" => Op::Curated(u(1)?),
            "d" => Op::Default(u(1)?),
            "y" => Op::Copy(u(1)?, u(2)?),
            "j" => Op::Json(u(1)?),
            _ => return None,
        })
    }
}

fn two_mut<T>(v: &mut [T], i: usize, j: usize) -> (&mut T, &mut T) {
    assert!(i != j);
    if i < j {
        let (a, b) = v.split_at_mut(j);
        (&mut a[i], &mut b[0])
    } else {
        let (a, b) = v.split_at_mut(i);
        (&mut b[0], &mut a[j])
    }
}

/// serde_json round trip + the LSP settings route; returns what from_str gave (None on error).
fn json_routes(rep: &mut Report, c: &LintGroupConfig, inp: &Value) -> Option<LintGroupConfig> {
    let s = match serde_json::to_string(c) {
        Ok(s) => s,
        Err(e) => {
            rep.fail("json_roundtrip", format!("to_string failed: {e}"), inp.clone());
            return None;
        }
    };
    let back: Result<LintGroupConfig, _> = serde_json::from_str(&s);
    match &back {
        Ok(b) if b == c => {}
        Ok(b) => rep.fail("json_roundtrip", format!("from_str(to_string(cfg)) differs: {} became {}", dump(c), dump(b)), inp.clone()),
        Err(e) => rep.fail("json_roundtrip", format!("from_str(to_string(cfg)) failed: {e}; text {s}"), inp.clone()),
    }
    // pretty printer and Value route must agree too
    if let Ok(p) = serde_json::to_string_pretty(c) {
        match serde_json::from_str::<LintGroupConfig>(&p) {
            Ok(b) if &b == c => {}
            _ => rep.fail("json_roundtrip", "pretty-printed text does not read back".into(), inp.clone()),
        }
    }
    lsp_route(rep, &s, back.as_ref().ok(), inp);
    back.ok()
}

#[cfg(feature = "ls")]
fn lsp_route(rep: &mut Report, text: &str, direct: Option<&LintGroupConfig>, inp: &Value) {
    rep.monitor("lsp_route_checked", 1);
    let via = match serde_json::from_str::<Value>(text) {
        Ok(v) => lsx::config::Config::from_lsp_config(json!({"harper-ls": {"linters": v}})).ok().map(|c| c.lint_config),
        Err(_) => None,
    };
    match (direct, &via) {
        (Some(a), Some(b)) if a == b => {}
        (None, None) => {}
        // the Value route drops an earlier duplicate key before its value is type-checked, so it accepts
        // {"b":-0,"b":true}; the typed route rejects it.  More lenient on ill-typed duplicates only: not a
        // difference in any configuration that either route produces from a text both accept.
        (None, Some(_)) => rep.monitor("lsp_route_accepts_text_the_typed_route_rejects(ill-typed duplicate key)", 1),
        _ => rep.fail(
            "json_routes_differ",
            format!("serde_json::from_str gives {:?} but Config::from_lsp_config gives {:?}", direct.map(dump), via.as_ref().map(dump)),
            inp.clone(),
        ),
    }
}
#[cfg(not(feature = "ls"))]
fn lsp_route(_rep: &mut Report, _text: &str, _direct: Option<&LintGroupConfig>, _inp: &Value) {}

fn run_ops(rep: &mut Report, cx: &Ctx, nregs: usize, probes: &[String], ops: &[Op], origin: &str) {
    rep.eval();
    // "SpellCheck" always leads the probe list (a lone empty key would print like an empty list)
    let mut with_lead = vec!["SpellCheck".to_string()];
    with_lead.extend(probes.iter().filter(|k| k.as_str() != "SpellCheck").cloned());
    let probes = &with_lead[..];
    let inp = json!({"kind": "ops", "nregs": nregs, "probes": probes, "ops": ops.iter().map(|o| o.to_json()).collect::<Vec<_>>(), "origin": origin});
    let case_line = format!(
        "C {nregs} {} ; {}",
        if probes.is_empty() { "-".to_string() } else { probes.iter().map(|k| hex(k.as_bytes())).collect::<Vec<_>>().join(",") },
        ops.iter().map(|o| o.line()).collect::<Vec<_>>().join(" ; ")
    );
    let r = guarded(|| {
        let mut fails: Vec<(String, String)> = vec![];
        let mut regs: Vec<LintGroupConfig> = (0..nregs).map(|_| LintGroupConfig::default()).collect();
        let mut json_checks: Vec<LintGroupConfig> = vec![];
        for op in ops {
            match op {
                Op::Set(i, k, v) => {
                    let before = cfg_map(&regs[*i]);
                    regs[*i].set_rule_enabled(k, *v);
                    let after = cfg_map(&regs[*i]);
                    let mut want = before;
                    want.insert(k.clone(), Some(*v));
                    if after != want {
                        fails.push(("set".into(), format!("set_rule_enabled({k:?},{v}) gave {}", dump_map(&after))));
                    }
                }
                Op::Unset(i, k) => {
                    let mut want = cfg_map(&regs[*i]);
                    regs[*i].unset_rule_enabled(k);
                    want.remove(k);
                    if cfg_map(&regs[*i]) != want {
                        fails.push(("unset".into(), format!("unset_rule_enabled({k:?}) gave {}", dump(&regs[*i]))));
                    }
                }
                Op::IfUnset(i, k, v) => {
                    let mut want = cfg_map(&regs[*i]);
                    regs[*i].set_rule_enabled_if_unset(k, *v);
                    want.entry(k.clone()).or_insert(Some(*v));
                    if cfg_map(&regs[*i]) != want {
                        fails.push(("set_if_unset".into(), format!("set_rule_enabled_if_unset({k:?},{v}) gave {}", dump(&regs[*i]))));
                    }
                }
                Op::Clear(i) => {
                    regs[*i].clear();
                    for (k, v) in cfg_map(&regs[*i]) {
                        if v.is_some() || regs[*i].is_rule_enabled(&k) {
                            fails.push(("clear".into(), format!("after clear() {k:?} is still {v:?}")));
                        }
                    }
                }
                Op::Merge(i, j) => {
                    if i != j {
                        let (a0, b0) = (cfg_map(&regs[*i]), cfg_map(&regs[*j]));
                        let (a, b) = two_mut(&mut regs, *i, *j);
                        a.merge_from(b);
                        let (a1, b1) = (cfg_map(&regs[*i]), cfg_map(&regs[*j]));
                        // explicit values of the source win, everything else is kept; the source is cleared
                        let mut want = a0.clone();
                        for (k, v) in &b0 {
                            if v.is_some() {
                                want.insert(k.clone(), *v);
                            }
                        }
                        if a1 != want {
                            fails.push(("merge".into(), format!("merge_from: {} <- {} gave {}", dump_map(&a0), dump_map(&b0), dump_map(&a1))));
                        }
                        // (what is left in the source is pinned by the correspondence only: the property does not speak of it)
                        let _ = b1;
                    }
                }
                Op::WasmSet(i, j) => {
                    if i != j {
                        let (a0, b0) = (cfg_map(&regs[*i]), cfg_map(&regs[*j]));
                        let (a, b) = two_mut(&mut regs, *i, *j);
                        // harper-wasm/src/lib.rs set_lint_config_from_json, statement by statement
                        a.clear();
                        a.merge_from(b);
                        let a1 = cfg_map(&regs[*i]);
                        // every key stays listed; only the explicit values of the new object are set
                        let mut want: CMap = a0.keys().map(|k| (k.clone(), None)).collect();
                        for (k, v) in &b0 {
                            if v.is_some() {
                                want.insert(k.clone(), *v);
                            }
                        }
                        if a1 != want {
                            fails.push(("wasm_set".into(), format!("clear + merge_from: {} <- {} gave {}", dump_map(&a0), dump_map(&b0), dump_map(&a1))));
                        }
                    }
                }
                Op::Fill(i) => {
                    let user = cfg_map(&regs[*i]);
                    regs[*i].fill_with_curated();
                    let filled = &regs[*i];
                    let keys: BTreeSet<&String> = user.keys().chain(cx.curated.keys()).collect();
                    for k in keys {
                        let want = match user.get(k) {
                            Some(Some(b)) => *b,
                            _ => cx.curated.get(k).copied().flatten().unwrap_or(false),
                        };
                        if filled.is_rule_enabled(k) != want {
                            fails.push(("overlay".into(), format!("fill_with_curated: {k:?} user={:?} curated={:?} but enabled={}", user.get(k), cx.curated.get(k), filled.is_rule_enabled(k))));
                        }
                    }
                }
                Op::Curated(i) => regs[*i] = LintGroupConfig::new_curated(),
                Op::Default(i) => regs[*i] = LintGroupConfig::default(),
                Op::Copy(i, j) => regs[*i] = regs[*j].clone(),
                Op::Json(i) => {
                    json_checks.push(regs[*i].clone());
                    // the register continues with what was read back (json_routes reports any difference)
                    regs[*i] = serde_json::to_string(&regs[*i]).ok().and_then(|s| serde_json::from_str(&s).ok()).unwrap_or_default();
                }
            }
            // is_rule_enabled agrees with the map on every key of the touched registers
            for c in &regs {
                for (k, v) in cfg_map(c) {
                    if c.is_rule_enabled(&k) != (v == Some(true)) {
                        fails.push(("is_enabled".into(), format!("is_rule_enabled({k:?}) = {} but the stored value is {v:?}", c.is_rule_enabled(&k))));
                    }
                }
            }
        }
        (regs, json_checks, fails)
    });
    match r {
        Err(m) => {
            rep.case(&case_line, "PANIC");
            rep.fail("panic", format!("configuration operation panicked: {m}"), inp);
        }
        Ok((regs, json_checks, fails)) => {
            for c in &json_checks {
                json_routes(rep, c, &inp);
            }
            for (class, what) in fails.into_iter().take(3) {
                rep.fail(&class, what, inp.clone());
            }
            let dumps = regs.iter().map(dump).collect::<Vec<_>>().join(" ");
            let bits = regs
                .iter()
                .map(|c| format!("b{}", probes.iter().map(|k| if c.is_rule_enabled(k) { '1' } else { '0' }).collect::<String>()))
                .collect::<Vec<_>>()
                .join(" ");
            rep.case(&case_line, format!("{dumps} | {bits}").trim());
            if ops.len() >= 3 {
                rep.nontrivial(&case_line);
            }
            rep.count(&format!("ops_len:{}", bucket(ops.len())));
            for o in ops {
                rep.count(&format!("op:{}", &o.line()[..1]));
            }
        }
    }
}

fn bucket(n: usize) -> &'static str {
    match n {
        0 => "0",
        1 => "1",
        2..=3 => "2-3",
        4..=7 => "4-7",
        8..=15 => "8-15",
        16..=63 => "16-63",
        _ => "64+",
    }
}

/// A client that persists the COMPLETE rule map (every entry explicit), read by a harper whose rule set has moved
/// on: `absent` curated rules are missing from it and `stale` keys name no rule.  Returns (absent, stale, flips):
/// the configuration is  curated - absent + stale, with `flips` overriding some defaults.  |stale| is chosen
/// around |absent| (one fewer / equal / more) so that the entry COUNT is below, at and above the number of rules.
fn full_map_parts(cx: &Ctx, r: &mut Rng) -> (Vec<String>, CMap, CMap) {
    let k = *r.pick(&[0usize, 1, 1, 1, 2, 2, 3, 5]);
    let mut absent: BTreeSet<String> = BTreeSet::new();
    while absent.len() < k {
        // rules worth losing: the ones whose lints are common, else any
        if r.chance(1, 2) {
            absent.insert(r.s(&["SpellCheck", "SentenceCapitalization", "RepeatedWords", "AnA", "Spaces", "LongSentences", "UnclosedQuotes", "CorrectNumberSuffix"]).to_string());
        } else {
            absent.insert(r.pick(&cx.names).clone());
        }
    }
    let m = match r.below(6) {
        0 => k.saturating_sub(1),
        1 | 2 => k,
        3 => k + 1,
        _ => k + r.below(5),
    };
    let mut stale = CMap::new();
    while stale.len() < m {
        let key = match r.below(4) {
            0 => r.s(UNKNOWN_KEYS).to_string(),
            1 => format!("Retired{}", r.below(50)),
            2 => format!("{}Old", r.pick(&cx.names)),
            _ => r.pick(&cx.names).to_lowercase(),
        };
        if !cx.curated.contains_key(&key) {
            stale.insert(key, Some(r.chance(1, 2)));
        }
    }
    let mut flips = CMap::new();
    let dens = *r.pick(&[0usize, 0, 3, 10, 60, 100]);
    for n in &cx.names {
        if !absent.contains(n) && r.below(100) < dens {
            flips.insert(n.clone(), Some(r.chance(1, 3)));
        }
    }
    (absent.into_iter().collect(), stale, flips)
}
fn full_map(cx: &Ctx, absent: &[String], stale: &CMap, flips: &CMap) -> CMap {
    let mut m = cx.curated.clone();
    for (k, v) in flips {
        if m.contains_key(k) {
            m.insert(k.clone(), *v);
        }
    }
    for k in absent {
        m.remove(k);
    }
    for (k, v) in stale {
        if !cx.curated.contains_key(k) {
            m.insert(k.clone(), *v);
        }
    }
    m
}
/// ... as an operation sequence: new_curated(), unset the absent rules, set the stale keys and a few flips, then
/// fill_with_curated (sometimes after a JSON round trip or on a copy; sometimes twice)
fn full_map_ops(cx: &Ctx, r: &mut Rng) -> (usize, Vec<String>, Vec<Op>, String) {
    let nregs = 3;
    let i = r.below(nregs);
    let j = (i + 1 + r.below(nregs - 1)) % nregs;
    let (absent, stale, flips) = full_map_parts(cx, r);
    let mut ops = vec![Op::Curated(i)];
    let mut edits: Vec<Op> = vec![];
    for k in &absent {
        edits.push(Op::Unset(i, k.clone()));
    }
    for (k, v) in &stale {
        edits.push(Op::Set(i, k.clone(), v.unwrap_or(true)));
    }
    for (k, v) in flips.iter().take(6) {
        edits.push(Op::Set(i, k.clone(), v.unwrap_or(false)));
    }
    // any order of the edits gives the same map
    for n in (1..edits.len()).rev() {
        edits.swap(n, r.below(n + 1));
    }
    ops.extend(edits);
    let target = match r.below(5) {
        0 => {
            ops.push(Op::Json(i));
            i
        }
        1 => {
            ops.push(Op::Copy(j, i));
            j
        }
        _ => i,
    };
    ops.push(Op::Fill(target));
    match r.below(5) {
        0 => ops.push(Op::Fill(target)),
        1 => {
            // the filled map is itself a complete map: take a rule away, add a key, fill again
            ops.push(Op::Unset(target, r.pick(&cx.names).clone()));
            ops.push(Op::Set(target, format!("Retired{}", 50 + r.below(50)), true));
            ops.push(Op::Fill(target));
        }
        _ => {}
    }
    let mut probes: BTreeSet<String> = absent.iter().cloned().collect();
    probes.extend(stale.keys().cloned());
    for _ in 0..3 {
        probes.insert(r.pick(&cx.names).clone());
    }
    let label = format!(
        "full_map:absent={},entries {} rule count",
        bucket(absent.len()),
        match stale.len().cmp(&absent.len()) {
            std::cmp::Ordering::Less => "below",
            std::cmp::Ordering::Equal => "equal to",
            std::cmp::Ordering::Greater => "above",
        }
    );
    (nregs, probes.into_iter().collect(), ops, label)
}
fn full_map_search(cx: &Ctx, r: &mut Rng, text: String) -> Search {
    let (absent, stale, mut flips) = full_map_parts(cx, r);
    // single-switch runs dominate the cost: keep most of these configurations sparse in enabled rules
    if r.chance(3, 4) {
        let keep: BTreeSet<String> = (0..r.range(3, 25)).map(|_| r.pick(&cx.names).clone()).collect();
        for n in &cx.names {
            if !keep.contains(n) {
                flips.insert(n.clone(), Some(false));
            }
        }
    }
    let cfg = full_map(cx, &absent, &stale, &flips);
    let toggle = if !absent.is_empty() && r.chance(1, 2) { r.pick(&absent).clone() } else { r.pick(&cx.names).clone() };
    Search { text, parser: if r.chance(1, 4) { "markdown".into() } else { "plain".into() }, cfg, unknown: CMap::new(), toggle, part_seed: r.next() }
}

fn random_ops(cx: &Ctx, r: &mut Rng) -> (usize, Vec<String>, Vec<Op>) {
    let nregs = 3;
    let n = if r.chance(1, 8) { r.below(3) } else { r.range(3, 14) };
    let heavy = r.chance(1, 4); // allow Curated / Fill (290-key maps) only in a quarter of the cases
    let mut keys: BTreeSet<String> = BTreeSet::new();
    let mut ops = vec![];
    for _ in 0..n {
        let i = r.below(nregs);
        let j = (i + 1 + r.below(nregs - 1)) % nregs;
        let k = cx.small_key(r);
        let b = r.chance(1, 2);
        let op = match r.below(if heavy { 20 } else { 17 }) {
            0..=4 if r.chance(1, 12) => Op::WasmSet(i, j),
            0..=4 => Op::Set(i, k.clone(), b),
            5..=6 => Op::Unset(i, k.clone()),
            7..=8 => Op::IfUnset(i, k.clone(), b),
            9 => Op::Clear(i),
            10..=12 => Op::Merge(i, j),
            13 => Op::Copy(i, j),
            14 => Op::Default(i),
            15..=16 => Op::Json(i),
            17..=18 => Op::Fill(i),
            _ => Op::Curated(i),
        };
        keys.insert(k);
        ops.push(op);
    }
    for _ in 0..r.below(4) {
        keys.insert(cx.any_key(r));
    }
    (nregs, keys.into_iter().collect(), ops)
}

// ------------------------------------------------------------------------------------------------
// J / P / H
// ------------------------------------------------------------------------------------------------
fn run_json_text(rep: &mut Report, text: &str, origin: &str) {
    rep.eval();
    let inp = json!({"kind": "json", "text": text, "origin": origin});
    let direct = guarded(|| serde_json::from_str::<LintGroupConfig>(text).ok());
    match direct {
        Err(m) => {
            rep.case(&format!("J {}", hex(text.as_bytes())), "PANIC");
            rep.fail("panic", format!("from_str panicked: {m}"), inp);
        }
        Ok(d) => {
            rep.case(&format!("J {}", hex(text.as_bytes())), &d.as_ref().map(dump).unwrap_or_else(|| "N".into()));
            run_value_text(rep, text, d.as_ref(), &inp);
            lsp_route(rep, text, d.as_ref(), &inp);
            if let Some(c) = &d {
                // what was read survives a further round trip
                json_routes(rep, c, &inp);
                rep.count("json:accepted");
                rep.nontrivial(&text.to_string());
            } else {
                rep.count("json:rejected");
            }
        }
    }
}

fn json_string_literal(r: &mut Rng, s: &str) -> String {
    let mut out = String::from("\"");
    for c in s.chars() {
        let cp = c as u32;
        let mode = r.below(12);
        let must = cp < 0x20 || c == '"' || c == '\\';
        if mode == 0 || (must && mode < 6) {
            // \u escape (surrogate pair for astral), random hex case
            let mut units = [0u16; 2];
            for u in c.encode_utf16(&mut units) {
                let h = if r.chance(1, 2) { format!("{:04x}", u) } else { format!("{:04X}", u) };
                out.push_str("\\u");
                out.push_str(&h);
            }
        } else if must || mode == 1 {
            match c {
                '"' => out.push_str("\\\""),
                '\\' => out.push_str("\\\\"),
                '\u{8}' => out.push_str("\\b"),
                '\u{c}' => out.push_str("\\f"),
                '\n' => out.push_str("\\n"),
                '\r' => out.push_str("\\r"),
                '\t' => out.push_str("\\t"),
                '/' => out.push_str("\\/"),
                _ if must => out.push_str(&format!("\\u{:04x}", cp)),
                _ => out.push(c),
            }
        } else {
            out.push(c);
        }
    }
    out.push('"');
    out
}

fn random_json_text(cx: &Ctx, r: &mut Rng) -> String {
    let ws = |r: &mut Rng| r.s(&["", "", "", " ", "\n", "\t", "\r", "  ", " \n\t"]).to_string();
    let m = cx.random_map(r, 6);
    let mut entries: Vec<(String, Option<bool>)> = m.into_iter().collect();
    if r.chance(1, 3) && !entries.is_empty() {
        // unsorted and duplicate keys: the later value wins
        let e = r.pick(&entries).clone();
        entries.push((e.0, *r.pick(&[Some(true), Some(false), None])));
        let n = entries.len();
        entries.swap(0, r.below(n));
    }
    let fault = if r.chance(2, 5) { r.below(22) } else { 99 };
    let mut out = ws(r);
    out.push('{');
    let n = entries.len();
    for (i, (k, v)) in entries.iter().enumerate() {
        out.push_str(&ws(r));
        let mut lit = json_string_literal(r, k);
        if fault == 0 && i == 0 {
            lit = lit.replace('"', "'");
        }
        if fault == 1 && i == 0 {
            lit.insert(1, '\u{1}'); // raw control character
        }
        if fault == 2 && i == 0 {
            lit.insert_str(1, "\\x41"); // invalid escape
        }
        if fault == 3 && i == 0 {
            lit.insert_str(1, r.s(&["\\ud83d", "\\udc00", "\\ud83dx", "\\ud83d\\n", "\\ud83d\\u0041", "\\uD800\\uD800", "\\u12", "\\u12G4"]));
        }
        out.push_str(&lit);
        out.push_str(&ws(r));
        if !(fault == 4 && i == 0) {
            out.push(':');
        }
        out.push_str(&ws(r));
        let vs = match v {
            Some(true) => "true",
            Some(false) => "false",
            None => "null",
        };
        if fault == 5 && i == 0 {
            out.push_str(r.s(&["1", "0", "\"true\"", "tru", "True", "[]", "{}", "nul", "nulll", "truefalse", "[true]", "1.0", "-0", "\"\""]));
        } else {
            out.push_str(vs);
        }
        out.push_str(&ws(r));
        if i + 1 < n {
            out.push(',');
        } else if fault == 6 {
            out.push(',');
        }
    }
    if fault == 7 && n == 0 {
        out.push(',');
    }
    out.push_str(&ws(r));
    if fault != 8 {
        out.push('}');
    }
    out.push_str(&ws(r));
    match fault {
        9 => out.push_str(r.s(&["x", "{}", ",", "null", "\u{a0}", "\u{c}", "}"])),
        10 => out.insert_str(0, r.s(&["x", "\u{feff}", "\u{a0}", "\u{c}", "/* c */", "// c\n"])),
        11 => out = r.s(&["", " ", "null", "[]", "true", "\"a\"", "{", "}", "{{}}", "[{}]", "{\"a\":{\"b\":true}}", "{\"a\":[true]}", "{\"a\"}", "{,}", "{\"a\":true \"b\":false}", "{\"a\":true,,\"b\":false}", "{a:true}", "{\"a\":true}}"]).to_string(),
        12 => {
            let cut = r.below(out.len() + 1);
            let mut c = cut;
            while !out.is_char_boundary(c) {
                c -= 1;
            }
            out.truncate(c);
        }
        _ => {}
    }
    out
}

// ------------------------------------------------------------------------------------------------
// W / V: the serde_json::Value route (from_str::<Value> + from_value) and Config::from_lsp_config on settings texts
// ------------------------------------------------------------------------------------------------
/// W: the text of a `linters` value alone through from_str::<Value> then from_value::<LintGroupConfig>
/// (model: C11JsonValue.parse_json + from_value).  N = not JSON, B = JSON of the wrong shape.
/// Oracle (C11_value_route_of_typed): whatever the typed parser accepts, this route accepts with the same result.
fn run_value_text(rep: &mut Report, text: &str, typed: Option<&LintGroupConfig>, inp: &Value) {
    let out = guarded(|| match serde_json::from_str::<Value>(text) {
        Err(_) => (String::from("N"), None),
        Ok(v) => match serde_json::from_value::<LintGroupConfig>(v) {
            Err(_) => ("B".into(), None),
            Ok(c) => (dump(&c), Some(c)),
        },
    });
    match out {
        Err(m) => {
            rep.case(&format!("W {}", hex(text.as_bytes())), "PANIC");
            rep.fail("panic", format!("Value route panicked: {m}"), inp.clone());
        }
        Ok((line, got)) => {
            rep.case(&format!("W {}", hex(text.as_bytes())), &line);
            rep.count(match line.as_str() {
                "N" => "value_route:not_json",
                "B" => "value_route:wrong_shape",
                _ => "value_route:accepted",
            });
            if let Some(t) = typed {
                if got.as_ref() != Some(t) {
                    rep.fail("value_route_differs", format!("from_str::<LintGroupConfig> gives {} but from_str::<Value> + from_value gives {line}", dump(t)), inp.clone());
                }
            }
        }
    }
}

/// the keys Config::from_lsp_config reads besides "linters" (the model's list is generated from config.rs:
/// Tables_c11routes.lsp_other_keys — a key added there and not here shows up as a disagreement)
const LSP_OTHER_KEYS: &[&str] = &["userDictPath", "fileDictPath", "statsPath", "diagnosticSeverity", "dialect", "codeActions", "isolateEnglish", "markdown"];

/// V: a complete settings text -> from_str::<Value> -> Config::from_lsp_config(..).lint_config
/// N = not JSON, O = the "harper-ls" object carries another key from_lsp_config reads (outside the model),
/// B = from_lsp_config bails.  `expect` = the configuration the text was printed from (round-trip oracle).
#[cfg(feature = "ls")]
fn run_settings_text(rep: &mut Report, text: &str, expect: Option<&CMap>, origin: &str) {
    rep.eval();
    let inp = json!({"kind": "settings", "text": text, "expect": expect.map(map_json), "origin": origin});
    let out = guarded(|| match serde_json::from_str::<Value>(text) {
        Err(_) => (String::from("N"), None),
        Ok(v) => {
            let other = v.as_object().and_then(|o| o.get("harper-ls")).and_then(|h| h.as_object()).map(|h| LSP_OTHER_KEYS.iter().any(|k| h.contains_key(*k))).unwrap_or(false);
            if other {
                ("O".into(), None)
            } else {
                match lsx::config::Config::from_lsp_config(v) {
                    Err(_) => ("B".into(), None),
                    Ok(c) => (dump(&c.lint_config), Some(c.lint_config)),
                }
            }
        }
    });
    match out {
        Err(m) => {
            rep.case(&format!("V {}", hex(text.as_bytes())), "PANIC");
            rep.fail("panic", format!("from_lsp_config panicked: {m} at {}", hv::common::last_panic_location()), inp);
        }
        Ok((line, got)) => {
            rep.case(&format!("V {}", hex(text.as_bytes())), &line);
            rep.count(match line.as_str() {
                "N" => "settings:not_json",
                "O" => "settings:other_key",
                "B" => "settings:bail",
                "{}" => "settings:empty_config",
                _ => "settings:config",
            });
            if let Some(m) = expect {
                rep.monitor("lsp_settings_roundtrip_checked", 1);
                if got.as_ref().map(cfg_map).as_ref() != Some(m) {
                    rep.fail("lsp_roundtrip", format!("settings printed from {} configure {line}", dump_map(m)), inp);
                } else {
                    rep.nontrivial(&text.to_string());
                }
            }
        }
    }
}
#[cfg(not(feature = "ls"))]
fn run_settings_text(_rep: &mut Report, _text: &str, _expect: Option<&CMap>, _origin: &str) {}

const NUMBER_POOL: &[&str] = &[
    "0", "-0", "1", "-1", "12", "1.5", "-2.5e3", "1E5", "1e-5", "0.0", "0e0", "1e308", "1e309", "-1e309", "1.7976931348623157e308",
    "1.7976931348623158e308", "1.7976931348623159e308", "1.8e308", "17976931348623157e292", "179769313486231580793728971405303415079934132710037826936173778980444968292764750946649017977587207096330286416692887910946555547851940402630657488671505820681908902000708383676273854845817711531764475730270069855571366959622842914819860834936475292719074168444365510704342711559699508093042880177904174497791",
    "179769313486231580793728971405303415079934132710037826936173778980444968292764750946649017977587207096330286416692887910946555547851940402630657488671505820681908902000708383676273854845817711531764475730270069855571366959622842914819860834936475292719074168444365510704342711559699508093042880177904174497792",
    "123456789012345678901234567890", "18446744073709551615", "18446744073709551616", "-9223372036854775808", "-9223372036854775809", "0e999999999999", "0.000e+99999999999", "1e999999999999", "1e-999999999999", "0.1e2147483648", "5e-324", "1e-400",
    "00", "01", "-", "-a", "1.", "1.e3", ".5", "1e", "1e+", "1e-", "+1", "0x10", "1_0", "NaN", "Infinity", "-Infinity", "2e", "1.0.0", "1ee5", "-00", "-01", "1.5.", "0.", "1e5.5", "١",
];

/// a JSON value text (mostly valid), nesting up to `depth`
fn gen_value_text(cx: &Ctx, r: &mut Rng, depth: usize) -> String {
    let ws = |r: &mut Rng| r.s(&["", "", "", " ", "\n", "\t", "\r", " \n"]).to_string();
    let leafy = depth == 0 || r.chance(2, 3);
    let body = if leafy {
        match r.below(10) {
            0..=2 => r.s(&["true", "false", "null"]).to_string(),
            3..=5 => {
                // mostly grammatical literals (the range edge included), now and then a malformed one
                let valid = NUMBER_POOL.iter().position(|x| *x == "00").unwrap();
                if r.chance(5, 6) { NUMBER_POOL[r.below(valid)].to_string() } else { NUMBER_POOL[valid + r.below(NUMBER_POOL.len() - valid)].to_string() }
            }
            6..=7 => {
                let k = cx.small_key(r);
                json_string_literal(r, &k)
            }
            8 if r.chance(1, 3) => r.s(&["tru", "nul", "falsee", "True", "NULL", "\"abc", "\"\\x\"", "\"\\ud800\"", "'a'", "", "undefined", "[", "{", "]", "}", ","]).to_string(),
            _ => r.s(&["[]", "{}", "[ ]", "{ }", "\"\""]).to_string(),
        }
    } else if r.chance(1, 2) {
        let n = r.below(4);
        let mut out = String::from("[");
        for i in 0..n {
            out.push_str(&gen_value_text(cx, r, depth - 1));
            if i + 1 < n || r.chance(1, 25) {
                out.push(',');
            }
        }
        if r.chance(1, 30) { out.push(','); }
        if !r.chance(1, 30) { out.push(']'); }
        out
    } else {
        let n = r.below(4);
        let mut out = String::from("{");
        for i in 0..n {
            out.push_str(&ws(r));
            let k = if r.chance(1, 4) { "a".to_string() } else { cx.small_key(r) };
            out.push_str(&json_string_literal(r, &k));
            out.push_str(&ws(r));
            if !r.chance(1, 40) { out.push(':'); }
            out.push_str(&gen_value_text(cx, r, depth - 1));
            if i + 1 < n || r.chance(1, 25) {
                out.push(',');
            }
        }
        if !r.chance(1, 30) { out.push('}'); }
        out
    };
    format!("{}{}{}", ws(r), body, ws(r))
}

/// the text of a `linters` value: a printed configuration | a configuration text with faults | an object mixing
/// booleans with other values | any value
fn gen_linters_text(cx: &Ctx, r: &mut Rng) -> (String, Option<CMap>) {
    match r.below(10) {
        0..=3 => {
            let m = if r.chance(1, 12) { let (a, st, f) = full_map_parts(cx, r); full_map(cx, &a, &st, &f) } else { cx.random_map(r, 6) };
            let t = if r.chance(1, 2) { serde_json::to_string(&mk_cfg(&m)).unwrap() } else { serde_json::to_string_pretty(&map_json(&m)).unwrap() };
            (t, Some(m))
        }
        4..=6 => (random_json_text(cx, r), None),
        7..=8 => {
            // an object whose values are mostly booleans, with a few other values and duplicate keys
            let n = r.range(1, 5);
            let mut out = String::from("{");
            for i in 0..n {
                let k = if r.chance(1, 3) { "b".to_string() } else { cx.small_key(r) };
                out.push_str(&json_string_literal(r, &k));
                out.push(':');
                if r.chance(1, 3) {
                    out.push_str(gen_value_text(cx, r, 2).trim());
                } else {
                    out.push_str(r.s(&["true", "false", "null"]));
                }
                if i + 1 < n {
                    out.push(',');
                }
            }
            out.push('}');
            (out, None)
        }
        _ => (gen_value_text(cx, r, 3), None),
    }
}

fn gen_settings_text(cx: &Ctx, r: &mut Rng) -> (String, Option<CMap>) {
    let ws = |r: &mut Rng| r.s(&["", "", "", " ", "\n", "\t", " \r\n"]).to_string();
    let shape = r.below(40);
    if shape == 0 {
        return (gen_value_text(cx, r, 2), None); // settings that are any value
    }
    if shape == 1 {
        return (format!("{{\"harper-ls\":{}}}", gen_value_text(cx, r, 1)), None); // "harper-ls" is any value
    }
    if shape == 2 {
        // nesting depth around serde_json's recursion limit (128) inside a key nobody reads
        let n = r.range(123, 130);
        let open = if r.chance(1, 2) { "[" } else { "{\"a\":" };
        let close = if open == "[" { "]" } else { "}" };
        let inner = r.s(&["", "true", "1", "{}", "[]"]);
        let inner = if open != "[" && inner.is_empty() { "null" } else { inner };
        let deep = format!("{}{}{}", open.repeat(n), inner, close.repeat(n));
        let (lt, m) = gen_linters_text(cx, r);
        return if r.chance(1, 2) {
            (format!("{{\"harper-ls\":{{\"linters\":{lt},\"zz\":{deep}}}}}"), m)
        } else {
            (format!("{{\"harper-ls\":{{\"aa\":{deep},\"linters\":{lt}}}}}"), m)
        };
    }
    let (lt, first_expect) = gen_linters_text(cx, r);
    // members of the "harper-ls" object (text, Some(expectation) when it is a "linters" member), in a random order
    let mut members: Vec<(String, Option<Option<CMap>>)> = vec![];
    if shape != 3 {
        members.push((format!("\"linters\"{}:{}{}", ws(r), ws(r), lt), Some(first_expect)));
    }
    for _ in 0..r.below(3) {
        let k = r.s(&["Linters", "linter", "linters ", "x", "", "harper-ls", "SpellCheck", "dialect2", "lint\u{0}ers"]).to_string();
        members.push((format!("{}:{}", json_string_literal(r, &k), gen_value_text(cx, r, 2)), None));
    }
    if r.chance(1, 12) {
        // a second "linters" member: the later one wins (serde_json::Map::insert)
        let (lt2, m2) = gen_linters_text(cx, r);
        members.push((format!("\"linters\":{lt2}"), Some(m2)));
    }
    let mut other_key = false;
    if r.chance(1, 15) {
        let k = *r.pick(LSP_OTHER_KEYS);
        members.push((format!("\"{k}\":{}", r.s(&["true", "\"British\"", "{}", "\"hint\"", "null", "1"])), None));
        other_key = true; // outside the model (answer O)
    }
    for n in (1..members.len()).rev() {
        members.swap(n, r.below(n + 1));
    }
    // no "linters" member: the default (empty) configuration; several: the last one
    let mut expect: Option<CMap> = if other_key { None } else { members.iter().rev().find_map(|m| m.1.clone()).unwrap_or(Some(CMap::new())) };
    let members: Vec<String> = members.into_iter().map(|m| m.0).collect();
    let inner = format!("{{{}{}{}}}", ws(r), members.join(&format!("{},{}", ws(r), ws(r))), ws(r));
    let mut tops: Vec<String> = vec![format!("\"harper-ls\"{}:{}{}", ws(r), ws(r), inner)];
    if shape == 4 {
        tops.clear();
        expect = None;
    }
    for _ in 0..r.below(2) {
        let k = r.s(&["harper", "harper-ls2", "", "editor", "linters"]).to_string();
        tops.push(format!("{}:{}", json_string_literal(r, &k), gen_value_text(cx, r, 1)));
    }
    if shape == 5 {
        // "harper-ls" twice: the later member wins
        tops.push(format!("\"harper-ls\":{}", r.s(&["{}", "null", "{\"linters\":{\"a\":true}}"])));
        expect = None;
    }
    if shape != 5 {
        for n in (1..tops.len()).rev() {
            tops.swap(n, r.below(n + 1));
        }
    }
    let mut out = format!("{}{{{}}}{}", ws(r), tops.join(","), ws(r));
    if shape == 6 {
        out.push_str(r.s(&["x", "}", ",", "null", "{}"]));
        expect = None;
    }
    // an expectation only holds if every generated sibling was valid JSON; the oracle below re-derives that
    (out, expect)
}


fn run_print(rep: &mut Report, m: &CMap) {
    rep.eval();
    let c = mk_cfg(m);
    let s = serde_json::to_string(&c).unwrap_or_default();
    rep.case(&format!("P {}", map_arg(&cfg_map(&c))), &hex(s.as_bytes()));
    rep.count("print");
}

struct RecHasher(Vec<Vec<u8>>);
impl Hasher for RecHasher {
    fn write(&mut self, bytes: &[u8]) {
        self.0.push(bytes.to_vec());
    }
    fn finish(&self) -> u64 {
        0
    }
}
fn hash_calls(c: &LintGroupConfig) -> Vec<Vec<u8>> {
    let mut h = RecHasher(vec![]);
    c.hash(&mut h);
    h.0
}
fn run_hash(rep: &mut Report, m: &CMap) {
    rep.eval();
    let c = mk_cfg(m);
    let calls = hash_calls(&c);
    rep.case(&format!("H {}", map_arg(&cfg_map(&c))), &calls.iter().map(|x| hex(x)).collect::<Vec<_>>().join("."));
    rep.count("hash");
}

// ------------------------------------------------------------------------------------------------
// L: the dispatch on groups of test rules
// ------------------------------------------------------------------------------------------------
#[derive(Clone)]
struct TS {
    word: Vec<char>,
    tag: String,
}
impl Linter for TS {
    fn lint(&mut self, document: &Document) -> Vec<Lint> {
        document
            .get_tokens()
            .iter()
            .filter(|t| t.kind.is_word() && document.get_span_content(&t.span) == &self.word[..])
            .map(|t| Lint { span: t.span, message: self.tag.clone(), ..Default::default() })
            .collect()
    }
    fn description(&self) -> &str {
        "test struct rule"
    }
}
#[derive(Clone)]
struct WordPat(Vec<char>);
impl Pattern for WordPat {
    fn matches(&self, tokens: &[Token], source: &[char]) -> usize {
        match tokens.first() {
            Some(t) if t.kind.is_word() && t.span.end <= source.len() && source[t.span.start..t.span.end] == self.0[..] => 1,
            _ => 0,
        }
    }
}
#[derive(Clone)]
struct TP {
    pat: WordPat,
    tag: String,
    /// report the span (0,1) instead of the token's: before the chunk start for every chunk but the first
    bad: bool,
}
impl PatternLinter for TP {
    fn pattern(&self) -> &dyn Pattern {
        &self.pat
    }
    fn match_to_lint(&self, toks: &[Token], _source: &[char]) -> Option<Lint> {
        let span = if self.bad { Span::new(0, 1) } else { toks[0].span };
        Some(Lint { span, message: self.tag.clone(), ..Default::default() })
    }
    fn description(&self) -> &str {
        "test pattern rule"
    }
}
/// what run_on_chunk gives for a one-token pattern
fn tp_on_chunk(p: &TP, chunk: &[Token], source: &[char]) -> Vec<Lint> {
    (0..chunk.len()).filter(|i| p.pat.matches(&chunk[*i..], source) == 1).filter_map(|i| p.match_to_lint(&chunk[i..i + 1], source)).collect()
}

const L_WORDS: &[&str] = &["alpha", "beta", "gamma", "delta", "eps"];
const L_NAMES: &[&str] = &["A", "B", "C", "Intact", "a\u{0}\u{0}b", "b", "", "Zed"];

fn lints_arg(ls: &[Lint], id: usize) -> String {
    if ls.is_empty() {
        "-".into()
    } else {
        ls.iter().map(|l| format!("{}-{}-{}", l.span.start, l.span.end, id)).collect::<Vec<_>>().join(",")
    }
}

fn run_dispatch(rep: &mut Report, seed: u64, origin: &str) {
    rep.eval();
    let mut r = Rng(seed);
    let inp = json!({"kind": "dispatch", "seed": seed, "origin": origin});
    // document: words, commas/periods make chunks; never a leading space, always a space after a terminator
    let nw = if r.chance(1, 10) { 0 } else { r.range(1, 14) };
    let mut text = String::new();
    for i in 0..nw {
        text.push_str(r.s(L_WORDS));
        if i + 1 < nw {
            text.push_str(r.s(&[" ", " ", " ", ", ", ". ", "; ", "  "]));
        } else {
            text.push_str(r.s(&["", ".", ",", " "]));
        }
    }
    let dict = harper_core::MutableDictionary::new();
    let doc = Document::new_plain_english(&text, &dict);
    let source: Vec<char> = text.chars().collect();
    let chunks: Vec<(Vec<Token>, Option<usize>)> = doc.iter_chunks().map(|c| (c.to_vec(), c.span().map(|s| s.start))).collect();
    let ngroups = 3;
    let mut groups: Vec<LintGroup> = (0..ngroups).map(|_| LintGroup::empty()).collect();
    let mut gops: Vec<String> = vec![];
    let mut next_id = 0usize;
    let mut tag_id: HashMap<String, usize> = HashMap::new();
    let nops = r.range(1, 12);
    let allow_bad = r.chance(1, 4);
    for _ in 0..nops {
        let i = if r.chance(1, 2) { 0 } else { r.below(ngroups) };
        let j = (i + 1 + r.below(ngroups - 1)) % ngroups;
        let name = r.s(L_NAMES).to_string();
        match r.below(12) {
            0..=2 => {
                let mut rule = TS { word: r.s(L_WORDS).chars().collect(), tag: format!("t{next_id}") };
                tag_id.insert(rule.tag.clone(), next_id);
                let out = rule.lint(&doc);
                gops.push(format!("a {i} {} {}", hex(name.as_bytes()), lints_arg(&out, next_id)));
                groups[i].add(&name, Box::new(rule));
                next_id += 1;
            }
            3..=5 => {
                let rule = TP { pat: WordPat(r.s(L_WORDS).chars().collect()), tag: format!("t{next_id}"), bad: allow_bad && r.chance(1, 3) };
                tag_id.insert(rule.tag.clone(), next_id);
                let per: Vec<String> = chunks.iter().map(|(c, _)| lints_arg(&tp_on_chunk(&rule, c, &source), next_id)).collect();
                gops.push(format!("p {i} {} {}", hex(name.as_bytes()), if per.is_empty() { "-".to_string() } else { per.join("/") }));
                groups[i].add_pattern_linter(&name, Box::new(rule));
                next_id += 1;
            }
            6..=7 => {
                gops.push(format!("m {i} {j}"));
                let (a, b) = two_mut(&mut groups, i, j);
                a.merge_from(b);
            }
            8 => {
                let v = *r.pick(&[Some(true), Some(true), Some(false), None]);
                gops.push(format!("A {i} {}", val(v)));
                groups[i].set_all_rules_to(v);
            }
            9..=10 => {
                let b = r.chance(3, 4);
                gops.push(format!("g {i} s {} {}", hex(name.as_bytes()), if b { 1 } else { 0 }));
                groups[i].config.set_rule_enabled(&name, b);
            }
            _ => match r.below(3) {
                0 => {
                    gops.push(format!("g {i} u {}", hex(name.as_bytes())));
                    groups[i].config.unset_rule_enabled(&name);
                }
                1 => {
                    gops.push(format!("g {i} i {} 1", hex(name.as_bytes())));
                    groups[i].config.set_rule_enabled_if_unset(&name, true);
                }
                _ => {
                    gops.push(format!("g {i} c"));
                    groups[i].config.clear();
                }
            },
        }
    }
    if r.chance(2, 3) {
        gops.push("A 0 1".into());
        groups[0].set_all_rules_to(Some(true));
    }
    let chunk_arg = if chunks.is_empty() {
        "-".to_string()
    } else {
        chunks.iter().enumerate().map(|(i, (_, st))| format!("{i}:{}", st.map(|s| s.to_string()).unwrap_or_else(|| "n".into()))).collect::<Vec<_>>().join(",")
    };
    let case_line = format!("L {ngroups} ; {} # {chunk_arg}", gops.join(" ; "));
    let g = &mut groups[0];
    let cfg = dump(&g.config);
    let keys: Vec<String> = g.iter_keys().map(|k| hex(k.as_bytes())).collect();
    let res = guarded(|| g.lint(&doc));
    let out = match &res {
        Ok(ls) => ls.iter().map(|l| format!("{}-{}-{}", l.span.start, l.span.end, tag_id.get(&l.message).copied().unwrap_or(9999))).collect::<Vec<_>>().join(","),
        Err(_) => "P".into(),
    };
    rep.case(&case_line, format!("{cfg} | {} | {out}", keys.join(",")).trim());
    rep.count(match &res {
        Ok(l) if l.is_empty() => "dispatch:no_lints",
        Ok(_) => "dispatch:lints",
        Err(_) => "dispatch:panic(pattern lint before its chunk)",
    });
    if let Ok(ls) = &res {
        if !ls.is_empty() {
            rep.nontrivial(&case_line);
        }
        // property oracle on the implementation: every lint belongs to a rule that is registered under an enabled name
        let _ = inp;
    }
}

// ------------------------------------------------------------------------------------------------
// K: histories on ONE long-lived group of test rules — the chunk cache warm (C11_toggle_warm_cache)
// ------------------------------------------------------------------------------------------------
#[derive(Clone)]
struct CountPat {
    word: Vec<char>,
    calls: Arc<std::sync::atomic::AtomicUsize>,
}
impl Pattern for CountPat {
    fn matches(&self, tokens: &[Token], source: &[char]) -> usize {
        self.calls.fetch_add(1, std::sync::atomic::Ordering::SeqCst);
        match tokens.first() {
            Some(t) if t.kind.is_word() && t.span.end <= source.len() && source[t.span.start..t.span.end] == self.word[..] => 1,
            _ => 0,
        }
    }
}
#[derive(Clone)]
struct TPH {
    pat: CountPat,
    tag: String,
    bad: bool,
}
impl PatternLinter for TPH {
    fn pattern(&self) -> &dyn Pattern {
        &self.pat
    }
    fn match_to_lint(&self, toks: &[Token], _source: &[char]) -> Option<Lint> {
        let span = if self.bad { Span::new(0, 1) } else { toks[0].span };
        Some(Lint { span, message: self.tag.clone(), ..Default::default() })
    }
    fn description(&self) -> &str {
        "test pattern rule (counts its pattern evaluations)"
    }
}
#[derive(Clone)]
enum HRule {
    S(String, TS),
    P(String, TPH),
}
fn h_build(rules: &[HRule]) -> LintGroup {
    let mut g = LintGroup::empty();
    for r in rules {
        match r {
            HRule::S(n, t) => {
                g.add(n, Box::new(t.clone()));
            }
            HRule::P(n, t) => {
                g.add_pattern_linter(n, Box::new(t.clone()));
            }
        }
    }
    g
}

fn run_history(rep: &mut Report, seed: u64, origin: &str) {
    use std::sync::atomic::Ordering;
    rep.eval();
    let mut r = Rng(seed);
    let inp = json!({"kind": "history", "seed": seed, "origin": origin});
    // documents over a tiny vocabulary, so that the same chunk (characters + tokens) turns up in several documents and at
    // several offsets of one document
    let ndocs = r.range(2, 4);
    let clauses: Vec<String> = (0..r.range(2, 4)).map(|_| (0..r.range(1, 3)).map(|_| r.s(L_WORDS).to_string()).collect::<Vec<_>>().join(" ")).collect();
    let dict = harper_core::MutableDictionary::new();
    let mut texts = vec![];
    for _ in 0..ndocs {
        let n = if r.chance(1, 12) { 0 } else { r.range(1, 5) };
        let mut t = String::new();
        for i in 0..n {
            t.push_str(r.pick(&clauses[..]).as_str());
            t.push_str(if i + 1 < n { r.s(&[", ", ". ", "; ", ", "]) } else { r.s(&["", ".", ","]) });
        }
        texts.push(t);
    }
    let docs: Vec<Document> = texts.iter().map(|t| Document::new_plain_english(t, &dict)).collect();
    let sources: Vec<Vec<char>> = texts.iter().map(|t| t.chars().collect()).collect();
    // chunk key ids: (characters, tokens relative to the chunk start) — what the cache key holds besides the config hash
    let mut key_ids: HashMap<String, usize> = HashMap::new();
    let mut doc_chunks: Vec<Vec<(Vec<Token>, Option<usize>, usize)>> = vec![];
    for (di, d) in docs.iter().enumerate() {
        let mut v = vec![];
        for c in d.iter_chunks() {
            let st = c.span().map(|s| s.start);
            let chars: String = c.span().map(|s| sources[di][s.start..s.end].iter().collect()).unwrap_or_default();
            let toks: Vec<String> = c.iter().map(|t| format!("{:?}@{}-{}", t.kind, t.span.start - st.unwrap_or(0), t.span.end - st.unwrap_or(0))).collect();
            let n = key_ids.len();
            let id = *key_ids.entry(format!("{chars}\u{1}{}", toks.join("\u{2}"))).or_insert(n);
            v.push((c.to_vec(), st, id));
        }
        doc_chunks.push(v);
    }
    let calls = Arc::new(std::sync::atomic::AtomicUsize::new(0));
    let mut rules: Vec<HRule> = vec![];
    let mut adds: Vec<String> = vec![];
    let mut tag_id: HashMap<String, usize> = HashMap::new();
    let mut tag_name: HashMap<String, String> = HashMap::new();
    let allow_bad = r.chance(1, 6);
    let nrules = r.range(2, 6);
    let names: Vec<String> = (0..nrules).map(|_| r.s(L_NAMES).to_string()).collect();
    for (id, name) in names.iter().enumerate() {
        let tag = format!("t{id}");
        tag_id.insert(tag.clone(), id);
        tag_name.insert(tag.clone(), name.clone());
        if r.chance(1, 3) {
            let mut rule = TS { word: r.s(L_WORDS).chars().collect(), tag };
            let per: Vec<String> = docs.iter().map(|d| lints_arg(&rule.lint(d), id)).collect();
            adds.push(format!("a {} {}", hex(name.as_bytes()), per.join("|")));
            rules.push(HRule::S(name.clone(), rule));
        } else {
            let rule = TPH { pat: CountPat { word: r.s(L_WORDS).chars().collect(), calls: calls.clone() }, tag, bad: allow_bad && r.chance(1, 3) };
            let per: Vec<String> = doc_chunks
                .iter()
                .enumerate()
                .map(|(di, chs)| {
                    if chs.is_empty() {
                        "-".to_string()
                    } else {
                        chs.iter()
                            .map(|(c, _, _)| {
                                let ls: Vec<Lint> = (0..c.len()).filter(|i| rule.pat.matches(&c[*i..], &sources[di]) == 1).filter_map(|i| rule.match_to_lint(&c[i..i + 1], &sources[di])).collect();
                                lints_arg(&ls, id)
                            })
                            .collect::<Vec<_>>()
                            .join("/")
                    }
                })
                .collect();
            adds.push(format!("p {} {}", hex(name.as_bytes()), per.join("|")));
            rules.push(HRule::P(name.clone(), rule));
        }
    }
    let mut g = h_build(&rules);
    let registered: BTreeSet<String> = g.iter_keys().map(|k| k.to_string()).collect();
    // which tag is registered under which name (an add refused by add()/add_pattern_linter() registers nothing)
    let mut seen: BTreeSet<String> = BTreeSet::new();
    let mut live_tag: HashMap<String, String> = HashMap::new();
    for (id, name) in names.iter().enumerate() {
        if seen.insert(name.clone()) {
            live_tag.insert(format!("t{id}"), name.clone());
        }
    }
    let docs_arg = doc_chunks
        .iter()
        .map(|chs| if chs.is_empty() { "-".to_string() } else { chs.iter().map(|(c, st, id)| format!("{}:{id}:{}", st.map(|s| s.to_string()).unwrap_or_else(|| "n".into()), c.len())).collect::<Vec<_>>().join(",") })
        .collect::<Vec<_>>()
        .join("|");
    let mut steps: Vec<String> = vec![];
    let mut outs: Vec<String> = vec![];
    // (doc, enabled registered names, lints) of every lint step that did not panic: for the toggle oracle
    let mut seen_steps: Vec<(usize, BTreeSet<String>, Vec<Lint>)> = vec![];
    let nsteps = r.range(6, 24);
    let mut lint_steps = 0;
    let mut hits_seen = false;
    for si in 0..nsteps {
        if si < names.len() && r.chance(4, 5) {
            // switch the rules on first
            let name = &names[si];
            steps.push(format!("g s {} 1", hex(name.as_bytes())));
            g.config.set_rule_enabled(name, true);
            continue;
        }
        if r.chance(2, 5) {
            let name = r.pick(&names).clone();
            match r.below(8) {
                0..=4 => {
                    let b = r.chance(1, 2);
                    steps.push(format!("g s {} {}", hex(name.as_bytes()), if b { 1 } else { 0 }));
                    g.config.set_rule_enabled(&name, b);
                }
                5 => {
                    steps.push(format!("g u {}", hex(name.as_bytes())));
                    g.config.unset_rule_enabled(&name);
                }
                6 => {
                    steps.push(format!("g i {} 1", hex(name.as_bytes())));
                    g.config.set_rule_enabled_if_unset(&name, true);
                }
                _ => {
                    let k = r.s(&["Zed", "zzz", ""]).to_string();
                    steps.push(format!("g s {} 1", hex(k.as_bytes())));
                    g.config.set_rule_enabled(&k, true);
                }
            }
            continue;
        }
        let di = r.below(ndocs);
        steps.push(format!("l {di}"));
        lint_steps += 1;
        calls.store(0, Ordering::SeqCst);
        let res = guarded(|| g.lint(&docs[di]));
        let n_calls = calls.load(Ordering::SeqCst);
        match &res {
            Ok(ls) => {
                let total: usize = doc_chunks[di].iter().filter(|c| c.1.is_some()).map(|c| c.0.len()).sum();
                let enabled_p = rules.iter().filter(|x| matches!(x, HRule::P(n, t) if live_tag.get(&t.tag) == Some(n) && g.config.is_rule_enabled(n))).count();
                if n_calls < total * enabled_p {
                    hits_seen = true;
                }
                outs.push(format!("{}|{n_calls}", ls.iter().map(|l| format!("{}-{}-{}", l.span.start, l.span.end, tag_id.get(&l.message).copied().unwrap_or(9999))).collect::<Vec<_>>().join(",")));
                // oracle 1 (C05 side of the joint statement): a freshly built group with this configuration answers the same
                let mut fresh = h_build(&rules);
                fresh.config = g.config.clone();
                let fr = guarded(|| fresh.lint(&docs[di]));
                let same = match &fr {
                    Ok(f) => multiset(f) == multiset(ls) && f.iter().map(lint_key).collect::<Vec<_>>() == ls.iter().map(lint_key).collect::<Vec<_>>(),
                    Err(_) => allow_bad, // a rule that reports before its chunk: the cached relative lints need not panic
                };
                if !same {
                    rep.fail("cache_warm", format!("step {si}: the long-lived group (warm cache) and a fresh one differ on document {di}"), inp.clone());
                }
                // oracle 2 (the toggle law over the history): an earlier call of this document whose configuration differs in
                // at most one registered switch r gave the same lints, r's own removed, in the same order
                let en: BTreeSet<String> = registered.iter().filter(|k| g.config.is_rule_enabled(k)).cloned().collect();
                if !allow_bad {
                    for (dj, enj, lj) in &seen_steps {
                        if *dj != di {
                            continue;
                        }
                        let diff: Vec<&String> = en.symmetric_difference(enj).collect();
                        if diff.len() > 1 {
                            continue;
                        }
                        let others = |v: &Vec<Lint>| -> Vec<String> { v.iter().filter(|l| diff.first().map(|r| tag_name.get(&l.message) != Some(*r)).unwrap_or(true)).map(lint_key).collect() };
                        rep.count("history:toggle_pairs");
                        if others(ls) != others(lj) {
                            rep.fail("toggle_warm", format!("step {si}: toggling {:?} changed another rule's lints on document {di} (warm cache)", diff), inp.clone());
                        }
                    }
                }
                seen_steps.push((di, en, ls.clone()));
            }
            Err(_) => outs.push("P".into()),
        }
    }
    let case_line = format!("K {} # {docs_arg} # {}", adds.join(" ; "), steps.join(" ; "));
    rep.case(&case_line, outs.join(" ; ").trim());
    rep.count(if hits_seen { "history:with_cache_hits" } else { "history:no_cache_hit" });
    rep.count(&format!("history:lint_steps_{}", bucket(lint_steps)));
    if hits_seen && lint_steps >= 2 {
        rep.nontrivial(&case_line);
    }
}

// ------------------------------------------------------------------------------------------------
// Q: histories on one long-lived group, the chunk key CONCRETE (Model/C11ChunkKey.v over C05's Cache.v): the model gets
// the source characters and the token slices of iter_chunks() (kind interned as 2*id + is_word, spans in document space)
// and computes hull, chunk characters, relative tokens, key, and what the test pattern rules report itself
// ------------------------------------------------------------------------------------------------
const Q_WORDS: &[&str] = &["alpha", "beta", "gamma", "42", "it's", "e-mail", "Beta"];
fn run_token_history(rep: &mut Report, seed: u64, origin: &str) {
    use std::sync::atomic::Ordering;
    rep.eval();
    let mut r = Rng(seed);
    let ndocs = r.range(2, 4);
    let clauses: Vec<String> = (0..r.range(2, 4)).map(|_| (0..r.range(1, 3)).map(|_| r.s(Q_WORDS).to_string()).collect::<Vec<_>>().join(if r.chance(1, 8) { "  " } else { " " })).collect();
    let dict = harper_core::MutableDictionary::new();
    let mut texts = vec![];
    for _ in 0..ndocs {
        let n = if r.chance(1, 12) { 0 } else { r.range(1, 5) };
        let mut t = String::new();
        if r.chance(1, 6) {
            t.push_str(r.s(&[" ", "\n", ", ", "\u{201c}"]));
        }
        for i in 0..n {
            t.push_str(r.pick(&clauses[..]).as_str());
            t.push_str(if i + 1 < n { r.s(&[", ", ". ", "; ", ", ", " - ", "\n\n", ": ", ",, ", "! "]) } else { r.s(&["", ".", ",", "\n", "?"]) });
        }
        texts.push(t);
    }
    let docs: Vec<Document> = texts.iter().map(|t| Document::new_plain_english(t, &dict)).collect();
    let sources: Vec<Vec<char>> = texts.iter().map(|t| t.chars().collect()).collect();
    let mut kind_ids: HashMap<String, usize> = HashMap::new();
    let mut docs_arg: Vec<String> = vec![];
    let mut doc_tokens: Vec<usize> = vec![];
    for (di, d) in docs.iter().enumerate() {
        let src = if sources[di].is_empty() { "-".to_string() } else { sources[di].iter().map(|c| (*c as u32).to_string()).collect::<Vec<_>>().join(".") };
        let mut chs = vec![];
        let mut total = 0;
        for c in d.iter_chunks() {
            if c.span().is_some() {
                total += c.len();
            }
            let toks: Vec<String> = c
                .iter()
                .map(|t| {
                    let n = kind_ids.len();
                    let id = *kind_ids.entry(format!("{:?}", t.kind)).or_insert(n);
                    format!("{}:{}:{}", 2 * id + t.kind.is_word() as usize, t.span.start, t.span.end)
                })
                .collect();
            chs.push(if toks.is_empty() { "-".to_string() } else { toks.join(",") });
        }
        doc_tokens.push(total);
        docs_arg.push(format!("{src} ! {}", if chs.is_empty() { "~".to_string() } else { chs.join("/") }));
    }
    let calls = Arc::new(std::sync::atomic::AtomicUsize::new(0));
    let mut rules: Vec<HRule> = vec![];
    let mut adds: Vec<String> = vec![];
    let mut tag_id: HashMap<String, usize> = HashMap::new();
    let nrules = r.range(2, 6);
    let names: Vec<String> = (0..nrules).map(|_| r.s(L_NAMES).to_string()).collect();
    for (id, name) in names.iter().enumerate() {
        let tag = format!("t{id}");
        tag_id.insert(tag.clone(), id);
        let word: Vec<char> = r.s(Q_WORDS).chars().collect();
        if r.chance(1, 4) {
            let mut rule = TS { word, tag };
            let per: Vec<String> = docs.iter().map(|d| lints_arg(&rule.lint(d), id)).collect();
            adds.push(format!("a {} {}", hex(name.as_bytes()), per.join("|")));
            rules.push(HRule::S(name.clone(), rule));
        } else {
            adds.push(format!("p {} {} {id}", hex(name.as_bytes()), word.iter().map(|c| (*c as u32).to_string()).collect::<Vec<_>>().join(".")));
            rules.push(HRule::P(name.clone(), TPH { pat: CountPat { word, calls: calls.clone() }, tag, bad: false }));
        }
    }
    let mut g = h_build(&rules);
    let mut seen: BTreeSet<String> = BTreeSet::new();
    let mut live_tag: HashMap<String, String> = HashMap::new();
    for (id, name) in names.iter().enumerate() {
        if seen.insert(name.clone()) {
            live_tag.insert(format!("t{id}"), name.clone());
        }
    }
    let mut steps: Vec<String> = vec![];
    let mut outs: Vec<String> = vec![];
    let nsteps = r.range(6, 20);
    let mut lint_steps = 0;
    let mut hits_seen = false;
    for si in 0..nsteps {
        if si < names.len() && r.chance(4, 5) {
            let name = &names[si];
            steps.push(format!("g s {} 1", hex(name.as_bytes())));
            g.config.set_rule_enabled(name, true);
            continue;
        }
        if r.chance(2, 5) {
            let name = r.pick(&names).clone();
            if r.chance(3, 4) {
                let b = r.chance(1, 2);
                steps.push(format!("g s {} {}", hex(name.as_bytes()), if b { 1 } else { 0 }));
                g.config.set_rule_enabled(&name, b);
            } else {
                steps.push(format!("g u {}", hex(name.as_bytes())));
                g.config.unset_rule_enabled(&name);
            }
            continue;
        }
        let di = r.below(ndocs);
        steps.push(format!("l {di}"));
        lint_steps += 1;
        calls.store(0, Ordering::SeqCst);
        let res = guarded(|| g.lint(&docs[di]));
        let n_calls = calls.load(Ordering::SeqCst);
        match &res {
            Ok(ls) => {
                let enabled_p = rules.iter().filter(|x| matches!(x, HRule::P(n, t) if live_tag.get(&t.tag) == Some(n) && g.config.is_rule_enabled(n))).count();
                if n_calls < doc_tokens[di] * enabled_p {
                    hits_seen = true;
                }
                outs.push(format!("{}|{n_calls}", ls.iter().map(|l| format!("{}-{}-{}", l.span.start, l.span.end, tag_id.get(&l.message).copied().unwrap_or(9999))).collect::<Vec<_>>().join(",")));
            }
            Err(_) => outs.push("P".into()),
        }
    }
    let _ = origin;
    let case_line = format!("Q {} # {} # {}", adds.join(" ; "), docs_arg.join(" | "), steps.join(" ; "));
    rep.case(&case_line, outs.join(" ; ").trim());
    rep.count(if hits_seen { "token_history:with_cache_hits" } else { "token_history:no_cache_hit" });
    rep.count(&format!("token_history:kinds_{}", bucket(kind_ids.len())));
    if hits_seen && lint_steps >= 2 {
        rep.nontrivial(&case_line);
    }
}

// ------------------------------------------------------------------------------------------------
// search oracle on the curated LintGroup
// ------------------------------------------------------------------------------------------------
fn lint_key(l: &Lint) -> String {
    serde_json::to_string(l).unwrap_or_else(|_| format!("{l:?}"))
}
fn multiset(ls: &[Lint]) -> Vec<String> {
    let mut v: Vec<String> = ls.iter().map(lint_key).collect();
    v.sort();
    v
}
fn is_subsequence(small: &[String], big: &[String]) -> bool {
    let mut it = big.iter();
    small.iter().all(|x| it.any(|y| y == x))
}
fn make_doc(cx: &Ctx, text: &str, parser: &str) -> Document {
    if parser == "markdown" {
        Document::new_markdown_default(text, &cx.dict)
    } else {
        Document::new_plain_english(text, &cx.dict)
    }
}

struct Search {
    text: String,
    parser: String,
    cfg: CMap,
    unknown: CMap,
    toggle: String,
    part_seed: u64,
}
impl Search {
    fn to_json(&self) -> Value {
        json!({"kind": "search", "text": self.text, "parser": self.parser, "cfg": map_json(&self.cfg), "unknown": map_json(&self.unknown),
               "toggle": self.toggle, "part_seed": self.part_seed})
    }
    fn from_json(v: &Value) -> Search {
        Search {
            text: v["text"].as_str().unwrap_or("").to_string(),
            parser: v["parser"].as_str().unwrap_or("plain").to_string(),
            cfg: json_map(&v["cfg"]),
            unknown: json_map(&v["unknown"]),
            toggle: v["toggle"].as_str().unwrap_or("SpellCheck").to_string(),
            part_seed: v["part_seed"].as_u64().unwrap_or(1),
        }
    }
}

struct Linters {
    /// long-lived: its chunk cache sees every configuration and document of the run
    shared: LintGroup,
}

fn lint_with(g: &mut LintGroup, cfg: &CMap, doc: &Document) -> Result<Vec<Lint>, String> {
    g.config = mk_cfg(cfg);
    guarded(|| g.lint(doc))
}

fn search_case(rep: &mut Report, cx: &Ctx, ls: &mut Linters, s: &Search) {
    rep.eval();
    let inp = s.to_json();
    let doc = match guarded(|| make_doc(cx, &s.text, &s.parser)) {
        Ok(d) => d,
        Err(_) => {
            rep.count("search:parse_panicked(C01's business)");
            return;
        }
    };
    let enabled: Vec<String> = cx.names.iter().filter(|k| s.cfg.get(*k).copied().flatten() == Some(true)).cloned().collect();
    let full = match lint_with(&mut ls.shared, &s.cfg, &doc) {
        Ok(v) => v,
        Err(_) => {
            rep.count("search:lint_panicked(C01's business)");
            return;
        }
    };
    let full_keys: Vec<String> = full.iter().map(lint_key).collect();
    let full_ms = multiset(&full);
    rep.count(&format!("search:enabled:{}", bucket(enabled.len())));
    rep.count(&format!("search:lints:{}", bucket(full.len())));
    if !full.is_empty() && enabled.len() >= 2 {
        rep.nontrivial(&(s.text.clone(), dump_map(&s.cfg)));
    }
    // (0) a fresh linter agrees with the long-lived one (the config hash in the cache key separates configurations)
    {
        let mut fresh = LintGroup::new_curated(cx.dict.clone(), Dialect::American);
        match lint_with(&mut fresh, &s.cfg, &doc) {
            Ok(v) if v.iter().map(lint_key).collect::<Vec<_>>() == full_keys => {}
            Ok(v) => rep.fail("cache_leak", format!("long-lived linter returns {} lints, a fresh one {} under the same configuration", full.len(), v.len()), inp.clone()),
            Err(m) => rep.fail("cache_leak", format!("fresh linter panicked: {m}"), inp.clone()),
        }
    }
    // (1) union of single-switch runs
    let mut union: Vec<String> = vec![];
    let mut singles: HashMap<String, Vec<String>> = HashMap::new();
    for k in &enabled {
        let one: CMap = [(k.clone(), Some(true))].into_iter().collect();
        match lint_with(&mut ls.shared, &one, &doc) {
            Ok(v) => {
                let keys: Vec<String> = v.iter().map(lint_key).collect();
                union.extend(keys.iter().cloned());
                singles.insert(k.clone(), keys);
            }
            Err(m) => {
                rep.fail("union", format!("single-rule run of {k} panicked: {m}"), inp.clone());
                return;
            }
        }
    }
    union.sort();
    if union != full_ms {
        let extra: Vec<&String> = full_ms.iter().filter(|x| !union.contains(x)).take(2).collect();
        let missing: Vec<&String> = union.iter().filter(|x| !full_ms.contains(x)).take(2).collect();
        rep.fail("union", format!("lint(cfg) has {} lints, the union of {} single-rule runs has {}; only in lint(cfg): {:?}; only in the union: {:?}", full_ms.len(), enabled.len(), union.len(), extra, missing), inp.clone());
    }
    // (2) a rule that is off / null / unmentioned contributes nothing: flipping every enabled rule off is silent,
    //     and so are clear() and unsetting everything
    {
        let off: CMap = s.cfg.iter().map(|(k, v)| (k.clone(), v.map(|_| false))).collect();
        match lint_with(&mut ls.shared, &off, &doc) {
            Ok(v) if v.is_empty() => {}
            Ok(v) => rep.fail("disabled_silent", format!("with every rule off or unset lint returns {} lints, e.g. {}", v.len(), lint_key(&v[0])), inp.clone()),
            Err(m) => rep.fail("disabled_silent", format!("panicked: {m}"), inp.clone()),
        }
        let mut c = mk_cfg(&s.cfg);
        c.clear();
        ls.shared.config = c;
        if let Ok(v) = guarded(|| ls.shared.lint(&doc)) {
            if !v.is_empty() {
                rep.fail("disabled_silent", format!("after config.clear() lint returns {} lints", v.len()), inp.clone());
            }
        }
        ls.shared.config = LintGroupConfig::default();
        if let Ok(v) = guarded(|| ls.shared.lint(&doc)) {
            if !v.is_empty() {
                rep.fail("disabled_silent", format!("with an empty configuration lint returns {} lints", v.len()), inp.clone());
            }
        }
    }
    // (3) partition of the enabled set
    if enabled.len() >= 2 {
        let mut pr = Rng(s.part_seed);
        let (mut a, mut b): (CMap, CMap) = (s.cfg.clone(), s.cfg.clone());
        for k in &enabled {
            if pr.chance(1, 2) {
                a.insert(k.clone(), *pr.pick(&[Some(false), None]));
            } else if pr.chance(1, 2) {
                b.insert(k.clone(), Some(false));
            } else {
                b.remove(k);
            }
        }
        match (lint_with(&mut ls.shared, &a, &doc), lint_with(&mut ls.shared, &b, &doc)) {
            (Ok(x), Ok(y)) => {
                let (xk, yk): (Vec<String>, Vec<String>) = (x.iter().map(lint_key).collect(), y.iter().map(lint_key).collect());
                let mut both = xk.clone();
                both.extend(yk.iter().cloned());
                both.sort();
                if both != full_ms {
                    rep.fail("partition", format!("lint(A) + lint(B) has {} lints, lint(A∪B) has {}", both.len(), full_ms.len()), inp.clone());
                }
                if !is_subsequence(&xk, &full_keys) || !is_subsequence(&yk, &full_keys) {
                    rep.fail("partition", "a part's lints are not a subsequence of the whole configuration's lints (order changed)".into(), inp.clone());
                }
            }
            _ => rep.fail("partition", "a part of the configuration panics although the whole does not".into(), inp.clone()),
        }
    }
    // (4) toggle one switch: every other rule's lints keep value and order; the difference is that rule alone
    {
        let r = &s.toggle;
        let was = s.cfg.get(r).copied().flatten() == Some(true);
        let mut flipped = s.cfg.clone();
        flipped.insert(r.clone(), Some(!was));
        match lint_with(&mut ls.shared, &flipped, &doc) {
            Ok(v) => {
                let vk: Vec<String> = v.iter().map(lint_key).collect();
                let (on, off) = if was { (&full_keys, &vk) } else { (&vk, &full_keys) };
                let single = match singles.get(r) {
                    Some(x) => x.clone(),
                    None => {
                        let one: CMap = [(r.clone(), Some(true))].into_iter().collect();
                        lint_with(&mut ls.shared, &one, &doc).map(|x| x.iter().map(lint_key).collect()).unwrap_or_default()
                    }
                };
                if !is_subsequence(off, on) {
                    rep.fail("toggle", format!("switching {r} changes the value or order of other rules' lints"), inp.clone());
                } else {
                    let mut want: Vec<String> = off.to_vec();
                    want.extend(single.iter().cloned());
                    want.sort();
                    let mut got = on.to_vec();
                    got.sort();
                    if want != got {
                        rep.fail("toggle", format!("switching {r} on adds {} lints, {r} alone produces {}", on.len() as i64 - off.len() as i64, single.len()), inp.clone());
                    }
                }
                if cx.curated.contains_key(r) && !single.is_empty() {
                    rep.count("search:toggle_rule_has_lints");
                }
            }
            Err(m) => rep.fail("toggle", format!("switching {r} makes lint panic: {m}"), inp.clone()),
        }
    }
    // (5) unknown keys are harmless
    if !s.unknown.is_empty() {
        let mut with = s.cfg.clone();
        for (k, v) in &s.unknown {
            if !cx.curated.contains_key(k) {
                with.insert(k.clone(), *v);
            }
        }
        match lint_with(&mut ls.shared, &with, &doc) {
            Ok(v) if v.iter().map(lint_key).collect::<Vec<_>>() == full_keys => {}
            Ok(v) => rep.fail("unknown_key", format!("adding keys that name no rule changes lint: {} vs {} lints", v.len(), full.len()), inp.clone()),
            Err(m) => rep.fail("unknown_key", format!("adding keys that name no rule makes lint panic: {m}"), inp.clone()),
        }
    }
    // (6) overlay: the save / fill_with_curated / lint / restore sequence, as harper-ls and harper-wasm write it
    {
        let user = mk_cfg(&s.cfg);
        let mut expect_cfg: CMap = cx.curated.clone();
        for (k, v) in &s.cfg {
            if v.is_some() {
                expect_cfg.insert(k.clone(), *v);
            }
        }
        let expected = lint_with(&mut ls.shared, &expect_cfg, &doc);
        ls.shared.config = user.clone();
        let temp = ls.shared.config.clone();
        ls.shared.config.fill_with_curated();
        let filled = cfg_map(&ls.shared.config);
        let got = guarded(|| ls.shared.lint(&doc));
        ls.shared.config = temp;
        if ls.shared.config != user {
            rep.fail("overlay_restore", "the stored configuration differs after save/fill/lint/restore".into(), inp.clone());
        }
        for k in cx.curated.keys().chain(s.cfg.keys()) {
            let want = match s.cfg.get(k) {
                Some(Some(b)) => *b,
                _ => cx.curated.get(k).copied().flatten().unwrap_or(false),
            };
            if filled.get(k).copied().flatten().unwrap_or(false) != want {
                rep.fail("overlay", format!("fill_with_curated: {k:?} user={:?} curated={:?} filled={:?}", s.cfg.get(k), cx.curated.get(k), filled.get(k)), inp.clone());
                break;
            }
        }
        match (&expected, &got) {
            (Ok(a), Ok(b)) if a.iter().map(lint_key).collect::<Vec<_>>() == b.iter().map(lint_key).collect::<Vec<_>>() => {}
            (Err(_), Err(_)) => {}
            _ => rep.fail("overlay", "lint under fill_with_curated differs from lint under the explicitly overlaid configuration".into(), inp.clone()),
        }
        overlay_frontends(rep, cx, s, &user, expected.as_ref().ok(), &inp);
    }
}

#[cfg(feature = "ls")]
fn overlay_frontends(rep: &mut Report, cx: &Ctx, s: &Search, user: &LintGroupConfig, expected: Option<&Vec<Lint>>, inp: &Value) {
    use lsx::config::DiagnosticSeverity;
    use lsx::document_state::DocumentState;
    let Some(expected) = expected else { return };
    // harper-ls: DocumentState::generate_diagnostics
    let r = guarded(|| {
        let mut st = DocumentState {
            document: make_doc(cx, &s.text, &s.parser),
            linter: LintGroup::new_curated(cx.dict.clone(), Dialect::American).with_lint_config(user.clone()),
            ..Default::default()
        };
        let d = st.generate_diagnostics(DiagnosticSeverity::Hint);
        let after_diag = st.linter.config.clone();
        let _ = st.generate_code_actions(lsx::tower_lsp::lsp_types::Range::default(), &lsx::config::CodeActionConfig::default());
        if &st.linter.config != user {
            return (d, st.linter.config.clone());
        }
        (d, after_diag)
    });
    match r {
        Ok((diags, after)) => {
            rep.monitor("ls_generate_diagnostics_checked", 1);
            if &after != user {
                rep.fail("overlay_restore", "DocumentState::generate_diagnostics / generate_code_actions changed the stored configuration".into(), inp.clone());
            }
            let mut a: Vec<String> = diags.iter().map(|d| d.message.clone()).collect();
            let mut b: Vec<String> = expected.iter().map(|l| l.message.clone()).collect();
            a.sort();
            b.sort();
            if a != b {
                rep.fail("overlay", format!("generate_diagnostics reports {} diagnostics, the overlaid configuration gives {} lints", a.len(), b.len()), inp.clone());
            }
        }
        Err(_) => rep.count("search:generate_diagnostics_panicked(C01/C08's business)"),
    }
}
#[cfg(not(feature = "ls"))]
fn overlay_frontends(_rep: &mut Report, _cx: &Ctx, _s: &Search, _user: &LintGroupConfig, _expected: Option<&Vec<Lint>>, _inp: &Value) {}

/// harper_wasm::Linter: set/get JSON round trip, lint leaves the configuration alone, lint = overlay + remove_overlaps
fn wasm_case(rep: &mut Report, cx: &Ctx, w: &mut harper_wasm::Linter, s: &Search) {
    rep.eval();
    let inp = json!({"kind": "wasm", "text": s.text, "cfg": map_json(&s.cfg)});
    let before = w.get_lint_config_as_json();
    if let Err(e) = w.set_lint_config_from_json(before.clone()) {
        rep.fail("wasm_roundtrip", format!("set_lint_config_from_json(get_lint_config_as_json()) failed: {e}"), inp.clone());
    }
    if w.get_lint_config_as_json() != before {
        rep.fail("wasm_roundtrip", "set(get()) changed the configuration".into(), inp.clone());
    }
    let text = serde_json::to_string(&map_json(&s.cfg)).unwrap();
    if let Err(e) = w.set_lint_config_from_json(text) {
        rep.fail("wasm_roundtrip", format!("set_lint_config_from_json failed: {e}"), inp.clone());
        return;
    }
    let stored = w.get_lint_config_as_json();
    let stored_map: CMap = json_map(&serde_json::from_str::<Value>(&stored).unwrap_or(Value::Null));
    let got = guarded(|| w.lint(s.text.clone(), harper_wasm::Language::Plain));
    if w.get_lint_config_as_json() != stored {
        rep.fail("overlay_restore", "harper_wasm::Linter::lint changed the stored configuration".into(), inp.clone());
    }
    // expected: curated defaults overlaid with the explicit values now stored, then remove_overlaps
    let mut expect_cfg = cx.curated.clone();
    for (k, v) in &stored_map {
        if v.is_some() {
            expect_cfg.insert(k.clone(), *v);
        }
    }
    let mut g = LintGroup::new_curated(cx.dict.clone(), Dialect::American);
    let doc = Document::new_plain_english(&s.text, &cx.dict);
    if let (Ok(got), Ok(mut exp)) = (got, lint_with(&mut g, &expect_cfg, &doc)) {
        remove_overlaps(&mut exp);
        let mut a: Vec<(usize, usize, String)> = got.iter().map(|l| (l.span().start, l.span().end, l.message())).collect();
        let mut b: Vec<(usize, usize, String)> = exp.iter().map(|l| (l.span.start, l.span.end, l.message.clone())).collect();
        a.sort();
        b.sort();
        if a != b {
            rep.fail("overlay", format!("harper_wasm::Linter::lint gives {} lints, overlay + remove_overlaps gives {}", a.len(), b.len()), inp.clone());
        }
        rep.monitor("wasm_lint_checked", 1);
    } else {
        rep.count("search:wasm_lint_panicked(C01's business)");
    }
}

/// harper_wasm::Linter over a HISTORY of settings objects: the stored configuration after each
/// set_lint_config_from_json is the model's  wasm_seq (clear curated) [u1..un]  (correspondence, as a C case with
/// the `w` operation: register 0 is the Linter's configuration, register 1 the object being sent), and lint then
/// follows the LAST object alone: its explicit choice per rule, else the curated default (C11_wasm_history).
fn wasm_history_case(rep: &mut Report, cx: &Ctx, objs: &[CMap], text: &str, origin: &str) {
    rep.eval();
    let inp = json!({"kind": "wasm_history", "objs": objs.iter().map(map_json).collect::<Vec<_>>(), "text": text, "origin": origin});
    let mut ops = vec![Op::Curated(0), Op::Clear(0)];
    for u in objs {
        ops.push(Op::Default(1));
        for (k, v) in u {
            if v.is_none() {
                ops.push(Op::Set(1, k.clone(), true));
            }
        }
        ops.push(Op::Clear(1));
        for (k, v) in u {
            if let Some(b) = v {
                ops.push(Op::Set(1, k.clone(), *b));
            }
        }
        ops.push(Op::WasmSet(0, 1));
    }
    let mut probes: Vec<String> = vec!["SpellCheck".into()];
    for u in objs {
        probes.extend(u.keys().filter(|k| k.as_str() != "SpellCheck").cloned());
    }
    probes.sort();
    probes.dedup();
    probes.retain(|k| k != "SpellCheck");
    probes.insert(0, "SpellCheck".into());
    let case_line = format!("C 2 {} ; {}", probes.iter().map(|k| hex(k.as_bytes())).collect::<Vec<_>>().join(","), ops.iter().map(|o| o.line()).collect::<Vec<_>>().join(" ; "));
    let mut w = harper_wasm::Linter::new(harper_wasm::Dialect::American);
    let mut last: CMap = CMap::new();
    for u in objs {
        if let Err(e) = w.set_lint_config_from_json(serde_json::to_string(&map_json(u)).unwrap()) {
            rep.fail("wasm_roundtrip", format!("set_lint_config_from_json failed: {e}"), inp.clone());
        }
        last = u.clone();
    }
    let stored: CMap = json_map(&serde_json::from_str::<Value>(&w.get_lint_config_as_json()).unwrap_or(Value::Null));
    let stored_cfg = mk_cfg(&stored);
    let reg1: CMap = last.keys().map(|k| (k.clone(), None)).collect();
    let bits = |c: &LintGroupConfig| format!("b{}", probes.iter().map(|k| if c.is_rule_enabled(k) { '1' } else { '0' }).collect::<String>());
    rep.case(&case_line, &format!("{} {} | {} {}", dump_map(&stored), dump_map(&reg1), bits(&stored_cfg), bits(&mk_cfg(&reg1))));
    // PROPERTY oracle: "set the linter's current configuration" — after the last settings object, a rule it
    // leaves null / does not mention takes its curated default, a rule it sets explicitly takes that value
    // (C11_wasm_history_curated; this was finding FC11a until b67a243: the class name is kept for the regression).
    if let Some(lastu) = objs.last() {
        for (k, dflt) in &cx.curated {
            let want = match lastu.get(k) {
                Some(Some(b)) => *b,
                _ => dflt.unwrap_or(false),
            };
            let have = match stored.get(k) {
                Some(Some(b)) => *b,
                _ => dflt.unwrap_or(false),
            };
            if want != have {
                match lastu.get(k) {
                    Some(Some(_)) => rep.fail("overlay", format!("rule {k}: the last settings object sets it to {want}, the Linter uses {have}"), inp.clone()),
                    other => rep.fail(
                        "wasm_null_does_not_reset",
                        format!("rule {k}: the last settings object leaves it {}, an earlier one set it to {have}; the Linter still uses {have} instead of the curated default {want}",
                                if other.is_some() { "null" } else { "absent" }),
                        inp.clone(),
                    ),
                }
                break;
            }
        }
    }
    // lint runs under the curated defaults overlaid with what the Linter itself reports as stored (how the history
    // shapes the stored configuration is the correspondence above, and the property oracle just before)
    let mut expect_cfg = cx.curated.clone();
    for (k, v) in &stored {
        if v.is_some() {
            expect_cfg.insert(k.clone(), *v);
        }
    }
    let got = guarded(|| w.lint(text.to_string(), harper_wasm::Language::Plain));
    let mut g = LintGroup::new_curated(cx.dict.clone(), Dialect::American);
    let doc = Document::new_plain_english(text, &cx.dict);
    if let (Ok(got), Ok(mut exp)) = (got, lint_with(&mut g, &expect_cfg, &doc)) {
        remove_overlaps(&mut exp);
        let mut a: Vec<(usize, usize, String)> = got.iter().map(|l| (l.span().start, l.span().end, l.message())).collect();
        let mut b: Vec<(usize, usize, String)> = exp.iter().map(|l| (l.span.start, l.span.end, l.message.clone())).collect();
        a.sort();
        b.sort();
        if a != b {
            rep.fail("overlay", format!("harper_wasm::Linter after {} settings objects lints {} lints; its stored configuration overlaid on the defaults gives {}", objs.len(), a.len(), b.len()), inp.clone());
        }
        rep.monitor("wasm_history_checked", 1);
    }
    rep.count(&format!("wasm_history_len:{}", bucket(objs.len())));
}

fn random_search(cx: &Ctx, r: &mut Rng) -> Search {
    let text = match r.below(6) {
        0 => {
            let c = gen::any_construct(r);
            gen::placed(r, c)
        }
        1 => gen::paragraph(r),
        2 => gen::any_text(r),
        _ => gen::document(r),
    };
    // density of enabled rules: sparse configurations make the union cheap, dense ones cover interactions
    let (p_on, p_off) = *r.pick(&[(2usize, 10usize), (5, 20), (15, 30), (50, 25), (80, 10), (100, 0)]);
    let mut cfg = CMap::new();
    for k in &cx.names {
        let x = r.below(100);
        if x < p_on {
            cfg.insert(k.clone(), Some(true));
        } else if x < p_on + p_off {
            cfg.insert(k.clone(), Some(false));
        } else if r.chance(1, 4) {
            cfg.insert(k.clone(), None);
        }
    }
    // rules with document-wide effect are worth having on more often
    for k in ["SpellCheck", "SentenceCapitalization", "RepeatedWords", "AnA", "Spaces", "LongSentences", "Intact"] {
        if r.chance(1, 3) {
            cfg.insert(k.to_string(), Some(true));
        }
    }
    let mut unknown = CMap::new();
    for _ in 0..r.below(4) {
        unknown.insert(r.s(UNKNOWN_KEYS).to_string(), *r.pick(&[Some(true), Some(true), Some(false), None]));
    }
    let toggle = if r.chance(1, 2) {
        r.s(&["SpellCheck", "SentenceCapitalization", "RepeatedWords", "AnA", "Spaces", "CorrectNumberSuffix", "Intact", "UnclosedQuotes", "EllipsisLength"]).to_string()
    } else {
        r.pick(&cx.names).clone()
    };
    Search { text, parser: if r.chance(1, 4) { "markdown".into() } else { "plain".into() }, cfg, unknown, toggle, part_seed: r.next() }
}

/// The Hash impl writes keys without length or terminator: {"a":null,"b":true} and {"a\0\0b":true} feed the
/// same BYTES to the hasher (C11_hash_stream_refuted).  Whether the real hasher (foldhash, per-call mixing)
/// confuses them is observable through the cache: lint under the first, then under the second, same instance.
fn hash_witness_check(rep: &mut Report) {
    rep.eval();
    let inp = json!({"kind": "hash_witness"});
    let dict = harper_core::MutableDictionary::new();
    let doc = Document::new_plain_english("alpha beta, alpha beta.", &dict);
    let w: Vec<char> = "alpha".chars().collect();
    let mk = || {
        let mut g = LintGroup::empty();
        g.add_pattern_linter("b", Box::new(TP { pat: WordPat(w.clone()), tag: "rule-b".into(), bad: false }));
        g.add_pattern_linter("a\u{0}\u{0}b", Box::new(TP { pat: WordPat(w.clone()), tag: "rule-a00b".into(), bad: false }));
        g
    };
    let c1: CMap = [("a".to_string(), None), ("b".to_string(), Some(true))].into_iter().collect();
    let c2: CMap = [("a\u{0}\u{0}b".to_string(), Some(true))].into_iter().collect();
    let (k1, k2) = (mk_cfg(&c1), mk_cfg(&c2));
    let same_bytes = hash_calls(&k1).concat() == hash_calls(&k2).concat();
    let same_calls = hash_calls(&k1) == hash_calls(&k2);
    rep.monitor("hash_witness_same_byte_stream", same_bytes as u64);
    rep.monitor("hash_witness_same_write_calls", same_calls as u64);
    let mut confused = 0u64;
    for _ in 0..8 {
        // RandomState::default() is seeded per instance
        let mut g = mk();
        let first = lint_with(&mut g, &c1, &doc).unwrap_or_default();
        let second = lint_with(&mut g, &c2, &doc).unwrap_or_default();
        let mut f = mk();
        let fresh = lint_with(&mut f, &c2, &doc).unwrap_or_default();
        if first.iter().any(|l| l.message != "rule-b") || fresh.iter().any(|l| l.message != "rule-a00b") || fresh.is_empty() {
            rep.fail("hash_witness_setup", "the witness group does not behave as constructed".into(), inp.clone());
        }
        if multiset(&second) != multiset(&fresh) {
            confused += 1;
        }
    }
    rep.monitor("hash_witness_cache_confusions_of_8", confused);
    if confused > 0 {
        rep.fail("hash_collision", format!("configurations {{\"a\":null,\"b\":true}} and {{\"a\\0\\0b\":true}} share cache entries on {confused} of 8 linters: a switched-off rule's lints are returned"), inp);
    }
}

// ------------------------------------------------------------------------------------------------
fn table_case(rep: &mut Report, cx: &Ctx) {
    rep.eval();
    let keys = cx.keys_in_order.iter().map(|k| hex(k.as_bytes())).collect::<Vec<_>>().join(",");
    rep.case("T", &format!("{} | {keys}", dump_map(&cx.curated)));
    // U: the same two observations of a SECOND new_curated (other dictionary, other dialect: the statement sequence does not
    // depend on either) against the extracted EXECUTION of the generated statement table (C11Curated.new_curated_model)
    {
        let g2 = LintGroup::new_curated(Arc::new(harper_core::MutableDictionary::new()), Dialect::British);
        let keys2 = g2.iter_keys().map(|k| hex(k.as_bytes())).collect::<Vec<_>>().join(",");
        rep.case("U", &format!("{} | {keys2}", dump(&g2.config)));
    }
    let distinct: BTreeSet<&String> = cx.keys_in_order.iter().collect();
    rep.extra.insert("curated_rules".into(), json!({"registered": cx.keys_in_order.len(), "distinct_switches": distinct.len(), "config_keys": cx.curated.len(),
        "registered_in_both_maps": cx.keys_in_order.len() - distinct.len()}));
    // new_curated_empty_config / LintGroupConfig::new_curated agree with it
    let c2 = cfg_map(&LintGroupConfig::new_curated());
    if c2 != cx.curated {
        rep.fail("curated", "LintGroupConfig::new_curated() differs from LintGroup::new_curated(..).config".into(), json!({"kind": "table"}));
    }
    if cx.curated.values().any(|v| v.is_none()) {
        rep.fail("curated", "the curated configuration leaves a rule unset".into(), json!({"kind": "table"}));
    }
    let reg: BTreeSet<&String> = cx.keys_in_order.iter().collect();
    let cfgk: BTreeSet<&String> = cx.curated.keys().collect();
    if reg != cfgk {
        rep.fail("curated", format!("registered rule names and curated config keys differ: {:?}", reg.symmetric_difference(&cfgk).take(5).collect::<Vec<_>>()), json!({"kind": "table"}));
    }
}

fn replay_input(rep: &mut Report, cx: &Ctx, ls: &mut Linters, wasm: &mut Option<harper_wasm::Linter>, v: &Value) {
    match v["kind"].as_str().unwrap_or("") {
        "ops" => {
            let ops: Vec<Op> = v["ops"].as_array().map(|a| a.iter().filter_map(Op::from_json).collect()).unwrap_or_default();
            let probes: Vec<String> = v["probes"].as_array().map(|a| a.iter().filter_map(|x| x.as_str().map(|s| s.to_string())).collect()).unwrap_or_default();
            let nregs = v["nregs"].as_u64().unwrap_or(3) as usize;
            if ops.iter().all(|o| match o {
                Op::Set(i, ..) | Op::Unset(i, ..) | Op::IfUnset(i, ..) | Op::Clear(i) | Op::Fill(i) | Op::Curated(i) | Op::Default(i) | Op::Json(i) => *i < nregs,
                Op::Merge(i, j) | Op::WasmSet(i, j) | Op::Copy(i, j) => *i < nregs && *j < nregs,
            }) {
                run_ops(rep, cx, nregs, &probes, &ops, "replay");
            }
        }
        "json" => run_json_text(rep, v["text"].as_str().unwrap_or(""), "replay"),
        "settings" => {
            let e = if v["expect"].is_object() { Some(json_map(&v["expect"])) } else { None };
            run_settings_text(rep, v["text"].as_str().unwrap_or(""), e.as_ref(), "replay")
        }
        "print" => run_print(rep, &json_map(&v["cfg"])),
        "hash" => run_hash(rep, &json_map(&v["cfg"])),
        "dispatch" => run_dispatch(rep, v["seed"].as_u64().unwrap_or(0), "replay"),
        "history" => run_history(rep, v["seed"].as_u64().unwrap_or(0), "replay"),
        "token_history" => run_token_history(rep, v["seed"].as_u64().unwrap_or(0), "replay"),
        "search" => search_case(rep, cx, ls, &Search::from_json(v)),
        // compact form of a complete rule map: curated - absent + stale, `flips` override defaults
        "search_full" => {
            let absent: Vec<String> = v["absent"].as_array().map(|a| a.iter().filter_map(|x| x.as_str().map(|s| s.to_string())).collect()).unwrap_or_default();
            let mut s = Search::from_json(v);
            s.cfg = full_map(cx, &absent, &json_map(&v["stale"]), &json_map(&v["flips"]));
            search_case(rep, cx, ls, &s);
        }
        "wasm" => {
            if wasm.is_none() {
                *wasm = Some(harper_wasm::Linter::new(harper_wasm::Dialect::American));
            }
            let s = Search { text: v["text"].as_str().unwrap_or("").into(), parser: "plain".into(), cfg: json_map(&v["cfg"]), unknown: CMap::new(), toggle: "SpellCheck".into(), part_seed: 1 };
            wasm_case(rep, cx, wasm.as_mut().unwrap(), &s);
        }
        "wasm_history" => {
            let objs: Vec<CMap> = v["objs"].as_array().map(|a| a.iter().map(json_map).collect()).unwrap_or_default();
            wasm_history_case(rep, cx, &objs, v["text"].as_str().unwrap_or(""), "replay");
        }
        "hash_witness" => hash_witness_check(rep),
        "table" => table_case(rep, cx),
        _ => {}
    }
}

fn main() {
    let (a, corpus) = hv::cli();
    let mut rep = Report::new(&a.out);
    rep.rule = "correspondence: T curated table; C random LintGroupConfig operation sequences (3 registers, 0-14 ops over real rule names + unknown/odd keys incl. NUL, quotes, control characters, astral; merges, clears, fills, JSON round trips via serde_json and Config::from_lsp_config); J JSON texts (valid with whitespace/escape/surrogate/duplicate variants + 13 fault classes); W every J text also through from_str::<Value> + from_value::<LintGroupConfig> (N not JSON / B wrong shape / configuration; oracle: whatever the typed parser accepts this route accepts with the same result); V complete settings texts through from_str::<Value> + Config::from_lsp_config (linters printed from configurations incl. complete rule maps, faulty configuration texts, objects mixing booleans with numbers/strings/arrays/objects, arbitrary values; unknown / duplicate / other known members of the harper-ls object; settings that are not objects; nesting 123-129 deep around serde_json's recursion limit; number literals around the f64 range edge and malformed ones; round-trip oracle lsp_roundtrip when the linters member was printed from a configuration); P printer; H Hasher::write calls; K histories (config operations and lint calls on 2-4 documents sharing chunks) on ONE long-lived group of 2-6 test rules: lints and the number of pattern evaluations (= cache misses x enabled pattern rules) per call vs C11Cache.run_history, plus fresh-vs-warm and toggle-over-the-history oracles; Q the same histories with the chunk key concrete: the case carries the source characters and the token slices of iter_chunks() (kinds interned, document-space spans; numbers, apostrophes, hyphens, capitalised twins, double spaces, newlines) and the pattern rules as (word, tag), and C11ChunkKey.run_token_history computes hulls, chunk characters, relative tokens, keys and the rules' reports itself (lints + pattern evaluations per call); L LintGroup::lint over groups of test rules built with add/add_pattern_linter/merge_from/set_all_rules_to (names collide, one name in both maps, pattern lints before their chunk). search: curated LintGroup on generated documents (plain 3/4, markdown 1/4) x random on/off/null/absent configurations at six densities: fresh-vs-long-lived, union of single-switch runs, all-off/clear/empty silent, two-way partition (multiset + order), toggle (others keep value and order), unknown keys, save/fill/lint/restore incl. harper-ls generate_diagnostics/generate_code_actions and harper_wasm::Linter; histories of 1-4 settings objects (1/5 of them complete rule maps) sent to one harper_wasm::Linter (stored configuration = correspondence through the `w` operation; last object alone decides = property oracle, C11_wasm_history_curated; was finding FC11a, fixed by b67a243). complete rule maps (every entry explicit) with 0-5 curated rules missing and stale keys standing in so that the entry count is below / at / above the number of rules: as C operation sequences ending in fill_with_curated (200 / 3000) and as search configurations incl. generate_diagnostics (10 / 150). thorough adds every one-character key U+0000..U+07FF + a sweep of higher planes through printer/parser/LSP route and 150 documents with all rules on (every rule singly). non-trivial = distinct (text, configuration) with >=2 enabled rules and >=1 lint, or op sequence >=3, or accepted JSON text, or dispatch case with lints".into();
    let cx = Ctx::new();
    let mut ls = Linters { shared: LintGroup::new_curated(cx.dict.clone(), Dialect::American) };
    let mut wasm: Option<harper_wasm::Linter> = None;
    for c in &corpus {
        replay_input(&mut rep, &cx, &mut ls, &mut wasm, c);
    }
    if a.replay.is_some() {
        rep.finish();
        return;
    }
    let mut r = Rng::new(a.seed);
    table_case(&mut rep, &cx);
    hash_witness_check(&mut rep);
    for _ in 0..a.scale(1500, 20000) {
        let (n, probes, ops) = random_ops(&cx, &mut r);
        run_ops(&mut rep, &cx, n, &probes, &ops, "random");
    }
    // complete rule maps with rules missing and stale keys standing in (entry count below / at / above the rule count)
    for _ in 0..a.scale(200, 3000) {
        let (n, probes, ops, label) = full_map_ops(&cx, &mut r);
        rep.count(&label);
        run_ops(&mut rep, &cx, n, &probes, &ops, "full_map");
    }
    for _ in 0..a.scale(1500, 30000) {
        let t = random_json_text(&cx, &mut r);
        run_json_text(&mut rep, &t, "random");
    }
    // V: settings texts through from_str::<Value> + Config::from_lsp_config  (W rides on every J text)
    for _ in 0..a.scale(1500, 25000) {
        let (t, e) = gen_settings_text(&cx, &mut r);
        // the expectation presumes the siblings of "linters" were valid JSON: drop it when the text is not JSON at all
        let e = if serde_json::from_str::<Value>(&t).is_ok() { e } else { None };
        run_settings_text(&mut rep, &t, e.as_ref(), "random");
    }
    for _ in 0..a.scale(300, 4000) {
        let m = cx.random_map(&mut r, 8);
        run_print(&mut rep, &m);
        let m = cx.random_map(&mut r, 8);
        run_hash(&mut rep, &m);
    }
    // every single key of the pools through printer, parser and hash
    for k in UNKNOWN_KEYS.iter().map(|s| s.to_string()).chain(cx.names.iter().cloned()) {
        for v in [Some(true), None] {
            let m: CMap = [(k.clone(), v)].into_iter().collect();
            run_print(&mut rep, &m);
            run_hash(&mut rep, &m);
        }
    }
    if a.thorough() {
        // exhaustive: every one-character key U+0000..U+07FF (all control characters, quote, backslash, every
        // 2-byte sequence) and a sweep of the higher planes, through printer and parser
        let mut n = 0u64;
        for cp in (0u32..0x800).chain((0x800..0x11000).step_by(97)).chain((0x10000..0x110000).step_by(4099)) {
            if let Some(c) = char::from_u32(cp) {
                let m: CMap = [(c.to_string(), Some(true)), (format!("x{c}y"), None)].into_iter().collect();
                run_print(&mut rep, &m);
                let cfg = mk_cfg(&m);
                json_routes(&mut rep, &cfg, &json!({"kind": "print", "cfg": map_json(&m)}));
                n += 1;
            }
        }
        rep.extra.insert("exhaustive_one_char_keys".into(), json!(n));
    }
    for _ in 0..a.scale(1500, 20000) {
        let s = r.next();
        run_dispatch(&mut rep, s, "random");
    }
    // K: histories on one long-lived group of test rules (warm chunk cache): correspondence with C11Cache.run_history
    // (lints and the number of pattern evaluations, i.e. hits and misses), fresh-vs-warm and the toggle law as oracles
    for _ in 0..a.scale(1200, 15000) {
        let s = r.next();
        run_history(&mut rep, s, "random");
    }
    for _ in 0..a.scale(90, 1200) {
        let s = random_search(&cx, &mut r);
        search_case(&mut rep, &cx, &mut ls, &s);
    }
    for _ in 0..a.scale(10, 150) {
        let text = if r.chance(1, 2) { gen::paragraph(&mut r) } else { gen::document(&mut r) };
        let s = full_map_search(&cx, &mut r, text);
        rep.count("search:full_map");
        search_case(&mut rep, &cx, &mut ls, &s);
    }
    // harper_wasm::Linter (its construction builds a merged dictionary; a handful of cases)
    {
        let mut w = harper_wasm::Linter::new(harper_wasm::Dialect::American);
        for _ in 0..a.scale(12, 150) {
            let mut s = if r.chance(1, 4) {
                let text = gen::paragraph(&mut r);
                full_map_search(&cx, &mut r, text)
            } else {
                random_search(&cx, &mut r)
            };
            s.parser = "plain".into();
            wasm_case(&mut rep, &cx, &mut w, &s);
        }
    }
    for _ in 0..a.scale(10, 120) {
        let n = r.range(1, 4);
        let objs: Vec<CMap> = (0..n)
            .map(|_| {
                if r.chance(1, 5) {
                    // a client that re-sends the complete rule map
                    let (absent, stale, flips) = full_map_parts(&cx, &mut r);
                    full_map(&cx, &absent, &stale, &flips)
                } else {
                    cx.random_map(&mut r, 5)
                }
            })
            .collect();
        let text = gen::paragraph(&mut r);
        wasm_history_case(&mut rep, &cx, &objs, &text, "random");
    }
    if a.thorough() {
        // every rule singly (and everything-but-that-rule) on documents: 291 x docs
        let mut docs = 0u64;
        for _ in 0..150 {
            let text = gen::document(&mut r);
            let all: CMap = cx.names.iter().map(|k| (k.clone(), Some(true))).collect();
            let s = Search { text, parser: "plain".into(), cfg: all, unknown: CMap::new(), toggle: r.pick(&cx.names).clone(), part_seed: r.next() };
            search_case(&mut rep, &cx, &mut ls, &s);
            docs += 1;
        }
        rep.extra.insert("all_rules_singly_documents".into(), json!(docs));
    }
    // Q: the same with the chunk key concrete (C11_toggle_warm_cache_tokens): the model computes hulls, chunk characters,
    // relative tokens, keys and the pattern rules' reports from the raw token slices
    for _ in 0..a.scale(500, 6000) {
        let s = r.next();
        run_token_history(&mut rep, s, "random");
    }
    rep.finish();
}
