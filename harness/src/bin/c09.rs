//! C09 — the language server's last word on a document reflects the latest text.
//!
//! The harness is the LSP client AND the executor of the real `Backend` (harper-ls sources compiled in
//! as crate `lsx`): handler futures returned by `LspService::call` are held here and polled in the order
//! a schedule prescribes; `workspace/configuration` requests are answered when the schedule says so
//! (src/lsclient.rs).  A schedule step is what Model/Server.v calls a `kchoice`: `A` admits the next
//! message of the history (the client effect — buffer, file on disk, settings — happens at that moment),
//! `<id>` answers handler id's pending configuration request (if any) and lets it run alone until it
//! completes or asks again.
//!
//! Correspondence: for every case the sequence of publishDiagnostics is *decoded* — every text the
//! harness sends is built from probe sentences, so the published ranges tell which text version, which
//! dictionary words, which identifier set, which linter / parser / severity configuration and which
//! ignore list the diagnostics were computed from — and compared with what the extracted model
//! predicts for the same history and schedule, together with the set of documents whose last word is
//! stale.
//! Oracle (search): the property text itself — after a quiescent run the diagnostics most recently
//! published for every open document must equal what a *fresh* server publishes for a single didOpen of
//! the client's newest text (same dictionary files, same settings, same ignored lints); closed and
//! deleted documents must end with [].  Failures are attributed to a cause from the harness's own
//! records (who published last, who overtook whom, what was on disk); anything not attributable is
//! class `unexplained`.
#[path = "../lsclient.rs"]
mod lsclient;
use hv::common::*;
use lsclient::*;
use serde_json::{json, Value};
use std::collections::{BTreeMap, BTreeSet, HashMap};

// ------------------------------------------------------------------------------------------------
// vocabulary shared with the model driver (ocaml/c09_main.ml)
// ------------------------------------------------------------------------------------------------
#[derive(Clone, Copy, PartialEq, Eq, PartialOrd, Ord, Hash, Debug)]
enum Url {
    File(usize, usize),
    Untitled(usize),
}
impl Url {
    fn tok(&self) -> String {
        match self {
            Url::File(d, n) => format!("F{d}.{n}"),
            Url::Untitled(n) => format!("U{n}"),
        }
    }
    fn parse(s: &str) -> Option<Url> {
        if let Some(r) = s.strip_prefix('F') {
            let (d, n) = r.split_once('.')?;
            Some(Url::File(d.parse().ok()?, n.parse().ok()?))
        } else {
            Some(Url::Untitled(s.strip_prefix('U')?.parse().ok()?))
        }
    }
    fn is_file(&self) -> bool {
        matches!(self, Url::File(..))
    }
}

#[derive(Clone, Copy, PartialEq, Eq, PartialOrd, Ord, Hash, Debug)]
enum Lang {
    P,
    M,
    C,
    X,
}
impl Lang {
    fn tok(&self) -> &'static str {
        match self {
            Lang::P => "p",
            Lang::M => "m",
            Lang::C => "c",
            Lang::X => "x",
        }
    }
    fn parse(s: &str) -> Lang {
        match s {
            "p" => Lang::P,
            "m" => Lang::M,
            "c" => Lang::C,
            _ => Lang::X,
        }
    }
    fn lsp_id(&self) -> &'static str {
        match self {
            Lang::P => "plaintext",
            Lang::M => "markdown",
            Lang::C => "python",
            Lang::X => "klingon",
        }
    }
}

#[derive(Clone, Copy, PartialEq, Eq, PartialOrd, Ord, Hash, Debug)]
struct Text {
    tid: usize,
    ident: usize,
}

#[derive(Clone, PartialEq, Debug)]
enum Op {
    /// the last field of Open / Change is `textDocument.version` (0 in a parsed input = not given: numbered
    /// by `renumber`)
    Open(Url, Lang, Text, usize),
    Change(Url, Text, usize),
    Save(Url),
    Close(Url),
    DelFile(usize, usize),
    DelDir(usize),
    AddUser(usize, Url),
    AddFile(usize, Url),
    Ignore(Url, usize),
    Record,
    Cfg(usize),
}
impl Op {
    fn tok(&self, order: &[Url]) -> String {
        match self {
            Op::Open(u, l, t, v) => format!("O {} {} {} {} {v}", u.tok(), l.tok(), t.tid, t.ident),
            Op::Change(u, t, v) => format!("C {} {} {} {v}", u.tok(), t.tid, t.ident),
            Op::Save(u) => format!("S {}", u.tok()),
            Op::Close(u) => format!("X {}", u.tok()),
            Op::DelFile(d, n) => format!("DF {d} {n}"),
            Op::DelDir(d) => format!("DD {d}"),
            Op::AddUser(w, u) => format!("AU {w} {}", u.tok()),
            Op::AddFile(w, u) => format!("AF {w} {}", u.tok()),
            Op::Ignore(u, k) => format!("I {} {k}", u.tok()),
            Op::Record => "R".into(),
            Op::Cfg(c) => {
                let mut s = format!("G {c}");
                for u in order {
                    s.push(' ');
                    s.push_str(&u.tok());
                }
                s
            }
        }
    }
    fn parse(s: &str) -> Option<Op> {
        let t: Vec<&str> = s.split_whitespace().collect();
        let n = |i: usize| -> Option<usize> { t.get(i)?.parse().ok() };
        let u = |i: usize| -> Option<Url> { Url::parse(t.get(i)?) };
        Some(match *t.first()? {
            "O" => Op::Open(u(1)?, Lang::parse(t.get(2)?), Text { tid: n(3)?, ident: n(4)? }, n(5).unwrap_or(0)),
            "C" => Op::Change(u(1)?, Text { tid: n(2)?, ident: n(3)? }, n(4).unwrap_or(0)),
            "S" => Op::Save(u(1)?),
            "X" => Op::Close(u(1)?),
            "DF" => Op::DelFile(n(1)?, n(2)?),
            "DD" => Op::DelDir(n(1)?),
            "AU" => Op::AddUser(n(1)?, u(2)?),
            "AF" => Op::AddFile(n(1)?, u(2)?),
            "I" => Op::Ignore(u(1)?, n(2)?),
            "R" => Op::Record,
            "G" => Op::Cfg(n(1)?),
            _ => return None,
        })
    }
    /// the document the handler works on (None: global)
    fn url(&self) -> Option<Url> {
        match self {
            Op::Open(u, ..) | Op::Change(u, ..) | Op::Save(u) | Op::Close(u) | Op::AddUser(_, u) | Op::AddFile(_, u) | Op::Ignore(u, _) => Some(*u),
            _ => None,
        }
    }
    fn name(&self) -> &'static str {
        match self {
            Op::Open(..) => "didOpen",
            Op::Change(..) => "didChange",
            Op::Save(_) => "didSave",
            Op::Close(_) => "didClose",
            Op::DelFile(..) | Op::DelDir(_) => "didChangeWatchedFiles",
            Op::AddUser(..) => "HarperAddToUserDict",
            Op::AddFile(..) => "HarperAddToFileDict",
            Op::Ignore(..) => "HarperIgnoreLint",
            Op::Record => "HarperRecordLint",
            Op::Cfg(_) => "didChangeConfiguration",
        }
    }
    /// does the handler touch what is published for u?
    fn relevant_to(&self, u: Url) -> bool {
        match self {
            Op::DelFile(d, n) => u == Url::File(*d, *n),
            Op::DelDir(d) => matches!(u, Url::File(d2, _) if d2 == *d),
            Op::AddUser(..) | Op::Cfg(_) => true,
            Op::Record => false,
            o => o.url() == Some(u),
        }
    }
}

#[derive(Clone, Copy, PartialEq, Debug)]
enum K {
    Admit,
    Run(usize),
}

#[derive(Clone, Debug)]
struct Case {
    cfg0: usize,
    disk: Vec<(Url, Text)>,
    udict: Vec<usize>,
    fdict: Vec<(Url, usize)>,
    ops: Vec<Op>,
    sched: Vec<K>,
    origin: String,
}
impl Case {
    fn sched_tok(&self) -> String {
        self.sched.iter().map(|k| match k { K::Admit => "A".to_string(), K::Run(i) => i.to_string() }).collect::<Vec<_>>().join(" ")
    }
    fn to_json(&self) -> Value {
        json!({
            "cfg0": self.cfg0,
            "disk": self.disk.iter().map(|(u, t)| json!([u.tok(), t.tid, t.ident])).collect::<Vec<_>>(),
            "udict": self.udict,
            "fdict": self.fdict.iter().map(|(u, w)| json!([u.tok(), w])).collect::<Vec<_>>(),
            "ops": self.ops.iter().map(|o| o.tok(&[])).collect::<Vec<_>>(),
            "sched": self.sched_tok(),
            "origin": self.origin,
        })
    }
    fn from_json(v: &Value) -> Option<Case> {
        let mut c = Case { cfg0: v["cfg0"].as_u64().unwrap_or(0) as usize, disk: vec![], udict: vec![], fdict: vec![], ops: vec![], sched: vec![], origin: v["origin"].as_str().unwrap_or("corpus").to_string() };
        for d in v["disk"].as_array().map(|a| a.as_slice()).unwrap_or(&[]) {
            c.disk.push((Url::parse(d[0].as_str()?)?, Text { tid: d[1].as_u64()? as usize, ident: d[2].as_u64()? as usize }));
        }
        for w in v["udict"].as_array().map(|a| a.as_slice()).unwrap_or(&[]) {
            c.udict.push(w.as_u64()? as usize);
        }
        for d in v["fdict"].as_array().map(|a| a.as_slice()).unwrap_or(&[]) {
            c.fdict.push((Url::parse(d[0].as_str()?)?, d[1].as_u64()? as usize));
        }
        for o in v["ops"].as_array()? {
            c.ops.push(Op::parse(o.as_str()?)?);
        }
        renumber(&mut c.ops);
        match v["sched"].as_str() {
            Some(s) => {
                for t in s.split_whitespace() {
                    c.sched.push(if t == "A" { K::Admit } else { K::Run(t.parse().ok()?) });
                }
            }
            None => c.sched = sequential_schedule(&c.ops, &c),
        }
        Some(c)
    }
    /// a case line as sent to the model driver (the `smallest_diverging_case` of a correspondence replay file)
    fn from_case_line(line: &str) -> Option<Case> {
        let parts: Vec<&str> = line.split('|').map(|x| x.trim()).collect();
        if parts.len() != 4 {
            return None;
        }
        let ini: Vec<&str> = parts[0].split_whitespace().collect();
        let mut c = Case { cfg0: ini.first()?.parse().ok()?, disk: vec![], udict: vec![], fdict: vec![], ops: vec![], sched: vec![], origin: String::new() };
        let mut i = 1;
        while i < ini.len() {
            match ini[i] {
                "K" => {
                    c.disk.push((Url::parse(ini.get(i + 1)?)?, Text { tid: ini.get(i + 2)?.parse().ok()?, ident: ini.get(i + 3)?.parse().ok()? }));
                    i += 4;
                }
                "W" => {
                    c.udict.push(ini.get(i + 1)?.parse().ok()?);
                    i += 2;
                }
                "V" => {
                    c.fdict.push((Url::parse(ini.get(i + 1)?)?, ini.get(i + 2)?.parse().ok()?));
                    i += 3;
                }
                _ => return None,
            }
        }
        for o in parts[1].split(';').map(|x| x.trim()).filter(|x| !x.is_empty()) {
            c.ops.push(Op::parse(o)?);
        }
        let mut sched = parts[2].split_whitespace();
        c.origin = match sched.next()? {
            "b" => "batch-replay".into(),
            "k" | "q" => "replay".into(),
            _ => return None,
        };
        for t in sched {
            c.sched.push(if t == "A" { K::Admit } else { K::Run(t.parse().ok()?) });
        }
        Some(c)
    }
    fn urls(&self) -> Vec<Url> {
        let mut s = BTreeSet::new();
        for (u, _) in &self.disk {
            s.insert(*u);
        }
        for (u, _) in &self.fdict {
            s.insert(*u);
        }
        for o in &self.ops {
            if let Some(u) = o.url() {
                s.insert(u);
            }
            if let Op::DelFile(d, n) = o {
                s.insert(Url::File(*d, *n));
            }
        }
        s.into_iter().collect()
    }
}

impl Case {
    fn is_batch(&self) -> bool {
        self.origin.starts_with("batch")
    }
}

/// Is document u of the history inside the class of C09_batch_closed_exact / C09_batch_open_exact
/// (Model/C09Batch.v: batch_op, sess_ok, init_okb - re-stated here; the driver prints its own verdict and the
/// two must agree)?  All messages are didOpen/didChange/didSave/didClose; a document that ends closed or has
/// no parser is always inside; one that ends open must have no didSave/didClose in the history, its didOpens
/// carry the final language, and the newest version is carried with the newest text and only with it.
fn batch_in_class(c: &Case, u: Url) -> bool {
    if c.ops.iter().any(is_command) {
        return race_in_class(c, u);
    }
    if !c.ops.iter().all(|o| matches!(o, Op::Open(..) | Op::Change(..) | Op::Save(_) | Op::Close(_))) {
        return false;
    }
    // the client's final copy
    let mut cur: Option<(Lang, Text, usize)> = None;
    for o in &c.ops {
        match o {
            Op::Open(u2, l, t, v) if *u2 == u => cur = Some((*l, *t, *v)),
            Op::Change(u2, t, v) if *u2 == u => {
                if let Some(x) = cur.as_mut() {
                    x.1 = *t;
                    x.2 = *v;
                }
            }
            Op::Close(u2) if *u2 == u => cur = None,
            _ => {}
        }
    }
    let Some((lang, tn, vn)) = cur else { return true };
    if lang == Lang::X {
        return true;
    }
    c.ops.iter().all(|o| match o {
        Op::Open(u2, l, t, v) if *u2 == u => *l == lang && *v <= vn && ((*v == vn) == (*t == tn)),
        Op::Change(u2, t, v) if *u2 == u => *v <= vn && ((*v == vn) == (*t == tn)),
        Op::Save(u2) | Op::Close(u2) => *u2 != u,
        _ => true,
    })
}

fn is_command(o: &Op) -> bool {
    matches!(o, Op::AddUser(..) | Op::AddFile(..) | Op::Cfg(..))
}

/// Is document u of a history with commands inside the class of C09_cmd_race_exact_partial (Model/C09Race.v: race_okb,
/// re-stated here for a case that starts with nothing open; the driver prints its own verdict and the two must
/// agree)?  All messages are didOpen / didChange / add-word commands / configuration changes; u is open at the end
/// as plain text or markdown; its didOpens carry the final language, and the newest version is carried with the
/// newest text and only with it.
fn race_in_class(c: &Case, u: Url) -> bool {
    if !c.ops.iter().all(|o| matches!(o, Op::Open(..) | Op::Change(..)) || is_command(o)) {
        return false;
    }
    let mut cur: Option<(Lang, Text, usize)> = None;
    for o in &c.ops {
        match o {
            Op::Open(u2, l, t, v) if *u2 == u => cur = Some((*l, *t, *v)),
            Op::Change(u2, t, v) if *u2 == u => {
                if let Some(x) = cur.as_mut() {
                    x.1 = *t;
                    x.2 = *v;
                }
            }
            _ => {}
        }
    }
    let Some((lang, tn, vn)) = cur else { return false };
    if !(lang == Lang::P || lang == Lang::M) {
        return false;
    }
    c.ops.iter().all(|o| match o {
        Op::Open(u2, l, t, v) if *u2 == u => *l == lang && *v <= vn && ((*v == vn) == (*t == tn)),
        Op::Change(u2, t, v) if *u2 == u => *v <= vn && ((*v == vn) == (*t == tn)),
        _ => true,
    })
}

/// messages without a version get one: one more than the largest version before them (as an editor
/// that counts every message would)
fn renumber(ops: &mut [Op]) {
    let mut last = 0;
    for o in ops.iter_mut() {
        if let Op::Open(_, _, _, v) | Op::Change(_, _, v) = o {
            if *v == 0 {
                *v = last + 1;
            }
            last = last.max(*v);
        }
    }
}

/// do the versions of every document increase from one message to the next within an open session
/// (from the didOpen of a closed document to its didClose / deletion)?  The property speaks of the newest text the
/// client sent; a client whose versions go backwards has no "newest" the server could know of.
fn versions_increase(ops: &[Op]) -> bool {
    let mut cur: BTreeMap<Url, usize> = BTreeMap::new();
    for o in ops {
        match o {
            // a didOpen starts a new session only if the document is closed; a second didOpen of an open
            // document (malformed stream) is one more message of the running session
            Op::Open(u, _, _, v) => {
                if let Some(c) = cur.get(u) {
                    if *v <= *c {
                        return false;
                    }
                }
                cur.insert(*u, *v);
            }
            Op::Close(u) => {
                cur.remove(u);
            }
            Op::DelFile(d, n) => {
                cur.remove(&Url::File(*d, *n));
            }
            Op::DelDir(d) => {
                cur.retain(|u, _| !matches!(u, Url::File(d2, _) if d2 == d));
            }
            Op::Change(u, _, v) => {
                if let Some(c) = cur.get(u) {
                    if *v <= *c {
                        return false;
                    }
                }
                cur.insert(*u, *v);
            }
            _ => {}
        }
    }
    true
}

impl Case {
    /// every document keeps one language throughout a case: that of its first didOpen (plain text if none)
    fn lang_of(&self, u: Url) -> Lang {
        self.ops.iter().find_map(|o| match o { Op::Open(u2, l, ..) if *u2 == u => Some(*l), _ => None }).unwrap_or(Lang::P)
    }
}

/// number of client-interaction steps a handler needs cannot be known without running it; the
/// sequential schedule simply repeats `Run(id)` often enough (surplus steps are dropped by the executor
/// when `lenient` is set — used only to *construct* schedules, never when replaying one)
fn sequential_schedule(ops: &[Op], _c: &Case) -> Vec<K> {
    let mut v = vec![];
    for (i, _) in ops.iter().enumerate() {
        v.push(K::Admit);
        v.push(K::Run(i));
    }
    v
}

// ------------------------------------------------------------------------------------------------
// texts made of probe sentences
// ------------------------------------------------------------------------------------------------
const USER_WORDS: [&str; 2] = ["qzuwa", "qzuwb"]; // word ids 0, 1 (HarperAddToUserDict)
const FILE_WORDS: [&str; 2] = ["qzfwa", "qzfwb"]; // word ids 2, 3 (HarperAddToFileDict)
// far (edit distance > 3) from every word that can enter a dictionary: the suggestions of their lints,
// hence the context hash HarperIgnoreLint stores, do not depend on the dictionaries
const IGN_WORDS: [&str; 2] = ["xjgnpaa", "xjgnpbb"];
const IDENT_WORDS: [&str; 2] = ["qzid_aa", "qzid_bb"]; // identifier classes 1, 2

fn word_str(w: usize) -> String {
    match w {
        0 | 1 => USER_WORDS[w].to_string(),
        2 | 3 => FILE_WORDS[w - 2].to_string(),
        _ => format!("qzxw{}", "m".repeat(w)),
    }
}
fn word_id(s: &str) -> Option<usize> {
    (0..12).find(|w| word_str(*w) == s)
}

#[derive(Clone, Copy, PartialEq, Debug)]
enum ProbeKind {
    Marker,
    Cap,
    User(usize),
    FileW(usize),
    Ign(usize),
    Title,
    Ident(usize),
}
#[derive(Clone, Debug)]
struct Probe {
    kind: ProbeKind,
    line: u64,
    c0: u64,
    c1: u64,
    /// char offset of the probe in the whole text
    off: usize,
}
struct Rendered {
    text: String,
    probes: Vec<Probe>,
}

fn marker(t: Text) -> String {
    // the length identifies (tid, ident)
    format!("qzv{}", "k".repeat(1 + 3 * t.tid + t.ident.min(2)))
}

/// The text with identity (tid, ident) in language `lang`.  Every position is ASCII.  The sentences
/// with the ignorable misspellings come first: they sit at the same offsets in every version.
fn render(t: Text, lang: Lang) -> Rendered {
    // (before, probe word, after)
    let mut sentences: Vec<(String, Option<(ProbeKind, String)>, String)> = vec![];
    for (i, w) in IGN_WORDS.iter().enumerate() {
        sentences.push(("We saw ".into(), Some((ProbeKind::Ign(i), w.to_string())), " there.".into()));
    }
    if lang == Lang::M || lang == Lang::C {
        sentences.push(("We saw [".to_string(), Some((ProbeKind::Title, "qztitle".to_string())), "](http://example.com) there.".to_string()));
    }
    sentences.push(("this ".into(), Some((ProbeKind::Marker, marker(t))), " is odd.".into()));
    for (i, w) in USER_WORDS.iter().enumerate() {
        sentences.push(("We saw ".into(), Some((ProbeKind::User(i), w.to_string())), " there.".into()));
    }
    for (i, w) in FILE_WORDS.iter().enumerate() {
        sentences.push(("We saw ".into(), Some((ProbeKind::FileW(i + 2), w.to_string())), " there.".into()));
    }
    if lang == Lang::C {
        for (i, w) in IDENT_WORDS.iter().enumerate() {
            sentences.push(("We saw ".into(), Some((ProbeKind::Ident(i + 1), w.to_string())), " there.".into()));
        }
    }
    let mut text = String::new();
    let mut probes = vec![];
    let mut line = 0u64;
    let mut col = 0u64;
    let push = |s: &str, text: &mut String, line: &mut u64, col: &mut u64| {
        for ch in s.chars() {
            text.push(ch);
            if ch == '\n' {
                *line += 1;
                *col = 0;
            } else {
                *col += 1;
            }
        }
    };
    for (i, (a, p, b)) in sentences.iter().enumerate() {
        if lang == Lang::C {
            push("# ", &mut text, &mut line, &mut col);
        } else if i > 0 {
            push(" ", &mut text, &mut line, &mut col);
        }
        if let Some((ProbeKind::Marker, _)) = p {
            probes.push(Probe { kind: ProbeKind::Cap, line, c0: col, c1: col + 1, off: text.chars().count() });
        }
        push(a, &mut text, &mut line, &mut col);
        if let Some((k, w)) = p {
            probes.push(Probe { kind: *k, line, c0: col, c1: col + w.len() as u64, off: text.chars().count() });
            push(w, &mut text, &mut line, &mut col);
        }
        push(b, &mut text, &mut line, &mut col);
        if lang == Lang::C {
            push("\n", &mut text, &mut line, &mut col);
        }
    }
    if lang == Lang::C && t.ident > 0 {
        // the code below the comments defines the identifiers of class `ident`
        push(&format!("{} = 1\n", IDENT_WORDS[(t.ident - 1) % 2]), &mut text, &mut line, &mut col);
    }
    Rendered { text, probes }
}

/// settings object of configuration k (the three dictionary/statistics paths never change)
fn settings_of(base: &str, k: usize) -> Value {
    let extra = match k {
        0 => json!({}),
        _ => json!({"diagnosticSeverity": "warning", "linters": {"SentenceCapitalization": false}, "markdown": {"IgnoreLinkTitle": true}}),
    };
    settings(&format!("{base}/cfg/user.txt"), &format!("{base}/fd"), &format!("{base}/stats.txt"), extra)
}

// ------------------------------------------------------------------------------------------------
// decoding published diagnostics into their provenance
// ------------------------------------------------------------------------------------------------
#[derive(Clone, PartialEq, Debug)]
struct Tuple {
    text: Text,
    lang: Lang,
    user: BTreeSet<usize>,
    file: BTreeSet<usize>,
    ident: usize,
    lcfg: usize,
    pcfg: Option<usize>,
    scfg: usize,
    ign: BTreeSet<usize>,
}
fn words_tok(s: &BTreeSet<usize>) -> String {
    s.iter().map(|w| w.to_string()).collect::<Vec<_>>().join(".")
}
impl Tuple {
    fn tok(&self) -> String {
        format!(
            "t{}.{},{},U{},F{},i{},L{},P{},S{},G{}",
            self.text.tid,
            self.text.ident,
            self.lang.tok(),
            words_tok(&self.user),
            words_tok(&self.file),
            self.ident,
            self.lcfg,
            self.pcfg.map(|p| p.to_string()).unwrap_or("-".into()),
            self.scfg,
            words_tok(&self.ign)
        )
    }
}

fn decode_one(diags: &[Value], t: Text, lang: Lang) -> Option<Tuple> {
    let r = render(t, lang);
    let mut flagged = vec![false; r.probes.len()];
    let mut sev: Option<u64> = None;
    for d in diags {
        let (l0, c0, l1, c1) = (d["range"]["start"]["line"].as_u64()?, d["range"]["start"]["character"].as_u64()?, d["range"]["end"]["line"].as_u64()?, d["range"]["end"]["character"].as_u64()?);
        let s = d["severity"].as_u64()?;
        if sev.is_some() && sev != Some(s) {
            return None;
        }
        sev = Some(s);
        if l0 != l1 {
            return None;
        }
        let msg = d["message"].as_str().unwrap_or("");
        let is_cap = msg.starts_with("This sentence does not start with a capital letter");
        let mut hit = None;
        for (i, p) in r.probes.iter().enumerate() {
            if p.line != l0 {
                continue;
            }
            match p.kind {
                ProbeKind::Cap => {
                    if is_cap && c0 == p.c0 {
                        hit = Some(i);
                    }
                }
                ProbeKind::Marker => {
                    if !is_cap && c0 == p.c0 && c1 == p.c1 {
                        hit = Some(i);
                    }
                }
                _ => {
                    if !is_cap && c0 < p.c1 && p.c0 < c1 && c0 >= p.c0 && c1 <= p.c1 {
                        hit = Some(i);
                    }
                }
            }
        }
        flagged[hit?] = true;
    }
    let is = |k: ProbeKind| r.probes.iter().position(|p| p.kind == k).map(|i| flagged[i]);
    if is(ProbeKind::Marker) != Some(true) {
        return None;
    }
    let user = (0..2).filter(|w| is(ProbeKind::User(*w)) == Some(false)).collect();
    let file = (2..4).filter(|w| is(ProbeKind::FileW(*w)) == Some(false)).collect();
    let ign = (0..2).filter(|k| is(ProbeKind::Ign(*k)) == Some(false)).collect();
    let ident = if lang == Lang::C {
        match (is(ProbeKind::Ident(1))?, is(ProbeKind::Ident(2))?) {
            (true, true) => 0,
            (false, true) => 1,
            (true, false) => 2,
            (false, false) => return None,
        }
    } else {
        0
    };
    let lcfg = if is(ProbeKind::Cap)? { 0 } else { 1 };
    let pcfg = if lang == Lang::P { None } else { Some(if is(ProbeKind::Title)? { 0 } else { 1 }) };
    let scfg = match sev? {
        4 => 0,
        2 => 1,
        _ => return None,
    };
    Some(Tuple { text: t, lang, user, file, ident, lcfg, pcfg, scfg, ign })
}

#[derive(Clone, PartialEq, Debug)]
enum Dec {
    Empty,
    T(Tuple),
    Unknown(String),
}
impl Dec {
    fn tok(&self) -> String {
        match self {
            Dec::Empty => "E".into(),
            Dec::T(t) => t.tok(),
            Dec::Unknown(s) => format!("?{s}"),
        }
    }
}
fn decode(diags: &Value, cands: &[(Text, Lang)]) -> Dec {
    let Some(a) = diags.as_array() else { return Dec::Unknown("not-an-array".into()) };
    if a.is_empty() {
        return Dec::Empty;
    }
    let ok: Vec<Tuple> = cands.iter().filter_map(|(t, l)| decode_one(a, *t, *l)).collect();
    match ok.len() {
        1 => Dec::T(ok[0].clone()),
        0 => Dec::Unknown("undecodable".into()),
        _ => Dec::Unknown("ambiguous".into()),
    }
}

// ------------------------------------------------------------------------------------------------
// the executor
// ------------------------------------------------------------------------------------------------
#[derive(Clone, Debug, Default)]
struct Client {
    open: BTreeMap<Url, (Lang, Text, BTreeSet<usize>)>,
    ccfg: usize,
    disk: BTreeMap<Url, Text>,
}

struct Handler {
    op: Op,
    fut: Option<HandlerFut>,
    pending: Option<i64>,
    admitted: usize,
    done: Option<usize>,
    /// disk text of its document when it was admitted / at each of its steps (what a re-read can see)
    saw_disk: Vec<Option<Text>>,
}

struct Pub {
    url: Url,
    diags: Value,
    by: usize,
}

struct Outcome {
    valid: bool,
    quiescent: bool,
    stuck: bool,
    pubs: Vec<Pub>,
    handlers: Vec<(Op, usize, Option<usize>, Vec<Option<Text>>)>,
    client: Client,
    /// when the newest text of each url was sent (time of the Open / Change admission) and by which handler
    newest: BTreeMap<Url, (usize, usize)>,
    udict: BTreeSet<usize>,
    fdict: BTreeMap<Url, BTreeSet<usize>>,
    cfg_orders: BTreeMap<usize, Vec<Url>>,
    steps: usize,
    max_flight: usize,
    /// (time, url, content) whenever a document on disk changes (time 0: initial)
    disk_log: Vec<(usize, Url, Option<Text>)>,
    /// (handler, url, time) of every publication
    pub_times: Vec<(usize, Url, usize)>,
}

struct World {
    base: String,
}
impl World {
    fn uri(&self, u: Url) -> String {
        match u {
            Url::File(d, n) => format!("file://{}/docs/d{d}/f{n}.txt", self.base),
            Url::Untitled(n) => format!("untitled:Untitled-{n}"),
        }
    }
    fn path(&self, u: Url) -> Option<String> {
        match u {
            Url::File(d, n) => Some(format!("{}/docs/d{d}/f{n}.txt", self.base)),
            _ => None,
        }
    }
    fn fdict_path(&self, u: Url) -> Option<String> {
        let url = lsx::tower_lsp::lsp_types::Url::parse(&self.uri(u)).ok()?;
        let name = lsx::dictionary_io::file_dict_name(&url).ok()?;
        Some(format!("{}/fd/{}", self.base, name.to_string_lossy()))
    }
    fn read_words(path: &str) -> BTreeSet<usize> {
        std::fs::read_to_string(path).map(|s| s.lines().filter_map(word_id).collect()).unwrap_or_default()
    }
    fn reset(&self, c: &Case) {
        let _ = std::fs::remove_dir_all(&self.base);
        std::fs::create_dir_all(format!("{}/cfg", self.base)).unwrap();
        std::fs::create_dir_all(format!("{}/fd", self.base)).unwrap();
        for d in 0..3 {
            std::fs::create_dir_all(format!("{}/docs/d{d}", self.base)).unwrap();
        }
        if !c.udict.is_empty() {
            std::fs::write(format!("{}/cfg/user.txt", self.base), c.udict.iter().map(|w| word_str(*w) + "\n").collect::<String>()).unwrap();
        }
        let mut fd: BTreeMap<Url, Vec<usize>> = BTreeMap::new();
        for (u, w) in &c.fdict {
            fd.entry(*u).or_default().push(*w);
        }
        for (u, ws) in fd {
            if let Some(p) = self.fdict_path(u) {
                std::fs::write(p, ws.iter().map(|w| word_str(*w) + "\n").collect::<String>()).unwrap();
            }
        }
    }
}

fn lint_json_for(text: &Rendered, lang: Lang, k: usize, user: &BTreeSet<usize>, file: &BTreeSet<usize>) -> Value {
    // the Lint a client would hand back for the misspelling IGN_WORDS[k]: taken from a check of the text
    // with the dictionaries the server has
    use harper_core::linting::{LintGroup, Linter};
    use harper_core::parsers::{Markdown, Parser, PlainEnglish};
    use harper_core::{Dialect, Document, FstDictionary, MergedDictionary, MutableDictionary, WordMetadata};
    use std::sync::Arc;
    let mut dict = MergedDictionary::new();
    dict.add_dictionary(FstDictionary::curated());
    let mut ud = MutableDictionary::new();
    ud.extend_words(user.iter().map(|w| (word_str(*w).chars().collect::<Vec<char>>(), WordMetadata::default())));
    dict.add_dictionary(Arc::new(ud));
    let mut fdm = MutableDictionary::new();
    fdm.extend_words(file.iter().map(|w| (word_str(*w).chars().collect::<Vec<char>>(), WordMetadata::default())));
    dict.add_dictionary(Arc::new(fdm));
    let dict = Arc::new(dict);
    let parser: Box<dyn Parser> = match lang {
        Lang::M => Box::new(Markdown::default()),
        Lang::C => match harper_comments::CommentParser::new_from_language_id("python", Default::default()) {
            Some(p) => Box::new(p),
            None => Box::new(PlainEnglish),
        },
        _ => Box::new(PlainEnglish),
    };
    let doc = Document::new(&text.text, &parser, &dict);
    let mut g = LintGroup::new_curated(dict.clone(), Dialect::American);
    let lints = g.lint(&doc);
    let Some(p) = text.probes.iter().find(|p| p.kind == ProbeKind::Ign(k)) else { return Value::Null };
    for l in lints {
        if l.span.start == p.off {
            return serde_json::to_value(&l).unwrap_or(Value::Null);
        }
    }
    Value::Null
}

fn request_of(w: &World, c: &Case, op: &Op, client: &Client, udict: &BTreeSet<usize>, fdict: &BTreeSet<usize>) -> (&'static str, Value, bool) {
    match op {
        Op::Open(u, l, t, v) => ("textDocument/didOpen", json!({"textDocument": {"uri": w.uri(*u), "languageId": l.lsp_id(), "version": *v as i64, "text": render(*t, *l).text}}), false),
        Op::Change(u, t, v) => {
            let lang = c.lang_of(*u);
            ("textDocument/didChange", json!({"textDocument": {"uri": w.uri(*u), "version": *v as i64}, "contentChanges": [{"text": render(*t, lang).text}]}), false)
        }
        Op::Save(u) => ("textDocument/didSave", json!({"textDocument": {"uri": w.uri(*u)}}), false),
        Op::Close(u) => ("textDocument/didClose", json!({"textDocument": {"uri": w.uri(*u)}}), false),
        Op::DelFile(d, n) => ("workspace/didChangeWatchedFiles", json!({"changes": [{"uri": w.uri(Url::File(*d, *n)), "type": 3}]}), false),
        Op::DelDir(d) => ("workspace/didChangeWatchedFiles", json!({"changes": [{"uri": format!("file://{}/docs/d{d}/", w.base), "type": 3}]}), false),
        Op::AddUser(x, u) => ("workspace/executeCommand", json!({"command": "HarperAddToUserDict", "arguments": [word_str(*x), w.uri(*u)]}), true),
        Op::AddFile(x, u) => ("workspace/executeCommand", json!({"command": "HarperAddToFileDict", "arguments": [word_str(*x), w.uri(*u)]}), true),
        Op::Ignore(u, k) => {
            // the ignorable misspellings sit at the same offsets in every version of a document
            let lang = c.lang_of(*u);
            let text = client.open.get(u).map(|x| x.1).unwrap_or(Text { tid: 0, ident: 0 });
            let lint = lint_json_for(&render(text, lang), lang, *k, udict, fdict);
            ("workspace/executeCommand", json!({"command": "HarperIgnoreLint", "arguments": [w.uri(*u), lint]}), true)
        }
        Op::Record => ("workspace/executeCommand", json!({"command": "HarperRecordLint", "arguments": ["{\"LintConfigUpdate\":{}}"]}), true),
        Op::Cfg(c) => ("workspace/didChangeConfiguration", json!({"settings": settings_of(&w.base, *c)}), false),
    }
}

/// what the client and the file system do at the moment the message is sent
fn client_effect(w: &World, op: &Op, cl: &mut Client) {
    match op {
        Op::Open(u, l, t, _) => {
            cl.open.insert(*u, (*l, *t, BTreeSet::new()));
        }
        Op::Change(u, t, _) => {
            if let Some(e) = cl.open.get_mut(u) {
                e.1 = *t;
            }
        }
        Op::Save(u) => {
            if let (Some(e), Some(p)) = (cl.open.get(u), w.path(*u)) {
                std::fs::write(p, render(e.1, e.0).text).unwrap();
                cl.disk.insert(*u, e.1);
            }
        }
        Op::Close(u) => {
            cl.open.remove(u);
        }
        Op::DelFile(d, n) => {
            let u = Url::File(*d, *n);
            if let Some(p) = w.path(u) {
                let _ = std::fs::remove_file(p);
            }
            cl.disk.remove(&u);
            cl.open.remove(&u);
        }
        Op::DelDir(d) => {
            let gone: Vec<Url> = cl.disk.keys().chain(cl.open.keys()).filter(|u| matches!(u, Url::File(d2, _) if d2 == d)).cloned().collect();
            for u in gone {
                if let Some(p) = w.path(u) {
                    let _ = std::fs::remove_file(p);
                }
                cl.disk.remove(&u);
                cl.open.remove(&u);
            }
        }
        Op::Ignore(u, k) => {
            if let Some(e) = cl.open.get_mut(u) {
                e.2.insert(*k);
            }
        }
        Op::Cfg(c) => cl.ccfg = *c,
        Op::AddUser(..) | Op::AddFile(..) | Op::Record => {}
    }
}

/// Execute a case on the real Backend.  `lenient`: steps that name a finished handler are skipped
/// instead of invalidating the schedule, and the schedule actually executed is returned in `executed`.
fn execute(w: &World, c: &Case, lenient: bool, executed: &mut Vec<K>) -> Outcome {
    w.reset(c);
    let mut cl = Client { ccfg: c.cfg0, ..Default::default() };
    // the language of a document on disk is not known to the file system: texts on disk are rendered in
    // the language of the first didOpen of that url in the history (plain text if there is none)
    for (u, t) in &c.disk {
        let lang = c.lang_of(*u);
        if let Some(p) = w.path(*u) {
            std::fs::write(p, render(*t, lang).text).unwrap();
            cl.disk.insert(*u, *t);
        }
    }
    let mut disk_log: Vec<(usize, Url, Option<Text>)> = cl.disk.iter().map(|(u, t)| (0, *u, Some(*t))).collect();
    let mut s = Session::new(settings_of(&w.base, c.cfg0));
    // generous: the machine may be heavily oversubscribed; a handler that is really stuck costs two minutes
    s.watchdog = std::time::Duration::from_secs(120);
    let mut hs: Vec<Handler> = vec![];
    let mut pubs: Vec<Pub> = vec![];
    let mut newest: BTreeMap<Url, (usize, usize)> = BTreeMap::new();
    let mut next_op = 0;
    let mut valid = true;
    let mut stuck = false;
    let mut time = 0;
    let mut max_flight = 0;
    let mut pub_times: Vec<(usize, Url, usize)> = vec![];
    let rev: HashMap<String, Url> = c.urls().into_iter().map(|u| (w.uri(u), u)).collect();
    let base_pub = s.published.len();
    debug_assert!(base_pub == 0);
    for k in &c.sched {
        time += 1;
        match *k {
            K::Admit => {
                let in_flight = hs.iter().filter(|h| h.fut.is_some()).count();
                if next_op >= c.ops.len() || in_flight >= 4 {
                    valid = false;
                    break;
                }
                let op = c.ops[next_op].clone();
                next_op += 1;
                let disk_before = cl.disk.clone();
                client_effect(w, &op, &mut cl);
                for u in c.urls() {
                    if disk_before.get(&u) != cl.disk.get(&u) {
                        disk_log.push((time, u, cl.disk.get(&u).cloned()));
                    }
                }
                s.settings = settings_of(&w.base, cl.ccfg);
                if let Op::Open(u, ..) | Op::Change(u, ..) = &op {
                    newest.insert(*u, (time, hs.len()));
                }
                let ud = World::read_words(&format!("{}/cfg/user.txt", w.base));
                let fd = op.url().and_then(|u| w.fdict_path(u)).map(|p| World::read_words(&p)).unwrap_or_default();
                let (method, params, is_req) = request_of(w, c, &op, &cl, &ud, &fd);
                let fut = s.start(method, params, is_req);
                let saw = op.url().map(|u| cl.disk.get(&u).cloned());
                hs.push(Handler { op, fut: Some(fut), pending: None, admitted: time, done: None, saw_disk: saw.into_iter().collect() });
                max_flight = max_flight.max(hs.iter().filter(|h| h.fut.is_some()).count());
                executed.push(K::Admit);
            }
            K::Run(id) => {
                if id >= hs.len() || hs[id].fut.is_none() {
                    if lenient {
                        continue;
                    }
                    valid = false;
                    break;
                }
                if let Some(cfgid) = hs[id].pending.take() {
                    let st = settings_of(&w.base, cl.ccfg);
                    s.answer_with(cfgid, &st);
                }
                let before = s.published.len();
                let mut fut = hs[id].fut.take().unwrap();
                let r = s.step(&mut fut);
                for (uri, d) in &s.published[before..] {
                    match rev.get(uri) {
                        Some(u) => {
                            pubs.push(Pub { url: *u, diags: d.clone(), by: id });
                            pub_times.push((id, *u, time));
                        }
                        None => pubs.push(Pub { url: Url::Untitled(999), diags: json!("unknown uri"), by: id }),
                    }
                }
                if let Some(u) = hs[id].op.url() {
                    let d = cl.disk.get(&u).cloned();
                    hs[id].saw_disk.push(d);
                }
                match r {
                    Step::Done => hs[id].done = Some(time),
                    Step::ConfigRequested(cid) => {
                        hs[id].pending = Some(cid);
                        hs[id].fut = Some(fut);
                    }
                    Step::Stuck => {
                        stuck = true;
                        valid = false;
                    }
                }
                executed.push(K::Run(id));
                if stuck {
                    break;
                }
            }
        }
    }
    let quiescent = valid && next_op == c.ops.len() && hs.iter().all(|h| h.fut.is_none());
    let mut cfg_orders = BTreeMap::new();
    for (i, h) in hs.iter().enumerate() {
        if let Op::Cfg(_) = h.op {
            cfg_orders.insert(i, pubs.iter().filter(|p| p.by == i).map(|p| p.url).collect::<Vec<_>>());
        }
    }
    let udict = World::read_words(&format!("{}/cfg/user.txt", w.base));
    let mut fdict = BTreeMap::new();
    for u in c.urls() {
        if let Some(p) = w.fdict_path(u) {
            fdict.insert(u, World::read_words(&p));
        }
    }
    let steps = executed.len();
    Outcome {
        valid,
        quiescent,
        stuck,
        pubs,
        handlers: hs.into_iter().map(|h| (h.op, h.admitted, h.done, h.saw_disk)).collect(),
        client: cl,
        newest,
        udict,
        fdict,
        cfg_orders,
        steps,
        max_flight,
        disk_log,
        pub_times,
    }
}

/// candidate (text, language) pairs for decoding what is published for u
fn candidates(c: &Case, u: Url) -> Vec<(Text, Lang)> {
    let mut texts = BTreeSet::new();
    let mut langs = BTreeSet::new();
    for (u2, t) in &c.disk {
        if *u2 == u {
            texts.insert(*t);
        }
    }
    for o in &c.ops {
        match o {
            Op::Open(u2, l, t, _) if *u2 == u => {
                texts.insert(*t);
                langs.insert(*l);
            }
            Op::Change(u2, t, _) if *u2 == u => {
                texts.insert(*t);
            }
            _ => {}
        }
    }
    let mut v = vec![];
    for t in &texts {
        for l in &langs {
            if *l != Lang::X {
                v.push((*t, *l));
            }
        }
    }
    v
}

// ------------------------------------------------------------------------------------------------
// the reference: what a fresh server says about (text, language, dictionaries, settings, ignored)
// ------------------------------------------------------------------------------------------------
#[derive(Default)]
struct RefCache {
    map: HashMap<String, Value>,
    hits: u64,
    misses: u64,
}

fn reference(w: &World, cache: &mut RefCache, u: Url, lang: Lang, text: Text, ign: &BTreeSet<usize>, ccfg: usize, udict: &BTreeSet<usize>, fdict: &BTreeSet<usize>) -> Value {
    let key = format!("{}|{:?}|{:?}|{:?}|{}|{:?}|{:?}", u.is_file(), lang, text, ign, ccfg, udict, if u.is_file() { fdict.clone() } else { BTreeSet::new() });
    if let Some(v) = cache.map.get(&key) {
        cache.hits += 1;
        return v.clone();
    }
    cache.misses += 1;
    let mut s = Session::new(settings_of(&w.base, ccfg));
    let uri = w.uri(u);
    let r = render(text, lang);
    s.did_open(&uri, lang.lsp_id(), &r.text);
    for k in ign {
        let lint = lint_json_for(&r, lang, *k, udict, fdict);
        s.command("HarperIgnoreLint", vec![json!(uri), lint]);
    }
    let v = s.last_published(&uri).cloned().unwrap_or(json!([]));
    cache.map.insert(key, v.clone());
    v
}

// ------------------------------------------------------------------------------------------------
// one case: execute, decode, compare with the property, emit the correspondence line
// ------------------------------------------------------------------------------------------------
struct Ctx {
    w: World,
    cache: RefCache,
    /// correspondence lines (case for the model, what the implementation did)
    lines: Vec<(String, String)>,
}

fn run_case(rep: &mut Report, ctx: &mut Ctx, c: &Case) {
    let mut executed = vec![];
    let o = execute(&ctx.w, c, false, &mut executed);
    emit(rep, ctx, c, &o);
}

fn emit(rep: &mut Report, ctx: &mut Ctx, c: &Case, o: &Outcome) {
    rep.eval();
    let urls = c.urls();
    let input = c.to_json();
    // ---- case line for the model
    let mut ini = format!("{}", c.cfg0);
    for (u, t) in &c.disk {
        if u.is_file() {
            ini.push_str(&format!(" K {} {} {}", u.tok(), t.tid, t.ident));
        }
    }
    for w in &c.udict {
        ini.push_str(&format!(" W {w}"));
    }
    for (u, w) in &c.fdict {
        ini.push_str(&format!(" V {} {w}", u.tok()));
    }
    let hist = c.ops.iter().enumerate().map(|(i, op)| op.tok(o.cfg_orders.get(&i).map(|v| v.as_slice()).unwrap_or(&[]))).collect::<Vec<_>>().join(" ; ");
    // batch cases (didOpen/didChange/didSave/didClose only, Model/C09Batch.v): the driver runs the schedule through its
    // expansion to instr steps and adds the verdict of the shapes of C09_batch_closed_exact / C09_batch_open_exact
    let batch = c.is_batch();
    // no two handlers overlapped and everything was handled: a SEQUENTIAL history.  The driver then takes the world
    // from the big-step specification Model/C09Seq.v (sfold) - it must be the one krun / run_seq end in - and adds which
    // components of the entry lag (C09_sequential_exact); the same is read off the real server's last publications below
    let overlapping = o.handlers.iter().enumerate().any(|(i, h)| o.handlers.iter().enumerate().any(|(j, g)| i < j && g.1 < h.2.unwrap_or(usize::MAX)));
    let seq = !batch && o.valid && o.quiescent && !overlapping && !o.stuck;
    let case_line = format!("{ini} | {hist} | {} {} | {}", if batch { "b" } else if seq { "q" } else { "k" }, c.sched_tok(), urls.iter().map(|u| u.tok()).collect::<Vec<_>>().join(" "));
    if o.stuck {
        rep.fail("stuck", "a handler neither finished nor asked the client anything within 120 s".into(), input.clone());
    }
    if !o.valid {
        ctx.lines.push((case_line.clone(), "P".to_string()));
        rep.count("schedule:not-executable");
        return;
    }
    // ---- decode the log
    let mut log: Vec<(String, String)> = vec![];
    let mut last: BTreeMap<Url, (Dec, Value, usize)> = BTreeMap::new();
    let mut by_url: BTreeMap<Url, Vec<(Dec, usize)>> = BTreeMap::new();
    for p in &o.pubs {
        let d = decode(&p.diags, &candidates(c, p.url));
        if let Dec::Unknown(_) = d {
            rep.monitor("undecodable_publication", 1);
        }
        log.push((p.url.tok(), d.tok()));
        by_url.entry(p.url).or_default().push((d.clone(), p.by));
        last.insert(p.url, (d, p.diags.clone(), p.by));
    }
    rep.monitor("publications_decoded", o.pubs.len() as u64);
    // runs of consecutive empty publications are sorted by url (HashMap order of did_change_watched_files)
    let mut canon: Vec<(String, String)> = vec![];
    let mut run: Vec<(String, String)> = vec![];
    for x in log {
        if x.1 == "E" {
            run.push(x);
        } else {
            run.sort();
            canon.append(&mut run);
            canon.push(x);
        }
    }
    run.sort();
    canon.append(&mut run);
    // ---- the property, evaluated on the real server's last word
    let mut stale: Vec<Url> = vec![];
    // a client whose versions go backwards has no newest text the server could know of: such histories
    // (malformed stream only) are compared with the model, the property is not evaluated on them
    let increasing = versions_increase(&c.ops);
    if !increasing {
        rep.count("versions:not-increasing");
    }
    if o.quiescent {
        for u in &urls {
            let got = last.get(u).map(|x| x.1.clone()).unwrap_or(json!([]));
            let fd = o.fdict.get(u).cloned().unwrap_or_default();
            let want = match o.client.open.get(u) {
                Some((lang, text, ign)) => reference(&ctx.w, &mut ctx.cache, *u, *lang, *text, ign, o.client.ccfg, &o.udict, &fd),
                None => json!([]),
            };
            if got != want {
                stale.push(*u);
                if increasing {
                    classify(rep, o, *u, by_url.get(u).map(|v| v.as_slice()).unwrap_or(&[]), &input);
                }
            }
        }
        rep.count(if stale.is_empty() { "last-word:right" } else { "last-word:stale" });
    } else {
        rep.count("schedule:not-quiescent");
    }
    let impl_line = format!(
        "{} # {} # {}",
        canon.iter().map(|(u, p)| format!("{u}={p}")).collect::<Vec<_>>().join(" "),
        if o.quiescent { "q" } else { "n" },
        stale.iter().map(|u| u.tok()).collect::<Vec<_>>().join(" ")
    );
    let impl_line = if batch {
        // what the shapes must predict: exactly the documents whose last word is wrong on the real server
        let shape = if !o.quiescent {
            "-".to_string()
        } else {
            urls.iter()
                .filter_map(|u| {
                    // histories with commands: the class and the shape of C09_cmd_race_exact_partial (Model/C09Race.v)
                    let kind = if c.ops.iter().any(is_command) { "race-url" } else { "batch-url" };
                    if !batch_in_class(c, *u) {
                        rep.count(&format!("{kind}:outside-class"));
                        Some(format!("~{}", u.tok()))
                    } else if stale.contains(u) {
                        rep.count(&format!("{kind}:in-class-wrong(overtaken)"));
                        Some(u.tok())
                    } else {
                        rep.count(&format!("{kind}:in-class-right"));
                        None
                    }
                })
                .collect::<Vec<_>>()
                .join(" ")
        };
        format!("{} # {}", impl_line.trim(), shape)
    } else if seq {
        // which components of the provenance of the REAL server's last word lag behind the client: text (t),
        // dictionary files (d), parser settings (c; not observable for plain text) - for documents that are open on
        // the client and whose last publication decodes to a check
        let mut flags: Vec<String> = vec![];
        for u in &urls {
            if let (Some((Dec::T(t), _, _)), Some((_lang, text, _ign))) = (last.get(u), o.client.open.get(u)) {
                let fd = o.fdict.get(u).cloned().unwrap_or_default();
                let ft = t.text != *text;
                let fdict = t.user != o.udict || t.file != fd;
                let fc = t.pcfg.map(|p| p != o.client.ccfg).unwrap_or(false);
                if ft || fdict || fc {
                    flags.push(format!("{}:{}{}{}", u.tok(), if ft { "t" } else { "" }, if fdict { "d" } else { "" }, if fc { "c" } else { "" }));
                    rep.count(&format!("sequential-lag:{}{}{}", if ft { "t" } else { "" }, if fdict { "d" } else { "" }, if fc { "c" } else { "" }));
                } else {
                    rep.count("sequential-lag:none");
                }
            }
        }
        format!("{} # {}", impl_line.trim(), flags.join(" "))
    } else {
        impl_line
    };
    ctx.lines.push((case_line.clone(), impl_line.trim().to_string()));
    // ---- distribution
    rep.count(if overlapping { "handlers:overlapping" } else { "handlers:sequential" });
    rep.count(&format!("origin:{}", c.origin));
    rep.count_n("ops", c.ops.len() as u64);
    for op in &c.ops {
        rep.count(&format!("op:{}", op.name()));
    }
    rep.count(&format!("max-in-flight:{}", o.max_flight));
    if c.ops.len() >= 2 && !o.pubs.is_empty() {
        rep.nontrivial(&case_line);
    }
    if rep.samples.len() < 6 && overlapping && !stale.is_empty() {
        rep.sample(json!({"case": case_line, "published": impl_line}));
    }
}

/// Attribute a stale last word to a cause, from the harness's own records only (admission and
/// completion times of the handlers, who published what, what was on disk when).
/// For every component of the provenance that differs from what the property demands, the *origin* is
/// the handler that first published the stale value in the trailing run of publications carrying it
/// (later handlers may merely re-publish a doc_state that was already stale).
fn classify(rep: &mut Report, o: &Outcome, u: Url, pubs: &[(Dec, usize)], input: &Value) {
    let open = o.client.open.get(&u);
    let desc = |i: usize| format!("{} (message {i})", o.handlers[i].0.name());
    let dec = pubs.last().map(|x| x.0.clone()).unwrap_or(Dec::Empty);
    // origin of the trailing run of publications satisfying `same`
    let origin = |same: &dyn Fn(&Dec) -> bool| -> Option<usize> {
        let mut h = None;
        for (d, by) in pubs.iter().rev() {
            if same(d) {
                h = Some(*by);
            } else {
                break;
            }
        }
        h
    };
    // Completion order reversed: a handler of kind `kind` (the one that should have had the last word for the
    // component in question) was sent later and finished earlier than another handler concerned with this
    // document, and the stale value was first published by that other handler or while both were in flight.
    // Returns the later-sent handler.
    let overtaker = |h: usize, kind: &dyn Fn(&Op) -> bool| -> Option<(usize, usize)> {
        let first_pub_of_h = o.pub_times.iter().filter(|(by, url, _)| *by == h && *url == u).map(|x| x.2).min().unwrap_or(o.handlers[h].1);
        for j2 in 0..o.handlers.len() {
            let (ref op2, adm2, done2, _) = o.handlers[j2];
            if !kind(op2) || done2.is_none() {
                continue;
            }
            for j1 in 0..o.handlers.len() {
                let (ref op1, adm1, done1, _) = o.handlers[j1];
                if j1 != j2 && op1.relevant_to(u) && adm1 < adm2 && done2 < done1 && (j1 == h || (first_pub_of_h >= adm2 && Some(first_pub_of_h) <= done1)) {
                    return Some((j1, j2));
                }
            }
        }
        None
    };
    let reversed = |p: (usize, usize)| format!("two handlers in flight, completion order reversed: {} was handled to the end before {} (sent later, finished earlier)", desc(p.1), desc(p.0));
    let last_finished = |kind: &dyn Fn(&Op) -> bool| -> Option<usize> { (0..o.handlers.len()).filter(|j| kind(&o.handlers[*j].0)).max_by_key(|j| o.handlers[*j].2) };
    let disk_during = |from: usize, to: usize| -> Vec<Text> {
        let mut cur: Option<Text> = None;
        let mut seen = vec![];
        for (time, u2, t) in &o.disk_log {
            if *u2 != u {
                continue;
            }
            if *time <= from {
                cur = *t;
            } else if *time <= to {
                seen.extend(t.iter().cloned());
            }
        }
        seen.extend(cur.iter().cloned());
        seen
    };
    let readable = u.is_file() && o.client.disk.contains_key(&u);
    let why_unreadable = if u.is_file() { "no such file" } else { "untitled" };
    let text_op_on_u = |op: &Op| matches!(op, Op::Open(..) | Op::Change(..) | Op::Save(_) | Op::Close(_)) && op.url() == Some(u) || matches!(op, Op::DelFile(..) | Op::DelDir(_)) && op.relevant_to(u);
    // every handler that concerns u and whose life overlapped with that of h is a didChange of u
    let only_changes_around = |h: usize| -> bool {
        let (ref oph, adm, done, _) = o.handlers[h];
        let done = done.unwrap_or(usize::MAX);
        matches!(oph, Op::Change(..))
            && o.handlers.iter().all(|(op2, adm2, done2, _)| {
                let overlaps = *adm2 <= done && done2.unwrap_or(usize::MAX) >= adm;
                !overlaps || !op2.relevant_to(u) || (matches!(op2, Op::Change(..)) && op2.url() == Some(u))
            })
    };
    let mut causes: Vec<(String, String)> = vec![];
    let unexplained = |causes: &mut Vec<(String, String)>, what: String| causes.push(("unexplained".into(), what));
    match (&dec, open) {
        (Dec::Unknown(s), _) => unexplained(&mut causes, format!("the last publication for {} could not be decoded ({s})", u.tok())),
        (Dec::Empty, None) => unexplained(&mut causes, format!("closed document {} ends with non-empty diagnostics", u.tok())),
        (Dec::T(_), None) => {
            let h = origin(&|d| matches!(d, Dec::T(_)));
            // C09_close_wins: once did_close / a deletion has removed the document, only a didOpen can bring it
            // back (update_document with language_id None on an absent entry inserts and removes).  A closed
            // document that ends with diagnostics is the known reorder only when a didOpen was overtaken.
            let by_open = h.map(|h| matches!(o.handlers[h].0, Op::Open(..))).unwrap_or(false);
            match h.filter(|_| by_open).and_then(|h| overtaker(h, &|op| (matches!(op, Op::Close(_)) && op.url() == Some(u)) || (matches!(op, Op::DelFile(..) | Op::DelDir(_)) && op.relevant_to(u))).map(|j| (h, j))) {
                Some((h, j)) => causes.push(("reorder".into(), format!(
                    "{}: {}; {} re-inserted the document after it had been removed: closed on the client, last publication not empty",
                    u.tok(), reversed(j), desc(h)))),
                None => unexplained(&mut causes, format!(
                    "{}: document is closed/deleted on the client but the last publication is {}{}",
                    u.tok(), dec.tok(),
                    h.filter(|_| !by_open).map(|h| format!(" (first published by {}: only a didOpen may re-create a document that was closed)", desc(h))).unwrap_or_default())),
            }
        }
        (Dec::Empty, Some(_)) => {
            let h = origin(&|d| matches!(d, Dec::Empty));
            match h.and_then(|h| overtaker(h, &|op| matches!(op, Op::Open(..) | Op::Change(..)) && op.url() == Some(u)).map(|j| (h, j))) {
                Some((h, j)) => causes.push(("reorder".into(), format!(
                    "{}: {}; {} emptied the diagnostics afterwards: open on the client, last publication empty",
                    u.tok(), reversed(j), desc(h)))),
                None => {
                    // never published at all: the didOpen may have been overtaken by something that made it a no-op
                    unexplained(&mut causes, format!("{}: document is open on the client but the last publication is empty", u.tok()))
                }
            }
        }
        (Dec::T(t), Some((lang, text, ign))) => {
            let fd = o.fdict.get(&u).cloned().unwrap_or_default();
            let text_stale = t.text != *text || t.lang != *lang;
            if text_stale {
                let h = origin(&|d| matches!(d, Dec::T(x) if x.text == t.text && x.lang == t.lang)).unwrap();
                let hop = &o.handlers[h].0;
                if let (true, Some(j)) = (only_changes_around(h), overtaker(h, &text_op_on_u)) {
                    // what the version check of update_document (DocumentState.version) rules out: nothing but
                    // didChange handlers of this document overlapped with the one that installed the stale text
                    causes.push(("version-order".into(), format!(
                        "{}: {}; only didChange handlers of the document were in flight, yet the last word is computed from text {} (first published by {}), newest text is {}",
                        u.tok(), reversed(j), t.text.tid, desc(h), text.tid)));
                } else if let Some(j) = overtaker(h, &text_op_on_u) {
                    causes.push(("reorder".into(), format!(
                        "{}: {}; last word computed from text {} (first published by {}), newest text is {}",
                        u.tok(), reversed(j), t.text.tid, desc(h), text.tid)));
                } else if matches!(hop, Op::AddUser(..) | Op::AddFile(..) | Op::Cfg(_)) && disk_during(o.handlers[h].1, o.handlers[h].2.unwrap_or(usize::MAX)).contains(&t.text) {
                    causes.push(("disk-reread".into(), format!(
                        "{}: disk re-read with dirty buffer via {}: diagnostics are those of the file (text {}), the client's buffer holds text {}",
                        u.tok(), hop.name(), t.text.tid, text.tid)));
                } else {
                    unexplained(&mut causes, format!("{}: last word computed from text {} (first published by {}), newest text is {}", u.tok(), t.text.tid, desc(h), text.tid));
                }
            }
            if t.user != o.udict {
                let h = origin(&|d| matches!(d, Dec::T(x) if x.user == t.user)).unwrap();
                let is_add = |op: &Op| matches!(op, Op::AddUser(..));
                if let Some(j) = overtaker(h, &is_add) {
                    causes.push(("reorder".into(), format!("{}: {}; user dictionary as read by {} before it was written", u.tok(), reversed(j), desc(h))));
                } else {
                    match last_finished(&is_add) {
                        Some(j) if o.handlers[j].0.url() != Some(u) => causes.push(("dict-other-doc".into(), format!(
                            "{}: HarperAddToUserDict for {} changed the user dictionary; this open document was not re-checked",
                            u.tok(), o.handlers[j].0.url().map(|x| x.tok()).unwrap_or_default()))),
                        Some(_) if !readable => causes.push(("no-reread".into(), format!(
                            "{}: HarperAddToUserDict re-publishes the old check because the document cannot be read from disk ({why_unreadable})", u.tok()))),
                        _ => unexplained(&mut causes, format!("{}: last word under user dictionary {:?}, current {:?}", u.tok(), t.user, o.udict)),
                    }
                }
            }
            if t.file != fd {
                let h = origin(&|d| matches!(d, Dec::T(x) if x.file == t.file)).unwrap();
                let is_add = |op: &Op| matches!(op, Op::AddFile(..)) && op.url() == Some(u);
                if let Some(j) = overtaker(h, &is_add) {
                    causes.push(("reorder".into(), format!("{}: {}; file dictionary as read by {} before it was written", u.tok(), reversed(j), desc(h))));
                } else if last_finished(&is_add).is_some() && !readable {
                    causes.push(("no-reread".into(), format!("{}: HarperAddToFileDict re-publishes the old check because the document cannot be read from disk ({why_unreadable})", u.tok())));
                } else {
                    unexplained(&mut causes, format!("{}: last word under file dictionary {:?}, current {:?}", u.tok(), t.file, fd));
                }
            }
            let want_ident = if *lang == Lang::C { text.ident } else { 0 };
            if !text_stale && t.ident != want_ident {
                if *lang == Lang::C && t.ident == 0 {
                    // (F17e and F17f are repaired: a source file re-checked without its identifiers is never known)
                    causes.push(("ident-dropped".into(), format!("{}: code document re-checked without its identifier dictionary (identifier set {} of the text is reported as misspelt)", u.tok(), want_ident)));
                } else {
                    unexplained(&mut causes, format!("{}: identifier dictionary {} instead of {}", u.tok(), t.ident, want_ident));
                }
            }
            let is_cfg = |op: &Op| matches!(op, Op::Cfg(_));
            let cc = o.client.ccfg;
            let comps: [(&str, bool, Box<dyn Fn(&Tuple) -> bool>); 3] = [
                ("linter", t.lcfg != cc, Box::new(|x: &Tuple| x.lcfg == t.lcfg)),
                ("parser", t.pcfg.map(|p| p != cc).unwrap_or(false), Box::new(|x: &Tuple| x.pcfg == t.pcfg)),
                ("severity", t.scfg != cc, Box::new(|x: &Tuple| x.scfg == t.scfg)),
            ];
            for (name, differs, same) in comps.iter() {
                if !*differs {
                    continue;
                }
                let h = origin(&|d| matches!(d, Dec::T(x) if same(x))).unwrap();
                if let Some(j) = overtaker(h, &is_cfg) {
                    causes.push(("reorder".into(), format!("{}: {}; stale {name} configuration first published by {}", u.tok(), reversed(j), desc(h))));
                } else if *name == "parser" && last_finished(&is_cfg).is_some() && !readable {
                    causes.push(("no-reread".into(), format!("{}: didChangeConfiguration rebuilt the linter but could not re-parse the document (cannot be read from disk: {why_unreadable})", u.tok())));
                } else {
                    unexplained(&mut causes, format!("{}: last word under {name} configuration of settings {}, current settings {}", u.tok(), 1 - cc.min(1), cc));
                }
            }
            if !text_stale && t.ign != *ign {
                let text_op = |op: &Op| matches!(op, Op::Open(..) | Op::Change(..) | Op::Save(_) | Op::Close(_)) && op.url() == Some(u);
                // an ignore the client asked for but the server does not apply: it was handled while the
                // document was not (yet) in doc_state, i.e. it overtook an earlier message for the document
                for k in ign.difference(&t.ign) {
                    let j = (0..o.handlers.len()).rev().find(|j| o.handlers[*j].0 == Op::Ignore(u, *k));
                    let overtook = j.and_then(|j| {
                        (0..o.handlers.len()).find(|h| text_op(&o.handlers[*h].0) && o.handlers[*h].1 < o.handlers[j].1 && o.handlers[*h].2 > o.handlers[j].2).map(|h| (j, h))
                    });
                    match overtook {
                        Some((j, h)) => causes.push(("reorder".into(), format!("{}: {} (sent later, finished earlier) was handled before {} had put the document into doc_state; the ignore is lost", u.tok(), desc(j), desc(h)))),
                        None => unexplained(&mut causes, format!("{}: ignored lints {:?}, client ignored {:?}", u.tok(), t.ign, ign)),
                    }
                }
                // an ignore the server applies although the client's document no longer has it (re-opened)
                if t.ign.difference(ign).next().is_some() {
                    let h = origin(&|d| matches!(d, Dec::T(x) if x.ign == t.ign)).unwrap();
                    match overtaker(h, &text_op_on_u) {
                        Some(j) => causes.push(("reorder".into(), format!("{}: {}; {} kept the ignore list of a document that had been closed", u.tok(), reversed(j), desc(h)))),
                        None => unexplained(&mut causes, format!("{}: ignored lints {:?}, client ignored {:?}", u.tok(), t.ign, ign)),
                    }
                }
            }
            if causes.is_empty() {
                unexplained(&mut causes, format!("{}: published diagnostics differ from the fresh check although they decode to the expected provenance {}", u.tok(), t.tok()));
            }
        }
    }
    for (class, what) in causes {
        rep.fail(&class, what, input.clone());
    }
}

// ------------------------------------------------------------------------------------------------
// generators
// ------------------------------------------------------------------------------------------------
const URLS: [Url; 4] = [Url::File(0, 0), Url::File(0, 1), Url::File(1, 0), Url::Untitled(0)];

/// versions as editors number them: every message of a document one (or a few) higher than the previous one;
/// a re-opened document either goes on counting or starts again at 1 (VS Code does the latter)
#[derive(Default)]
struct Versions {
    cur: BTreeMap<Url, usize>,
}
impl Versions {
    fn open(&mut self, r: &mut Rng, u: Url) -> usize {
        let v = if r.chance(1, 3) { 1 } else { self.cur.values().max().cloned().unwrap_or(0) + 1 };
        self.cur.insert(u, v);
        v
    }
    fn change(&mut self, r: &mut Rng, u: Url, well_formed: bool) -> usize {
        let c = self.cur.get(&u).cloned().unwrap_or(0);
        let v = if !well_formed && r.chance(1, 5) { 1 + r.below(c.max(1)) } else { c + 1 + r.below(2) };
        self.cur.insert(u, v.max(c));
        v
    }
}

fn random_op(r: &mut Rng, cl: &Client, next_tid: &mut usize, well_formed: bool, langs: &BTreeMap<Url, Lang>, vers: &mut Versions) -> Op {
    let open: Vec<Url> = cl.open.keys().cloned().collect();
    let closed: Vec<Url> = URLS.iter().filter(|u| !cl.open.contains_key(u)).cloned().collect();
    let any = |r: &mut Rng| *r.pick(&URLS);
    let fresh_text = |r: &mut Rng, next_tid: &mut usize, lang: Lang| {
        let t = Text { tid: *next_tid % 6, ident: if lang == Lang::C { r.below(3) } else { 0 } };
        *next_tid += 1;
        t
    };
    loop {
        let k = r.below(100);
        let pick_open = |r: &mut Rng| if well_formed || r.chance(9, 10) { if open.is_empty() { None } else { Some(*r.pick(&open)) } } else { Some(any(r)) };
        match k {
            0..=17 => {
                let u = if well_formed || r.chance(9, 10) { if closed.is_empty() { continue } else { *r.pick(&closed) } } else { any(r) };
                let lang = langs[&u];
                let t = fresh_text(r, next_tid, lang);
                let v = vers.open(r, u);
                return Op::Open(u, lang, t, v);
            }
            18..=47 => {
                let Some(u) = pick_open(r) else { continue };
                let lang = cl.open.get(&u).map(|x| x.0).unwrap_or(Lang::P);
                let t = fresh_text(r, next_tid, lang);
                let v = vers.change(r, u, well_formed);
                return Op::Change(u, t, v);
            }
            48..=59 => {
                let Some(u) = pick_open(r) else { continue };
                return Op::Save(u);
            }
            60..=67 => {
                let Some(u) = pick_open(r) else { continue };
                return Op::Close(u);
            }
            68..=70 => return if r.chance(1, 2) { Op::DelFile(0, r.below(2)) } else { Op::DelDir(r.below(2)) },
            71..=78 => {
                let Some(u) = pick_open(r) else { continue };
                return Op::AddUser(r.below(2), u);
            }
            79..=85 => {
                let Some(u) = pick_open(r) else { continue };
                return Op::AddFile(2 + r.below(2), u);
            }
            86..=90 => {
                let Some(u) = pick_open(r) else { continue };
                return Op::Ignore(u, r.below(2));
            }
            91..=92 => return Op::Record,
            _ => return Op::Cfg(1 - cl.ccfg.min(1)),
        }
    }
}

/// client-side bookkeeping only (no file system): used while generating histories
fn ghost_effect(op: &Op, cl: &mut Client) {
    match op {
        Op::Open(u, l, t, _) => {
            cl.open.insert(*u, (*l, *t, BTreeSet::new()));
        }
        Op::Change(u, t, _) => {
            if let Some(e) = cl.open.get_mut(u) {
                e.1 = *t;
            }
        }
        Op::Save(u) => {
            if let Some(e) = cl.open.get(u) {
                if u.is_file() {
                    let t = e.1;
                    cl.disk.insert(*u, t);
                }
            }
        }
        Op::Close(u) => {
            cl.open.remove(u);
        }
        Op::DelFile(d, n) => {
            cl.open.remove(&Url::File(*d, *n));
            cl.disk.remove(&Url::File(*d, *n));
        }
        Op::DelDir(d) => {
            cl.open.retain(|u, _| !matches!(u, Url::File(d2, _) if d2 == d));
            cl.disk.retain(|u, _| !matches!(u, Url::File(d2, _) if d2 == d));
        }
        Op::Cfg(c) => cl.ccfg = *c,
        _ => {}
    }
}

fn random_history(r: &mut Rng, len: usize, well_formed: bool) -> Case {
    let mut c = Case { cfg0: r.below(2), disk: vec![], udict: vec![], fdict: vec![], ops: vec![], sched: vec![], origin: String::new() };
    if r.chance(1, 2) {
        c.disk.push((Url::File(0, 0), Text { tid: 5, ident: 0 }));
    }
    if r.chance(1, 4) {
        c.udict.push(r.below(2));
    }
    if r.chance(1, 6) {
        c.fdict.push((Url::File(0, r.below(2)), 2 + r.below(2)));
    }
    let mut cl = Client { ccfg: c.cfg0, ..Default::default() };
    for (u, t) in &c.disk {
        cl.disk.insert(*u, *t);
    }
    let mut next_tid = r.below(6);
    // every document keeps one language throughout a case (the language the server parses with is not
    // observable; it can only differ from the client's after a didOpen of a document the server still holds)
    let langs: BTreeMap<Url, Lang> = URLS.iter().map(|u| (*u, *r.pick(&[Lang::P, Lang::P, Lang::M, Lang::M, Lang::C, Lang::X]))).collect();
    let mut vers = Versions::default();
    for _ in 0..len {
        let op = random_op(r, &cl, &mut next_tid, well_formed, &langs, &mut vers);
        ghost_effect(&op, &mut cl);
        c.ops.push(op);
    }
    c
}

/// A batch history (Model/C09Batch.v): didOpen/didChange/didSave/didClose only, every document opened at most once;
/// a document that is saved is closed before the end (so that every document is inside the class of the exact
/// theorems); the texts of one document are all different; versions increase.
fn batch_history(r: &mut Rng, len: usize) -> Case {
    let mut c = Case { cfg0: r.below(2), disk: vec![], udict: vec![], fdict: vec![], ops: vec![], sched: vec![], origin: "batch".into() };
    if r.chance(1, 3) {
        c.disk.push((Url::File(0, 0), Text { tid: 7, ident: 0 }));
    }
    if r.chance(1, 5) {
        c.udict.push(r.below(2));
    }
    #[derive(Clone, Copy, PartialEq)]
    enum St {
        Fresh,
        Open { saved: bool },
        Closed,
    }
    let docs: Vec<Url> = URLS.iter().cloned().take(2 + r.below(URLS.len() - 1)).collect();
    let langs: Vec<Lang> = docs.iter().map(|_| *r.pick(&[Lang::P, Lang::P, Lang::M, Lang::C, Lang::C, Lang::X])).collect();
    let mut st = vec![St::Fresh; docs.len()];
    let mut tid = vec![0usize; docs.len()];
    let mut ver = vec![0usize; docs.len()];
    let mut guard = 0;
    while c.ops.len() < len && guard < 100 {
        guard += 1;
        // favour one document so that several of its handlers are in flight together
        let i = if r.chance(3, 5) { 0 } else { r.below(docs.len()) };
        let (u, lang) = (docs[i], langs[i]);
        let many = tid[i] >= 7;
        let mut text = |r: &mut Rng| {
            let t = Text { tid: tid[i], ident: if lang == Lang::C { r.below(3) } else { 0 } };
            tid[i] += 1;
            t
        };
        match st[i] {
            St::Fresh => {
                ver[i] = 1 + r.below(3);
                let t = text(r);
                c.ops.push(Op::Open(u, lang, t, ver[i]));
                st[i] = St::Open { saved: false };
            }
            St::Open { saved } => match r.below(10) {
                0..=5 if !many => {
                    ver[i] += 1 + r.below(2);
                    let t = text(r);
                    c.ops.push(Op::Change(u, t, ver[i]));
                }
                6..=7 => {
                    c.ops.push(Op::Save(u));
                    st[i] = St::Open { saved: true };
                }
                _ => {
                    let _ = saved;
                    c.ops.push(Op::Close(u));
                    st[i] = St::Closed;
                }
            },
            St::Closed => {}
        }
    }
    for i in 0..docs.len() {
        if st[i] == (St::Open { saved: true }) {
            c.ops.push(Op::Close(docs[i]));
        }
    }
    c
}

/// A race history (Model/C09Race.v): one or two plain-text / markdown documents are opened, then didChange messages of
/// the first and add-word commands / configuration changes follow in a random order; the schedule keeps up to four
/// of them in flight.  Returns the case and the number of messages that are handled one at a time first.
fn race_history(r: &mut Rng) -> (Case, usize) {
    let mut c = Case { cfg0: r.below(2), disk: vec![], udict: vec![], fdict: vec![], ops: vec![], sched: vec![], origin: "batch-race".into() };
    let u0 = *r.pick(&[Url::File(0, 0), Url::File(0, 0), Url::Untitled(0)]);
    let u1 = Url::File(0, 1);
    if u0.is_file() && r.chance(2, 3) {
        c.disk.push((u0, Text { tid: 7, ident: 0 }));
    }
    if r.chance(1, 4) {
        c.udict.push(r.below(2));
    }
    let mut ver = 1 + r.below(2);
    let mut tid = 0;
    c.ops.push(Op::Open(u0, *r.pick(&[Lang::P, Lang::M]), Text { tid, ident: 0 }, ver));
    let two = r.chance(1, 2);
    if two {
        c.ops.push(Op::Open(u1, *r.pick(&[Lang::P, Lang::M]), Text { tid: 20, ident: 0 }, 1));
    }
    // the didOpens are handled first (mostly): the race is between the messages that follow
    let pre = if r.chance(4, 5) { c.ops.len() } else { 0 };
    let n = r.range(2, 4);
    let mut have_cmd = false;
    let mut have_cfg = false;
    for k in 0..n {
        let last = k + 1 == n;
        if (last && !have_cmd) || r.chance(1, 2) {
            have_cmd = true;
            let target = if two && r.chance(1, 3) { u1 } else { u0 };
            // at most one configuration change per race (the cause attribution of the search oracle knows "sent later,
            // finished earlier"; two overlapping configuration changes of which the later one STARTS first is a case it
            // cannot name - see notes/C09.md, Next)
            let k = if have_cfg { r.below(2) } else { r.below(3) };
            c.ops.push(match k {
                0 => Op::AddUser(r.below(2), target),
                1 => Op::AddFile(2 + r.below(2), target),
                _ => {
                    have_cfg = true;
                    Op::Cfg(r.below(2))
                }
            });
        } else {
            ver += 1 + r.below(2);
            tid += 1;
            c.ops.push(Op::Change(u0, Text { tid, ident: 0 }, ver));
        }
    }
    (c, pre)
}

/// number of client-interaction steps each handler takes is discovered by running: a random schedule
/// is built by running leniently (steps naming finished handlers are skipped) and keeping what was
/// really executed.
fn random_schedule_plan(r: &mut Rng, n_ops: usize, window: usize) -> Vec<K> {
    let mut plan = vec![];
    let mut admitted = 0;
    let mut budget: Vec<usize> = vec![];
    loop {
        let live: Vec<usize> = (0..admitted).filter(|i| budget[*i] > 0).collect();
        let can_admit = admitted < n_ops && live.len() < window;
        if !can_admit && live.is_empty() {
            break;
        }
        if can_admit && (live.is_empty() || r.chance(2, 5)) {
            plan.push(K::Admit);
            budget.push(8);
            admitted += 1;
        } else {
            let i = *r.pick(&live);
            budget[i] -= 1;
            plan.push(K::Run(i));
        }
    }
    plan
}

// ------------------------------------------------------------------------------------------------
// work items, executed by a small pool of threads (each with its own runtime, server sessions and
// scratch directory); results are merged in the main thread
// ------------------------------------------------------------------------------------------------
enum Work {
    /// execute the schedule exactly as written (corpus, replays, deliberately inexecutable schedules)
    Exact(Case),
    /// execute a plan leniently (steps naming finished handlers are skipped); the schedule really
    /// executed becomes the case
    Planned(Case, Vec<K>),
    /// every interleaving, at client-interaction granularity, of the handlers of `batch` (all in flight
    /// together) after `prefix` was handled sequentially
    Exhaustive { base: Case, prefix: Vec<Op>, batch: Vec<Op> },
    /// add-word commands started together, polled one poll at a time (search oracle of C09_add_word_not_lost)
    Race(Race),
}

fn sequential_plan(n: usize) -> Vec<K> {
    let mut plan = vec![];
    for i in 0..n {
        plan.push(K::Admit);
        for _ in 0..8 {
            plan.push(K::Run(i));
        }
    }
    plan
}

fn run_planned(rep: &mut Report, ctx: &mut Ctx, mut c: Case, plan: Vec<K>) {
    c.sched = plan;
    let mut executed = vec![];
    let o = execute(&ctx.w, &c, true, &mut executed);
    c.sched = executed;
    emit(rep, ctx, &c, &o);
}

/// upper bound on the number of client-interaction steps of a handler (surplus steps are skipped)
fn step_bound(op: &Op) -> usize {
    match op {
        Op::Cfg(_) => 3,
        Op::Close(_) | Op::Ignore(..) | Op::DelFile(..) | Op::DelDir(_) | Op::Record => 1,
        _ => 2,
    }
}

/// all sequences of A / Run(i): admissions in order, every Run(i) after the i-th admission, handler i
/// run at most bound[i] times
fn all_plans(bounds: &[usize]) -> Vec<Vec<K>> {
    fn go(bounds: &[usize], admitted: usize, left: &mut Vec<usize>, cur: &mut Vec<K>, out: &mut Vec<Vec<K>>) {
        if admitted == bounds.len() && left.iter().all(|x| *x == 0) {
            out.push(cur.clone());
            return;
        }
        if admitted < bounds.len() {
            cur.push(K::Admit);
            left.push(bounds[admitted]);
            go(bounds, admitted + 1, left, cur, out);
            left.pop();
            cur.pop();
        }
        for i in 0..admitted {
            if left[i] > 0 {
                left[i] -= 1;
                cur.push(K::Run(i));
                go(bounds, admitted, left, cur, out);
                cur.pop();
                left[i] += 1;
            }
        }
    }
    let mut out = vec![];
    go(bounds, 0, &mut vec![], &mut vec![], &mut out);
    out
}

fn exhaustive(rep: &mut Report, ctx: &mut Ctx, base: &Case, prefix: &[Op], batch: &[Op]) -> u64 {
    let mut c = base.clone();
    c.ops = prefix.iter().cloned().chain(batch.iter().cloned()).collect();
    // versions in the order the messages are sent
    renumber(&mut c.ops);
    let p = prefix.len();
    let bounds: Vec<usize> = batch.iter().map(step_bound).collect();
    let mut seen: std::collections::HashSet<String> = Default::default();
    let mut count = 0;
    for plan in all_plans(&bounds) {
        let mut sched = sequential_plan(p);
        sched.extend(plan.iter().map(|k| match k { K::Admit => K::Admit, K::Run(i) => K::Run(p + i) }));
        // whatever is still unfinished (a handler that needed more steps than its bound) is completed in order
        for i in 0..batch.len() {
            for _ in 0..4 {
                sched.push(K::Run(p + i));
            }
        }
        let mut cc = c.clone();
        cc.sched = sched;
        let mut executed = vec![];
        let o = execute(&ctx.w, &cc, true, &mut executed);
        cc.sched = executed;
        if seen.insert(cc.sched_tok()) {
            count += 1;
            emit(rep, ctx, &cc, &o);
        }
    }
    count
}

fn do_work(rep: &mut Report, ctx: &mut Ctx, w: Work) {
    match w {
        Work::Exact(c) => run_case(rep, ctx, &c),
        Work::Planned(c, plan) => run_planned(rep, ctx, c, plan),
        Work::Race(race) => addword_race(rep, &ctx.w, &race),
        Work::Exhaustive { base, prefix, batch } => {
            let n = exhaustive(rep, ctx, &base, &prefix, &batch);
            rep.count_n(&format!("exhaustive-schedules:{}-in-flight", batch.len()), n);
            rep.count("exhaustive-batches");
            if base.is_batch() {
                rep.count("exhaustive-batches:sessions");
            }
        }
    }
}

struct Part {
    rep: Report,
    lines: Vec<(String, String)>,
    hits: u64,
    misses: u64,
}

fn run_pool(out: &str, works: Vec<Work>, threads: usize) -> Vec<Part> {
    let queue = std::sync::Arc::new(std::sync::Mutex::new(works.into_iter().rev().collect::<Vec<Work>>()));
    let mut handles = vec![];
    for k in 0..threads {
        let queue = queue.clone();
        let out = out.to_string();
        handles.push(std::thread::spawn(move || {
            let rt = runtime();
            let _g = rt.enter();
            let base = format!("/tmp/w-c09-{}-{k}", std::process::id());
            let mut ctx = Ctx { w: World { base: base.clone() }, cache: RefCache::default(), lines: vec![] };
            let mut rep = Report::new(&format!("{out}/part{k}"));
            loop {
                let w = queue.lock().unwrap().pop();
                match w {
                    Some(w) => do_work(&mut rep, &mut ctx, w),
                    None => break,
                }
            }
            let _ = std::fs::remove_dir_all(&base);
            Part { rep, lines: std::mem::take(&mut ctx.lines), hits: ctx.cache.hits, misses: ctx.cache.misses }
        }));
    }
    handles.into_iter().map(|h| h.join().expect("worker thread panicked")).collect()
}

fn thorough_works() -> Vec<Work> {
    let a = Url::File(0, 0);
    let b = Url::File(0, 1);
    let un = Url::Untitled(0);
    let t = |n: usize| Text { tid: n, ident: 0 };
    // prefixes: (name, initial disk, messages handled one at a time)
    let prefixes: Vec<(&str, Vec<(Url, Text)>, Vec<Op>)> = vec![
        ("clean-file+second", vec![], vec![Op::Open(a, Lang::M, t(0), 0), Op::Save(a), Op::Open(b, Lang::P, t(1), 0), Op::Save(b)]),
        ("dirty-file", vec![(a, t(5))], vec![Op::Open(a, Lang::P, t(0), 0)]),
        ("untitled+file", vec![], vec![Op::Open(un, Lang::M, t(0), 0), Op::Open(a, Lang::P, t(1), 0), Op::Save(a)]),
        ("code", vec![], vec![Op::Open(a, Lang::C, Text { tid: 0, ident: 1 }, 0), Op::Save(a)]),
    ];
    let mut works = vec![];
    for (pi, (name, disk, prefix)) in prefixes.iter().enumerate() {
        let first = match &prefix[0] {
            Op::Open(u, l, ..) => (*u, *l),
            _ => unreachable!(),
        };
        let ident = if first.1 == Lang::C { 1 } else { 0 };
        let alphabet: Vec<Op> = vec![
            Op::Change(first.0, Text { tid: 2, ident }, 0),
            Op::Change(first.0, Text { tid: 3, ident }, 0),
            Op::Close(first.0),
            Op::AddUser(0, first.0),
            Op::Save(first.0),
            Op::Cfg(1),
            Op::AddFile(2, first.0),
            Op::Ignore(first.0, 0),
            Op::Change(a, Text { tid: 4, ident: 0 }, 0),
            Op::DelFile(0, 0),
        ];
        let base = Case { cfg0: 0, disk: disk.clone(), udict: vec![], fdict: vec![], ops: vec![], sched: vec![], origin: format!("exhaustive:{name}") };
        // all ordered pairs of messages, both handlers in flight
        for x in &alphabet {
            for y in &alphabet {
                works.push(Work::Exhaustive { base: base.clone(), prefix: prefix.clone(), batch: vec![x.clone(), y.clone()] });
            }
        }
        // all ordered triples over the first few messages, three handlers in flight
        let small = if pi == 0 { 4 } else { 3 };
        for x in &alphabet[..small] {
            for y in &alphabet[..small] {
                for z in &alphabet[..small] {
                    works.push(Work::Exhaustive { base: base.clone(), prefix: prefix.clone(), batch: vec![x.clone(), y.clone(), z.clone()] });
                }
            }
        }
    }
    // sessions that START in the batch (the documents are closed at the start, nothing is handled before): ALL
    // interleavings of every ordered pair / triple (without repetition) of the messages of one session, all
    // handlers in flight together - the class of C09_batch_closed_exact / C09_batch_open_exact
    for (name, lang, ids, n3) in [("plain", Lang::P, [0usize, 0, 0], 5usize), ("code", Lang::C, [1, 1, 2], 4)] {
        let alphabet: Vec<Op> = vec![
            Op::Open(a, lang, Text { tid: 0, ident: ids[0] }, 0),
            Op::Change(a, Text { tid: 1, ident: ids[1] }, 0),
            Op::Change(a, Text { tid: 2, ident: ids[2] }, 0),
            Op::Close(a),
            Op::Save(a),
        ];
        let base = Case { cfg0: 0, disk: vec![], udict: vec![], fdict: vec![], ops: vec![], sched: vec![], origin: format!("batch-exhaustive:{name}") };
        for (i, x) in alphabet.iter().enumerate() {
            for (j, y) in alphabet.iter().enumerate() {
                if i == j {
                    continue;
                }
                works.push(Work::Exhaustive { base: base.clone(), prefix: vec![], batch: vec![x.clone(), y.clone()] });
                for (k, z) in alphabet.iter().enumerate() {
                    if k == i || k == j || i >= n3 || j >= n3 || k >= n3 {
                        continue;
                    }
                    works.push(Work::Exhaustive { base: base.clone(), prefix: vec![], batch: vec![x.clone(), y.clone(), z.clone()] });
                }
            }
        }
    }
    works
}


// ------------------------------------------------------------------------------------------------
// add-word races (search oracle for C09_add_word_not_lost on the real Backend)
// ------------------------------------------------------------------------------------------------
/// One race: (user dictionary? , word id, url) of each add-word command started together.
#[derive(Clone, Debug)]
struct Race {
    cmds: Vec<(bool, usize, Url)>,
    udict: Vec<usize>,
    seed: u64,
    repeats: usize,
}
impl Race {
    fn to_json(&self) -> Value {
        json!({"race": {
            "cmds": self.cmds.iter().map(|(user, x, u)| json!([if *user { "AU" } else { "AF" }, x, u.tok()])).collect::<Vec<_>>(),
            "udict": self.udict, "seed": self.seed, "repeats": self.repeats }})
    }
    fn from_json(v: &Value) -> Option<Race> {
        let r = v.get("race")?;
        let mut cmds = vec![];
        for c in r["cmds"].as_array()? {
            cmds.push((c[0].as_str()? == "AU", c[1].as_u64()? as usize, Url::parse(c[2].as_str()?)?));
        }
        Some(Race {
            cmds,
            udict: r["udict"].as_array().map(|a| a.iter().filter_map(|x| x.as_u64().map(|n| n as usize)).collect()).unwrap_or_default(),
            seed: r["seed"].as_u64().unwrap_or(0),
            repeats: r["repeats"].as_u64().unwrap_or(20) as usize,
        })
    }
}

/// everything queued on the client socket: configuration requests are answered at once, the rest is dropped
fn drain_answering(s: &mut Session) {
    use lsx::futures::Stream;
    let wk = lsx::futures::task::noop_waker();
    let mut cx = std::task::Context::from_waker(&wk);
    while let std::task::Poll::Ready(Some(req)) = std::pin::Pin::new(&mut s.socket).poll_next(&mut cx) {
        if req.method() == "workspace/configuration" {
            if let Some(lsx::tower_lsp::jsonrpc::Id::Number(n)) = req.id().cloned() {
                s.answer(n);
            }
        }
    }
}

/// The add-word commands of `race` are started together on a fresh server and their futures are polled ONE POLL AT
/// A TIME in an order drawn from the seed (bursts of 1-3 polls of one handler, pauses in between), so that their
/// tokio::fs operations overlap the way tower-lsp overlaps handlers in flight.  When all have completed, every
/// word must be in its dictionary file and no word that was there may be gone (C09_add_word_not_lost; before
/// cfbe845 two commands could both load before either saved).  Repeated `repeats` times with derived seeds: the
/// completion times of the blocking pool are not under the harness's control.
fn addword_race(rep: &mut Report, w: &World, race: &Race) {
    use std::task::Poll;
    rep.eval();
    rep.count(&format!("race:{}-commands", race.cmds.len()));
    for rpt in 0..race.repeats.max(1) {
        let mut r = Rng::new(race.seed.wrapping_mul(1_000_003).wrapping_add(rpt as u64));
        let c0 = Case { cfg0: 0, disk: vec![], udict: race.udict.clone(), fdict: vec![], ops: vec![], sched: vec![], origin: "race".into() };
        w.reset(&c0);
        let mut s = Session::new(settings_of(&w.base, 0));
        let mut futs: Vec<Option<HandlerFut>> = race
            .cmds
            .iter()
            .map(|(user, x, u)| {
                let cmd = if *user { "HarperAddToUserDict" } else { "HarperAddToFileDict" };
                Some(s.start("workspace/executeCommand", json!({"command": cmd, "arguments": [word_str(*x), w.uri(*u)]}), true))
            })
            .collect();
        let wk = lsx::futures::task::noop_waker();
        let mut cx = std::task::Context::from_waker(&wk);
        let t0 = std::time::Instant::now();
        let mut left = futs.len();
        let mut polls = 0u64;
        let mut stuck = false;
        while left > 0 {
            let live: Vec<usize> = (0..futs.len()).filter(|i| futs[*i].is_some()).collect();
            let i = live[r.below(live.len())];
            for _ in 0..1 + r.below(3) {
                if let Some(f) = futs[i].as_mut() {
                    polls += 1;
                    if matches!(f.as_mut().poll(&mut cx), Poll::Ready(_)) {
                        futs[i] = None;
                        left -= 1;
                    }
                }
                drain_answering(&mut s);
            }
            if r.chance(1, 3) {
                std::thread::sleep(std::time::Duration::from_micros(r.range(10, 300) as u64));
            } else {
                std::thread::yield_now();
            }
            if t0.elapsed() > std::time::Duration::from_secs(60) {
                stuck = true;
                break;
            }
        }
        rep.monitor("race_polls", polls);
        if stuck {
            rep.fail("stuck", "add-word commands in flight together did not complete within 60 s (dict_write_lock never released?)".into(), race.to_json());
            return;
        }
        let user_now = World::read_words(&format!("{}/cfg/user.txt", w.base));
        let mut lost: Vec<String> = vec![];
        for x in &race.udict {
            if !user_now.contains(x) {
                lost.push(format!("user-dictionary word {x} that was in the file before is gone"));
            }
        }
        for (user, x, u) in &race.cmds {
            if *user {
                if !user_now.contains(x) {
                    lost.push(format!("HarperAddToUserDict {x}: the word is not in the user dictionary file ({:?})", user_now));
                }
            } else if let Some(p) = w.fdict_path(*u) {
                let now = World::read_words(&p);
                if !now.contains(x) {
                    lost.push(format!("HarperAddToFileDict {x} {}: the word is not in the file dictionary ({:?})", u.tok(), now));
                }
            }
        }
        if !lost.is_empty() {
            rep.count("race:lost-word");
            rep.fail("lost-word", format!("add-word commands handled concurrently (repeat {rpt}): {}", lost.join("; ")), race.to_json());
            return;
        }
    }
    rep.count("race:all-words-arrived");
}

fn random_race(r: &mut Rng, repeats: usize) -> Race {
    let n = 2 + r.below(3);
    let f = Url::File(0, r.below(2));
    let mut cmds = vec![];
    for i in 0..n {
        // mostly one dictionary (that is where updates can be lost), sometimes both kinds mixed
        let user = if r.chance(1, 4) { r.chance(1, 2) } else { i % 2 == 0 || r.chance(1, 2) };
        cmds.push((user, 4 + r.below(8), if user { *r.pick(&URLS) } else { f }));
    }
    let udict = if r.chance(1, 2) { vec![r.below(2)] } else { vec![] };
    Race { cmds, udict, seed: r.below(1 << 30) as u64, repeats }
}

fn main() {
    let (args, corpus) = hv::cli();
    let mut rep = Report::new(&args.out);
    rep.rule = "histories of didOpen/didChange/didSave/didClose/didChangeWatchedFiles/executeCommand/didChangeConfiguration over 4 documents (3 files in 2 directories, 1 untitled) in 4 languages (plaintext, markdown, python, unknown), 2 settings objects, user- and file-dictionary words; schedules at client-interaction granularity executed on the real Backend: corpus (the model's refuting schedules), sequential histories, random interleavings with <= 4 handlers in flight, bursts of 4 messages handled together, batches of didOpen/didChange/didSave/didClose with the didOpen in flight (run on the instruction-level model, shape verdicts compared with the real server), races of add-word commands / one configuration change with didChange of a plain-text or markdown document, up to 4 in flight (instruction-level model, verdict of race_overtaken on the trace of reads / writes / critical sections compared with the real server), a malformed stream (messages for closed documents, double opens, inexecutable schedules); 2-4 add-word commands started together and polled one poll at a time in a random order (every word must arrive in its dictionary file); thorough adds ALL interleavings of every ordered pair / triple of the 5 messages of a session started in the batch (plain and source file), and ALL interleavings of every ordered pair of 10 messages (2 in flight) and of every ordered triple of 3-4 messages (3 in flight) after 4 prefixes (saved file + second document, dirty file, untitled + file, source code). non-trivial = distinct case with >= 2 messages and >= 1 publication".into();
    let base = format!("/tmp/w-c09-{}", std::process::id());
    let rt = runtime();
    let _g = rt.enter();
    let mut ctx = Ctx { w: World { base: base.clone() }, cache: RefCache::default(), lines: vec![] };
    self_test(&mut rep, &mut ctx);
    let _ = std::fs::remove_dir_all(&base);
    let mut works: Vec<Work> = vec![];
    for v in &corpus {
        if v.get("race").is_some() {
            match Race::from_json(v) {
                Some(race) => works.push(Work::Race(race)),
                None => rep.fail("bad-input", "race input does not parse".into(), v.clone()),
            }
            continue;
        }
        // a correspondence replay file carries the diverging case lines
        if let Some(line) = v.get("smallest_diverging_case").and_then(|x| x.get("case")).and_then(|x| x.as_str()) {
            let mut lines = vec![line.to_string()];
            for m in v.get("more").and_then(|x| x.as_array()).map(|a| a.as_slice()).unwrap_or(&[]) {
                if let Some(l) = m.get("case").and_then(|x| x.as_str()) {
                    lines.push(l.to_string());
                }
            }
            for l in lines {
                match Case::from_case_line(&l) {
                    Some(c) => works.push(Work::Exact(c)),
                    None => rep.fail("bad-input", "case line of the replay file does not parse".into(), json!({"case": l})),
                }
            }
            continue;
        }
        match Case::from_json(v) {
            Some(mut c) => {
                if c.origin.is_empty() {
                    c.origin = "corpus".into();
                }
                if v.get("sched").and_then(|s| s.as_str()).is_some() {
                    works.push(Work::Exact(c));
                } else {
                    let plan = sequential_plan(c.ops.len());
                    works.push(Work::Planned(c, plan));
                }
            }
            None => rep.fail("bad-input", "replay/corpus input does not parse".into(), v.clone()),
        }
    }
    if args.replay.is_none() {
        let mut r = Rng::new(args.seed);
        // add-word commands racing for a dictionary file (dict_write_lock)
        for _ in 0..args.scale(24, 300) {
            works.push(Work::Race(random_race(&mut r, 3)));
        }
        // sequential histories
        for _ in 0..args.scale(120, 500) {
            let len = r.range(2, 9);
            let mut c = random_history(&mut r, len, true);
            c.origin = "sequential".into();
            let plan = sequential_plan(c.ops.len());
            works.push(Work::Planned(c, plan));
        }
        // random interleavings
        for _ in 0..args.scale(260, 1500) {
            let len = r.range(2, 8);
            let mut c = random_history(&mut r, len, true);
            c.origin = "interleaved".into();
            let window = r.range(2, 4);
            let plan = random_schedule_plan(&mut r, c.ops.len(), window);
            works.push(Work::Planned(c, plan));
        }
        // bursts: the last four messages are sent back-to-back and all four handlers are in flight together
        for _ in 0..args.scale(50, 400) {
            let len = r.range(4, 7);
            let mut c = random_history(&mut r, len, true);
            c.origin = "burst-of-4".into();
            let pre = len - 4;
            let mut plan = sequential_plan(pre);
            plan.extend([K::Admit, K::Admit, K::Admit, K::Admit]);
            let mut runs: Vec<usize> = (pre..len).flat_map(|i| [i, i, i, i]).collect();
            while !runs.is_empty() {
                let i = r.below(runs.len());
                plan.push(K::Run(runs.swap_remove(i)));
            }
            works.push(Work::Planned(c, plan));
        }
        // batches of didOpen/didChange/didSave/didClose (Model/C09Batch.v): the handlers of up to four messages in flight,
        // the didOpen included; the driver adds the verdict of the shapes of C09_batch_closed_exact / _open_exact
        for _ in 0..args.scale(110, 600) {
            let len = r.range(2, 8);
            let c = batch_history(&mut r, len);
            let window = r.range(2, 4);
            let plan = random_schedule_plan(&mut r, c.ops.len(), window);
            works.push(Work::Planned(c, plan));
        }
        // races (Model/C09Race.v): add-word commands / configuration changes in flight with didChange; the driver adds the
        // verdict of the shape race_overtaken of C09_cmd_race_exact_partial on the trace of reads, writes and critical sections
        for _ in 0..args.scale(60, 400) {
            let (c, pre) = race_history(&mut r);
            let mut plan = sequential_plan(pre);
            let rest = random_schedule_plan(&mut r, c.ops.len() - pre, 4);
            plan.extend(rest.into_iter().map(|k| match k { K::Run(i) => K::Run(i + pre), k => k }));
            works.push(Work::Planned(c, plan));
        }
        // malformed stream
        for _ in 0..args.scale(60, 300) {
            let len = r.range(2, 7);
            let mut c = random_history(&mut r, len, false);
            c.origin = "malformed".into();
            let plan = random_schedule_plan(&mut r, c.ops.len(), 4);
            if r.chance(1, 5) {
                // a schedule that is not executable as written
                c.sched = plan;
                let i = r.below(c.sched.len() + 1);
                c.sched.insert(i, K::Run(r.below(c.ops.len() + 2)));
                works.push(Work::Exact(c));
            } else {
                works.push(Work::Planned(c, plan));
            }
        }
        if args.thorough() {
            works.extend(thorough_works());
        }
    }
    let threads: usize = std::env::var("C09_THREADS").ok().and_then(|s| s.parse().ok()).unwrap_or(if args.thorough() { 8 } else { 4 }).max(1);
    let parts = run_pool(&args.out, works, threads);
    let (mut hits, mut misses) = (0, 0);
    for p in parts {
        for (a, b) in &p.lines {
            rep.case(a, b);
        }
        rep.evaluations += p.rep.evaluations;
        rep.nontrivial.extend(p.rep.nontrivial.iter().cloned());
        for s in p.rep.samples {
            rep.sample(s);
        }
        rep.failures.extend(p.rep.failures.iter().cloned());
        for (k, v) in &p.rep.dist {
            *rep.dist.entry(k.clone()).or_insert(0) += v;
        }
        for (k, v) in &p.rep.monitors {
            *rep.monitors.entry(k.clone()).or_insert(0) += v;
        }
        hits += p.hits;
        misses += p.misses;
    }
    rep.extra.insert("reference_cache".into(), json!({"hits": hits, "misses": misses}));
    rep.extra.insert("worker_threads".into(), json!(threads));
    // bounded exhaustive support for the model (thorough tier): every interleaving, at client-interaction
    // granularity, of 2 / 3 handlers in flight together; batch cases are run by the driver on the instruction-level
    // dispatcher (`run` on `kexpand` of the schedule)
    let ex = |k: &str| rep.dist.get(k).cloned().unwrap_or(0);
    rep.extra.insert(
        "exhaustive_schedules".into(),
        json!({
            "2_in_flight": ex("exhaustive-schedules:2-in-flight"),
            "3_in_flight": ex("exhaustive-schedules:3-in-flight"),
            "batches_enumerated": ex("exhaustive-batches"),
            "of_which_sessions_started_in_the_batch": ex("exhaustive-batches:sessions"),
            "batch_urls_in_class_right": ex("batch-url:in-class-right"),
            "batch_urls_in_class_wrong": ex("batch-url:in-class-wrong(overtaken)"),
            "batch_urls_outside_class": ex("batch-url:outside-class"),
            "race_urls_in_class_right": ex("race-url:in-class-right"),
            "race_urls_in_class_wrong": ex("race-url:in-class-wrong(overtaken)"),
            "race_urls_outside_class": ex("race-url:outside-class"),
        }),
    );
    rep.finish();
}

/// the decoding really identifies what it claims to: on a fresh server, every probe toggles exactly when
/// its cause is toggled (monitor `probe_design`)
fn self_test(rep: &mut Report, ctx: &mut Ctx) {
    let c0 = Case { cfg0: 0, disk: vec![], udict: vec![], fdict: vec![], ops: vec![], sched: vec![], origin: "self-test".into() };
    let u = Url::File(0, 0);
    let mut bad = 0;
    for lang in [Lang::P, Lang::M, Lang::C] {
        for (tid, ident) in [(0usize, 0usize), (3, 1), (5, 2)] {
            let ident = if lang == Lang::C { ident } else { 0 };
            let text = Text { tid, ident };
            for ccfg in 0..2usize {
                for words in 0..4usize {
                    let user: BTreeSet<usize> = (0..2).filter(|w| words >> w & 1 == 1).collect();
                    let file: BTreeSet<usize> = (0..2).filter(|w| words >> w & 1 == 0).map(|w| w + 2).collect();
                    let ign: BTreeSet<usize> = if words == 1 { [0].into() } else if words == 2 { [0, 1].into() } else { BTreeSet::new() };
                    let mut c = c0.clone();
                    c.udict = user.iter().cloned().collect();
                    c.fdict = file.iter().map(|w| (u, *w)).collect();
                    ctx.w.reset(&c);
                    let got = reference(&ctx.w, &mut ctx.cache, u, lang, text, &ign, ccfg, &user, &file);
                    let d = decode(&got, &[(text, lang), (Text { tid: tid + 1, ident }, lang), (text, if lang == Lang::P { Lang::M } else { Lang::P })]);
                    let want = Tuple { text, lang, user: user.clone(), file: file.clone(), ident, lcfg: ccfg, pcfg: if lang == Lang::P { None } else { Some(ccfg) }, scfg: ccfg, ign: ign.clone() };
                    rep.monitor("probe_design_checked", 1);
                    if d != Dec::T(want.clone()) {
                        bad += 1;
                        if bad <= 3 {
                            rep.fail("probe-design", format!("fresh check of {} decodes as {} (diagnostics {})", want.tok(), d.tok(), got), json!({"self_test": want.tok()}));
                        }
                    }
                }
            }
        }
    }
    rep.monitor("probe_design_violations", bad);
    ctx.cache = RefCache::default();
}
